(* Parse/Parser.v — model of /repo/src/parse.rs: tokenizer, the recursive-descent parser for
   patterns (with substitution brackets), RecExpr::parse, MultiPattern::parse, and the three
   Display impls.  `legacy = true` is the pinned commit: unchecked `tok[0]` (panic on truncated
   input), `panic!()` in pattern_to_re, asserts in MultiPattern::parse, `x == ..` printed without
   '?'.  `legacy = false` is the repaired behaviour: every such site returns a ParseError.
   The slot table is threaded because `$name` tokens call Slot::named.  Definitions only. *)
From SE Require Export Lang.Sig Slots.Slot.

Inductive token :=
| KSlot (s : slot) | KIdent (t : text) | KPVar (t : text)
| KColonEq | KLParen | KRParen | KLBracket | KRBracket.

Inductive perr := PEToken | PEParse | PERest | PEFromSyntax | PEColon | PERBracket | PENotTerm | PEMulti.

Inductive pres (A : Type) := POk (a : A) | PFail (e : perr) | PPanic (s : site).
Arguments POk {A} a. Arguments PFail {A} e. Arguments PPanic {A} s.

Definition pbind {A B} (r : pres A) (f : A -> pres B) : pres B :=
  match r with POk a => f a | PFail e => PFail e | PPanic s => PPanic s end.

(* char::is_whitespace = Unicode White_Space *)
Definition is_ws (c : N) : bool :=
  ((9 <=? c) && (c <=? 13)) || (c =? 32) || (c =? 133) || (c =? 160) || (c =? 5760)
  || ((8192 <=? c) && (c <=? 8202)) || (c =? 8232) || (c =? 8233) || (c =? 8239) || (c =? 8287) || (c =? 12288).

Definition ident_char (c : N) : bool :=
  negb (is_ws c) && negb ((c =? 40) || (c =? 41) || (c =? 91) || (c =? 93)).

Fixpoint crop (s : text) : text * text :=
  match s with
  | [] => ([], [])
  | c :: t => if ident_char c then let '(a, b) := crop t in (c :: a, b) else ([], s)
  end.

(* tokenize; fuel = length of the text + 1 always suffices (every step consumes a character) *)
Fixpoint tokenize (legacy debug : bool) (fuel : nat) (st : table) (s : text) : pres (list token * table) :=
  match fuel with
  | O => match s with [] => POk ([], st) | _ => PPanic OutOfFuel end
  | S f =>
      match s with
      | [] => POk ([], st)
      | c :: r =>
          if is_ws c then tokenize legacy debug f st r
          else if c =? 40 then pbind (tokenize legacy debug f st r) (fun '(l, st') => POk (KLParen :: l, st'))
          else if c =? 41 then pbind (tokenize legacy debug f st r) (fun '(l, st') => POk (KRParen :: l, st'))
          else if c =? 91 then pbind (tokenize legacy debug f st r) (fun '(l, st') => POk (KLBracket :: l, st'))
          else if c =? 93 then pbind (tokenize legacy debug f st r) (fun '(l, st') => POk (KRBracket :: l, st'))
          else if (c =? 58) && (match r with 61 :: _ => true | _ => false end)
               then pbind (tokenize legacy debug f st (tl r)) (fun '(l, st') => POk (KColonEq :: l, st'))
          else if c =? 63 then
            let '(op, rest) := crop r in
            match op with
            | [] => PFail PEToken
            | _ => pbind (tokenize legacy debug f st rest) (fun '(l, st') => POk (KPVar op :: l, st'))
            end
          else if c =? 36 then
            let '(op, rest) := crop r in
            match op with
            | [] => PFail PEToken
            | _ =>
                match named false debug st op with
                | Ok (sl, st1) => pbind (tokenize legacy debug f st1 rest) (fun '(l, st') => POk (KSlot sl :: l, st'))
                | Err e => PPanic e
                end
            end
          else
            let '(op, rest) := crop s in
            match op with
            | [] => PFail PEToken
            | _ => pbind (tokenize legacy debug f st rest) (fun '(l, st') => POk (KIdent op :: l, st'))
            end
      end
  end.

(* NOTE on evaluation order: Rust tokenizes left to right, so Slot::named is called for earlier
   tokens first.  The recursion above calls `named` before descending, i.e. in the same order. *)

Inductive pattern :=
| PNode (n : node) (children : list pattern)
| PVarP (v : text)
| PSubst (b x t : pattern).

Inductive nelem := NPat (p : pattern) | NSlot (s : slot) | NStr (t : text).

Definition null_appid : appid := {| aid := 0; am := [] |}.

Definition mock (e : nelem) : selem :=
  match e with NStr s => SStr s | NSlot s => SSlot s | NPat _ => SApp null_appid end.
Definition pats_of (l : list nelem) : list pattern :=
  flat_map (fun e => match e with NPat p => [p] | _ => [] end) l.

Section P.
  Variables (legacy strict : bool) (S : sig).

  (* out-of-range `tok[0]` *)
  Definition oob {A} (e : perr) : pres A := if legacy then PPanic OutOfBounds else PFail e.

  Fixpoint pp (fuel : nat) (tok : list token) {struct fuel} : pres (pattern * list token) :=
    match fuel with
    | O => PPanic OutOfFuel
    | Datatypes.S f => pbind (pp_nosubst f tok) (fun '(pat, tok') => pp_substs f pat tok')
    end
  with pp_substs (fuel : nat) (pat : pattern) (tok : list token) {struct fuel} : pres (pattern * list token) :=
    match fuel with
    | O => PPanic OutOfFuel
    | Datatypes.S f =>
        match tok with
        | KLBracket :: tok1 =>
            pbind (pp f tok1) (fun '(l, tok2) =>
              match tok2 with
              | KColonEq :: tok3 =>
                  pbind (pp f tok3) (fun '(r, tok4) =>
                    match tok4 with
                    | KRBracket :: tok5 => pp_substs f (PSubst pat l r) tok5
                    | [] => oob PERBracket
                    | _ => PFail PERBracket
                    end)
              | [] => oob PEColon
              | _ => PFail PEColon
              end)
        | _ => POk (pat, tok)
        end
    end
  with pp_nosubst (fuel : nat) (tok : list token) {struct fuel} : pres (pattern * list token) :=
    match fuel with
    | O => PPanic OutOfFuel
    | Datatypes.S f =>
        match tok with
        | [] => oob PEParse
        | KPVar p :: r => POk (PVarP p, r)
        | KLParen :: r =>
            match r with
            | [] => oob PEParse
            | KIdent op :: r2 =>
                pbind (pp_elems f r2 [NStr op]) (fun '(elems, r3) =>
                  match from_syntax strict S (map mock elems) with
                  | Some nd =>
                      (* repaired: the macro's from_syntax ignores surplus arguments, the parser now
                         requires the node to use up every element *)
                      if legacy || Nat.eqb (List.length (to_syntax S nd)) (List.length elems)
                      then POk (PNode nd (pats_of elems), r3)
                      else PFail PEFromSyntax
                  | None => PFail PEFromSyntax
                  end)
            | _ => PFail PEParse
            end
        | KIdent op :: r =>
            match from_syntax strict S [SStr op] with
            | Some nd => POk (PNode nd [], r)
            | None => PFail PEFromSyntax
            end
        | _ => PFail PEParse
        end
    end
  with pp_elems (fuel : nat) (tok : list token) (acc : list nelem) {struct fuel} : pres (list nelem * list token) :=
    match fuel with
    | O => PPanic OutOfFuel
    | Datatypes.S f =>
        match tok with
        | [] => oob PEParse
        | KRParen :: r => POk (rev acc, r)
        | KSlot s :: r => pp_elems f r (NSlot s :: acc)
        | _ => pbind (pp f tok) (fun '(p, r) => pp_elems f r (NPat p :: acc))
        end
    end.

  Definition parse_tokens (tok : list token) : pres pattern :=
    pbind (pp (4 * List.length tok + 8) tok) (fun '(p, rest) =>
      match rest with [] => POk p | _ => PFail PERest end).
End P.

Definition parse_pattern_text (legacy debug strict : bool) (S : sig) (st : table) (s : text) : pres (pattern * table) :=
  pbind (tokenize legacy debug (List.length s + 1) st s) (fun '(tok, st') =>
    pbind (parse_tokens legacy strict S tok) (fun p => POk (p, st'))).

(* pattern_to_re: `panic!()` on anything but an ENode (pinned), an error when repaired *)
Fixpoint is_term (p : pattern) : bool :=
  match p with
  | PNode _ ch => forallb is_term ch
  | _ => false
  end.

Definition parse_recexpr_text (legacy debug strict : bool) (S : sig) (st : table) (s : text) : pres (pattern * table) :=
  pbind (parse_pattern_text legacy debug strict S st s) (fun '(p, st') =>
    if is_term p then POk (p, st') else if legacy then PPanic ExplicitPanic else PFail PENotTerm).

(* ---- Display ---- *)
Definition slot_text (st : table) (s : slot) : text :=
  36 :: match name_of st s with Ok t => t | Err _ => [63; 63] end.

Definition sp : text := [32].

Fixpoint intercalate (sep : text) (l : list text) : text :=
  match l with
  | [] => []
  | [x] => x
  | x :: t => x ++ sep ++ intercalate sep t
  end.

Fixpoint print_pattern (S : sig) (st : table) (p : pattern) {struct p} : text :=
  match p with
  | PNode nd ch =>
      let l := to_syntax S nd in
      (* children consumed left to right by the AppliedId positions; a missing child is an index panic
         in Rust — well-formed values never get there, the model prints "!" *)
      let pch := (fix pmap (l : list pattern) : list text :=
                    match l with [] => [] | c :: t => print_pattern S st c :: pmap t end) ch in
      let fix go (l : list selem) (ch : list text) : list text :=
        match l with
        | [] => []
        | SApp _ :: l' => match ch with
                          | c :: ch' => c :: go l' ch'
                          | [] => [33] :: go l' []
                          end
        | SSlot s :: l' => slot_text st s :: go l' ch
        | SStr s :: l' => s :: go l' ch
        end in
      let body := intercalate sp (go l pch) in
      match l with
      | [_] => body
      | _ => 40 :: body ++ [41]
      end
  | PVarP v => 63 :: v
  | PSubst b x t => print_pattern S st b ++ [91] ++ print_pattern S st x ++ [32; 58; 61; 32] ++ print_pattern S st t ++ [93]
  end.

(* ---- MultiPattern: "?a == pat, ?b == pat, ..." ---- *)
Definition mpat := list (text * node * list text).

Fixpoint split_on (sep : text) (fuel : nat) (s : text) (cur : text) : list text :=
  match fuel with
  | O => [rev cur]
  | Datatypes.S f =>
      match s with
      | [] => [rev cur]
      | c :: r =>
          if text_eqb (firstn (List.length sep) s) sep
          then rev cur :: split_on sep f (skipn (List.length sep) s) []
          else split_on sep f r (c :: cur)
      end
  end.

Fixpoint trim_start (s : text) : text :=
  match s with c :: r => if is_ws c then trim_start r else s | [] => [] end.
Definition trim (s : text) : text := rev (trim_start (rev (trim_start s))).

Fixpoint pvars_of (l : list pattern) : option (list text) :=
  match l with
  | [] => Some []
  | PVarP v :: t => match pvars_of t with Some r => Some (v :: r) | None => None end
  | _ => None
  end.

Definition mfail {A} (legacy : bool) (s : site) : pres A := if legacy then PPanic s else PFail PEMulti.

Fixpoint parse_mp_parts (legacy debug strict : bool) (S : sig) (st : table) (parts : list text) : pres (mpat * table) :=
  match parts with
  | [] => POk ([], st)
  | x :: rest =>
      let x := trim x in
      match x with
      | [] => parse_mp_parts legacy debug strict S st rest
      | _ =>
          match split_on [61; 61] (List.length x + 1) x [] with
          | [lhs; rhs] =>
              pbind (parse_pattern_text legacy debug strict S st lhs) (fun '(var, st1) =>
              pbind (parse_pattern_text legacy debug strict S st1 rhs) (fun '(r, st2) =>
                match var with
                | PVarP v =>
                    match r with
                    | PNode nd ch =>
                        match pvars_of ch with
                        | Some vs => pbind (parse_mp_parts legacy debug strict S st2 rest)
                                       (fun '(m, st3) => POk ((v, nd, vs) :: m, st3))
                        | None => mfail legacy ExplicitPanic
                        end
                    | _ => mfail legacy ExplicitPanic
                    end
                | _ => mfail legacy ExplicitPanic
                end))
          | _ => mfail legacy AssertFailed
          end
      end
  end.

Definition parse_multipattern_text (legacy debug strict : bool) (S : sig) (st : table) (s : text) : pres (mpat * table) :=
  parse_mp_parts legacy debug strict S st (split_on [44] (List.length s + 1) s []).

Definition print_multipattern (legacy : bool) (S : sig) (st : table) (m : mpat) : text :=
  intercalate [44; 32]
    (map (fun '(pv, nd, ch) =>
            (if legacy then pv else 63 :: pv) ++ [32; 61; 61; 32] ++ print_pattern S st (PNode nd (map PVarP ch))) m).
