(* Parse/ParserFacts.v — the repaired token-level parser is total: it never produces a panic
   value, and the fuel it is run with always suffices. *)
From SE Require Import Parse.Parser.
From Coq Require Import Lia.

Section Facts.
  Variables (strict : bool) (S : sig).

  Lemma pp_eq : forall l f tok, pp l strict S (Datatypes.S f) tok =
    pbind (pp_nosubst l strict S f tok) (fun '(pat, tok') => pp_substs l strict S f pat tok').
  Proof. reflexivity. Qed.
  Lemma pp_substs_eq : forall l f pat tok, pp_substs l strict S (Datatypes.S f) pat tok =
    match tok with
    | KLBracket :: tok1 =>
        pbind (pp l strict S f tok1) (fun '(lp, tok2) =>
          match tok2 with
          | KColonEq :: tok3 =>
              pbind (pp l strict S f tok3) (fun '(r, tok4) =>
                match tok4 with
                | KRBracket :: tok5 => pp_substs l strict S f (PSubst pat lp r) tok5
                | [] => oob l PERBracket
                | _ => PFail PERBracket
                end)
          | [] => oob l PEColon
          | _ => PFail PEColon
          end)
    | _ => POk (pat, tok)
    end.
  Proof. reflexivity. Qed.
  Lemma pp_nosubst_eq : forall l f tok, pp_nosubst l strict S (Datatypes.S f) tok =
    match tok with
    | [] => oob l PEParse
    | KPVar p :: r => POk (PVarP p, r)
    | KLParen :: r =>
        match r with
        | [] => oob l PEParse
        | KIdent op :: r2 =>
            pbind (pp_elems l strict S f r2 [NStr op]) (fun '(elems, r3) =>
              match from_syntax strict S (map mock elems) with
              | Some nd =>
                  if l || Nat.eqb (List.length (to_syntax S nd)) (List.length elems)
                  then POk (PNode nd (pats_of elems), r3)
                  else PFail PEFromSyntax
              | None => PFail PEFromSyntax
              end)
        | _ => PFail PEParse
        end
    | KIdent op :: r =>
        match from_syntax strict S [SStr op] with
        | Some nd => POk (PNode nd [], r)
        | None => PFail PEFromSyntax
        end
    | _ => PFail PEParse
    end.
  Proof. reflexivity. Qed.
  Lemma pp_elems_eq : forall l f tok acc, pp_elems l strict S (Datatypes.S f) tok acc =
    match tok with
    | [] => oob l PEParse
    | KRParen :: r => POk (rev acc, r)
    | KSlot s :: r => pp_elems l strict S f r (NSlot s :: acc)
    | _ => pbind (pp l strict S f tok) (fun '(p, r) => pp_elems l strict S f r (NPat p :: acc))
    end.
  Proof. reflexivity. Qed.

  (* result is fine: not out of fuel, no panic (repaired parser), remaining tokens bounded *)
  Definition ok_lt {A} (r : pres (A * list token)) (n : nat) : Prop :=
    match r with
    | POk (_, rest) => (List.length rest < n)%nat
    | PFail _ => True
    | PPanic _ => False
    end.
  Definition ok_le {A} (r : pres (A * list token)) (n : nat) : Prop :=
    match r with
    | POk (_, rest) => (List.length rest <= n)%nat
    | PFail _ => True
    | PPanic _ => False
    end.

  Lemma ok_lt_bind : forall {A B} (r : pres (A * list token)) (f : A * list token -> pres (B * list token)) n m,
    ok_lt r n -> (forall a rest, (List.length rest < n)%nat -> ok_le (f (a, rest)) (List.length rest)) ->
    (n <= m)%nat -> ok_lt (pbind r f) m.
  Proof.
    intros A B r f n m Hr Hf Hnm. destruct r as [[a rest]|e|s]; cbn in *; [|exact I|contradiction].
    specialize (Hf a rest Hr). destruct (f (a, rest)) as [[b rest']|e|s]; cbn in *; [lia|exact I|contradiction].
  Qed.

  Definition P (f : nat) : Prop :=
    (forall tok, (3 * List.length tok + 2 <= f)%nat -> ok_lt (pp false strict S f tok) (List.length tok)) /\
    (forall pat tok, (3 * List.length tok + 2 <= f)%nat -> ok_le (pp_substs false strict S f pat tok) (List.length tok)) /\
    (forall tok, (3 * List.length tok + 1 <= f)%nat -> ok_lt (pp_nosubst false strict S f tok) (List.length tok)) /\
    (forall tok acc, (3 * List.length tok + 3 <= f)%nat -> ok_lt (pp_elems false strict S f tok acc) (List.length tok)).

  Lemma P_all : forall f, P f.
  Proof.
    induction f as [|f [IHpp [IHsub [IHno IHel]]]].
    - repeat split; intros; cbn in *; lia.
    - repeat split.
      + (* pp *)
        intros tok H. rewrite pp_eq. cbn [pbind].
        assert (Hno : ok_lt (pp_nosubst false strict S f tok) (List.length tok)) by (apply IHno; lia).
        destruct (pp_nosubst false strict S f tok) as [[pat rest]|e|s]; cbn in *; [|exact I|contradiction].
        assert (Hs : ok_le (pp_substs false strict S f pat rest) (List.length rest)) by (apply IHsub; lia).
        destruct (pp_substs false strict S f pat rest) as [[p2 rest2]|e|s]; cbn in *; [lia|exact I|contradiction].
      + (* pp_substs *)
        intros pat tok H. rewrite pp_substs_eq.
        destruct tok as [|t tok1]; [cbn; lia|].
        destruct t; try (cbn; lia).
        cbn [List.length] in H.
        assert (H1 : ok_lt (pp false strict S f tok1) (List.length tok1)) by (apply IHpp; lia).
        destruct (pp false strict S f tok1) as [[l tok2]|e|s]; cbn [pbind]; cbn in H1; [|exact I|contradiction].
        destruct tok2 as [|t2 tok3]; [cbn; exact I|].
        destruct t2; try (cbn; exact I).
        cbn [List.length] in H1.
        assert (H3 : ok_lt (pp false strict S f tok3) (List.length tok3)) by (apply IHpp; lia).
        destruct (pp false strict S f tok3) as [[r tok4]|e|s]; cbn [pbind]; cbn in H3; [|exact I|contradiction].
        destruct tok4 as [|t4 tok5]; [cbn; exact I|].
        destruct t4; try (cbn; exact I).
        cbn [List.length] in H3.
        assert (H5 : ok_le (pp_substs false strict S f (PSubst pat l r) tok5) (List.length tok5)) by (apply IHsub; lia).
        destruct (pp_substs false strict S f (PSubst pat l r) tok5) as [[p2 rest2]|e|s]; cbn in *; [lia|exact I|contradiction].
      + (* pp_nosubst *)
        intros tok H. rewrite pp_nosubst_eq.
        destruct tok as [|t r]; [cbn; exact I|].
        destruct t; try (cbn; exact I).
        * (* KIdent *) destruct (from_syntax strict S [SStr t]); cbn; [lia|exact I].
        * (* KPVar *) cbn. lia.
        * (* KLParen *)
          destruct r as [|t2 r2]; [cbn; exact I|].
          destruct t2; try (cbn; exact I).
          cbn [List.length] in H.
          assert (He : ok_lt (pp_elems false strict S f r2 [NStr t]) (List.length r2)) by (apply IHel; lia).
          destruct (pp_elems false strict S f r2 [NStr t]) as [[elems r3]|e|s]; cbn [pbind]; cbn in He; [|exact I|contradiction].
          destruct (from_syntax strict S (map mock elems)); [|cbn; exact I].
          cbn [orb]. destruct (Nat.eqb _ _); cbn; [lia|exact I].
      + (* pp_elems *)
        intros tok acc H. rewrite pp_elems_eq.
        destruct tok as [|t r]; [cbn; exact I|].
        cbn [List.length] in H.
        assert (Hgen : ok_lt (pbind (pp false strict S f (t :: r))
                       (fun '(p, r0) => pp_elems false strict S f r0 (NPat p :: acc))) (List.length (t :: r))).
        { assert (H1 : ok_lt (pp false strict S f (t :: r)) (List.length (t :: r))) by (apply IHpp; cbn; lia).
          destruct (pp false strict S f (t :: r)) as [[p r0]|e|s]; cbn [pbind]; cbn in H1; [|exact I|contradiction].
          assert (H2 : ok_lt (pp_elems false strict S f r0 (NPat p :: acc)) (List.length r0)) by (apply IHel; lia).
          destruct (pp_elems false strict S f r0 (NPat p :: acc)) as [[e2 r2]|e|s]; cbn in *; [lia|exact I|contradiction]. }
        destruct t; try exact Hgen.
        * (* KSlot *)
          assert (H2 : ok_lt (pp_elems false strict S f r (NSlot s :: acc)) (List.length r)) by (apply IHel; lia).
          destruct (pp_elems false strict S f r (NSlot s :: acc)) as [[e2 r2]|e|s0]; cbn in *; [lia|exact I|contradiction].
        * (* KRParen *) cbn. lia.
  Qed.

  (* the parser entry point on tokens never panics and never runs out of fuel *)
  Theorem parse_tokens_total : forall tok,
    match parse_tokens false strict S tok with PPanic _ => False | _ => True end.
  Proof.
    intro tok. unfold parse_tokens.
    destruct (P_all (4 * List.length tok + 8)) as [Hpp _].
    assert (H : ok_lt (pp false strict S (4 * List.length tok + 8) tok) (List.length tok)) by (apply Hpp; lia).
    destruct (pp false strict S (4 * List.length tok + 8) tok) as [[p rest]|e|s]; cbn in *; [|exact I|contradiction].
    destruct rest; exact I.
  Qed.
End Facts.
