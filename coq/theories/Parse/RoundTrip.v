(* Parse/RoundTrip.v — C18 round trip: printing a well-formed pattern and parsing the text back
   yields the same pattern (repaired parser: legacy = false, strict = false, debug = true).
   Layer A: the token-level parser on the token list the printer "means" (tokens_of).
   Layer B: the tokenizer on the printed text yields exactly tokens_of and leaves the table alone. *)
From SE Require Import Base.Text Base.TextFacts Slots.Slot Slots.SlotFacts Lang.Sig.
From SE Require Import Parse.Parser Parse.ParserFacts Parse.ArityFacts.
From Coq Require Import Arith Lia.

(* ================================================================================== *)
(* Part 0: payload values and the syntax round trip at node level                     *)
(* ================================================================================== *)

Lemma dec_text_shape : forall n, exists c r, dec_text n = c :: r /\ c <> 43.
Proof.
  intro n. unfold dec_text.
  assert (Hc : canonical_uint (N.to_uint n) = true).
  { destruct (N.lt_ge_cases n 4294967296) as [Hlt|Hge].
    - pose proof (parse_canonical_dec n Hlt) as H. unfold parse_canonical, dec_text in H.
      rewrite uint_of_text_of_uint in H. destruct (canonical_uint (N.to_uint n)); [reflexivity|discriminate].
    - apply canonical_unorm. rewrite <- DecimalN.Unsigned.to_of, DecimalN.Unsigned.of_to. reflexivity. }
  destruct (N.to_uint n); cbn in Hc; try discriminate; cbn; do 2 eexists; (split; [reflexivity|]); intro; discriminate.
Qed.

Lemma parse_u32_dec : forall n, n < 4294967296 -> parse_u32 (dec_text n) = Some n.
Proof.
  intros n Hn. destruct (dec_text_shape n) as [c [r [E Hc]]]. unfold parse_u32.
  assert (Eb : match dec_text n with 43 :: t => t | _ => dec_text n end = dec_text n).
  { rewrite E. destruct c as [|p]; [reflexivity|].
    do 6 (destruct p as [p|p|]; try reflexivity). exfalso. apply Hc. reflexivity. }
  rewrite Eb. rewrite E at 1. unfold dec_text. rewrite uint_of_text_of_uint, DecimalN.Unsigned.of_to.
  apply N.ltb_lt in Hn. rewrite Hn. reflexivity.
Qed.

Lemma parse_print_pval : forall p t, pval_has p t = true -> parse_pval t (print_pval p) = Some p.
Proof.
  intros [n|[|]|s] [| |]; cbn; intro H; try discriminate; try reflexivity.
  apply N.ltb_lt in H. rewrite (parse_u32_dec n H). reflexivity.
Qed.

Lemma to_syntax_f_width : forall a t, farg_has a t = true -> List.length (to_syntax_f a) = fwidth t.
Proof.
  induction a as [s|x|s f IH|p]; intros [| |t'|ty] H; cbn in H; try discriminate; cbn; try reflexivity.
  f_equal. apply IH. assumption.
Qed.

Lemma from_to_syntax_f : forall a t, farg_has a t = true -> from_syntax_f t (to_syntax_f a) = Some a.
Proof.
  induction a as [s|x|s f IH|p]; intros [| |t'|ty] H; cbn in H; try discriminate; cbn; try reflexivity.
  - rewrite (IH _ H). reflexivity.
  - rewrite (parse_print_pval _ _ H). reflexivity.
Qed.

Lemma firstn_app_exact : forall {A} (a b : list A) n, List.length a = n -> firstn n (a ++ b) = a.
Proof. intros A a b n <-. rewrite firstn_app, Nat.sub_diag, firstn_all. cbn. apply app_nil_r. Qed.
Lemma skipn_app_exact : forall {A} (a b : list A) n, List.length a = n -> skipn n (a ++ b) = b.
Proof. intros A a b n <-. rewrite skipn_app, Nat.sub_diag, skipn_all. reflexivity. Qed.

Lemma from_to_syntax_fields : forall args ts, forallb2 farg_has args ts = true ->
  from_syntax_fields false ts (flat_map to_syntax_f args) = Some args.
Proof.
  induction args as [|a args IH]; intros [|t ts] H; cbn in H; try discriminate; [reflexivity|].
  apply andb_true_iff in H. destruct H as [Ha Hr].
  rewrite fields_cons_eq. cbn [flat_map].
  pose proof (to_syntax_f_width _ _ Ha) as W.
  assert (L : Nat.ltb (List.length (to_syntax_f a ++ flat_map to_syntax_f args)) (fwidth t) = false).
  { apply Nat.ltb_ge. rewrite app_length. lia. }
  rewrite L, (firstn_app_exact _ _ _ W), (skipn_app_exact _ _ _ W), (from_to_syntax_f _ _ Ha), (IH _ Hr). reflexivity.
Qed.

(* `unambiguous S nd`: the operator of nd is found again by from_syntax.
   - a named variant: no EARLIER variant carries the same name;
   - an anonymous variant: it is a one-field payload variant, the printed payload is not the name of
     any variant, and no EARLIER anonymous one-field variant accepts the printed payload. *)
Definition unambiguous (S : sig) (nd : node) : Prop :=
  match nth_opt S (nvar nd) with
  | None => False
  | Some v =>
      match vname v with
      | Some nm => forall j w, (j < nvar nd)%nat -> nth_opt S j = Some w -> vname w <> Some nm
      | None =>
          exists p, nargs nd = [APay p] /\
            (forall j w, nth_opt S j = Some w -> vname w <> Some (print_pval p)) /\
            (forall j w ty, (j < nvar nd)%nat -> nth_opt S j = Some w -> vname w = None -> vfields w = [ty] ->
               from_syntax_f ty [SStr (print_pval p)] = None)
      end
  end.

Lemma find_named_first : forall S op i k v,
  nth_opt S k = Some v -> vname v = Some op ->
  (forall j w, (j < k)%nat -> nth_opt S j = Some w -> vname w <> Some op) ->
  find_named S op i = Some ((i + k)%nat, v).
Proof.
  induction S as [|w S IH]; intros op i k v Hn Hv Hb; [destruct k; discriminate|].
  destruct k as [|k]; cbn in Hn |- *.
  - inversion Hn; subst. rewrite Hv, text_eqb_refl. rewrite Nat.add_0_r. reflexivity.
  - assert (Hw : vname w <> Some op) by (apply (Hb 0%nat); [lia|reflexivity]).
    assert (Hrec : find_named S op (Datatypes.S i) = Some ((i + Datatypes.S k)%nat, v)).
    { rewrite (IH op (Datatypes.S i) k v Hn Hv).
      - f_equal. f_equal. lia.
      - intros j w' Hj Hw'. apply (Hb (Datatypes.S j)); [lia|exact Hw']. }
    destruct (vname w) as [nm|]; [|exact Hrec].
    destruct (text_eqb nm op) eqn:E; [|exact Hrec].
    apply text_eqb_eq in E. subst. exfalso. apply Hw. reflexivity.
Qed.

Lemma find_named_none : forall S op i,
  (forall j w, nth_opt S j = Some w -> vname w <> Some op) -> find_named S op i = None.
Proof.
  induction S as [|w S IH]; intros op i H; [reflexivity|]. cbn.
  assert (Hw : vname w <> Some op) by (apply (H 0%nat); reflexivity).
  assert (Hrec : find_named S op (Datatypes.S i) = None) by (apply IH; intros j w' Hj; apply (H (Datatypes.S j)); exact Hj).
  destruct (vname w) as [nm|]; [|exact Hrec].
  destruct (text_eqb nm op) eqn:E; [|exact Hrec].
  apply text_eqb_eq in E. subst. exfalso. apply Hw. reflexivity.
Qed.

Lemma try_anon_first : forall S l i k v ty a,
  nth_opt S k = Some v -> vname v = None -> vfields v = [ty] -> from_syntax_f ty l = Some a ->
  (forall j w ty', (j < k)%nat -> nth_opt S j = Some w -> vname w = None -> vfields w = [ty'] -> from_syntax_f ty' l = None) ->
  try_anon S l i = Some {| nvar := (i + k)%nat; nargs := [a] |}.
Proof.
  induction S as [|w S IH]; intros l i k v ty a Hn Hv Hf Ha Hb; [destruct k; discriminate|].
  destruct k as [|k]; cbn in Hn |- *.
  - inversion Hn; subst. rewrite Hv, Hf, Ha, Nat.add_0_r. reflexivity.
  - assert (Hrec : try_anon S l (Datatypes.S i) = Some {| nvar := (i + Datatypes.S k)%nat; nargs := [a] |}).
    { rewrite (IH l (Datatypes.S i) k v ty a Hn Hv Hf Ha).
      - f_equal. f_equal. lia.
      - intros j w' ty' Hj. apply (Hb (Datatypes.S j)). lia. }
    destruct (vname w) eqn:En; [exact Hrec|].
    destruct (vfields w) as [|ty' [|]] eqn:Ef; try exact Hrec.
    rewrite (Hb 0%nat w ty'); [exact Hrec|lia|reflexivity|exact En|exact Ef].
Qed.

(* the syntax round trip at node level (any applied ids: from_syntax copies them) *)
Theorem from_to_syntax : forall S nd, node_has S nd = true -> unambiguous S nd ->
  from_syntax false S (to_syntax S nd) = Some nd.
Proof.
  intros S [i args] Hh Hu. unfold node_has in Hh. unfold unambiguous in Hu. unfold to_syntax. cbn [nvar nargs] in *.
  destruct (nth_opt S i) as [[vn vf]|] eqn:En; [|discriminate]. cbn [vname vfields] in *.
  destruct vn as [nm|].
  - unfold from_syntax.
    rewrite (find_named_first S nm 0 i _ En eq_refl Hu). cbn [vfields Nat.add].
    rewrite (from_to_syntax_fields _ _ Hh). reflexivity.
  - destruct Hu as [p [Ea [Hnn Hb]]]. subst args.
    destruct vf as [|ty [|]]; cbn in Hh; try discriminate;
      [rewrite andb_true_r in Hh|rewrite andb_false_r in Hh; discriminate].
    destruct ty as [| | |pt]; try discriminate.
    cbn [flat_map to_syntax_f app]. unfold from_syntax.
    rewrite (find_named_none S _ 0 Hnn).
    rewrite (try_anon_first S [SStr (print_pval p)] 0 i _ (TPay pt) (APay p) En eq_refl eq_refl); [reflexivity| |exact Hb].
    cbn. rewrite (parse_print_pval _ _ Hh). reflexivity.
Qed.

(* ================================================================================== *)
(* Part 1 (layer A): the token list a pattern prints to, well-formedness, Theorem A   *)
(* ================================================================================== *)

(* elements of a node, children substituted for the applied-id positions left to right *)
Fixpoint toks_elems (l : list selem) (ch : list (list token)) : list token :=
  match l with
  | [] => []
  | SApp _ :: l' => match ch with c :: ch' => c ++ toks_elems l' ch' | [] => toks_elems l' [] end
  | SSlot s :: l' => KSlot s :: toks_elems l' ch
  | SStr s :: l' => KIdent s :: toks_elems l' ch
  end.

(* the token list print_pattern "means" (the slot table is not needed: slots are tokens) *)
Fixpoint tokens_of (S : sig) (p : pattern) {struct p} : list token :=
  match p with
  | PNode nd ch =>
      match to_syntax S nd with
      | [SStr s] => [KIdent s]
      | l => KLParen :: toks_elems l (map (tokens_of S) ch) ++ [KRParen]
      end
  | PVarP v => [KPVar v]
  | PSubst b x t => tokens_of S b ++ [KLBracket] ++ tokens_of S x ++ [KColonEq] ++ tokens_of S t ++ [KRBracket]
  end.

Definition no_str (l : list selem) : bool := forallb (fun e => match e with SStr _ => false | _ => true end) l.

(* node-level well-formedness:
   - typed for the signature;
   - from_syntax finds the node again from its own printed elements (see from_to_syntax);
   - only the operator position is a string: inside a parenthesised node the parser reads every
     identifier as a sub-PATTERN (parse.rs: parse_nested_syntax_elem), never as a payload;
   - applied ids are the placeholder the parser produces. *)
Record wf_node (S : sig) (nd : node) : Prop := {
  wn_has : node_has S nd = true;
  wn_rt : from_syntax false S (to_syntax S nd) = Some nd;
  wn_nostr : no_str (tl (to_syntax S nd)) = true;
  wn_null : Forall (fun a => a = null_appid) (app_occ nd)
}.

(* No shape restriction on substitutions is needed: `b[x := t]` is read by pp_nosubst (head of the
   spine of b) followed by the pp_substs loop, which rebuilds a left-nested spine, so a PSubst in
   base position prints as `b0[x0 := t0][x := t]` and comes back left-nested; x and t are read by
   pp and may be anything; a PSubst may also be a child of a node (children are read by pp). *)
Inductive wf_pat (S : sig) : pattern -> Prop :=
| wf_PNode : forall nd ch, wf_node S nd -> List.length ch = List.length (app_occ nd) ->
    Forall (wf_pat S) ch -> wf_pat S (PNode nd ch)
| wf_PVarP : forall v, wf_pat S (PVarP v)
| wf_PSubst : forall b x t, wf_pat S b -> wf_pat S x -> wf_pat S t -> wf_pat S (PSubst b x t).

(* syntactic sufficient condition for wf_node *)
Lemma wf_node_intro : forall S nd, node_has S nd = true -> unambiguous S nd ->
  no_str (tl (to_syntax S nd)) = true -> Forall (fun a => a = null_appid) (app_occ nd) -> wf_node S nd.
Proof. intros S nd H U N A. constructor; auto. apply from_to_syntax; assumption. Qed.

Lemma pattern_ind' : forall (P : pattern -> Prop),
  (forall nd ch, Forall P ch -> P (PNode nd ch)) -> (forall v, P (PVarP v)) ->
  (forall b x t, P b -> P x -> P t -> P (PSubst b x t)) -> forall p, P p.
Proof.
  intros P Hn Hv Hs. fix IH 1. intros [nd ch|v|b x t].
  - apply Hn. induction ch as [|c ch IHch]; constructor; [apply IH|exact IHch].
  - apply Hv.
  - apply Hs; apply IH.
Qed.

(* number of substitution brackets on the spine *)
Fixpoint nsub (p : pattern) : nat :=
  match p with PSubst b _ _ => Datatypes.S (nsub b) | _ => 0%nat end.

Definition nobr (l : list token) : Prop := match l with KLBracket :: _ => False | _ => True end.
Definition starter (k : token) : Prop :=
  match k with KIdent _ | KLParen | KPVar _ => True | _ => False end.

Lemma tokens_head : forall S p, exists k r, tokens_of S p = k :: r /\ starter k.
Proof.
  intros S p. induction p as [nd ch _|v|b x t [k [r [E Hk]]] _ _] using pattern_ind'.
  - cbn [tokens_of]. destruct (to_syntax S nd) as [|[s| |] [|e l]]; cbn; do 2 eexists; split; try reflexivity; exact I.
  - cbn. do 2 eexists. split; [reflexivity|exact I].
  - cbn [tokens_of]. rewrite E. cbn. do 2 eexists. split; [reflexivity|exact Hk].
Qed.

Lemma nsub_le : forall S p, (2 * nsub p + 1 <= List.length (tokens_of S p))%nat.
Proof.
  intros S p. induction p as [nd ch _|v|b x t IHb _ _] using pattern_ind'.
  - destruct (tokens_head S (PNode nd ch)) as [k [r [E _]]]. rewrite E. cbn. lia.
  - cbn. lia.
  - cbn [nsub tokens_of]. rewrite !app_length. cbn [List.length]. lia.
Qed.

Section LayerA.
  Variable S : sig.
  Notation toks := (tokens_of S).
  Notation ppf := (pp false false S).
  Notation ppn := (pp_nosubst false false S).
  Notation pps := (pp_substs false false S).
  Notation ppe := (pp_elems false false S).

  (* Theorem A as a property of one pattern *)
  Definition A (p : pattern) : Prop := forall fuel rest,
    (3 * List.length (toks p ++ rest) + 2 <= fuel)%nat -> nobr rest -> ppf fuel (toks p ++ rest) = POk (p, rest).

  (* the head of the spine is read by pp_nosubst, the loop then rebuilds the spine *)
  Definition D (p : pattern) : Prop := forall g rest,
    (3 * List.length (toks p ++ rest) + 1 <= g + nsub p)%nat ->
    exists h rest', ppn (g + nsub p) (toks p ++ rest) = POk (h, rest') /\
                    pps (g + nsub p) h rest' = pps g p rest.

  Lemma D_A : forall p, D p -> A p.
  Proof.
    intros p HD fuel rest Hf Hr. destruct fuel as [|f]; [lia|].
    pose proof (nsub_le S p) as Hn. rewrite app_length in Hf.
    assert (Ef : f = ((f - nsub p) + nsub p)%nat) by lia.
    destruct (HD (f - nsub p)%nat rest) as [h [rest' [E1 E2]]]; [rewrite app_length; lia|].
    rewrite <- Ef in E1, E2. rewrite pp_eq, E1. cbn [pbind]. rewrite E2.
    destruct (f - nsub p)%nat as [|g] eqn:Eg; [lia|]. rewrite pp_substs_eq.
    destruct rest as [|[] rest]; try reflexivity. contradiction.
  Qed.

  (* one turn of the substitution loop *)
  Lemma subst_loop : forall x t, A x -> A t -> forall g pat rest,
    (3 * List.length (toks x ++ [KColonEq] ++ toks t ++ [KRBracket] ++ rest) + 2 <= g)%nat ->
    pps (Datatypes.S g) pat ([KLBracket] ++ toks x ++ [KColonEq] ++ toks t ++ [KRBracket] ++ rest)
    = pps g (PSubst pat x t) rest.
  Proof.
    intros x t Ax At g pat rest Hg. rewrite pp_substs_eq. cbn [app].
    rewrite (Ax g (KColonEq :: toks t ++ KRBracket :: rest)); [|exact Hg|exact I]. cbn [pbind].
    rewrite (At g (KRBracket :: rest)); [|cbn [app] in Hg; rewrite !app_length in *; cbn [List.length] in *; rewrite app_length in Hg; cbn [List.length] in Hg; lia|exact I].
    reflexivity.
  Qed.

  (* rebuilding the element list of a node from its syntax and the children *)
  Fixpoint elems_of (l : list selem) (ch : list pattern) : list nelem :=
    match l with
    | [] => []
    | SApp _ :: l' => match ch with c :: ch' => NPat c :: elems_of l' ch' | [] => elems_of l' [] end
    | SSlot s :: l' => NSlot s :: elems_of l' ch
    | SStr s :: l' => NStr s :: elems_of l' ch
    end.

  Definition apps_null (l : list selem) : Prop :=
    Forall (fun e => match e with SApp a => a = null_appid | _ => True end) l.

  Lemma elems_of_spec : forall l ch, apps_null l -> count_app l = List.length ch ->
    map mock (elems_of l ch) = l /\ pats_of (elems_of l ch) = ch /\ List.length (elems_of l ch) = List.length l.
  Proof.
    induction l as [|e l IH]; intros ch Hn Hc.
    - destruct ch; [|discriminate]. repeat split.
    - inversion Hn as [|? ? He Hl]; subst. destruct e as [s|a|s].
      + destruct (IH ch Hl Hc) as [E1 [E2 E3]]. cbn. rewrite E1, E3. repeat split. exact E2.
      + destruct ch as [|c ch]; [discriminate|]. unfold count_app in Hc. cbn in Hc.
        destruct (IH ch Hl) as [E1 [E2 E3]]; [unfold count_app; lia|].
        cbn. rewrite E1, E3, He. repeat split. unfold pats_of in *. cbn. rewrite E2. reflexivity.
      + destruct (IH ch Hl Hc) as [E1 [E2 E3]]. cbn. rewrite E1, E3. repeat split. exact E2.
  Qed.

  Lemma toks_elems_nobr : forall l ch rest, no_str l = true -> nobr (toks_elems l (map toks ch) ++ KRParen :: rest).
  Proof.
    intros [|[s|a|s] l] ch rest H; cbn in *; try exact I; try discriminate.
    destruct ch as [|c ch]; cbn.
    - clear H. induction l as [|[s|a'|s] l IH]; cbn; try exact I. exact IH.
    - destruct (tokens_head S c) as [k [r [E Hk]]]. rewrite E. cbn. destruct k; try exact I; contradiction.
  Qed.

  (* the element loop *)
  Lemma elems_loop : forall l ch, no_str l = true -> count_app l = List.length ch -> Forall A ch ->
    forall fuel acc rest,
    (3 * List.length (toks_elems l (map toks ch) ++ KRParen :: rest) + 3 <= fuel)%nat ->
    ppe fuel (toks_elems l (map toks ch) ++ KRParen :: rest) acc = POk (rev acc ++ elems_of l ch, rest).
  Proof.
    induction l as [|e l IH]; intros ch Hs Hc HA fuel acc rest Hf.
    - destruct fuel as [|f]; [lia|]. cbn [toks_elems app]. rewrite pp_elems_eq, app_nil_r. reflexivity.
    - destruct fuel as [|f]; [lia|]. destruct e as [s|a|s]; [discriminate| |].
      + destruct ch as [|c ch]; [discriminate|]. inversion HA as [|? ? Ac HA']; subst.
        cbn [map toks_elems elems_of]. rewrite <- app_assoc.
        cbn [map toks_elems] in Hf. rewrite <- app_assoc in Hf.
        assert (Hl : no_str l = true) by exact Hs.
        pose proof (toks_elems_nobr l ch rest Hl) as Hnb.
        assert (Hc' : count_app l = List.length ch) by (unfold count_app in *; cbn in Hc; lia).
        rewrite pp_elems_eq.
        destruct (tokens_head S c) as [k [r [E Hk]]].
        assert (Epp : ppf f (toks c ++ toks_elems l (map toks ch) ++ KRParen :: rest) =
                      POk (c, toks_elems l (map toks ch) ++ KRParen :: rest)) by (apply Ac; [lia|exact Hnb]).
        assert (Hlen : (List.length (toks_elems l (map toks ch) ++ KRParen :: rest) <
                        List.length (toks c ++ toks_elems l (map toks ch) ++ KRParen :: rest))%nat).
        { rewrite (app_length (toks c)), E. cbn. lia. }
        rewrite E in Epp |- *. cbn [app] in Epp |- *.
        destruct k; try contradiction; rewrite Epp; cbn [pbind];
          (rewrite (IH ch Hl Hc' HA' f (NPat c :: acc) rest); [cbn [rev]; rewrite <- app_assoc; reflexivity|
           lia]).
      + cbn [toks_elems elems_of app]. rewrite pp_elems_eq.
        cbn [toks_elems app List.length] in Hf.
        rewrite (IH ch Hs); [cbn [rev]; rewrite <- app_assoc; reflexivity|exact Hc|exact HA|lia].
  Qed.

  Lemma apps_of_syntax_f : forall a,
    flat_map (fun e => match e with SApp x => [x] | _ => [] end) (to_syntax_f a) = app_occ_f a.
  Proof. induction a; cbn; auto. Qed.

  Lemma apps_null_syntax : forall nd, Forall (fun a => a = null_appid) (app_occ nd) -> apps_null (to_syntax S nd).
  Proof.
    intros nd H. unfold apps_null.
    assert (G : forall args, Forall (fun a => a = null_appid) (flat_map app_occ_f args) ->
                Forall (fun e => match e with SApp a => a = null_appid | _ => True end) (flat_map to_syntax_f args)).
    { induction args as [|a args IH]; intro Hn; [constructor|]. cbn [flat_map] in *.
      apply Forall_app in Hn. destruct Hn as [Ha Hr]. apply Forall_app. split; [|apply IH; exact Hr].
      clear -Ha. induction a as [s|x|s f IHf|p]; cbn in *.
      - constructor; [exact I|constructor].
      - inversion Ha as [|? ? Hx _]. constructor; [exact Hx|constructor].
      - constructor; [exact I|apply IHf; exact Ha].
      - constructor; [exact I|constructor]. }
    unfold to_syntax, app_occ in *. destruct (nth_opt S (nvar nd)) as [[[nm|] vf]|]; try (apply G; exact H).
    constructor; [exact I|apply G; exact H].
  Qed.

  Lemma D_node : forall nd ch, wf_node S nd -> List.length ch = List.length (app_occ nd) -> Forall A ch -> D (PNode nd ch).
  Proof.
    intros nd ch [Hh Hrt Hns Hnull] Har HA g rest Hf. cbn [nsub] in *. rewrite Nat.add_0_r in *.
    exists (PNode nd ch), rest. split; [|reflexivity].
    pose proof (to_syntax_count S nd) as Hcnt. pose proof (apps_null_syntax nd Hnull) as Hnl.
    destruct g as [|f]; [lia|]. cbn [tokens_of] in *.
    destruct (to_syntax S nd) as [|e l] eqn:El; [discriminate|].
    destruct e as [op|a|s]; try discriminate. cbn [tl] in Hns.
    assert (Hc : count_app l = List.length ch) by (unfold count_app in *; cbn in Hcnt; lia).
    destruct l as [|e2 l2].
    - (* a bare identifier *)
      cbn [app]. rewrite pp_nosubst_eq, Hrt. destruct ch; [reflexivity|discriminate].
    - remember (e2 :: l2) as L eqn:EL.
      change (toks_elems (SStr op :: L) (map toks ch)) with (KIdent op :: toks_elems L (map toks ch)) in Hf |- *.
      cbn [app] in Hf |- *. rewrite <- app_assoc in Hf |- *. cbn [app] in Hf |- *.
      rewrite pp_nosubst_eq.
      assert (Hnl' : apps_null L) by (inversion Hnl; assumption).
      rewrite (elems_loop L ch Hns Hc HA f [NStr op] rest); [|cbn [List.length] in Hf; lia].
      cbn [pbind rev app].
      destruct (elems_of_spec L ch Hnl' Hc) as [E1 [E2 E3]].
      change (map mock (NStr op :: elems_of L ch)) with (SStr op :: map mock (elems_of L ch)).
      rewrite E1, Hrt. cbn [orb]. rewrite El.
      change (List.length (NStr op :: elems_of L ch)) with (Datatypes.S (List.length (elems_of L ch))).
      rewrite E3. cbn [List.length]. rewrite Nat.eqb_refl.
      change (pats_of (NStr op :: elems_of L ch)) with (pats_of (elems_of L ch)).
      rewrite E2. reflexivity.
  Qed.

  Lemma D_all : forall p, wf_pat S p -> D p.
  Proof.
    induction p as [nd ch IHch|v|b x t IHb IHx IHt] using pattern_ind'; intro W.
    - inversion W as [? ? Wn Har Wch| |]; subst. apply D_node; [exact Wn|exact Har|].
      rewrite Forall_forall in *. intros c Hc. apply D_A. apply IHch; [exact Hc|apply Wch; exact Hc].
    - intros g rest Hf. cbn [nsub] in *. rewrite Nat.add_0_r in *. exists (PVarP v), rest. split; [|reflexivity].
      destruct g as [|f]; [lia|]. reflexivity.
    - inversion W as [| |? ? ? Wb Wx Wt]; subst.
      specialize (IHb Wb). pose proof (D_A _ (IHx Wx)) as Ax. pose proof (D_A _ (IHt Wt)) as At.
      intros g rest Hf. cbn [nsub tokens_of] in *.
      rewrite <- !app_assoc in *.
      replace (g + Datatypes.S (nsub b))%nat with (Datatypes.S g + nsub b)%nat in * by lia.
      destruct (IHb (Datatypes.S g) ([KLBracket] ++ toks x ++ [KColonEq] ++ toks t ++ [KRBracket] ++ rest) Hf) as [h [rest' [E1 E2]]].
      exists h, rest'. split; [exact E1|]. rewrite E2. apply subst_loop; [exact Ax|exact At|].
      pose proof (nsub_le S b) as Hn. rewrite (app_length (toks b)) in Hf.
      change (List.length ([KLBracket] ++ ?X)) with (Datatypes.S (List.length X)) in Hf. lia.
  Qed.

  Theorem roundtrip_pp : forall p rest fuel, wf_pat S p ->
    (3 * List.length (toks p ++ rest) + 2 <= fuel)%nat -> nobr rest ->
    pp false false S fuel (toks p ++ rest) = POk (p, rest).
  Proof. intros p rest fuel W Hf Hr. exact (D_A p (D_all p W) fuel rest Hf Hr). Qed.

  Theorem roundtrip_tokens : forall p, wf_pat S p -> parse_tokens false false S (toks p) = POk p.
  Proof.
    intros p W. unfold parse_tokens.
    pose proof (roundtrip_pp p [] (4 * List.length (toks p) + 8) W) as H. rewrite app_nil_r in H.
    rewrite H; [reflexivity|lia|exact I].
  Qed.
End LayerA.

Print Assumptions from_to_syntax.
Print Assumptions roundtrip_pp.
Print Assumptions roundtrip_tokens.

(* ================================================================================== *)
(* Part 2 (layer B): the tokenizer on the printed text                                 *)
(* ================================================================================== *)

Definition delim (s : text) : Prop := match s with [] => True | c :: _ => ident_char c = false end.

Lemma crop_len : forall s a b, crop s = (a, b) -> List.length s = (List.length a + List.length b)%nat.
Proof.
  induction s as [|c s IH]; intros a b H; cbn in H.
  - inversion H; subst. reflexivity.
  - destruct (ident_char c).
    + destruct (crop s) as [a' b'] eqn:E. inversion H; subst. cbn. rewrite (IH a' b eq_refl). reflexivity.
    + inversion H; subst. reflexivity.
Qed.

Lemma crop_app : forall t rest, forallb ident_char t = true -> delim rest -> crop (t ++ rest) = (t, rest).
Proof.
  induction t as [|c t IH]; intros rest Ht Hr.
  - cbn. destruct rest as [|c r]; [reflexivity|]. cbn in Hr |- *. rewrite Hr. reflexivity.
  - cbn in Ht |- *. apply andb_true_iff in Ht. destruct Ht as [Hc Ht]. rewrite Hc, (IH rest Ht Hr). reflexivity.
Qed.

Lemma tokenize_eq : forall l d f st c r, tokenize l d (Datatypes.S f) st (c :: r) =
  if is_ws c then tokenize l d f st r
  else if c =? 40 then pbind (tokenize l d f st r) (fun '(l, st') => POk (KLParen :: l, st'))
  else if c =? 41 then pbind (tokenize l d f st r) (fun '(l, st') => POk (KRParen :: l, st'))
  else if c =? 91 then pbind (tokenize l d f st r) (fun '(l, st') => POk (KLBracket :: l, st'))
  else if c =? 93 then pbind (tokenize l d f st r) (fun '(l, st') => POk (KRBracket :: l, st'))
  else if (c =? 58) && (match r with 61 :: _ => true | _ => false end)
       then pbind (tokenize l d f st (tl r)) (fun '(l, st') => POk (KColonEq :: l, st'))
  else if c =? 63 then
    let '(op, rest) := crop r in
    match op with
    | [] => PFail PEToken
    | _ => pbind (tokenize l d f st rest) (fun '(l, st') => POk (KPVar op :: l, st'))
    end
  else if c =? 36 then
    let '(op, rest) := crop r in
    match op with
    | [] => PFail PEToken
    | _ =>
        match named false d st op with
        | Ok (sl, st1) => pbind (tokenize l d f st1 rest) (fun '(l, st') => POk (KSlot sl :: l, st'))
        | Err e => PPanic e
        end
    end
  else
    let '(op, rest) := crop (c :: r) in
    match op with
    | [] => PFail PEToken
    | _ => pbind (tokenize l d f st rest) (fun '(l, st') => POk (KIdent op :: l, st'))
    end.
Proof. reflexivity. Qed.

(* any fuel above the length of the text gives the same result *)
Lemma tokenize_fuel : forall l d f1 f2 st s, (List.length s < f1)%nat -> (List.length s < f2)%nat ->
  tokenize l d f1 st s = tokenize l d f2 st s.
Proof.
  intros l d. induction f1 as [|f1 IH]; intros f2 st s H1 H2; [lia|]. destruct f2 as [|f2]; [lia|].
  destruct s as [|c r]; [reflexivity|]. cbn [List.length] in H1, H2. rewrite !tokenize_eq.
  assert (Er : forall st', tokenize l d f1 st' r = tokenize l d f2 st' r) by (intro; apply IH; lia).
  destruct (is_ws c); [apply Er|].
  do 4 (match goal with |- (if ?b then _ else _) = _ => destruct b; [rewrite Er; reflexivity|] end).
  destruct ((c =? 58) && _).
  { rewrite (IH f2 st (tl r)); [reflexivity| |]; destruct r; cbn in *; lia. }
  destruct (c =? 63).
  { destruct (crop r) as [op rest] eqn:E. apply crop_len in E. destruct op; [reflexivity|].
    rewrite (IH f2 st rest); [reflexivity| |]; lia. }
  destruct (c =? 36).
  { destruct (crop r) as [op rest] eqn:E. apply crop_len in E. destruct op; [reflexivity|].
    destruct (named false d st (n :: op)) as [[sl st1]|]; [|reflexivity].
    rewrite (IH f2 st1 rest); [reflexivity| |]; lia. }
  destruct (crop (c :: r)) as [op rest] eqn:E. apply crop_len in E. cbn [List.length] in E. destruct op; [reflexivity|].
  cbn [List.length] in E. rewrite (IH f2 st rest); [reflexivity| |]; lia.
Qed.

(* the tokenizer at its canonical fuel *)
Definition tkz (st : table) (s : text) : pres (list token * table) :=
  tokenize false true (List.length s + 1) st s.

Definition consT (k : token) (r : pres (list token * table)) : pres (list token * table) :=
  pbind r (fun '(l, st') => POk (k :: l, st')).

Lemma tkz_fuel : forall f st s, (List.length s < f)%nat -> tokenize false true f st s = tkz st s.
Proof. intros. unfold tkz. apply tokenize_fuel; lia. Qed.

Lemma tkz_nil : forall st, tkz st [] = POk ([], st).
Proof. reflexivity. Qed.

Lemma tkz_step : forall st c r, tkz st (c :: r) = tokenize false true (Datatypes.S (Datatypes.S (List.length r))) st (c :: r).
Proof. intros. unfold tkz. cbn [List.length]. f_equal. lia. Qed.

Lemma tkz_ws : forall st c r, is_ws c = true -> tkz st (c :: r) = tkz st r.
Proof. intros st c r H. rewrite tkz_step, tokenize_eq, H. apply tkz_fuel. lia. Qed.

Lemma tkz_lparen : forall st r, tkz st (40 :: r) = consT KLParen (tkz st r).
Proof. intros. rewrite tkz_step, tokenize_eq. change (is_ws 40) with false. change (40 =? 40) with true. cbv iota. rewrite tkz_fuel by lia. reflexivity. Qed.
Lemma tkz_rparen : forall st r, tkz st (41 :: r) = consT KRParen (tkz st r).
Proof. intros. rewrite tkz_step, tokenize_eq. change (is_ws 41) with false. change (41 =? 40) with false. change (41 =? 41) with true. cbv iota. rewrite tkz_fuel by lia. reflexivity. Qed.
Lemma tkz_lbracket : forall st r, tkz st (91 :: r) = consT KLBracket (tkz st r).
Proof. intros. rewrite tkz_step, tokenize_eq. change (is_ws 91) with false. change (91 =? 40) with false. change (91 =? 41) with false. change (91 =? 91) with true. cbv iota. rewrite tkz_fuel by lia. reflexivity. Qed.
Lemma tkz_rbracket : forall st r, tkz st (93 :: r) = consT KRBracket (tkz st r).
Proof. intros. rewrite tkz_step, tokenize_eq. change (is_ws 93) with false. change (93 =? 40) with false. change (93 =? 41) with false. change (93 =? 91) with false. change (93 =? 93) with true. cbv iota. rewrite tkz_fuel by lia. reflexivity. Qed.
Lemma tkz_coloneq : forall st r, tkz st (58 :: 61 :: r) = consT KColonEq (tkz st r).
Proof.
  intros. rewrite tkz_step, tokenize_eq. change (is_ws 58) with false.
  change (58 =? 40) with false. change (58 =? 41) with false. change (58 =? 91) with false. change (58 =? 93) with false.
  change (58 =? 58) with true. cbv iota. cbn [andb tl]. rewrite tkz_fuel by (cbn; lia). reflexivity.
Qed.

Lemma head61 : forall l : text, (match l with 61 :: _ => true | _ => false end) = (match l with c :: _ => c =? 61 | [] => false end).
Proof.
  intros [|c l]; [reflexivity|]. destruct (N.eqb_spec c 61) as [->|Hne]; [reflexivity|].
  destruct c as [|p]; [reflexivity|]. do 6 (destruct p as [p|p|]; try reflexivity). exfalso. apply Hne. reflexivity.
Qed.

Lemma ident_char_inv : forall c, ident_char c = true ->
  is_ws c = false /\ (c =? 40) = false /\ (c =? 41) = false /\ (c =? 91) = false /\ (c =? 93) = false.
Proof.
  intros c H. unfold ident_char in H. apply andb_true_iff in H. destruct H as [H1 H2].
  apply negb_true_iff in H1, H2. repeat (apply orb_false_iff in H2; destruct H2 as [H2 ?]). repeat split; assumption.
Qed.

(* identifiers: non-empty, identifier characters only, not starting with '?', '$' or ":=" *)
Definition name_okb (t : text) : bool := match t with [] => false | _ => forallb ident_char t end.
Definition ident_okb (t : text) : bool :=
  name_okb t &&
  match t with
  | [] => false
  | c :: r => negb (c =? 63) && negb (c =? 36) && negb ((c =? 58) && match r with c2 :: _ => c2 =? 61 | [] => false end)
  end.

Lemma tkz_ident : forall st t rest, ident_okb t = true -> delim rest ->
  tkz st (t ++ rest) = consT (KIdent t) (tkz st rest).
Proof.
  intros st [|c t] rest H Hd; [discriminate|]. unfold ident_okb, name_okb in H.
  apply andb_true_iff in H. destruct H as [Hall H].
  apply andb_true_iff in H. destruct H as [H H58]. apply andb_true_iff in H. destruct H as [H63 H36].
  apply negb_true_iff in H63, H36, H58.
  pose proof Hall as Hall'. cbn [forallb] in Hall'. apply andb_true_iff in Hall'. destruct Hall' as [Hc Ht].
  destruct (ident_char_inv c Hc) as [Hw [H40 [H41 [H91 H93]]]].
  cbn [app]. rewrite tkz_step, tokenize_eq, Hw, H40, H41, H91, H93, H63, H36.
  assert (E58 : (c =? 58) && (match t ++ rest with 61 :: _ => true | _ => false end) = false).
  { rewrite head61. destruct (c =? 58); [|reflexivity]. cbn [andb] in *.
    destruct t as [|c2 t]; [|exact H58]. cbn [app]. destruct rest as [|c2 rest]; [reflexivity|].
    cbn in Hd. destruct (N.eqb_spec c2 61) as [->|]; [|reflexivity]. discriminate. }
  rewrite E58. change (c :: t ++ rest) with ((c :: t) ++ rest). rewrite (crop_app (c :: t) rest Hall Hd).
  rewrite tkz_fuel by (rewrite app_length; cbn; lia). reflexivity.
Qed.

Lemma tkz_pvar : forall st v rest, name_okb v = true -> delim rest ->
  tkz st (63 :: v ++ rest) = consT (KPVar v) (tkz st rest).
Proof.
  intros st v rest H Hd. rewrite tkz_step, tokenize_eq. change (is_ws 63) with false.
  change (63 =? 40) with false. change (63 =? 41) with false. change (63 =? 91) with false. change (63 =? 93) with false.
  change (63 =? 58) with false. change (63 =? 63) with true. cbv iota. cbn [andb].
  destruct v as [|c v]; [discriminate|]. rewrite (crop_app (c :: v) rest H Hd).
  rewrite tkz_fuel by (rewrite app_length; cbn; lia). reflexivity.
Qed.

Lemma tkz_slot : forall st nm rest s st1, name_okb nm = true -> delim rest -> named false true st nm = Ok (s, st1) ->
  tkz st (36 :: nm ++ rest) = consT (KSlot s) (tkz st1 rest).
Proof.
  intros st nm rest s st1 H Hd Hn. rewrite tkz_step, tokenize_eq. change (is_ws 36) with false.
  change (36 =? 40) with false. change (36 =? 41) with false. change (36 =? 91) with false. change (36 =? 93) with false.
  change (36 =? 58) with false. change (36 =? 63) with false. change (36 =? 36) with true. cbv iota. cbn [andb].
  destruct nm as [|c nm]; [discriminate|]. rewrite (crop_app (c :: nm) rest H Hd), Hn.
  rewrite tkz_fuel by (rewrite app_length; cbn; lia). reflexivity.
Qed.

(* ---- the printer, with its local fixpoints named ---- *)
Section PrElems.
  Variable st : table.
  Fixpoint pr_elems (l : list selem) (ch : list text) : list text :=
    match l with
    | [] => []
    | SApp _ :: l' => match ch with c :: ch' => c :: pr_elems l' ch' | [] => [33] :: pr_elems l' [] end
    | SSlot s :: l' => slot_text st s :: pr_elems l' ch
    | SStr s :: l' => s :: pr_elems l' ch
    end.
End PrElems.

Lemma print_node_eq : forall S st nd ch, print_pattern S st (PNode nd ch) =
  let l := to_syntax S nd in
  let body := intercalate sp (pr_elems st l (map (print_pattern S st) ch)) in
  match l with [_] => body | _ => 40 :: body ++ [41] end.
Proof.
  intros S st nd ch. cbn [print_pattern].
  assert (E : (fix pmap (l : list pattern) : list text :=
                 match l with [] => [] | c :: t => print_pattern S st c :: pmap t end) ch
              = map (print_pattern S st) ch).
  { induction ch as [|c ch IH]; [reflexivity|]. cbn [map]. rewrite <- IH. reflexivity. }
  rewrite E. reflexivity.
Qed.

Lemma intercalate_cons : forall sep x X (rest : text),
  intercalate sep (x :: X) ++ rest =
  x ++ match X with [] => rest | _ => sep ++ intercalate sep X ++ rest end.
Proof. intros sep x [|y Y] rest; [reflexivity|]. cbn [intercalate]. rewrite <- !app_assoc. reflexivity. Qed.

Section LayerB.
  Variables (S : sig) (st : table).
  Hypothesis Hinv : TInv st.
  Notation toks := (tokens_of S).
  Notation pr := (print_pattern S st).

  (* a slot of the pattern: registered in the table, and its name is an identifier-character text *)
  Definition slot_ok (s : slot) : Prop :=
    valid st s /\ exists nm, name_of st s = Ok nm /\ name_okb nm = true.

  Definition elem_ok (e : selem) : Prop :=
    match e with SStr s => ident_okb s = true | SSlot s => slot_ok s | SApp _ => True end.

  Inductive wf_text : pattern -> Prop :=
  | wt_PNode : forall nd ch, Forall elem_ok (to_syntax S nd) -> Forall wf_text ch -> wf_text (PNode nd ch)
  | wt_PVarP : forall v, name_okb v = true -> wf_text (PVarP v)
  | wt_PSubst : forall b x t, wf_text b -> wf_text x -> wf_text t -> wf_text (PSubst b x t).

  (* `piece` tokenizes to `ts` in front of anything delimiting that tokenizes *)
  Definition piece_ok (piece : text) (ts : list token) : Prop :=
    forall rest tr st', delim rest -> tkz st rest = POk (tr, st') -> tkz st (piece ++ rest) = POk (ts ++ tr, st').

  Lemma piece_ident : forall s, ident_okb s = true -> piece_ok s [KIdent s].
  Proof. intros s H rest tr st' Hd Hr. rewrite (tkz_ident st s rest H Hd), Hr. reflexivity. Qed.

  Lemma piece_slot : forall s, slot_ok s -> piece_ok (slot_text st s) [KSlot s].
  Proof.
    intros s [Hv [nm [Hn Hok]]] rest tr st' Hd Hr. unfold slot_text. rewrite Hn. cbn [app].
    rewrite (tkz_slot st nm rest s st Hok Hd (reparse_spec st s nm Hinv Hv Hn)), Hr. reflexivity.
  Qed.

  Lemma piece_pvar : forall v, name_okb v = true -> piece_ok (63 :: v) [KPVar v].
  Proof. intros v H rest tr st' Hd Hr. cbn [app]. rewrite (tkz_pvar st v rest H Hd), Hr. reflexivity. Qed.

  Lemma pr_elems_cons : forall e l ch, exists y Y, pr_elems st (e :: l) ch = y :: Y.
  Proof. intros [s|a|s] l ch; cbn; [| destruct ch |]; do 2 eexists; reflexivity. Qed.

  Lemma elems_text : forall l ch, Forall elem_ok l -> count_app l = List.length ch ->
    Forall (fun c => piece_ok (pr c) (toks c)) ch ->
    piece_ok (intercalate sp (pr_elems st l (map pr ch))) (toks_elems l (map toks ch)).
  Proof.
    induction l as [|e l IH]; intros ch Hl Hc Hch rest tr st' Hd Hr.
    - cbn. exact Hr.
    - inversion Hl as [|? ? He Hl']; subst.
      (* what the remaining elements contribute *)
      set (tail := fun ch' : list pattern =>
             match pr_elems st l (map pr ch') with [] => rest | _ => sp ++ intercalate sp (pr_elems st l (map pr ch')) ++ rest end).
      assert (Hrec : forall ch', count_app l = List.length ch' -> Forall (fun c => piece_ok (pr c) (toks c)) ch' ->
                delim (tail ch') /\ tkz st (tail ch') = POk (toks_elems l (map toks ch') ++ tr, st')).
      { intros ch' Hc' Hch'. unfold tail.
        destruct l as [|e' l'].
        - cbn. split; assumption.
        - destruct (pr_elems_cons e' l' (map pr ch')) as [y [Y EY]]. rewrite EY. rewrite <- EY.
          split; [reflexivity|]. unfold sp. cbn [app]. rewrite tkz_ws by reflexivity.
          apply (IH ch' Hl' Hc' Hch'); assumption. }
      destruct e as [s|a|s].
      + cbn [pr_elems toks_elems]. rewrite intercalate_cons.
        destruct (Hrec ch Hc Hch) as [HdR HrR].
        exact (piece_ident s He (tail ch) _ st' HdR HrR).
      + destruct ch as [|c ch]; [discriminate|]. inversion Hch as [|? ? Hpc Hch']; subst.
        cbn [map pr_elems toks_elems]. rewrite intercalate_cons.
        destruct (Hrec ch) as [HdR HrR]; [unfold count_app in *; cbn in Hc; lia|exact Hch'|].
        rewrite <- app_assoc. exact (Hpc (tail ch) _ st' HdR HrR).
      + cbn [pr_elems toks_elems]. rewrite intercalate_cons.
        destruct (Hrec ch Hc Hch) as [HdR HrR].
        exact (piece_slot s He (tail ch) _ st' HdR HrR).
  Qed.

  Lemma text_all : forall p, wf_pat S p -> wf_text p -> piece_ok (pr p) (toks p).
  Proof.
    induction p as [nd ch IHch|v|b x t IHb IHx IHt] using pattern_ind'; intros W T.
    - inversion W as [? ? Wn Har Wch| |]; subst. inversion T as [? ? Tl Tch| |]; subst.
      assert (Hch : Forall (fun c => piece_ok (pr c) (toks c)) ch).
      { rewrite Forall_forall in *. intros c Hc. apply IHch; [exact Hc|apply Wch; exact Hc|apply Tch; exact Hc]. }
      destruct Wn as [_ Hrt _ _]. pose proof (to_syntax_count S nd) as Hcnt.
      rewrite print_node_eq. cbn zeta. cbn [tokens_of].
      destruct (to_syntax S nd) as [|e l] eqn:El; [discriminate|].
      destruct e as [op|a|s]; try discriminate.
      assert (Hc : count_app (SStr op :: l) = List.length ch) by lia.
      pose proof (elems_text (SStr op :: l) ch Tl Hc Hch) as HE.
      destruct l as [|e2 l2].
      + (* a bare identifier *)
        destruct ch; [|discriminate]. exact HE.
      + intros rest tr st' Hd Hr. remember (SStr op :: e2 :: l2) as L.
        cbn [app]. rewrite tkz_lparen. rewrite <- !app_assoc.
        rewrite (HE ([41] ++ rest) (KRParen :: tr) st'); [reflexivity|reflexivity|].
        cbn [app]. rewrite tkz_rparen, Hr. reflexivity.
    - inversion T; subst. apply piece_pvar. assumption.
    - inversion W as [| |? ? ? Wb Wx Wt]; subst. inversion T as [| |? ? ? Tb Tx Tt]; subst.
      specialize (IHb Wb Tb). specialize (IHx Wx Tx). specialize (IHt Wt Tt).
      intros rest tr st' Hd Hr. cbn [print_pattern tokens_of]. rewrite <- !app_assoc.
      apply IHb; [reflexivity|]. cbn [app]. rewrite tkz_lbracket.
      rewrite (IHx (32 :: 58 :: 61 :: 32 :: pr t ++ 93 :: rest) (KColonEq :: toks t ++ KRBracket :: tr) st'); [reflexivity|reflexivity|].
      rewrite tkz_ws by reflexivity. rewrite tkz_coloneq. rewrite tkz_ws by reflexivity.
      rewrite (IHt (93 :: rest) (KRBracket :: tr) st'); [reflexivity|reflexivity|].
      rewrite tkz_rbracket, Hr. reflexivity.
  Qed.

  (* Theorem B: the tokenizer reads the printed text as tokens_of and does not touch the table *)
  Theorem roundtrip_tokenize : forall p, wf_pat S p -> wf_text p ->
    tokenize false true (List.length (pr p) + 1) st (pr p) = POk (toks p, st).
  Proof.
    intros p W T. pose proof (text_all p W T [] [] st I (tkz_nil st)) as H.
    rewrite !app_nil_r in H. exact H.
  Qed.

  (* the C18 round trip on texts *)
  Theorem roundtrip_text : forall p, wf_pat S p -> wf_text p ->
    parse_pattern_text false true false S st (pr p) = POk (p, st).
  Proof.
    intros p W T. unfold parse_pattern_text. rewrite (roundtrip_tokenize p W T). cbn [pbind].
    rewrite (roundtrip_tokens S p W). reflexivity.
  Qed.
End LayerB.

Print Assumptions roundtrip_tokenize.
Print Assumptions roundtrip_text.

(* ---- slot names: numeric and fresh-form names are always identifier texts, so for a table that
   satisfies TInv only the registered names need checking ---- *)
Lemma text_of_uint_ident : forall d, forallb ident_char (text_of_uint d) = true.
Proof. induction d; cbn [text_of_uint forallb]; try reflexivity; rewrite IHd; reflexivity. Qed.

Lemma dec_text_name_ok : forall n, name_okb (dec_text n) = true.
Proof.
  intro n. destruct (dec_text_shape n) as [c [r [E _]]]. unfold name_okb. rewrite E. rewrite <- E.
  apply text_of_uint_ident.
Qed.

Lemma nth_opt_some : forall {A} (l : list A) k, (k < List.length l)%nat -> exists x, nth_opt l k = Some x.
Proof.
  induction l as [|y l IH]; intros k H; cbn in H; [lia|]. destruct k; cbn; [eauto|]. apply IH. lia.
Qed.

Lemma slot_ok_intro : forall st s, valid st s -> Forall (fun t => name_okb t = true) (named_vec st) -> slot_ok st s.
Proof.
  intros st s V Hn. split; [exact V|]. unfold name_of.
  destruct V as [[Hm _]|[[Hm _]|[Hm Hlt]]]; rewrite Hm; cbn.
  - eexists. split; [reflexivity|]. apply dec_text_name_ok.
  - eexists. split; [reflexivity|]. pose proof (dec_text_name_ok ((s - 1) / 4)) as H.
    unfold name_okb in *. destruct (dec_text ((s - 1) / 4)); [discriminate|]. cbn [forallb] in *.
    change (ident_char 102) with true. exact H.
  - destruct (nth_opt_some _ _ Hlt) as [t Et]. rewrite Et. exists t. split; [reflexivity|].
    rewrite Forall_forall in Hn. apply Hn. eapply nth_opt_in; eauto.
Qed.

(* ================================================================================== *)
(* Part 3: the hypotheses are satisfiable, and each of them is needed                  *)
(* ================================================================================== *)
Module Examples.
  Definition tk (s : string) : text := text_of_string s.

  (* mirror of the harness language (Lang/LangMachine.v sigLV), kept local to avoid the dependency *)
  Definition sg : sig :=
    [ {| vname := Some (tk "var");  vfields := [TSlot] |};
      {| vname := Some (tk "lam");  vfields := [TBind TApp] |};
      {| vname := Some (tk "app");  vfields := [TApp; TApp] |};
      {| vname := Some (tk "let");  vfields := [TBind TApp; TApp] |};
      {| vname := Some (tk "tag");  vfields := [TSlot; TApp] |};
      {| vname := Some (tk "num");  vfields := [TPay PU32] |};     (* named variant WITH a payload *)
      {| vname := None;            vfields := [TPay PU32] |};
      {| vname := None;            vfields := [TPay PBool] |};
      {| vname := None;            vfields := [TPay PSym] |};
      {| vname := None;            vfields := [TApp] |} ].          (* anonymous non-payload variant *)

  Definition nd (i : nat) (a : list farg) : node := {| nvar := i; nargs := a |}.
  Definition ap := AApp null_appid.

  (* table in which $x $y $z $q are registered *)
  Definition st4 : table := {| fresh_idx := 1; named_vec := [tk "x"; tk "y"; tk "z"; tk "q"] |}.
  Lemma st4_inv : TInv st4.
  Proof.
    constructor; try reflexivity.
    - repeat constructor.
    - repeat (constructor; [cbn; intuition discriminate|]). constructor.
    - cbn. unfold two30. lia.
  Qed.

  (* (let $x (app ?f (var $x)) (tag $q foo))[(var $y) := (lam $z 7)][?a := true] *)
  Definition p0 : pattern :=
    PSubst
      (PSubst
        (PNode (nd 3 [ABind 2 ap; ap])
           [PNode (nd 2 [ap; ap]) [PVarP (tk "f"); PNode (nd 0 [ASlot 2]) []];
            PNode (nd 4 [ASlot 14; ap]) [PNode (nd 8 [APay (PVsym (tk "foo"))]) []]])
        (PNode (nd 0 [ASlot 6]) [])
        (PNode (nd 1 [ABind 10 ap]) [PNode (nd 6 [APay (PVu32 7)]) []]))
      (PVarP (tk "a"))
      (PNode (nd 7 [APay (PVbool true)]) []).

  Ltac wfn := constructor; [reflexivity|reflexivity|reflexivity|repeat constructor].
  Lemma p0_wf : wf_pat sg p0.
  Proof. repeat (first [apply wf_PSubst | apply wf_PVarP | apply wf_PNode; [wfn|reflexivity|] | apply Forall_cons | apply Forall_nil]). Qed.

  Lemma p0_text : wf_text sg st4 p0.
  Proof.
    assert (Hs : forall s, valid st4 s -> slot_ok st4 s).
    { intros s V. apply slot_ok_intro; [exact V|]. repeat constructor. }
    repeat (first [apply wt_PSubst | apply wt_PVarP; reflexivity | apply wt_PNode | apply Forall_cons | apply Forall_nil
                  | exact I | reflexivity
                  | apply Hs; right; right; split; [reflexivity|cbn; lia] ]).
  Qed.

  Example p0_printed : print_pattern sg st4 p0 =
    tk "(let $x (app ?f (var $x)) (tag $q foo))[(var $y) := (lam $z 7)][?a := true]".
  Proof. vm_compute. reflexivity. Qed.

  Example p0_roundtrip : parse_pattern_text false true false sg st4 (print_pattern sg st4 p0) = POk (p0, st4).
  Proof. exact (roundtrip_text sg st4 st4_inv p0 p0_wf p0_text). Qed.

  (* ---- genuine failures of the round trip (each violates exactly one hypothesis) ---- *)

  (* (1) a NAMED variant with a payload field.  Node level is fine (from_syntax (to_syntax n) = Some n),
     but inside parentheses the parser reads `5` as a sub-pattern, mocks it as an applied id, and
     from_syntax rejects [num; <applied id>].  Violates wn_nostr. *)
  Definition c1 : pattern := PNode (nd 5 [APay (PVu32 5)]) [].
  Example c1_node_ok : from_syntax false sg (to_syntax sg (nd 5 [APay (PVu32 5)])) = Some (nd 5 [APay (PVu32 5)]).
  Proof. reflexivity. Qed.
  Example c1_fails : print_pattern sg st4 c1 = tk "(num 5)" /\
    parse_pattern_text false true false sg st4 (print_pattern sg st4 c1) = PFail PEFromSyntax /\
    parse_tokens false false sg (tokens_of sg c1) = PFail PEFromSyntax.
  Proof. repeat split; vm_compute; reflexivity. Qed.

  (* (2) an anonymous variant whose single field is not a payload: printed without parentheses as its
     child, and parsed back as the child.  Violates wn_rt. *)
  Definition c2 : pattern := PNode (nd 9 [ap]) [PVarP (tk "x")].
  Example c2_fails : print_pattern sg st4 c2 = tk "?x" /\
    parse_pattern_text false true false sg st4 (print_pattern sg st4 c2) = POk (PVarP (tk "x"), st4).
  Proof. split; vm_compute; reflexivity. Qed.

  (* (3) a symbol payload that collides with an operator name / is shadowed by an earlier anonymous
     variant: Symbol "7" comes back as the number 7; Symbol "var" fails.  Violates wn_rt (unambiguous). *)
  Definition c3a : pattern := PNode (nd 8 [APay (PVsym (tk "7"))]) [].
  Definition c3b : pattern := PNode (nd 8 [APay (PVsym (tk "var"))]) [].
  Example c3_fails :
    parse_pattern_text false true false sg st4 (print_pattern sg st4 c3a) = POk (PNode (nd 6 [APay (PVu32 7)]) [], st4) /\
    parse_pattern_text false true false sg st4 (print_pattern sg st4 c3b) = PFail PEFromSyntax.
  Proof. split; vm_compute; reflexivity. Qed.

  (* (4) applied ids other than the placeholder are not printed, hence lost.  Violates wn_null. *)
  Definition c4 : pattern := PNode (nd 1 [ABind 10 (AApp {| aid := 3; am := [] |})]) [PVarP (tk "b")].
  Example c4_fails :
    parse_pattern_text false true false sg st4 (print_pattern sg st4 c4) = POk (PNode (nd 1 [ABind 10 ap]) [PVarP (tk "b")], st4).
  Proof. vm_compute. reflexivity. Qed.

  (* (5) character level: a pattern-variable name or a symbol with a non-identifier character, a symbol
     starting with '?', a slot whose registered name contains a space.  Each violates wf_text only. *)
  Definition c5a : pattern := PVarP (tk "a b").
  Definition c5b : pattern := PNode (nd 8 [APay (PVsym (tk "?s"))]) [].
  Definition st5 : table := {| fresh_idx := 1; named_vec := [tk "a b"] |}.
  Definition c5c : pattern := PNode (nd 0 [ASlot 2]) [].
  Example c5_fails :
    parse_pattern_text false true false sg st4 (print_pattern sg st4 c5a) = PFail PERest /\
    parse_pattern_text false true false sg st4 (print_pattern sg st4 c5b) = POk (PVarP (tk "s"), st4) /\
    wf_pat sg c5b /\ TInv st5 /\ valid st5 2 /\ wf_pat sg c5c /\
    parse_pattern_text false true false sg st5 (print_pattern sg st5 c5c) = PFail PEFromSyntax.
  Proof.
    split; [vm_compute; reflexivity|]. split; [vm_compute; reflexivity|].
    split; [apply wf_PNode; [wfn|reflexivity|constructor]|].
    split; [constructor; try reflexivity; [repeat constructor|repeat constructor; cbn; tauto|cbn; unfold two30; lia]|].
    split; [right; right; split; [reflexivity|cbn; lia]|].
    split; [apply wf_PNode; [wfn|reflexivity|constructor]|].
    vm_compute. reflexivity.
  Qed.

  (* an identifier may contain ":=" inside (only a leading ":=" is a token) *)
  Example ident_with_coloneq : ident_okb (tk "a:=b") = true /\ ident_okb (tk ":=b") = false /\ ident_okb (tk ":") = true.
  Proof. repeat split. Qed.
End Examples.

Print Assumptions Examples.p0_roundtrip.
