(* Run/RunMachine.v — the saturation drivers as a correspondence machine (component `egq`).
   The case carries the trace the implementation's hook recorded:
     (egq cfg terms ops motif rules (mode run|eqsat|manual) (limits <iter> <node>) (hook none|<j>)
          (trace (t <changed> <nodes> <classes> <live> <same>) ...))
   The abstract loops of Run/Runner.v are instantiated with the trace as oracle: the e-graph state
   is the number of `apply_rewrites` calls made so far, `apply k` answers with the k-th recorded
   progress bit, the counters are the recorded counters, the hook fails in iteration j, the clock is
   never late (the harness sets a time limit of an hour).  The report computed by the model must be the
   report of Runner::run / run_eqsat. *)
From SE Require Import Base.Prelude Run.Runner.
From Coq Require Import Arith.

Record tentry := { te_changed : bool; te_nodes : nat; te_classes : nat; te_live : nat }.

Definition dec_bool (e : sexp) : option bool :=
  match e with Sym "true" => Some true | Sym "false" => Some false | _ => None end.

Definition dec_tentry (e : sexp) : option tentry :=
  match e with
  | Lst [Sym "t"; c; Num n; Num cl; Num lv; _] =>
      match dec_bool c with
      | Some b => Some {| te_changed := b; te_nodes := N.to_nat n; te_classes := N.to_nat cl; te_live := N.to_nat lv |}
      | None => None
      end
  | _ => None
  end.

Fixpoint dec_trace (l : list sexp) : option (list tentry) :=
  match l with
  | [] => Some []
  | e :: t => match dec_tentry e, dec_trace t with Some x, Some t' => Some (x :: t') | _, _ => None end
  end.

Section Oracle.
  Variable tr : list tentry.
  Definition entry (k : nat) : tentry :=
    nth k tr {| te_changed := false; te_nodes := 0; te_classes := 0; te_live := 0 |}.
  (* state = number of applications so far *)
  Definition o_apply (s : nat) : bool * nat := (te_changed (entry s), S s).
  Definition o_nodes (s : nat) : nat := te_nodes (entry (pred s)).
  Definition o_classes (s : nat) : nat := te_classes (entry (pred s)).
  Definition o_live (s : nat) : nat := te_live (entry (pred s)).
  Definition o_hook (j : option nat) (k : nat) (_ : nat) : option nat :=
    match j with Some j' => if Nat.eqb k j' then Some k else None | None => None end.
  Definition o_late (_ : nat) : bool := false.
End Oracle.

Definition reason_sexp (r : StopReason) : sexp :=
  match r with
  | Saturated => Sym "saturated"
  | IterationLimit => Sym "iterlimit"
  | TimeLimit => Sym "timelimit"
  | NodeLimit => Sym "nodelimit"
  | Other e => Lst [Sym "other"; Num (N.of_nat e)]
  end.

Definition report_sexp (tr : list tentry) (x : option (Report * nat)) : sexp :=
  match x with
  | None => Lst [Sym "report"; Sym "out-of-fuel"]
  | Some (r, sf) =>
      if Nat.ltb (List.length tr) sf then Lst [Sym "report"; Sym "needs-more-iterations-than-the-implementation-made"]
      else Lst [Sym "report"; Num (N.of_nat (iterations r)); reason_sexp (stop_reason r);
                Num (N.of_nat (egraph_nodes r)); Num (N.of_nat (egraph_classes r)); Lst [Sym "applies"; Num (N.of_nat sf)]]
  end.

Definition run_egq (args : list sexp) : sexp :=
  match args with
  | _ :: _ :: _ :: _ :: _ :: Lst [Sym "mode"; Sym mode] :: Lst [Sym "limits"; Num il; Num nl] :: Lst [Sym "hook"; h] :: Lst (Sym "trace" :: tl) :: _ =>
      match dec_trace tl with
      | None => Sym "bad-trace"
      | Some tr =>
          let j := match h with Num j => Some (N.to_nat j) | _ => None end in
          let fuel := S (S (List.length tr)) in
          if String.eqb mode "run" then
            report_sexp tr (runner_run nat (o_apply tr) (o_nodes tr) (o_classes tr) (o_hook j) o_late
                                       (mkLimits (N.to_nat il) (N.to_nat nl)) fuel 0%nat)
          else if String.eqb mode "eqsat" then
            report_sexp tr (run_eqsat nat (o_apply tr) (o_nodes tr) (o_live tr) (o_hook j) o_late (N.to_nat il) fuel 0%nat)
          else Lst [Sym "report"; Sym "manual"]
      end
  | _ => Sym "bad-case"
  end.
