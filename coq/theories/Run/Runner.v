(* Run/Runner.v — abstract model of the two equality-saturation drivers of the implementation:
     - `Runner::run` / `Runner::run_one` / `RunnerLimits::check_limits`   (src/run/runner.rs)
     - `run_eqsat`                                                        (src/run/run.rs)
   over an abstract e-graph state type `St`.  Everything is computable (fuelled loops, `None` =
   out of fuel) so that the section can later be instantiated with a concrete e-graph model and
   extracted.

   Modelling decisions (see also RunnerFacts.v):
     - `apply` is `apply_rewrites`: it returns `(prog != eg.progress(), new state)`.
     - the hooks of one iteration are ONE oracle `hook k s` (`try_for_each` over the hook vector,
       first `Err` wins; `None` = every hook returned `Ok(())`).  The oracle is indexed by the
       iteration index `k` (hooks are `FnMut`, so their answer may depend on history).  Hooks are
       modelled as observers of the e-graph; a hook that mutates the e-graph is outside this model.
     - the clock is an oracle: `late k` = "the time-limit test is true when evaluated in iteration k"
       (`elapsed > time_limit` for the Runner, `elapsed.as_secs() >= time_limit` for run_eqsat).
       It is consulted exactly where the code evaluates `elapsed()`/the comparison matters.
     - `Report.total_time : f64` is not modelled. *)
From Coq Require Import Arith Bool.

(* src/run/report.rs : StopReason<T>; the custom error type is `nat` here *)
Inductive StopReason : Type :=
  | Saturated
  | IterationLimit
  | TimeLimit
  | NodeLimit
  | Other (e : nat).

(* src/run/report.rs : Report<T> (without total_time) *)
Record Report : Type := mkReport {
  iterations : nat;
  stop_reason : StopReason;
  egraph_nodes : nat;
  egraph_classes : nat
}.

(* src/run/runner.rs : RunnerLimits (start_time/time_limit live in the `late` oracle) *)
Record RunnerLimits : Type := mkLimits {
  iter_limit : nat;
  node_limit : nat
}.

(* RunnerResult<(), E> = Result<(), StopReason<E>> : None = Ok(()), Some r = Err(r) *)
Definition RunnerResult : Type := option StopReason.

(* Result::and_then specialised to RunnerResult<()> : an earlier Err is kept *)
Definition and_then (r : RunnerResult) (f : unit -> RunnerResult) : RunnerResult :=
  match r with
  | None => f tt
  | Some e => Some e
  end.

Section Runner.
  Variable St : Type.                       (* e-graph state *)
  Variable apply : St -> bool * St.         (* apply_rewrites *)
  Variable nodes : St -> nat.               (* total_number_of_nodes() *)
  Variable nclasses : St -> nat.            (* classes.len() *)
  Variable nlive : St -> nat.               (* ids().len() *)
  Variable hook : nat -> St -> option nat.  (* None = Ok(()), Some e = Err(e) *)
  Variable late : nat -> bool.

  (* ---------------------------------------------------------------- *)
  (* Runner                                                            *)

  (* RunnerLimits::check_limits(iteration, eg).  `elapsed` is computed first but only compared
     in the third branch; the oracle is indexed by the same iteration number. *)
  Definition check_limits (lim : RunnerLimits) (iteration : nat) (s : St) : RunnerResult :=
    if iter_limit lim <? iteration then Some IterationLimit
    else if node_limit lim <? nodes s then Some NodeLimit
    else if late iteration then Some TimeLimit
    else None.

  (* all hooks of iteration k, `.map_err(StopReason::Other)` *)
  Definition run_hooks (k : nat) (s : St) : RunnerResult :=
    match hook k s with
    | None => None
    | Some e => Some (Other e)
    end.

  (* Runner::run_one.  `k` = self.iterations.len() on entry (number of iterations pushed BEFORE
     this one).  Returns the new e-graph and the `result` that is stored into
     `self.stop_reason` when it is an `Err`. *)
  Definition run_one (lim : RunnerLimits) (k : nat) (s : St) : St * RunnerResult :=
    let '(progress, s') := apply s in
    let result : RunnerResult := None in
    let result :=
      and_then (and_then result (fun _ => run_hooks k s'))
               (fun _ => check_limits lim k s') in
    let result :=
      if negb progress then and_then result (fun _ => Some Saturated) else result in
    (s', result).

  (* Runner::run, started with `stop_reason = None` and `iterations.len() = k`.
     Returns the Report and the final e-graph. *)
  Fixpoint run_loop (lim : RunnerLimits) (fuel : nat) (k : nat) (s : St)
    : option (Report * St) :=
    match fuel with
    | O => None
    | S fuel' =>
        let '(s', result) := run_one lim k s in
        (* self.iterations.push(iter)  =>  len = S k *)
        match result with
        | Some reason =>
            Some ({| iterations := S k;
                     stop_reason := reason;
                     egraph_nodes := nodes s';
                     egraph_classes := nclasses s' |}, s')
        | None => run_loop lim fuel' (S k) s'
        end
    end.

  (* a fresh Runner: iterations = vec![] *)
  Definition runner_run (lim : RunnerLimits) (fuel : nat) (s : St) : option (Report * St) :=
    run_loop lim fuel 0 s.

  (* ---------------------------------------------------------------- *)
  (* run_eqsat                                                         *)

  (* one pass through the body of `loop { .. }` with `iterations = i`; `None` = fell through to
     `iterations += 1` *)
  Definition eqsat_one (ilimit : nat) (i : nat) (s : St) : St * option StopReason :=
    let '(did_change, s') := apply s in
    match hook i s' with
    | Some e => (s', Some (Other e))
    | None =>
        if negb did_change then (s', Some Saturated)
        else if ilimit <=? i then (s', Some IterationLimit)
        else if late i then (s', Some TimeLimit)
        else (s', None)
    end.

  Fixpoint eqsat_loop (ilimit : nat) (fuel : nat) (i : nat) (s : St)
    : option (Report * St) :=
    match fuel with
    | O => None
    | S fuel' =>
        let '(s', stop) := eqsat_one ilimit i s in
        match stop with
        | Some reason =>
            Some ({| iterations := i;
                     stop_reason := reason;
                     egraph_nodes := nodes s';
                     egraph_classes := nlive s' |}, s')
        | None => eqsat_loop ilimit fuel' (S i) s'
        end
    end.

  Definition run_eqsat (ilimit : nat) (fuel : nat) (s : St) : option (Report * St) :=
    eqsat_loop ilimit fuel 0 s.

  (* ---------------------------------------------------------------- *)
  (* the e-graph after n applications of the rewrites (hooks do not change it) *)
  Fixpoint steps (n : nat) (s : St) : St :=
    match n with
    | O => s
    | S n' => steps n' (snd (apply s))
    end.

End Runner.
