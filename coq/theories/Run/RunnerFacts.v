(* Run/RunnerFacts.v — facts about the abstract saturation loops of Run/Runner.v, valid for EVERY
   instantiation of the e-graph state, `apply`, the counters, the hook oracle and the clock oracle,
   and for all limits.

   Main theorems (closed under the global context, see the end of the file):
     run_terminates / eqsat_terminates           termination within iter_limit (+ constant)
     run_stop_reason_true / eqsat_stop_reason_true   the reported stop reason is the true one
     run_report_counts / eqsat_report_counts     the counters in the report are those of s_f
     run_saturated_P / eqsat_saturated_P         composition lemma for "saturated => no change" *)
From Coq Require Import Arith Bool Lia.
From SE Require Import Run.Runner.

Section RunnerFacts.
  Variable St : Type.
  Variable apply : St -> bool * St.
  Variable nodes : St -> nat.
  Variable nclasses : St -> nat.
  Variable nlive : St -> nat.
  Variable hook : nat -> St -> option nat.
  Variable late : nat -> bool.

  Local Notation check_limits := (check_limits St nodes late).
  Local Notation run_hooks := (run_hooks St hook).
  Local Notation run_one := (run_one St apply nodes hook late).
  Local Notation run_loop := (run_loop St apply nodes nclasses hook late).
  Local Notation runner_run := (runner_run St apply nodes nclasses hook late).
  Local Notation eqsat_one := (eqsat_one St apply hook late).
  Local Notation eqsat_loop := (eqsat_loop St apply nodes nlive hook late).
  Local Notation run_eqsat := (run_eqsat St apply nodes nlive hook late).
  Local Notation steps := (steps St apply).
  Local Notation step s := (snd (apply s)).

  (* ================================================================ *)
  (* What a stop reason MEANS for one iteration                        *)

  (* Runner::run_one executed as iteration number k (k iterations pushed before) on e-graph s *)
  Definition runner_reason_true (lim : RunnerLimits) (k : nat) (s : St) (r : StopReason) : Prop :=
    let s' := step s in
    match r with
    | Saturated =>
        fst (apply s) = false /\ hook k s' = None /\
        k <= iter_limit lim /\ nodes s' <= node_limit lim /\ late k = false
    | IterationLimit =>
        hook k s' = None /\ k > iter_limit lim
    | NodeLimit =>
        hook k s' = None /\ k <= iter_limit lim /\ nodes s' > node_limit lim
    | TimeLimit =>
        hook k s' = None /\ k <= iter_limit lim /\ nodes s' <= node_limit lim /\ late k = true
    | Other e =>
        hook k s' = Some e
    end.

  (* one pass of the run_eqsat loop body with `iterations = i` on e-graph s *)
  Definition eqsat_reason_true (ilimit : nat) (i : nat) (s : St) (r : StopReason) : Prop :=
    let s' := step s in
    match r with
    | Saturated => fst (apply s) = false /\ hook i s' = None
    | IterationLimit => fst (apply s) = true /\ hook i s' = None /\ i >= ilimit
    | TimeLimit => fst (apply s) = true /\ hook i s' = None /\ i < ilimit /\ late i = true
    | NodeLimit => False                       (* run_eqsat has no node limit *)
    | Other e => hook i s' = Some e
    end.

  (* ================================================================ *)
  (* One iteration                                                     *)

  Lemma run_one_fst : forall lim k s, fst (run_one lim k s) = step s.
  Proof. intros; unfold Runner.run_one; destruct (apply s); reflexivity. Qed.

  Lemma check_limits_None : forall lim k s,
    check_limits lim k s = None <->
    k <= iter_limit lim /\ nodes s <= node_limit lim /\ late k = false.
  Proof.
    intros lim k s; unfold Runner.check_limits.
    destruct (iter_limit lim <? k) eqn:E1;
      [apply Nat.ltb_lt in E1 | apply Nat.ltb_ge in E1].
    { split; [discriminate | lia]. }
    destruct (node_limit lim <? nodes s) eqn:E2;
      [apply Nat.ltb_lt in E2 | apply Nat.ltb_ge in E2].
    { split; [discriminate | lia]. }
    destruct (late k).
    { split; [discriminate | intros (_ & _ & H); discriminate]. }
    split; auto.
  Qed.

  Lemma check_limits_Some : forall lim k s r,
    check_limits lim k s = Some r ->
    (r = IterationLimit /\ k > iter_limit lim) \/
    (r = NodeLimit /\ k <= iter_limit lim /\ nodes s > node_limit lim) \/
    (r = TimeLimit /\ k <= iter_limit lim /\ nodes s <= node_limit lim /\ late k = true).
  Proof.
    intros lim k s r; unfold Runner.check_limits.
    destruct (iter_limit lim <? k) eqn:E1;
      [apply Nat.ltb_lt in E1 | apply Nat.ltb_ge in E1].
    { intros H; inversion H; left; split; [reflexivity | lia]. }
    destruct (node_limit lim <? nodes s) eqn:E2;
      [apply Nat.ltb_lt in E2 | apply Nat.ltb_ge in E2].
    { intros H; inversion H; right; left; repeat split; lia. }
    destruct (late k) eqn:E3.
    { intros H; inversion H; right; right; repeat split; auto. }
    discriminate.
  Qed.

  (* the iteration-limit branch fires as soon as the hooks let it *)
  Lemma check_limits_over : forall lim k s,
    iter_limit lim < k -> check_limits lim k s = Some IterationLimit.
  Proof.
    intros lim k s H; unfold Runner.check_limits.
    apply Nat.ltb_lt in H; rewrite H; reflexivity.
  Qed.

  Lemma run_one_reason : forall lim k s r,
    snd (run_one lim k s) = Some r -> runner_reason_true lim k s r.
  Proof.
    intros lim k s r; unfold Runner.run_one, runner_reason_true, Runner.run_hooks.
    destruct (apply s) as [p s'] eqn:Ea; cbn [fst snd and_then].
    destruct (hook k s') as [e|] eqn:Eh.
    - (* a hook failed: `and_then` keeps Other e through the limits and the Saturated step *)
      destruct p; cbn; intros H; inversion H; subst; reflexivity.
    - destruct (check_limits lim k s') as [r'|] eqn:Ec.
      + intros H.
        assert (Hr : r' = r) by (destruct p; cbn in H; congruence).
        clear H; subst r'.
        apply check_limits_Some in Ec.
        destruct Ec as [(-> & H1) | [(-> & H1 & H2) | (-> & H1 & H2 & H3)]];
          repeat split; auto.
      + apply check_limits_None in Ec. destruct Ec as (H1 & H2 & H3).
        destruct p; cbn; intros H; inversion H; subst.
        repeat split; auto.
  Qed.

  (* iteration number iter_limit+1 (or later) always stops *)
  Lemma run_one_over : forall lim k s,
    iter_limit lim < k -> snd (run_one lim k s) <> None.
  Proof.
    intros lim k s H; unfold Runner.run_one, Runner.run_hooks.
    destruct (apply s) as [p s']; cbn [fst snd and_then].
    destruct (hook k s').
    - destruct p; cbn; discriminate.
    - rewrite (check_limits_over lim k s' H). destruct p; cbn; discriminate.
  Qed.

  Lemma eqsat_one_fst : forall il i s, fst (eqsat_one il i s) = step s.
  Proof.
    intros; unfold Runner.eqsat_one; destruct (apply s) as [p s']; cbn.
    destruct (hook i s'); [reflexivity|].
    destruct p; cbn; [|reflexivity].
    destruct (il <=? i); [reflexivity|]. destruct (late i); reflexivity.
  Qed.

  Lemma eqsat_one_reason : forall il i s r,
    snd (eqsat_one il i s) = Some r -> eqsat_reason_true il i s r.
  Proof.
    intros il i s r; unfold Runner.eqsat_one, eqsat_reason_true.
    destruct (apply s) as [p s']; cbn [fst snd].
    destruct (hook i s') as [e|] eqn:Eh.
    { cbn; intros H; inversion H; subst; reflexivity. }
    destruct p; cbn [negb].
    2:{ cbn; intros H; inversion H; subst; split; reflexivity. }
    destruct (il <=? i) eqn:E1; [apply Nat.leb_le in E1 | apply Nat.leb_gt in E1].
    { cbn; intros H; inversion H; subst; repeat split; auto. }
    destruct (late i) eqn:E2; cbn; intros H; inversion H; subst.
    repeat split; auto.
  Qed.

  (* pass number ilimit (or later) always stops *)
  Lemma eqsat_one_over : forall il i s,
    il <= i -> snd (eqsat_one il i s) <> None.
  Proof.
    intros il i s H; unfold Runner.eqsat_one.
    destruct (apply s) as [p s']; cbn.
    destruct (hook i s'); [cbn; discriminate|].
    destruct p; cbn; [|discriminate].
    apply Nat.leb_le in H; rewrite H; cbn; discriminate.
  Qed.

  (* ================================================================ *)
  (* Full characterisation of a returning loop                          *)

  Lemma steps_S : forall n s, steps (S n) s = step (steps n s).
  Proof. induction n; intros s; [reflexivity|]. cbn in *. apply IHn. Qed.

  (* Runner::run started with k iterations already pushed: it returned after n further
     non-stopping iterations and one last, stopping, iteration (number k+n) on e-graph
     `steps n s`. *)
  Lemma run_loop_spec : forall lim fuel k s r sf,
    run_loop lim fuel k s = Some (r, sf) ->
    exists n,
      n < fuel /\
      iterations r = S (k + n) /\
      sf = step (steps n s) /\
      snd (run_one lim (k + n) (steps n s)) = Some (stop_reason r) /\
      (forall j, j < n -> snd (run_one lim (k + j) (steps j s)) = None) /\
      egraph_nodes r = nodes sf /\
      egraph_classes r = nclasses sf.
  Proof.
    intros lim; induction fuel as [|fuel IH]; intros k s r sf H; [discriminate|].
    cbn [Runner.run_loop] in H.
    pose proof (run_one_fst lim k s) as Hf.
    destruct (run_one lim k s) as [s' res] eqn:E1; cbn in Hf; subst s'.
    destruct res as [reason|].
    - inversion H; subst; clear H. exists 0.
      rewrite Nat.add_0_r; cbn [Runner.steps iterations stop_reason egraph_nodes egraph_classes].
      rewrite E1; cbn. repeat split; auto; try lia.
    - apply IH in H. destruct H as (n & Hn & Hi & Hs & Hl & Hp & Hc1 & Hc2).
      exists (S n). cbn [Runner.steps].
      replace (k + S n) with (S k + n) by lia.
      repeat split; auto; try lia.
      intros [|j] Hj.
      + rewrite Nat.add_0_r; cbn [Runner.steps]. rewrite E1; reflexivity.
      + replace (k + S j) with (S k + j) by lia. cbn [Runner.steps]. apply Hp; lia.
  Qed.

  Lemma eqsat_loop_spec : forall il fuel i s r sf,
    eqsat_loop il fuel i s = Some (r, sf) ->
    exists n,
      n < fuel /\
      iterations r = i + n /\
      sf = step (steps n s) /\
      snd (eqsat_one il (i + n) (steps n s)) = Some (stop_reason r) /\
      (forall j, j < n -> snd (eqsat_one il (i + j) (steps j s)) = None) /\
      egraph_nodes r = nodes sf /\
      egraph_classes r = nlive sf.
  Proof.
    intros il; induction fuel as [|fuel IH]; intros i s r sf H; [discriminate|].
    cbn [Runner.eqsat_loop] in H.
    pose proof (eqsat_one_fst il i s) as Hf.
    destruct (eqsat_one il i s) as [s' res] eqn:E1; cbn in Hf; subst s'.
    destruct res as [reason|].
    - inversion H; subst; clear H. exists 0.
      rewrite Nat.add_0_r; cbn [Runner.steps iterations stop_reason egraph_nodes egraph_classes].
      rewrite E1; cbn. repeat split; auto; try lia.
    - apply IH in H. destruct H as (n & Hn & Hi & Hs & Hl & Hp & Hc1 & Hc2).
      exists (S n). cbn [Runner.steps].
      replace (i + S n) with (S i + n) by lia.
      repeat split; auto; try lia.
      intros [|j] Hj.
      + rewrite Nat.add_0_r; cbn [Runner.steps]. rewrite E1; reflexivity.
      + replace (i + S j) with (S i + j) by lia. cbn [Runner.steps]. apply Hp; lia.
  Qed.

  (* ================================================================ *)
  (* 1. Termination                                                     *)

  (* enough fuel to reach iteration number iter_limit+1 is enough *)
  Lemma run_loop_terminates : forall lim fuel k s,
    iter_limit lim + 2 <= k + fuel -> 0 < fuel ->
    exists r sf, run_loop lim fuel k s = Some (r, sf).
  Proof.
    intros lim; induction fuel as [|fuel IH]; intros k s Hf Hpos; [lia|].
    cbn [Runner.run_loop].
    destruct (run_one lim k s) as [s' res] eqn:E1.
    destruct res as [reason|]; [eauto|].
    destruct (Nat.le_gt_cases k (iter_limit lim)) as [Hk|Hk].
    - apply IH; lia.
    - exfalso. apply (run_one_over lim k s Hk). rewrite E1; reflexivity.
  Qed.

  Lemma run_loop_iterations : forall lim fuel k s r sf,
    run_loop lim fuel k s = Some (r, sf) ->
    S k <= iterations r /\ iterations r <= Nat.max (S k) (iter_limit lim + 2).
  Proof.
    intros lim fuel k s r sf H.
    apply run_loop_spec in H. destruct H as (n & _ & Hi & _ & _ & Hp & _).
    split; [lia|].
    destruct n as [|n]; [lia|].
    (* iteration k+n did not stop, hence k+n <= iter_limit *)
    assert (Hn : snd (run_one lim (k + n) (steps n s)) = None) by (apply Hp; lia).
    destruct (Nat.le_gt_cases (k + n) (iter_limit lim)) as [Hk|Hk]; [lia|].
    exfalso; exact (run_one_over lim _ _ Hk Hn).
  Qed.

  (* Runner::run never runs out of fuel iter_limit+2 (a fortiori iter_limit+3), performs at
     least one and at most iter_limit+2 iterations. *)
  Theorem run_terminates : forall lim fuel s,
    iter_limit lim + 2 <= fuel ->
    exists r sf,
      runner_run lim fuel s = Some (r, sf) /\
      1 <= iterations r /\ iterations r <= iter_limit lim + 2.
  Proof.
    intros lim fuel s Hf. unfold Runner.runner_run.
    destruct (run_loop_terminates lim fuel 0 s) as (r & sf & H); try lia.
    exists r, sf. split; [exact H|].
    apply run_loop_iterations in H. lia.
  Qed.

  (* the literal instance asked for *)
  Corollary run_terminates_3 : forall lim s,
    exists r sf,
      runner_run lim (iter_limit lim + 3) s = Some (r, sf) /\
      iterations r <= iter_limit lim + 2.
  Proof.
    intros lim s. destruct (run_terminates lim (iter_limit lim + 3) s) as (r & sf & H & _ & H2);
      [lia|eauto].
  Qed.

  Lemma eqsat_loop_terminates : forall il fuel i s,
    il + 1 <= i + fuel -> 0 < fuel ->
    exists r sf, eqsat_loop il fuel i s = Some (r, sf).
  Proof.
    intros il; induction fuel as [|fuel IH]; intros i s Hf Hpos; [lia|].
    cbn [Runner.eqsat_loop].
    destruct (eqsat_one il i s) as [s' res] eqn:E1.
    destruct res as [reason|]; [eauto|].
    destruct (Nat.le_gt_cases il i) as [Hk|Hk].
    - exfalso. apply (eqsat_one_over il i s Hk). rewrite E1; reflexivity.
    - apply IH; lia.
  Qed.

  Lemma eqsat_loop_iterations : forall il fuel i s r sf,
    eqsat_loop il fuel i s = Some (r, sf) ->
    i <= iterations r /\ iterations r <= Nat.max i il.
  Proof.
    intros il fuel i s r sf H.
    apply eqsat_loop_spec in H. destruct H as (n & _ & Hi & _ & _ & Hp & _).
    split; [lia|].
    destruct n as [|n]; [lia|].
    assert (Hn : snd (eqsat_one il (i + n) (steps n s)) = None) by (apply Hp; lia).
    destruct (Nat.le_gt_cases il (i + n)) as [Hk|Hk]; [|lia].
    exfalso; exact (eqsat_one_over il _ _ Hk Hn).
  Qed.

  (* run_eqsat never runs out of fuel iter_limit+1 (a fortiori +2); the reported count is at
     most iter_limit (the number of calls of apply_rewrites is `iterations + 1`). *)
  Theorem eqsat_terminates : forall il fuel s,
    il + 1 <= fuel ->
    exists r sf,
      run_eqsat il fuel s = Some (r, sf) /\ iterations r <= il.
  Proof.
    intros il fuel s Hf. unfold Runner.run_eqsat.
    destruct (eqsat_loop_terminates il fuel 0 s) as (r & sf & H); try lia.
    exists r, sf. split; [exact H|].
    apply eqsat_loop_iterations in H. lia.
  Qed.

  Corollary eqsat_terminates_2 : forall il s,
    exists r sf,
      run_eqsat il (il + 2) s = Some (r, sf) /\ iterations r <= il.
  Proof. intros il s. apply eqsat_terminates; lia. Qed.

  (* the result does not depend on the amount of (sufficient) fuel *)
  Lemma run_loop_fuel_mono : forall lim fuel fuel' k s x,
    run_loop lim fuel k s = Some x -> fuel <= fuel' -> run_loop lim fuel' k s = Some x.
  Proof.
    intros lim; induction fuel as [|fuel IH]; intros fuel' k s x H Hle; [discriminate|].
    destruct fuel' as [|fuel']; [lia|].
    cbn [Runner.run_loop] in *.
    destruct (run_one lim k s) as [s' [reason|]]; [exact H|].
    apply IH; [exact H | lia].
  Qed.

  Lemma eqsat_loop_fuel_mono : forall il fuel fuel' i s x,
    eqsat_loop il fuel i s = Some x -> fuel <= fuel' -> eqsat_loop il fuel' i s = Some x.
  Proof.
    intros il; induction fuel as [|fuel IH]; intros fuel' i s x H Hle; [discriminate|].
    destruct fuel' as [|fuel']; [lia|].
    cbn [Runner.eqsat_loop] in *.
    destruct (eqsat_one il i s) as [s' [reason|]]; [exact H|].
    apply IH; [exact H | lia].
  Qed.

  (* ================================================================ *)
  (* 2. The stop reason is true                                         *)

  (* For the returned report r and final e-graph s_f: there is a LAST iteration, with index
     k = iterations r - 1 (number of iterations pushed before it), executed on the e-graph
     s_prev = steps k s reached by k applications of the rewrites; s_f is the result of the last
     `apply`; every earlier iteration had `Ok(())`; and the stop reason is true of the last
     iteration in the sense of [runner_reason_true]:
       Saturated      -> the last `apply` returned false, no hook failed, no limit fired
       IterationLimit -> k > iter_limit             (`iteration > self.iter_limit`)
       NodeLimit      -> nodes s_f > node_limit
       TimeLimit      -> late k = true
       Other e        -> hook k s_f = Some e *)
  Theorem run_stop_reason_true : forall lim fuel s r sf,
    runner_run lim fuel s = Some (r, sf) ->
    exists k,
      iterations r = S k /\
      sf = step (steps k s) /\
      (forall j, j < k -> snd (run_one lim j (steps j s)) = None) /\
      runner_reason_true lim k (steps k s) (stop_reason r).
  Proof.
    intros lim fuel s r sf H. unfold Runner.runner_run in H.
    apply run_loop_spec in H. cbn [Nat.add] in H.
    destruct H as (n & _ & Hi & Hs & Hl & Hp & _).
    exists n. repeat split; auto. apply run_one_reason; exact Hl.
  Qed.

  (* the same, reason by reason, in terms of s_f *)
  Corollary run_stop_reason_cases : forall lim fuel s r sf,
    runner_run lim fuel s = Some (r, sf) ->
    exists k s_prev,
      iterations r = S k /\ s_prev = steps k s /\ sf = step s_prev /\
      match stop_reason r with
      | Saturated =>
          fst (apply s_prev) = false /\ hook k sf = None /\
          k <= iter_limit lim /\ nodes sf <= node_limit lim /\ late k = false
      | IterationLimit => k > iter_limit lim
      | NodeLimit => nodes sf > node_limit lim
      | TimeLimit => late k = true
      | Other e => hook k sf = Some e
      end.
  Proof.
    intros lim fuel s r sf H.
    destruct (run_stop_reason_true _ _ _ _ _ H) as (k & Hi & Hs & _ & Hr).
    exists k, (steps k s). repeat split; auto.
    unfold runner_reason_true in Hr. rewrite <- Hs in Hr.
    destruct (stop_reason r); try exact Hr; decompose [and] Hr; assumption.
  Qed.

  (* run_eqsat: the last pass has index k = iterations r (the counter is NOT incremented for the
     pass that breaks):
       Saturated      -> the last `apply` returned false and the hook did not fail
       IterationLimit -> k >= iter_limit            (`iterations >= iter_limit`)
       TimeLimit      -> late k = true
       NodeLimit      -> impossible
       Other e        -> hook k s_f = Some e *)
  Theorem eqsat_stop_reason_true : forall il fuel s r sf,
    run_eqsat il fuel s = Some (r, sf) ->
    exists k,
      iterations r = k /\
      sf = step (steps k s) /\
      (forall j, j < k -> snd (eqsat_one il j (steps j s)) = None) /\
      eqsat_reason_true il k (steps k s) (stop_reason r).
  Proof.
    intros il fuel s r sf H. unfold Runner.run_eqsat in H.
    apply eqsat_loop_spec in H. cbn [Nat.add] in H.
    destruct H as (n & _ & Hi & Hs & Hl & Hp & _).
    exists n. repeat split; auto. apply eqsat_one_reason; exact Hl.
  Qed.

  Corollary eqsat_stop_reason_cases : forall il fuel s r sf,
    run_eqsat il fuel s = Some (r, sf) ->
    let k := iterations r in
    let s_prev := steps k s in
    sf = step s_prev /\
    match stop_reason r with
    | Saturated => fst (apply s_prev) = false /\ hook k sf = None
    | IterationLimit => k >= il
    | TimeLimit => late k = true
    | NodeLimit => False
    | Other e => hook k sf = Some e
    end.
  Proof.
    intros il fuel s r sf H.
    destruct (eqsat_stop_reason_true _ _ _ _ _ H) as (k & Hi & Hs & _ & Hr).
    cbn zeta. rewrite Hi. split; [exact Hs|].
    unfold eqsat_reason_true in Hr. rewrite <- Hs in Hr.
    destruct (stop_reason r); try exact Hr; decompose [and] Hr; assumption.
  Qed.

  (* ================================================================ *)
  (* 3. The counters of the report                                      *)

  Theorem run_report_counts : forall lim fuel s r sf,
    runner_run lim fuel s = Some (r, sf) ->
    egraph_nodes r = nodes sf /\ egraph_classes r = nclasses sf.
  Proof.
    intros lim fuel s r sf H. unfold Runner.runner_run in H.
    apply run_loop_spec in H. destruct H as (n & _ & _ & _ & _ & _ & H1 & H2). auto.
  Qed.

  Theorem eqsat_report_counts : forall il fuel s r sf,
    run_eqsat il fuel s = Some (r, sf) ->
    egraph_nodes r = nodes sf /\ egraph_classes r = nlive sf.
  Proof.
    intros il fuel s r sf H. unfold Runner.run_eqsat in H.
    apply eqsat_loop_spec in H. destruct H as (n & _ & _ & _ & _ & _ & H1 & H2). auto.
  Qed.

  (* ================================================================ *)
  (* 4. Composition lemma for "Saturated means nothing changed"         *)

  Section NoChange.
    Variable P : St -> St -> Prop.
    (* the obligation on the concrete apply_rewrites: an unchanged progress measure means
       nothing observable changed *)
    Hypothesis apply_no_change : forall s, fst (apply s) = false -> P s (step s).

    Theorem run_saturated_P : forall lim fuel s r sf,
      runner_run lim fuel s = Some (r, sf) ->
      stop_reason r = Saturated ->
      exists s_prev,
        s_prev = steps (iterations r - 1) s /\ sf = step s_prev /\ P s_prev sf.
    Proof.
      intros lim fuel s r sf H Hsat.
      destruct (run_stop_reason_true _ _ _ _ _ H) as (k & Hi & Hs & _ & Hr).
      rewrite Hsat in Hr. destruct Hr as (Hf & _).
      exists (steps k s). rewrite Hi. replace (S k - 1) with k by lia.
      repeat split; auto. rewrite Hs. apply apply_no_change; exact Hf.
    Qed.

    Theorem eqsat_saturated_P : forall il fuel s r sf,
      run_eqsat il fuel s = Some (r, sf) ->
      stop_reason r = Saturated ->
      exists s_prev,
        s_prev = steps (iterations r) s /\ sf = step s_prev /\ P s_prev sf.
    Proof.
      intros il fuel s r sf H Hsat.
      destruct (eqsat_stop_reason_true _ _ _ _ _ H) as (k & Hi & Hs & _ & Hr).
      rewrite Hsat in Hr. destruct Hr as (Hf & _).
      exists (steps k s). rewrite Hi.
      repeat split; auto. rewrite Hs. apply apply_no_change; exact Hf.
    Qed.
  End NoChange.

End RunnerFacts.

(* ================================================================ *)
(* The bounds of section 1 are tight (always-progressing apply, silent hooks, slow clock):
   Runner::run with iter_limit = 3 performs 5 = iter_limit + 2 iterations,
   run_eqsat   with iter_limit = 3 reports 3 iterations after 4 = iter_limit + 1 calls of apply. *)
Example run_bound_tight :
  runner_run nat (fun s => (true, S s)) (fun s => s) (fun s => s) (fun _ _ => None)
             (fun _ => false) (mkLimits 3 1000) 5 0
  = Some (mkReport 5 IterationLimit 5 5, 5).
Proof. reflexivity. Qed.
Example eqsat_bound_tight :
  run_eqsat nat (fun s => (true, S s)) (fun s => s) (fun s => s) (fun _ _ => None)
            (fun _ => false) 3 4 0
  = Some (mkReport 3 IterationLimit 4 4, 4).
Proof. reflexivity. Qed.
(* an immediately saturated e-graph: the two drivers report different iteration counts *)
Example saturated_counts_differ :
  (option_map (fun x => iterations (fst x))
     (runner_run nat (fun s => (false, s)) (fun s => s) (fun s => s) (fun _ _ => None)
                 (fun _ => false) (mkLimits 3 1000) 5 0),
   option_map (fun x => iterations (fst x))
     (run_eqsat nat (fun s => (false, s)) (fun s => s) (fun s => s) (fun _ _ => None)
                (fun _ => false) 3 5 0))
  = (Some 1, Some 0).
Proof. reflexivity. Qed.

(* ------------------------------------------------------------------ *)
Print Assumptions run_terminates.
Print Assumptions run_terminates_3.
Print Assumptions eqsat_terminates.
Print Assumptions eqsat_terminates_2.
Print Assumptions run_stop_reason_true.
Print Assumptions run_stop_reason_cases.
Print Assumptions eqsat_stop_reason_true.
Print Assumptions eqsat_stop_reason_cases.
Print Assumptions run_report_counts.
Print Assumptions eqsat_report_counts.
Print Assumptions run_saturated_P.
Print Assumptions eqsat_saturated_P.
Print Assumptions run_loop_fuel_mono.
Print Assumptions eqsat_loop_fuel_mono.
