(* Sem/Algebra.v — algebras and evaluation.  A slot denotes an element of the carrier, a binder
   denotes a function of the bound slot's value (so `sum`/`let`/`lam` get their usual meaning). *)
From SE Require Export Sem.Deriv.

Section Alg.
  Variable D : Type.

  Inductive sval :=
  | VSlot (x : D)
  | VChild (x : D)
  | VBind (f : D -> sval)
  | VPay (p : pval).

  (* an algebra interprets a variant applied to the values of its arguments *)
  Variable interp : nat -> list sval -> D.

  Definition upd (env : N -> D) (x : N) (z : D) : N -> D := fun y => if y =? x then z else env y.

  Fixpoint eval (d : nat) (env : N -> D) (t : cterm) : D :=
    match t with
    | CT v args => interp v ((fix go (l : list carg) : list sval :=
                                match l with [] => [] | a :: l' => eval_arg d env a :: go l' end) args)
    end
  with eval_arg (d : nat) (env : N -> D) (a : carg) : sval :=
    match a with
    | CSlot x => VSlot (env x)
    | CChild t => VChild (eval d env t)
    | CBind b => VBind (fun z => eval_arg (S d) (upd env (B d) z) b)
    | CPay p => VPay p
    end.

  Definition eval_args (d : nat) (env : N -> D) (l : list carg) : list sval := map (eval_arg d env) l.

  Definition valid (E : equations) : Prop :=
    forall l r, In (l, r) E -> forall env, eval 0 env l = eval 0 env r.
End Alg.
