(* Sem/AlgebraFacts.v — soundness of the congruence [Deriv] with respect to every valid algebra. *)
From SE Require Import Sem.Algebra.
From Coq Require Import ZArith Lia ZifyBool ZifyN ZifyNat FunctionalExtensionality.
Ltac Zify.zify_post_hook ::= Z.div_mod_to_equations.

(* ---------- a usable induction principle for the nested mutual type cterm/carg ---------- *)
Section CtermInd.
  Variables (P : cterm -> Prop) (Q : carg -> Prop).
  Variable HCT : forall v args, Forall Q args -> P (CT v args).
  Variable HSlot : forall x, Q (CSlot x).
  Variable HChild : forall t, P t -> Q (CChild t).
  Variable HBind : forall a, Q a -> Q (CBind a).
  Variable HPay : forall p, Q (CPay p).

  Fixpoint cterm_ind2 (t : cterm) : P t :=
    match t with
    | CT v args =>
        HCT v args ((fix go (l : list carg) : Forall Q l :=
                       match l with
                       | [] => Forall_nil Q
                       | a :: l' => Forall_cons a (carg_ind2 a) (go l')
                       end) args)
    end
  with carg_ind2 (a : carg) : Q a :=
    match a with
    | CSlot x => HSlot x
    | CChild t => HChild t (cterm_ind2 t)
    | CBind b => HBind b (carg_ind2 b)
    | CPay p => HPay p
    end.
End CtermInd.

(* ---------- the inner fixes are maps (they are convertible to [map]/[flat_map]) ---------- *)
Lemma cren_CT : forall r v args, cren r (CT v args) = CT v (map (cren_arg r) args).
Proof.
  intros r v args. reflexivity.
Qed.

Lemma cnames_CT : forall v args, cnames (CT v args) = flat_map cnames_arg args.
Proof.
  intros v args. reflexivity.
Qed.

(* ---------- arithmetic of reserved names ---------- *)
Lemma lift_B : forall d rho j, lift d rho (B j) = B (d + j).
Proof.
  intros d rho j. unfold lift.
  assert (Hb : is_B (B j) = true) by (unfold is_B, B; lia).
  rewrite Hb. unfold shift_B, B. lia.
Qed.

Definition range_ok (d : nat) (rho : N -> N) (x : N) : Prop :=
  is_B x = false -> is_B (rho x) = false \/ exists k, (k < d)%nat /\ rho x = B k.

Lemma lift_neq_B : forall d rho j x,
  range_ok d rho x -> (x =? B j) = false -> (lift d rho x =? B (d + j)) = false.
Proof.
  intros d rho j x Hr Hx. unfold lift. destruct (is_B x) eqn:Hb.
  - unfold shift_B, B, is_B in *. lia.
  - destruct (Hr Hb) as [H1 | [k [Hk H1]]].
    + apply N.eqb_neq. intro Heq. rewrite Heq in H1. unfold is_B, B in H1. lia.
    + rewrite H1. unfold B. lia.
Qed.

Section Sound.
  Variable D : Type.
  Variable interp : nat -> list (sval D) -> D.

  Lemma eval_CT : forall d env v args,
    eval D interp d env (CT v args) = interp v (map (eval_arg D interp d env) args).
  Proof.
    intros d env v args. reflexivity.
  Qed.

  Lemma upd_step : forall d rho j (env env' : N -> D) z x,
    range_ok d rho x -> env (lift d rho x) = env' x ->
    upd D env (B (d + j)) z (lift d rho x) = upd D env' (B j) z x.
  Proof.
    intros d rho j env env' z x Hr He. unfold upd. destruct (x =? B j) eqn:Hx.
    - apply N.eqb_eq in Hx. subst x. rewrite lift_B, N.eqb_refl. reflexivity.
    - rewrite (lift_neq_B d rho j x Hr Hx). exact He.
  Qed.

  (* ---------- evaluation commutes with an instantiating renaming ---------- *)
  Section Ren.
    Variables (d : nat) (rho : N -> N).

    Definition ren_hyp (names : list N) (env env' : N -> D) : Prop :=
      forall x, In x names -> range_ok d rho x /\ env (lift d rho x) = env' x.

    Definition ren_P (t : cterm) : Prop := forall j env env',
      ren_hyp (cnames t) env env' ->
      eval D interp (d + j) env (cren (lift d rho) t) = eval D interp j env' t.
    Definition ren_Q (a : carg) : Prop := forall j env env',
      ren_hyp (cnames_arg a) env env' ->
      eval_arg D interp (d + j) env (cren_arg (lift d rho) a) = eval_arg D interp j env' a.

    Lemma eval_ren : forall t, ren_P t.
    Proof.
      apply (cterm_ind2 ren_P ren_Q); unfold ren_P, ren_Q.
      - intros v args HF j env env' Hh.
        rewrite cren_CT, !eval_CT, map_map. f_equal.
        apply map_ext_in. intros a Ha.
        rewrite Forall_forall in HF. apply (HF a Ha).
        intros x Hx. apply Hh. rewrite cnames_CT. apply in_flat_map. exists a. split; assumption.
      - intros x j env env' Hh. cbn [cren_arg eval_arg]. f_equal.
        apply Hh. cbn [cnames_arg]. left. reflexivity.
      - intros t IH j env env' Hh. cbn [cren_arg eval_arg]. f_equal.
        apply IH. exact Hh.
      - intros a IH j env env' Hh. cbn [cren_arg eval_arg]. f_equal.
        apply functional_extensionality. intro z.
        rewrite plus_n_Sm. apply IH.
        intros x Hx. destruct (Hh x Hx) as [Hr He]. split; [exact Hr|].
        apply upd_step; assumption.
      - intros p j env env' _. reflexivity.
    Qed.
  End Ren.

  (* ---------- soundness ---------- *)
  Theorem Deriv_sound_sec : forall (E : equations), valid D interp E ->
    forall d s t, Deriv E d s t -> forall env, eval D interp d env s = eval D interp d env t.
  Proof.
    intros E HV.
    assert (Hall :
      (forall d s t, Deriv E d s t -> forall env, eval D interp d env s = eval D interp d env t) /\
      (forall d a b, DerivArg E d a b ->
         forall env, eval_arg D interp d env a = eval_arg D interp d env b) /\
      (forall d l l', DerivArgs E d l l' ->
         forall env, map (eval_arg D interp d env) l = map (eval_arg D interp d env) l')).
    { apply (Deriv_mutind E
        (fun d s t _ => forall env, eval D interp d env s = eval D interp d env t)
        (fun d a b _ => forall env, eval_arg D interp d env a = eval_arg D interp d env b)
        (fun d l l' _ => forall env,
           map (eval_arg D interp d env) l = map (eval_arg D interp d env) l')).
      - (* D_ax *)
        intros d l r rho Hin [_ Hrange] env.
        set (env' := fun x => env (lift d rho x)).
        assert (Hren : forall t, incl (cnames t) (cnames l ++ cnames r) ->
                  eval D interp d env (cren (lift d rho) t) = eval D interp 0 env' t).
        { intros t Ht. rewrite (plus_n_O d) at 1. apply eval_ren.
          intros x Hx. split; [|reflexivity]. intro Hb. apply Hrange; [apply Ht; exact Hx|exact Hb]. }
        rewrite (Hren l), (Hren r).
        + apply HV. exact Hin.
        + apply incl_appr, incl_refl.
        + apply incl_appl, incl_refl.
      - (* D_refl *) intros; reflexivity.
      - (* D_sym *) intros d s t _ IH env. symmetry. apply IH.
      - (* D_trans *) intros d s t u _ IH1 _ IH2 env. rewrite IH1. apply IH2.
      - (* D_cong *) intros d v args args' _ IH env. rewrite !eval_CT, IH. reflexivity.
      - (* DA_slot *) intros; reflexivity.
      - (* DA_pay *) intros; reflexivity.
      - (* DA_child *) intros d s t _ IH env. cbn [eval_arg]. rewrite IH. reflexivity.
      - (* DA_bind *) intros d a b _ IH env. cbn [eval_arg]. f_equal.
        apply functional_extensionality. intro z. apply IH.
      - (* DAs_nil *) intros; reflexivity.
      - (* DAs_cons *) intros d a b l l' _ IHa _ IHl env. cbn [map]. rewrite IHa, IHl. reflexivity. }
    exact (proj1 Hall).
  Qed.
End Sound.

Theorem Deriv_sound : forall (D : Type) (interp : nat -> list (sval D) -> D) (E : equations),
  valid D interp E ->
  forall d s t, Deriv E d s t -> forall env, eval D interp d env s = eval D interp d env t.
Proof. exact Deriv_sound_sec. Qed.

Print Assumptions Deriv_sound.
