(* Sem/Closure.v — a bounded ground congruence closure over canonical terms.
   It is used in one direction only: everything it derives is derivable (closure_sound, proved in
   Sem/ClosureFacts.v).  Nothing is claimed about what it fails to derive.
   State: a partition of a universe of (depth, term) pairs, as a list of classes.  Two elements of
   one class have the same depth and are Deriv-related at that depth. *)
From SE Require Export Sem.Deriv.

Definition elem := (nat * cterm)%type.
Definition cls := list elem.
Definition part := list cls.

Definition elem_eqb (a b : elem) : bool := Nat.eqb (fst a) (fst b) && cterm_eqb (snd a) (snd b).
Definition in_cls (e : elem) (c : cls) : bool := existsb (elem_eqb e) c.

Fixpoint find_cls (P : part) (e : elem) : option cls :=
  match P with
  | [] => None
  | c :: t => if in_cls e c then Some c else find_cls t e
  end.

Definition same_cls (P : part) (a b : elem) : bool :=
  elem_eqb a b ||
  match find_cls P a with
  | Some c => in_cls b c
  | None => false
  end.

(* add a singleton class if the element is not yet in the universe *)
Definition add_elem (P : part) (e : elem) : part :=
  match find_cls P e with Some _ => P | None => [e] :: P end.

(* merge the classes of a and b (both are added first); only called when a and b are related *)
Definition merge (P : part) (a b : elem) : part :=
  if negb (Nat.eqb (fst a) (fst b)) then P else
  let P := add_elem (add_elem P a) b in
  if same_cls P a b then P else
  match find_cls P a, find_cls P b with
  | Some ca, Some cb =>
      (ca ++ cb) :: filter (fun c => negb (in_cls a c) && negb (in_cls b c)) P
  | _, _ => P
  end.

(* arguments pairwise related under the partition *)
Fixpoint arg_rel (P : part) (d : nat) (a b : carg) : bool :=
  match a, b with
  | CSlot x, CSlot y => x =? y
  | CPay p, CPay q => pval_eqb p q
  | CChild s, CChild t => same_cls P (d, s) (d, t)
  | CBind x, CBind y => arg_rel P (S d) x y
  | _, _ => false
  end.
Fixpoint args_rel (P : part) (d : nat) (l l' : list carg) : bool :=
  match l, l' with
  | [], [] => true
  | a :: r, b :: r' => arg_rel P d a b && args_rel P d r r'
  | _, _ => false
  end.

Definition congruent (P : part) (a b : elem) : bool :=
  Nat.eqb (fst a) (fst b) &&
  match snd a, snd b with
  | CT v args, CT w args' => Nat.eqb v w && args_rel P (fst a) args args'
  end.

(* one congruence pass over all pairs of universe elements *)
Definition universe (P : part) : list elem := concat P.
Definition cong_pass (P : part) : part :=
  let U := universe P in
  fold_left (fun P a => fold_left (fun P b => if congruent P a b then merge P a b else P) U P) U P.

(* every subterm is part of the universe too, at its own depth *)
Fixpoint sub_elems (fuel : nat) (d : nat) (t : cterm) : list elem :=
  match fuel with
  | O => []
  | S f => (d, t) :: match t with CT _ args => flat_map (sub_arg f d) args end
  end
with sub_arg (fuel : nat) (d : nat) (a : carg) : list elem :=
  match fuel with
  | O => []
  | S f => match a with
           | CChild s => sub_elems f d s
           | CBind b => sub_arg f (S d) b
           | _ => []
           end
  end.

Fixpoint csize (t : cterm) : nat :=
  match t with
  | CT _ args => S ((fix go (l : list carg) : nat := match l with [] => O | a :: l' => (csize_arg a + go l')%nat end) args)
  end
with csize_arg (a : carg) : nat :=
  match a with
  | CChild t => S (csize t)
  | CBind b => S (csize_arg b)
  | _ => 1%nat
  end.

Definition subs (d : nat) (t : cterm) : list elem := sub_elems (2 * csize t + 2) d t.

(* ---- axiom instances ---- *)
Fixpoint dedupN (l : list N) : list N :=
  match l with [] => [] | x :: t => if existsb (N.eqb x) t then dedupN t else x :: dedupN t end.

(* all injective assignments of the given names to distinct targets *)
Fixpoint inj_maps (names : list N) (targets : list N) : list (list (N * N)) :=
  match names with
  | [] => [[]]
  | x :: t =>
      flat_map (fun y => map (cons (x, y)) (inj_maps t (filter (fun z => negb (z =? y)) targets))) targets
  end.

Definition assoc_fun (m : list (N * N)) (x : N) : N := env_get m x.

Definition user_names (l r : cterm) : list N :=
  dedupN (filter (fun x => negb (is_B x)) (cnames l ++ cnames r)).

Definition instances_at (pool : list N) (d : nat) (eq : cterm * cterm) : list (nat * cterm * cterm) :=
  let '(l, r) := eq in
  let targets := dedupN (filter (fun x => negb (is_B x)) pool) ++ map B (seq 0 d) in
  map (fun m => (d, cren (lift d (assoc_fun m)) l, cren (lift d (assoc_fun m)) r))
      (inj_maps (user_names l r) targets).

Definition instances (pool : list N) (maxd : nat) (E : equations) : list (nat * cterm * cterm) :=
  flat_map (fun d => flat_map (instances_at pool d) E) (seq 0 (S maxd)).

Fixpoint iter_pass (fuel : nat) (P : part) : part :=
  match fuel with
  | O => P
  | S f => let P' := cong_pass P in
           if Nat.eqb (List.length P') (List.length P) then P' else iter_pass f P'
  end.

(* an axiom instance is used only when one of its sides already occurs in the universe (matching the
   axioms against the universe instead of enumerating blindly); rounds are repeated while the universe grows *)
Definition in_univ (P : part) (e : elem) : bool :=
  match find_cls P e with Some _ => true | None => false end.

Definition names_subset (a b : list N) : bool := forallb (fun x => existsb (N.eqb x) b) a.

(* relevance: a side that mentions every name of the instance determines the renaming; such a side must
   already occur in the universe.  If neither side does, either side may. *)
Definition free_names (d : nat) (t : cterm) : list N :=
  dedupN (filter (fun x => negb (is_B x) || (x <? 4 * N.of_nat d + 3)) (cnames t)).
Definition names_missing (a b : list N) : nat :=
  List.length (filter (fun x => negb (existsb (N.eqb x) b)) a).

Definition relevant (P : part) (d : nat) (l r : cterm) : bool :=
  let nl := free_names d l in
  let nr := free_names d r in
  let inl := in_univ P (d, l) in
  let inr := in_univ P (d, r) in
  let ml := names_missing nl nr in   (* names of l that r does not determine *)
  let mr := names_missing nr nl in
  match ml, mr with
  | O, O => inl || inr
  | O, _ => inr || (inl && Nat.leb mr 1)       (* r mentions every name: r determines the instance *)
  | _, O => inl || (inr && Nat.leb ml 1)
  | _, _ => inl || inr
  end.

Definition inst_step (cap : nat) (P : part) (i : nat * cterm * cterm) : part :=
  let '(d, l, r) := i in
  (* beyond `cap` universe elements no further instances are added (soundness is unaffected) *)
  if Nat.ltb cap (List.length (universe P)) then P else
  if relevant P d l r
  then merge (fold_left add_elem (subs d l ++ subs d r) P) (d, l) (d, r)
  else P.

Fixpoint inst_rounds (cap k : nat) (insts : list (nat * cterm * cterm)) (P : part) : part :=
  match k with
  | O => P
  | S k' =>
      let P' := fold_left (inst_step cap) insts P in
      if Nat.eqb (List.length (universe P')) (List.length (universe P)) then P' else inst_rounds cap k' insts P'
  end.

(* the partition computed for a set of equations and a set of terms of interest *)
Definition gcc_part_cap (cap : nat) (pool : list N) (maxd fuel : nat) (E : equations) (terms : list cterm) : part :=
  let P0 := fold_left add_elem (flat_map (subs 0) terms) [] in
  let insts := instances pool maxd E in
  iter_pass fuel (inst_rounds cap fuel insts P0).

Definition gcc_part := gcc_part_cap 600.

Definition gcc (pool : list N) (maxd fuel : nat) (E : equations) (terms : list cterm) (s t : cterm) : bool :=
  same_cls (gcc_part pool maxd fuel E (s :: t :: terms)) (0%nat, s) (0%nat, t).
