(* Sem/Closure.v — a bounded ground congruence closure over canonical terms.
   It is used in one direction only: everything it derives is derivable (closure_sound, proved in
   Sem/ClosureFacts.v).  Nothing is claimed about what it fails to derive.
   State: a partition of a universe of (depth, term) pairs, as a list of classes.  Two elements of
   one class have the same depth and are Deriv-related at that depth. *)
From SE Require Export Sem.Deriv.

Definition elem := (nat * cterm)%type.
Definition cls := list elem.
Definition part := list cls.

Definition elem_eqb (a b : elem) : bool := Nat.eqb (fst a) (fst b) && cterm_eqb (snd a) (snd b).
Definition in_cls (e : elem) (c : cls) : bool := existsb (elem_eqb e) c.

Fixpoint find_cls (P : part) (e : elem) : option cls :=
  match P with
  | [] => None
  | c :: t => if in_cls e c then Some c else find_cls t e
  end.

Definition same_cls (P : part) (a b : elem) : bool :=
  elem_eqb a b ||
  match find_cls P a with
  | Some c => in_cls b c
  | None => false
  end.

(* add a singleton class if the element is not yet in the universe *)
Definition add_elem (P : part) (e : elem) : part :=
  match find_cls P e with Some _ => P | None => [e] :: P end.

(* merge the classes of a and b (both are added first); only called when a and b are related *)
Definition merge (P : part) (a b : elem) : part :=
  if negb (Nat.eqb (fst a) (fst b)) then P else
  let P := add_elem (add_elem P a) b in
  if same_cls P a b then P else
  match find_cls P a, find_cls P b with
  | Some ca, Some cb =>
      (ca ++ cb) :: filter (fun c => negb (in_cls a c) && negb (in_cls b c)) P
  | _, _ => P
  end.

(* arguments pairwise related under the partition *)
Fixpoint arg_rel (P : part) (d : nat) (a b : carg) : bool :=
  match a, b with
  | CSlot x, CSlot y => x =? y
  | CPay p, CPay q => pval_eqb p q
  | CChild s, CChild t => same_cls P (d, s) (d, t)
  | CBind x, CBind y => arg_rel P (S d) x y
  | _, _ => false
  end.
Fixpoint args_rel (P : part) (d : nat) (l l' : list carg) : bool :=
  match l, l' with
  | [], [] => true
  | a :: r, b :: r' => arg_rel P d a b && args_rel P d r r'
  | _, _ => false
  end.

Definition congruent (P : part) (a b : elem) : bool :=
  Nat.eqb (fst a) (fst b) &&
  match snd a, snd b with
  | CT v args, CT w args' => Nat.eqb v w && args_rel P (fst a) args args'
  end.

(* one congruence pass over all pairs of universe elements *)
Definition universe (P : part) : list elem := concat P.
Definition cong_pass (P : part) : part :=
  let U := universe P in
  fold_left (fun P a => fold_left (fun P b => if congruent P a b then merge P a b else P) U P) U P.

(* every subterm is part of the universe too, at its own depth *)
Fixpoint sub_elems (fuel : nat) (d : nat) (t : cterm) : list elem :=
  match fuel with
  | O => []
  | S f => (d, t) :: match t with CT _ args => flat_map (sub_arg f d) args end
  end
with sub_arg (fuel : nat) (d : nat) (a : carg) : list elem :=
  match fuel with
  | O => []
  | S f => match a with
           | CChild s => sub_elems f d s
           | CBind b => sub_arg f (S d) b
           | _ => []
           end
  end.

Fixpoint csize (t : cterm) : nat :=
  match t with
  | CT _ args => S ((fix go (l : list carg) : nat := match l with [] => O | a :: l' => (csize_arg a + go l')%nat end) args)
  end
with csize_arg (a : carg) : nat :=
  match a with
  | CChild t => S (csize t)
  | CBind b => S (csize_arg b)
  | _ => 1%nat
  end.

Definition subs (d : nat) (t : cterm) : list elem := sub_elems (2 * csize t + 2) d t.

(* ---- axiom instances ---- *)
Fixpoint dedupN (l : list N) : list N :=
  match l with [] => [] | x :: t => if existsb (N.eqb x) t then dedupN t else x :: dedupN t end.

(* all injective assignments of the given names to distinct targets *)
Fixpoint inj_maps (names : list N) (targets : list N) : list (list (N * N)) :=
  match names with
  | [] => [[]]
  | x :: t =>
      flat_map (fun y => map (cons (x, y)) (inj_maps t (filter (fun z => negb (z =? y)) targets))) targets
  end.

Definition assoc_fun (m : list (N * N)) (x : N) : N := env_get m x.

Definition user_names (l r : cterm) : list N :=
  dedupN (filter (fun x => negb (is_B x)) (cnames l ++ cnames r)).

Definition instances_at (pool : list N) (d : nat) (eq : cterm * cterm) : list (nat * cterm * cterm) :=
  let '(l, r) := eq in
  let targets := dedupN (filter (fun x => negb (is_B x)) pool) ++ map B (seq 0 d) in
  map (fun m => (d, cren (lift d (assoc_fun m)) l, cren (lift d (assoc_fun m)) r))
      (inj_maps (user_names l r) targets).

Definition instances (pool : list N) (maxd : nat) (E : equations) : list (nat * cterm * cterm) :=
  flat_map (fun d => flat_map (instances_at pool d) E) (seq 0 (S maxd)).

Fixpoint iter_pass (fuel : nat) (P : part) : part :=
  match fuel with
  | O => P
  | S f => let P' := cong_pass P in
           if Nat.eqb (List.length P') (List.length P) then P' else iter_pass f P'
  end.

(* the partition computed for a set of equations and a set of terms of interest *)
Definition gcc_part (pool : list N) (maxd fuel : nat) (E : equations) (terms : list cterm) : part :=
  let P0 := fold_left add_elem (flat_map (subs 0) terms) [] in
  let insts := instances pool maxd E in
  let P1 := fold_left (fun P i => let '(d, l, r) := i in
                                  fold_left add_elem (subs d l ++ subs d r) P) insts P0 in
  let P2 := fold_left (fun P i => let '(d, l, r) := i in merge P (d, l) (d, r)) insts P1 in
  iter_pass fuel P2.

Definition gcc (pool : list N) (maxd fuel : nat) (E : equations) (terms : list cterm) (s t : cterm) : bool :=
  same_cls (gcc_part pool maxd fuel E (s :: t :: terms)) (0%nat, s) (0%nat, t).
