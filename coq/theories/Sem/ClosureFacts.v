(* Sem/ClosureFacts.v — soundness of the bounded ground congruence closure of Sem/Closure.v:
   two elements that end up in one class have the same depth and are Deriv-related at that depth. *)
From SE Require Import Sem.Closure.
From SE Require Import Base.Text Base.TextFacts.
From Coq Require Import Arith.

(* ---------- 1. the boolean equalities decide equality ---------- *)

Lemma pval_eqb_eq : forall p q, pval_eqb p q = true -> p = q.
Proof.
  intros p q H. destruct p as [a|a|a]; destruct q as [b|b|b]; cbn in H; try discriminate.
  - apply N.eqb_eq in H. congruence.
  - apply Bool.eqb_prop in H. congruence.
  - apply text_eqb_eq in H. congruence.
Qed.

Fixpoint cterm_eqb_eq (s t : cterm) {struct s} : cterm_eqb s t = true -> s = t
with carg_eqb_eq (a b : carg) {struct a} : carg_eqb a b = true -> a = b.
Proof.
  - destruct s as [v args]. destruct t as [w args']. intro H. cbn [cterm_eqb] in H.
    apply andb_true_iff in H. destruct H as [Hv Ha]. apply Nat.eqb_eq in Hv. subst w. f_equal.
    revert args' Ha.
    induction args as [|x r IH]; intros [|y r'] Ha; try discriminate Ha.
    + reflexivity.
    + apply andb_true_iff in Ha. destruct Ha as [Hx Hr]. f_equal.
      * apply carg_eqb_eq. exact Hx.
      * apply IH. exact Hr.
  - destruct a as [x|s|a|p]; destruct b as [y|t|b|q]; intro H; cbn [carg_eqb] in H; try discriminate H.
    + apply N.eqb_eq in H. congruence.
    + f_equal. apply cterm_eqb_eq. exact H.
    + f_equal. apply carg_eqb_eq. exact H.
    + f_equal. apply pval_eqb_eq. exact H.
Qed.

Lemma elem_eqb_eq : forall a b : elem, elem_eqb a b = true -> a = b.
Proof.
  intros [da sa] [db sb] H. unfold elem_eqb in H. cbn [fst snd] in H.
  apply andb_true_iff in H. destruct H as [Hd Hs].
  apply Nat.eqb_eq in Hd. apply cterm_eqb_eq in Hs. congruence.
Qed.

Lemma in_cls_In : forall e c, in_cls e c = true -> In e c.
Proof.
  intros e c H. unfold in_cls in H. apply existsb_exists in H. destruct H as [x [Hx Hex]].
  apply elem_eqb_eq in Hex. subst x. exact Hx.
Qed.

(* ---------- 2. the invariant ---------- *)

Definition rel (E : equations) (a b : elem) : Prop :=
  fst a = fst b /\ Deriv E (fst a) (snd a) (snd b).

Lemma rel_refl : forall E a, rel E a a.
Proof. intros E a. split; [reflexivity|apply D_refl]. Qed.

Lemma rel_sym : forall E a b, rel E a b -> rel E b a.
Proof.
  intros E a b [Hd HD]. split; [symmetry; exact Hd|]. rewrite <- Hd. apply D_sym. exact HD.
Qed.

Lemma rel_trans : forall E a b c, rel E a b -> rel E b c -> rel E a c.
Proof.
  intros E a b c [Hab Dab] [Hbc Dbc]. split; [congruence|].
  rewrite <- Hab in Dbc. eapply D_trans; [exact Dab|exact Dbc].
Qed.

Definition Inv (E : equations) (P : part) : Prop :=
  forall c, In c P -> forall a b, In a c -> In b c -> rel E a b.

Lemma Inv_nil : forall E, Inv E [].
Proof. intros E c Hc. destruct Hc. Qed.

Lemma find_cls_some : forall P e c, find_cls P e = Some c -> In c P /\ In e c.
Proof.
  induction P as [|c0 P IH]; intros e c H; cbn [find_cls] in H; [discriminate H|].
  destruct (in_cls e c0) eqn:Hin.
  - inversion H; subst c. split; [left; reflexivity|apply in_cls_In; exact Hin].
  - destruct (IH e c H) as [H1 H2]. split; [right; exact H1|exact H2].
Qed.

Lemma add_elem_inv : forall E P e, Inv E P -> Inv E (add_elem P e).
Proof.
  intros E P e HP. unfold add_elem. destruct (find_cls P e) as [c0|]; [exact HP|].
  intros c Hc a b Ha Hb. destruct Hc as [Hc|Hc].
  - subst c. destruct Ha as [Ha|[]]. destruct Hb as [Hb|[]]. subst a b. apply rel_refl.
  - exact (HP c Hc a b Ha Hb).
Qed.

Lemma same_cls_sound : forall E P a b, Inv E P -> same_cls P a b = true -> rel E a b.
Proof.
  intros E P a b HP H. unfold same_cls in H. apply orb_true_iff in H. destruct H as [H|H].
  - apply elem_eqb_eq in H. subst b. apply rel_refl.
  - destruct (find_cls P a) as [c|] eqn:Hf; [|discriminate H].
    apply find_cls_some in Hf. destruct Hf as [Hc Ha]. apply in_cls_In in H.
    exact (HP c Hc a b Ha H).
Qed.

Lemma merge_inv : forall E P a b,
  (fst a = fst b -> Deriv E (fst a) (snd a) (snd b)) ->
  Inv E P -> Inv E (merge P a b).
Proof.
  intros E P a b Hab HP. unfold merge.
  destruct (Nat.eqb (fst a) (fst b)) eqn:Hd; cbn [negb]; [|exact HP].
  apply Nat.eqb_eq in Hd. cbv zeta.
  set (P' := add_elem (add_elem P a) b).
  assert (HP' : Inv E P') by (unfold P'; apply add_elem_inv; apply add_elem_inv; exact HP).
  clearbody P'.
  destruct (same_cls P' a b); [exact HP'|].
  destruct (find_cls P' a) as [ca|] eqn:Hfa; [|exact HP'].
  destruct (find_cls P' b) as [cb|] eqn:Hfb; [|exact HP'].
  apply find_cls_some in Hfa. destruct Hfa as [Hca Haca].
  apply find_cls_some in Hfb. destruct Hfb as [Hcb Hbcb].
  assert (Rab : rel E a b) by (split; [exact Hd|exact (Hab Hd)]).
  assert (Hall : forall z, In z (ca ++ cb) -> rel E a z).
  { intros z Hz. apply in_app_or in Hz. destruct Hz as [Hz|Hz].
    - exact (HP' ca Hca a z Haca Hz).
    - apply (rel_trans E a b z Rab). exact (HP' cb Hcb b z Hbcb Hz). }
  intros c Hc x y Hx Hy. destruct Hc as [Hc|Hc].
  - subst c. apply (rel_trans E x a y).
    + apply rel_sym. apply Hall. exact Hx.
    + apply Hall. exact Hy.
  - apply filter_In in Hc. destruct Hc as [Hc _]. exact (HP' c Hc x y Hx Hy).
Qed.

(* ---------- 3. congruence passes ---------- *)

Lemma arg_rel_sound : forall E P, Inv E P ->
  forall a d b, arg_rel P d a b = true -> DerivArg E d a b.
Proof.
  intros E P HP. induction a as [x|s|a IH|p]; intros d b H;
    destruct b as [y|t|b|q]; cbn [arg_rel] in H; try discriminate H.
  - apply N.eqb_eq in H. subst y. apply DA_slot.
  - apply DA_child. destruct (same_cls_sound E P (d, s) (d, t) HP H) as [_ HD]. exact HD.
  - apply DA_bind. apply IH. exact H.
  - apply pval_eqb_eq in H. subst q. apply DA_pay.
Qed.

Lemma args_rel_sound : forall E P, Inv E P ->
  forall l d l', args_rel P d l l' = true -> DerivArgs E d l l'.
Proof.
  intros E P HP. induction l as [|a r IH]; intros d l' H; destruct l' as [|b r'];
    cbn [args_rel] in H; try discriminate H.
  - apply DAs_nil.
  - apply andb_true_iff in H. destruct H as [Ha Hr]. apply DAs_cons.
    + exact (arg_rel_sound E P HP a d b Ha).
    + apply IH. exact Hr.
Qed.

Lemma congruent_sound : forall E P a b, Inv E P -> congruent P a b = true -> rel E a b.
Proof.
  intros E P [da [v args]] [db [w args']] HP H. unfold congruent in H. cbn [fst snd] in H.
  apply andb_true_iff in H. destruct H as [Hd H].
  apply andb_true_iff in H. destruct H as [Hv Ha].
  apply Nat.eqb_eq in Hd. apply Nat.eqb_eq in Hv. subst db w.
  split; cbn [fst snd]; [reflexivity|]. apply D_cong.
  exact (args_rel_sound E P HP args da args' Ha).
Qed.

Lemma fold_left_inv_In : forall (A B : Type) (Q : A -> Prop) (f : A -> B -> A) (l : list B),
  (forall a b, In b l -> Q a -> Q (f a b)) -> forall a, Q a -> Q (fold_left f l a).
Proof.
  intros A B Q f. induction l as [|b l IH]; intros Hf a Ha; cbn [fold_left]; [exact Ha|].
  apply IH.
  - intros a' b' Hb' Ha'. apply Hf; [right; exact Hb'|exact Ha'].
  - apply Hf; [left; reflexivity|exact Ha].
Qed.

Lemma fold_left_inv : forall (A B : Type) (Q : A -> Prop) (f : A -> B -> A) (l : list B),
  (forall a b, Q a -> Q (f a b)) -> forall a, Q a -> Q (fold_left f l a).
Proof.
  intros A B Q f l Hf a Ha. apply fold_left_inv_In; [|exact Ha].
  intros a' b' _ Ha'. apply Hf. exact Ha'.
Qed.

Lemma cong_step_inv : forall E P a b, Inv E P ->
  Inv E (if congruent P a b then merge P a b else P).
Proof.
  intros E P a b HP. destruct (congruent P a b) eqn:Hc; [|exact HP].
  apply merge_inv; [|exact HP]. intros _.
  destruct (congruent_sound E P a b HP Hc) as [_ HD]. exact HD.
Qed.

Lemma cong_pass_inv : forall E P, Inv E P -> Inv E (cong_pass P).
Proof.
  intros E P HP. unfold cong_pass. cbv zeta.
  apply (fold_left_inv part elem (Inv E)); [|exact HP].
  intros P1 a HP1.
  apply (fold_left_inv part elem (Inv E)); [|exact HP1].
  intros P2 b HP2. apply cong_step_inv. exact HP2.
Qed.

Lemma iter_pass_inv : forall E fuel P, Inv E P -> Inv E (iter_pass fuel P).
Proof.
  intros E. induction fuel as [|f IH]; intros P HP; cbn [iter_pass]; [exact HP|].
  cbv zeta. destruct (Nat.eqb (length (cong_pass P)) (length P)).
  - apply cong_pass_inv. exact HP.
  - apply IH. apply cong_pass_inv. exact HP.
Qed.

(* ---------- 4. axiom instances ---------- *)

Lemma dedupN_In : forall l x, In x (dedupN l) <-> In x l.
Proof.
  induction l as [|y t IH]; intro x; cbn [dedupN]; [tauto|].
  destruct (existsb (N.eqb y) t) eqn:Hex.
  - rewrite IH. split; [intro H; right; exact H|]. intros [H|H]; [|exact H]. subst y.
    apply existsb_exists in Hex. destruct Hex as [z [Hz Hyz]]. apply N.eqb_eq in Hyz. subst z. exact Hz.
  - cbn [In]. rewrite IH. tauto.
Qed.

Lemma inj_maps_spec : forall names targets m, In m (inj_maps names targets) ->
  (forall x, In x names -> In (env_get m x) targets) /\
  (forall x y, In x names -> In y names -> env_get m x = env_get m y -> x = y).
Proof.
  induction names as [|x0 t IH]; intros targets m Hm.
  - split.
    + intros x Hx. destruct Hx.
    + intros x y Hx. destruct Hx.
  - cbn [inj_maps] in Hm. apply in_flat_map in Hm. destruct Hm as [y0 [Hy0 Hm]].
    apply in_map_iff in Hm. destruct Hm as [m' [Hmm' Hm']]. subst m.
    destruct (IH _ _ Hm') as [IH1 IH2].
    assert (Hval : forall x, In x (x0 :: t) -> x <> x0 ->
                     In x t /\ In (env_get m' x) targets /\ env_get m' x <> y0).
    { intros x Hx Hne. destruct Hx as [Hx|Hx]; [congruence|]. split; [exact Hx|].
      specialize (IH1 x Hx). apply filter_In in IH1. destruct IH1 as [Hin Hneq].
      split; [exact Hin|]. apply negb_true_iff in Hneq. apply N.eqb_neq in Hneq. exact Hneq. }
    split.
    + intros x Hx. cbn [env_get]. destruct (x =? x0) eqn:Hxx0.
      * exact Hy0.
      * apply N.eqb_neq in Hxx0. destruct (Hval x Hx Hxx0) as [_ [Hin _]]. exact Hin.
    + intros x y Hx Hy. cbn [env_get].
      destruct (x =? x0) eqn:Hxx0; destruct (y =? x0) eqn:Hyx0; intro Heq.
      * apply N.eqb_eq in Hxx0. apply N.eqb_eq in Hyx0. congruence.
      * apply N.eqb_neq in Hyx0. destruct (Hval y Hy Hyx0) as [_ [_ Hne]]. congruence.
      * apply N.eqb_neq in Hxx0. destruct (Hval x Hx Hxx0) as [_ [_ Hne]]. congruence.
      * apply N.eqb_neq in Hxx0. apply N.eqb_neq in Hyx0.
        destruct (Hval x Hx Hxx0) as [Hxt _]. destruct (Hval y Hy Hyx0) as [Hyt _].
        exact (IH2 x y Hxt Hyt Heq).
Qed.

Lemma user_names_In : forall l r x,
  In x (cnames l ++ cnames r) -> is_B x = false -> In x (user_names l r).
Proof.
  intros l r x Hx HB. unfold user_names. apply dedupN_In. apply filter_In.
  split; [exact Hx|]. rewrite HB. reflexivity.
Qed.

Lemma instances_at_sound : forall pool d E l r i,
  In (l, r) E -> In i (instances_at pool d (l, r)) ->
  exists l' r', i = (d, l', r') /\ Deriv E d l' r'.
Proof.
  intros pool d E l r i HE Hi. unfold instances_at in Hi. cbv zeta in Hi.
  apply in_map_iff in Hi. destruct Hi as [m [Hi Hm]]. subst i.
  eexists. eexists. split; [reflexivity|].
  apply D_ax; [exact HE|].
  destruct (inj_maps_spec _ _ _ Hm) as [Htg Hinj].
  unfold inst_ok, assoc_fun. split.
  - intros x y Hx Hy HBx HBy Heq. apply Hinj.
    + apply user_names_In; assumption.
    + apply user_names_In; assumption.
    + exact Heq.
  - intros x Hx HBx. specialize (Htg x (user_names_In l r x Hx HBx)).
    apply in_app_or in Htg. destruct Htg as [Htg|Htg].
    + left. apply (proj1 (dedupN_In _ _)) in Htg. apply (proj1 (filter_In _ _ _)) in Htg. destruct Htg as [_ Hnb].
      apply negb_true_iff in Hnb. exact Hnb.
    + right. apply in_map_iff in Htg. destruct Htg as [k [Hk Hin]].
      apply in_seq in Hin. exists k. split; [|symmetry; exact Hk].
      destruct Hin as [_ Hlt]. exact Hlt.
Qed.

Lemma instances_sound : forall pool maxd E d l r,
  In (d, l, r) (instances pool maxd E) -> Deriv E d l r.
Proof.
  intros pool maxd E d l r H. unfold instances in H.
  apply in_flat_map in H. destruct H as [d0 [_ H]].
  apply in_flat_map in H. destruct H as [[l0 r0] [HE H]].
  destruct (instances_at_sound pool d0 E l0 r0 _ HE H) as [l' [r' [Heq HD]]].
  inversion Heq; subst d l r. exact HD.
Qed.

(* ---------- 5. the theorem ---------- *)

Lemma inst_step_inv : forall cap pool maxd E P i, In i (instances pool maxd E) -> Inv E P -> Inv E (inst_step cap P i).
Proof.
  intros cap pool maxd E P [[d l] r] Hi HP. unfold inst_step.
  destruct (Nat.ltb cap (List.length (universe P))); [exact HP|].
  destruct (relevant P d l r); [|exact HP].
  apply merge_inv.
  - intros _. cbn [fst snd]. exact (instances_sound pool maxd E d l r Hi).
  - apply (fold_left_inv part elem (Inv E)); [|exact HP].
    intros P' e HP'. apply add_elem_inv. exact HP'.
Qed.

Lemma inst_rounds_inv : forall cap pool maxd E k P, Inv E P -> Inv E (inst_rounds cap k (instances pool maxd E) P).
Proof.
  intros cap pool maxd E k. induction k as [|k IH]; intros P HP; cbn [inst_rounds]; [exact HP|].
  assert (H' : Inv E (fold_left (inst_step cap) (instances pool maxd E) P)).
  { apply (fold_left_inv_In part (nat * cterm * cterm) (Inv E)); [|exact HP].
    intros P' i Hi HP'. eapply inst_step_inv; eauto. }
  cbv zeta. destruct (Nat.eqb _ _); [exact H'|apply IH; exact H'].
Qed.

Lemma gcc_part_inv : forall pool maxd fuel E terms, Inv E (gcc_part pool maxd fuel E terms).
Proof.
  intros pool maxd fuel E terms. unfold gcc_part, gcc_part_cap. cbv zeta.
  apply iter_pass_inv. apply inst_rounds_inv.
  apply (fold_left_inv part elem (Inv E)); [|apply Inv_nil].
  intros P' e HP'. apply add_elem_inv. exact HP'.
Qed.

Theorem gcc_part_sound : forall pool maxd fuel E terms a b,
  same_cls (gcc_part pool maxd fuel E terms) a b = true ->
  fst a = fst b /\ Deriv E (fst a) (snd a) (snd b).
Proof.
  intros pool maxd fuel E terms a b H.
  exact (same_cls_sound E _ a b (gcc_part_inv pool maxd fuel E terms) H).
Qed.

Corollary gcc_sound : forall pool maxd fuel E terms s t,
  gcc pool maxd fuel E terms s t = true -> Deriv E 0 s t.
Proof.
  intros pool maxd fuel E terms s t H. unfold gcc in H.
  destruct (gcc_part_sound pool maxd fuel E (s :: t :: terms) (0%nat, s) (0%nat, t) H) as [_ HD].
  exact HD.
Qed.

Print Assumptions gcc_part_sound.
Print Assumptions gcc_sound.
