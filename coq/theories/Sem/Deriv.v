(* Sem/Deriv.v — the congruence the properties speak about.
   [Deriv E d s t]: s and t (canonical terms living under d enclosing binders) are equal in the
   smallest relation that contains every injective renaming of every equation of E, is reflexive,
   symmetric and transitive, and is closed under node congruence, including under binders
   (the bound name of the k-th enclosing binder is the reserved name B k).
   Alpha-renaming of bound slots is built into the canonical form. *)
From SE Require Export Sem.Term.

Definition equations := list (cterm * cterm).

(* a renaming used to instantiate an axiom under d binders: injective on user names, sends user names
   to user names or to the names of the d enclosing binders, and shifts the axiom's own bound levels by d *)
Definition shift_B (d : nat) (x : N) : N := x + 4 * N.of_nat d.
Definition lift (d : nat) (r : N -> N) (x : N) : N := if is_B x then shift_B d x else r x.

(* the condition is relative to the names that occur in the equation *)
Definition inst_ok (d : nat) (r : N -> N) (names : list N) : Prop :=
  (forall x y, In x names -> In y names -> is_B x = false -> is_B y = false -> r x = r y -> x = y) /\
  (forall x, In x names -> is_B x = false -> is_B (r x) = false \/ exists k, (k < d)%nat /\ r x = B k).

Inductive Deriv (E : equations) : nat -> cterm -> cterm -> Prop :=
| D_ax : forall d l r rho, In (l, r) E -> inst_ok d rho (cnames l ++ cnames r) ->
    Deriv E d (cren (lift d rho) l) (cren (lift d rho) r)
| D_refl : forall d t, Deriv E d t t
| D_sym : forall d s t, Deriv E d s t -> Deriv E d t s
| D_trans : forall d s t u, Deriv E d s t -> Deriv E d t u -> Deriv E d s u
| D_cong : forall d v args args', DerivArgs E d args args' -> Deriv E d (CT v args) (CT v args')
with DerivArg (E : equations) : nat -> carg -> carg -> Prop :=
| DA_slot : forall d x, DerivArg E d (CSlot x) (CSlot x)
| DA_pay : forall d p, DerivArg E d (CPay p) (CPay p)
| DA_child : forall d s t, Deriv E d s t -> DerivArg E d (CChild s) (CChild t)
| DA_bind : forall d a b, DerivArg E (S d) a b -> DerivArg E d (CBind a) (CBind b)
with DerivArgs (E : equations) : nat -> list carg -> list carg -> Prop :=
| DAs_nil : forall d, DerivArgs E d [] []
| DAs_cons : forall d a b l l', DerivArg E d a b -> DerivArgs E d l l' -> DerivArgs E d (a :: l) (b :: l').

Scheme Deriv_mut := Induction for Deriv Sort Prop
  with DerivArg_mut := Induction for DerivArg Sort Prop
  with DerivArgs_mut := Induction for DerivArgs Sort Prop.
Combined Scheme Deriv_mutind from Deriv_mut, DerivArg_mut, DerivArgs_mut.
