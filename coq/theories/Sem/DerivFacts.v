(* Sem/DerivFacts.v — structural facts about the congruence [Deriv]:
   it depends on the asserted equations only as a set of unordered pairs, it is monotone in the
   equations, and it is equivariant under injective renamings of the user names. *)
From SE Require Import Sem.Deriv Sem.AlgebraFacts Explain.CheckerFacts.
From Coq Require Import ZArith Lia ZifyBool ZifyN ZifyNat.
Ltac Zify.zify_post_hook ::= Z.div_mod_to_equations.

(* ====================================================================== *)
(* 1. the equations matter only as a set of unordered pairs                *)
(* ====================================================================== *)

Lemma inst_ok_incl : forall d rho ns ns',
  (forall x, In x ns' -> In x ns) -> inst_ok d rho ns -> inst_ok d rho ns'.
Proof.
  intros d rho ns ns' Hsub [Hinj Hrng]. split.
  - intros x y Hx Hy. apply Hinj; apply Hsub; assumption.
  - intros x Hx. apply Hrng. apply Hsub. exact Hx.
Qed.

Lemma Deriv_order_orientation_all : forall E E',
  (forall l r, In (l, r) E -> In (l, r) E' \/ In (r, l) E') ->
  (forall d s t, Deriv E d s t -> Deriv E' d s t) /\
  (forall d a b, DerivArg E d a b -> DerivArg E' d a b) /\
  (forall d l l', DerivArgs E d l l' -> DerivArgs E' d l l').
Proof.
  intros E E' HE.
  apply (Deriv_mutind E
    (fun d s t _ => Deriv E' d s t)
    (fun d a b _ => DerivArg E' d a b)
    (fun d l l' _ => DerivArgs E' d l l')).
  - intros d l r rho Hin Hok. destruct (HE l r Hin) as [H | H].
    + apply D_ax; assumption.
    + apply D_sym. apply D_ax; [exact H|].
      apply (inst_ok_incl d rho (cnames l ++ cnames r)); [|exact Hok].
      intros x Hx. apply in_app_or in Hx. apply in_or_app. tauto.
  - intros; apply D_refl.
  - intros d s t _ IH. apply D_sym. exact IH.
  - intros d s t u _ IH1 _ IH2. eapply D_trans; eassumption.
  - intros d v args args' _ IH. apply D_cong. exact IH.
  - intros; apply DA_slot.
  - intros; apply DA_pay.
  - intros d s t _ IH. apply DA_child. exact IH.
  - intros d a b _ IH. apply DA_bind. exact IH.
  - intros; apply DAs_nil.
  - intros d a b l l' _ IHa _ IHl. apply DAs_cons; assumption.
Qed.

Theorem Deriv_order_orientation : forall E E' d s t,
  (forall l r, In (l, r) E -> In (l, r) E' \/ In (r, l) E') ->
  Deriv E d s t -> Deriv E' d s t.
Proof.
  intros E E' d s t HE H. exact (proj1 (Deriv_order_orientation_all E E' HE) d s t H).
Qed.

Corollary Deriv_permutation : forall E E' d s t,
  (forall e, In e E <-> In e E') -> (Deriv E d s t <-> Deriv E' d s t).
Proof.
  intros E E' d s t HE. split; apply Deriv_order_orientation; intros l r Hin; left; apply HE; exact Hin.
Qed.

Corollary Deriv_flip : forall E1 l r E2 d s t,
  Deriv (E1 ++ (l, r) :: E2) d s t <-> Deriv (E1 ++ (r, l) :: E2) d s t.
Proof.
  intros E1 l r E2 d s t.
  assert (H : forall a b l0 r0, In (l0, r0) (E1 ++ (a, b) :: E2) ->
                In (l0, r0) (E1 ++ (b, a) :: E2) \/ In (r0, l0) (E1 ++ (b, a) :: E2)).
  { intros a b l0 r0 Hin. apply in_app_or in Hin. destruct Hin as [Hin | [Hin | Hin]].
    - left. apply in_or_app. left. exact Hin.
    - right. inversion Hin; subst. apply in_or_app. right. left. reflexivity.
    - left. apply in_or_app. right. right. exact Hin. }
  split; apply Deriv_order_orientation; apply H.
Qed.

(* ====================================================================== *)
(* 2. monotone in the equations                                            *)
(* ====================================================================== *)

Theorem Deriv_mono : forall E E' d s t,
  (forall e, In e E -> In e E') -> Deriv E d s t -> Deriv E' d s t.
Proof.
  intros E E' d s t HE. apply Deriv_order_orientation. intros l r Hin. left. apply HE. exact Hin.
Qed.

(* ====================================================================== *)
(* 3. equivariance                                                         *)
(* ====================================================================== *)

Definition ren_eqs (sigma : N -> N) (E : equations) : equations :=
  map (fun e => (cren sigma (fst e), cren sigma (snd e))) E.

Lemma cnames_cren : forall t f, cnames (cren f t) = map f (cnames t).
Proof.
  apply (cterm_ind2
    (fun t => forall f, cnames (cren f t) = map f (cnames t))
    (fun a => forall f, cnames_arg (cren_arg f a) = map f (cnames_arg a))).
  - intros v args HF f. rewrite cren_CT, !cnames_CT.
    induction HF as [|a l Ha _ IH]; [reflexivity|].
    cbn [map flat_map]. rewrite map_app, Ha, IH. reflexivity.
  - intros x f. reflexivity.
  - intros t IH f. cbn [cren_arg cnames_arg]. apply IH.
  - intros a IH f. cbn [cren_arg cnames_arg]. apply IH.
  - intros p f. reflexivity.
Qed.

(* the instantiating renaming transported along sigma: an inverse search over the finite name list *)
Definition conj_rho (sigma rho : N -> N) (ns : list N) (y : N) : N :=
  match find (fun x => sigma x =? y) (usr ns) with
  | Some x => sigma (rho x)
  | None => y
  end.

Section Equivariance.
  Variable sigma : N -> N.
  Hypothesis Husr : forall x, is_B x = false -> is_B (sigma x) = false.
  Hypothesis Hinj : forall x y, is_B x = false -> is_B y = false -> sigma x = sigma y -> x = y.
  Hypothesis Hfix : forall x, is_B x = true -> sigma x = x.

  Lemma sigma_is_B : forall x, is_B (sigma x) = is_B x.
  Proof.
    intro x. destruct (is_B x) eqn:Hb.
    - rewrite (Hfix x Hb). exact Hb.
    - apply Husr. exact Hb.
  Qed.

  Lemma sigma_inj : forall x y, sigma x = sigma y -> x = y.
  Proof.
    intros x y Heq. destruct (is_B x) eqn:Hx; destruct (is_B y) eqn:Hy.
    - rewrite (Hfix x Hx), (Hfix y Hy) in Heq. exact Heq.
    - pose proof (sigma_is_B x) as H1. pose proof (sigma_is_B y) as H2.
      rewrite Heq, H2, Hx, Hy in H1. discriminate.
    - pose proof (sigma_is_B x) as H1. pose proof (sigma_is_B y) as H2.
      rewrite Heq, H2, Hx, Hy in H1. discriminate.
    - apply Hinj; assumption.
  Qed.

  Lemma conj_rho_hit : forall rho ns x, In x ns -> is_B x = false ->
    conj_rho sigma rho ns (sigma x) = sigma (rho x).
  Proof.
    intros rho ns x Hx Hb. unfold conj_rho.
    destruct (find (fun x0 => sigma x0 =? sigma x) (usr ns)) as [x'|] eqn:Ef.
    - apply find_some in Ef. destruct Ef as [_ Heq]. apply N.eqb_eq in Heq.
      apply sigma_inj in Heq. subst x'. reflexivity.
    - exfalso. assert (Hu : In x (usr ns)) by (apply usr_In; split; assumption).
      pose proof (find_none _ _ Ef x Hu) as Hn. cbn beta in Hn. apply N.eqb_neq in Hn.
      apply Hn. reflexivity.
  Qed.

  Lemma sigma_lift : forall d rho ns x, In x ns ->
    sigma (lift d rho x) = lift d (conj_rho sigma rho ns) (sigma x).
  Proof.
    intros d rho ns x Hx. unfold lift. rewrite sigma_is_B. destruct (is_B x) eqn:Hb.
    - rewrite (Hfix x Hb). apply Hfix. unfold is_B, shift_B in *. lia.
    - symmetry. apply conj_rho_hit; assumption.
  Qed.

  Lemma conj_rho_ok : forall d rho ns,
    inst_ok d rho ns -> inst_ok d (conj_rho sigma rho ns) (map sigma ns).
  Proof.
    intros d rho ns [Hi Hr]. split.
    - intros x' y' Hx' Hy' Hbx Hby Heq.
      apply in_map_iff in Hx'. destruct Hx' as [x [Ex Hx]].
      apply in_map_iff in Hy'. destruct Hy' as [y [Ey Hy]]. subst x' y'.
      rewrite sigma_is_B in Hbx, Hby.
      rewrite !conj_rho_hit in Heq by assumption.
      apply sigma_inj in Heq. f_equal. apply Hi; assumption.
    - intros x' Hx' Hbx. apply in_map_iff in Hx'. destruct Hx' as [x [Ex Hx]]. subst x'.
      rewrite sigma_is_B in Hbx. rewrite conj_rho_hit by assumption.
      destruct (Hr x Hx Hbx) as [H | [k [Hk H]]].
      + left. rewrite sigma_is_B. exact H.
      + right. exists k. split; [exact Hk|]. rewrite H. apply Hfix. unfold is_B, B. lia.
  Qed.

  Lemma Deriv_equivariant_all : forall E,
    (forall d s t, Deriv E d s t -> Deriv (ren_eqs sigma E) d (cren sigma s) (cren sigma t)) /\
    (forall d a b, DerivArg E d a b ->
       DerivArg (ren_eqs sigma E) d (cren_arg sigma a) (cren_arg sigma b)) /\
    (forall d l l', DerivArgs E d l l' ->
       DerivArgs (ren_eqs sigma E) d (map (cren_arg sigma) l) (map (cren_arg sigma) l')).
  Proof.
    intro E.
    apply (Deriv_mutind E
      (fun d s t _ => Deriv (ren_eqs sigma E) d (cren sigma s) (cren sigma t))
      (fun d a b _ => DerivArg (ren_eqs sigma E) d (cren_arg sigma a) (cren_arg sigma b))
      (fun d l l' _ =>
         DerivArgs (ren_eqs sigma E) d (map (cren_arg sigma) l) (map (cren_arg sigma) l'))).
    - (* D_ax *)
      intros d l r rho Hin Hok.
      set (ns := cnames l ++ cnames r).
      assert (Hext : forall t, (forall x, In x (cnames t) -> In x ns) ->
                cren sigma (cren (lift d rho) t)
                = cren (lift d (conj_rho sigma rho ns)) (cren sigma t)).
      { intros t Ht. rewrite !cren_cren. apply cren_ext. intros x Hx.
        apply sigma_lift. apply Ht. exact Hx. }
      rewrite (Hext l) by (intros x Hx; apply in_or_app; left; exact Hx).
      rewrite (Hext r) by (intros x Hx; apply in_or_app; right; exact Hx).
      apply D_ax.
      + unfold ren_eqs. apply in_map_iff. exists (l, r). split; [reflexivity|exact Hin].
      + rewrite !cnames_cren, <- map_app. apply conj_rho_ok. exact Hok.
    - intros; apply D_refl.
    - intros d s t _ IH. apply D_sym. exact IH.
    - intros d s t u _ IH1 _ IH2. eapply D_trans; eassumption.
    - intros d v args args' _ IH. rewrite !cren_CT. apply D_cong. exact IH.
    - intros; cbn [cren_arg]; apply DA_slot.
    - intros; cbn [cren_arg]; apply DA_pay.
    - intros d s t _ IH. cbn [cren_arg]. apply DA_child. exact IH.
    - intros d a b _ IH. cbn [cren_arg]. apply DA_bind. exact IH.
    - intros; cbn [map]; apply DAs_nil.
    - intros d a b l l' _ IHa _ IHl. cbn [map]. apply DAs_cons; assumption.
  Qed.
End Equivariance.

Theorem Deriv_equivariant : forall sigma E d s t,
  (forall x, is_B x = false -> is_B (sigma x) = false) ->
  (forall x y, is_B x = false -> is_B y = false -> sigma x = sigma y -> x = y) ->
  (forall x, is_B x = true -> sigma x = x) ->
  Deriv E d s t -> Deriv (ren_eqs sigma E) d (cren sigma s) (cren sigma t).
Proof.
  intros sigma E d s t H1 H2 H3 H.
  exact (proj1 (Deriv_equivariant_all sigma H1 H2 H3 E) d s t H).
Qed.

Print Assumptions Deriv_order_orientation.
Print Assumptions Deriv_permutation.
Print Assumptions Deriv_flip.
Print Assumptions Deriv_mono.
Print Assumptions Deriv_equivariant.
