(* Sem/EgMachine.v — the semantic side of the e-graph correspondences: decode a history
   (terms, adds, unions), form the asserted equations, run the bounded closure (proved sound:
   Sem/ClosureFacts.v) and report which pairs of handles it derives equal. *)
From SE Require Export Sem.Closure Lang.LangMachine.

Fixpoint dec_rterm (fuel : nat) (e : sexp) : option rterm :=
  match fuel with
  | O => None
  | S f =>
      match e with
      | Lst (Sym "rt" :: n :: ch) =>
          match dec_node n with
          | None => None
          | Some nd =>
              match (fix go (l : list sexp) : option (list rterm) :=
                       match l with
                       | [] => Some []
                       | c :: t => match dec_rterm f c, go t with Some c', Some t' => Some (c' :: t') | _, _ => None end
                       end) ch with
              | Some ch' => Some (RT nd ch')
              | None => None
              end
          end
      | _ => None
      end
  end.

Fixpoint dec_rterms (l : list sexp) : option (list rterm) :=
  match l with
  | [] => Some []
  | e :: t => match dec_rterm 64 e, dec_rterms t with Some r, Some t' => Some (r :: t') | _, _ => None end
  end.

Inductive hop := HAdd (k : nat) | HUnion (i j : nat) (just : option N).

Definition dec_hop (e : sexp) : option hop :=
  match e with
  | Lst [Sym "add"; Num k] => Some (HAdd (N.to_nat k))
  | Lst [Sym "union"; Num i; Num j] => Some (HUnion (N.to_nat i) (N.to_nat j) None)
  | Lst [Sym "union"; Num i; Num j; Num n] => Some (HUnion (N.to_nat i) (N.to_nat j) (Some n))
  | _ => None
  end.
Fixpoint dec_hops (l : list sexp) : option (list hop) :=
  match l with
  | [] => Some []
  | e :: t => match dec_hop e, dec_hops t with Some o, Some r => Some (o :: r) | _, _ => None end
  end.

(* handles: the term index of each add, in order *)
Definition handle_terms (ops : list hop) : list nat :=
  flat_map (fun o => match o with HAdd k => [k] | _ => [] end) ops.

Definition asserted_pairs (cts : list cterm) (ops : list hop) : equations :=
  let hs := handle_terms ops in
  flat_map (fun o => match o with
                     | HUnion i j _ =>
                         match nth_opt hs i, nth_opt hs j with
                         | Some a, Some b =>
                             match nth_opt cts a, nth_opt cts b with
                             | Some s, Some t => [(s, t)]
                             | _, _ => []
                             end
                         | _, _ => []
                         end
                     | _ => [] end) ops.

Fixpoint binder_depth (t : cterm) : nat :=
  match t with
  | CT _ args => (fix go (l : list carg) : nat := match l with [] => O | a :: l' => Nat.max (bd_arg a) (go l') end) args
  end
with bd_arg (a : carg) : nat :=
  match a with
  | CChild t => binder_depth t
  | CBind b => S (bd_arg b)
  | _ => O
  end.

Definition history_pool (cts : list cterm) (spare : nat) : list N :=
  let names := dedupN (filter (fun x => negb (is_B x)) (flat_map cnames cts)) in
  let top := fold_left N.max names 0 in
  names ++ map (fun i => 4 * (top / 4 + 1 + N.of_nat i)) (seq 0 spare).

Definition bits (l : list bool) : string :=
  fold_right (fun (b : bool) acc => String (if b then "1"%char else "0"%char) acc) EmptyString l.

(* case: (eg cfg (terms ...) (ops ...) motif) ; observation: (gcc n b<matrix>) *)
Definition run_eg (spare fuel : nat) (args : list sexp) : sexp :=
  match args with
  | _ :: Lst (Sym "terms" :: ts) :: Lst (Sym "ops" :: os) :: _ =>
      match dec_rterms ts, dec_hops os with
      | Some rts, Some ops =>
          let cts := map canon0 rts in
          let E := asserted_pairs cts ops in
          let maxd := fold_left Nat.max (map binder_depth cts) O in
          let P := gcc_part (history_pool cts spare) maxd fuel E cts in
          let hs := handle_terms ops in
          let hts := flat_map (fun k => match nth_opt cts k with Some t => [t] | None => [] end) hs in
          Lst [Sym "gcc"; Num (N.of_nat (List.length hts));
               Sym (String "b"%char (bits (flat_map (fun s => map (fun t => same_cls P (O, s) (O, t)) hts) hts)));
               Num (N.of_nat (List.length (universe P)))]
      | _, _ => Sym "bad-case"
      end
  | _ => Sym "bad-case"
  end.
