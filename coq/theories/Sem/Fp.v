(* Sem/Fp.v — the model of property C03: arithmetic modulo p (p > 0; the checks use the prime 5) with a
   summation binder and a let binder, as an algebra for [eval] of Sem/Algebra.v; a semantics of rewrite
   PATTERNS (pattern variables, binders, the substitution form b[(var $x) := t]) in that algebra; the pool
   FPPOOL of rewrite rules, as the texts handed to `Rewrite::new` / `Rewrite::new_if` (FPPOOL_text, the same
   list as FPPOOL in harness/src/eg3.rs) and as patterns (FPPOOL), a rule's condition being a tree over
   slot_free_in built with the library's and / or / not; and named terms of the arithmetic
   fragment with instantiation of patterns.  Definitions only; the facts are in Sem/FpFacts.v. *)
From SE Require Export Sem.Algebra.
From SE Require Import Parse.Parser Lang.LangMachine.

(* ------------------------------------------------------------------ *)
(* the algebra *)

Fixpoint sum_upto (n : nat) (f : N -> N) : N :=
  match n with
  | O => 0
  | S k => sum_upto k f + f (N.of_nat k)
  end.

(* the carrier value of an argument; binders are probed at 0 (only used by the hash of the
   uninterpreted variants) *)
Fixpoint sval_code (s : sval N) : N :=
  match s with
  | VSlot _ x => x
  | VChild _ x => x
  | VBind _ f => sval_code (f 0)
  | VPay _ (PVu32 n) => n
  | VPay _ (PVbool b) => if b then 1 else 0
  | VPay _ (PVsym t) => fold_left (fun acc c => acc * 7 + c) t 0
  end.

Definition hash_fp (p : N) (v : nat) (l : list (sval N)) : N :=
  fold_left (fun acc s => (acc * 31 + sval_code s + 1) mod p) l (N.of_nat v mod p).

(* variants of LV (Lang/LangMachine.v: sigLV): var = 5, let = 10, add = 13, mul = 14, sum = 15, Num = 17 *)
Definition interp_fp (p : N) (v : nat) (args : list (sval N)) : N :=
  match v, args with
  | 5%nat, [VSlot _ x] => x mod p
  | 17%nat, [VPay _ (PVu32 n)] => n mod p
  | 13%nat, [VChild _ a; VChild _ b] => (a + b) mod p
  | 14%nat, [VChild _ a; VChild _ b] => (a * b) mod p
  | 15%nat, [VBind _ f] => sum_upto (N.to_nat p) (fun z => sval_code (f z)) mod p
  | 10%nat, [VBind _ f; VChild _ t] => sval_code (f t) mod p
  | _, _ => hash_fp p v args
  end.

Definition fenv := N -> N.
Definition eval_fp (p : N) (env : fenv) (t : cterm) : N := eval N (interp_fp p) 0 env t.

(* ------------------------------------------------------------------ *)
(* patterns of the arithmetic fragment and their semantics *)

Inductive fpat :=
| FVar (x : slot)                     (* (var $x) *)
| FNum (n : N)                        (* n *)
| FAdd (a b : fpat)
| FMul (a b : fpat)
| FSum (x : slot) (b : fpat)          (* (sum $x b) *)
| FLet (x : slot) (b t : fpat)        (* (let $x b t): b with $x bound to the value of t *)
| FPV (v : text)                      (* ?v *)
| FSub (b : fpat) (x : slot) (t : fpat).   (* b[(var $x) := t] *)

(* a pattern variable denotes a function of the environment *)
Definition valuation := text -> fenv -> N.

Fixpoint peval (p : N) (rho : valuation) (env : fenv) (t : fpat) : N :=
  match t with
  | FVar x => env x mod p
  | FNum n => n mod p
  | FAdd a b => (peval p rho env a + peval p rho env b) mod p
  | FMul a b => (peval p rho env a * peval p rho env b) mod p
  | FSum x b => sum_upto (N.to_nat p) (fun z => peval p rho (upd N env x z) b) mod p
  | FLet x b t => peval p rho (upd N env x (peval p rho env t)) b mod p
  | FPV v => rho v env
  | FSub b x t => peval p rho (upd N env x (peval p rho env t)) b
  end.

(* the condition of a rule: a tree over slot_free_in(slot, var) built with the library's combinators
   and / or / not (src/rewrite/mod.rs); FCTrue is the condition of Rewrite::new *)
Inductive fcond :=
| FCTrue
| FCFree (x : slot) (v : text)        (* slot_free_in(x, v) *)
| FCAnd (a b : fcond)                 (* and(a, b) *)
| FCOr (a b : fcond)                  (* or(a, b) *)
| FCNot (a : fcond).                  (* not(a) *)

Record frule := { fr_lhs : fpat; fr_rhs : fpat; fr_cond : fcond }.

(* slot names written in a pattern *)
Fixpoint pslots (t : fpat) : list slot :=
  match t with
  | FVar x => [x]
  | FNum _ => []
  | FAdd a b | FMul a b => pslots a ++ pslots b
  | FSum x b => x :: pslots b
  | FLet x b t => x :: pslots b ++ pslots t
  | FPV _ => []
  | FSub b x t => x :: pslots b ++ pslots t
  end.

(* pattern variables of a pattern *)
Fixpoint pvars (q : fpat) : list text :=
  match q with
  | FVar _ | FNum _ => []
  | FAdd a b | FMul a b => pvars a ++ pvars b
  | FSum _ b => pvars b
  | FLet _ b t | FSub b _ t => pvars b ++ pvars t
  | FPV v => [v]
  end.

(* the value of ?v does not depend on slot x *)
Definition indep (rho : valuation) (v : text) (x : slot) : Prop :=
  forall env z, rho v (upd N env x z) = rho v env.

(* the values of pattern variables are elements of the carrier *)
Definition in_range (p : N) (rho : valuation) : Prop := forall v env, rho v env < p.

(* a slot that occurs only on the right-hand side is a fresh slot when the rule is applied
   (rewrite/ematch.rs: final_subst): no matched class mentions it *)
Definition fresh_ok (r : frule) (rho : valuation) : Prop :=
  forall x, In x (pslots (fr_rhs r)) -> ~ In x (pslots (fr_lhs r)) ->
  forall v, In v (pvars (fr_lhs r) ++ pvars (fr_rhs r)) -> indep rho v x.

(* What the truth value the implementation computes for a condition guarantees about the valuation.
   The implementation's slot_free_in(x, v) is the SYNTACTIC test "x is not among the slots of the class
   matched by ?v".  If it is true the value of ?v does not depend on x; if it is false NOTHING follows (a
   term may mention a slot its value does not depend on).  [cond_sem true c]: the weakest fact guaranteed
   when the implementation evaluates c to true; [cond_sem false c]: ... to false.  and / or / not act on
   these as usual (not swaps the two readings), so a `not` directly above a slot_free_in contributes
   nothing, whereas not(or(not(..), not(..))) guarantees both independences. *)
Fixpoint cond_sem (pos : bool) (c : fcond) (rho : valuation) : Prop :=
  match c with
  | FCTrue => if pos then True else False
  | FCFree x v => if pos then indep rho v x else True
  | FCAnd a b => if pos then cond_sem true a rho /\ cond_sem true b rho
                 else cond_sem false a rho \/ cond_sem false b rho
  | FCOr a b => if pos then cond_sem true a rho \/ cond_sem true b rho
                else cond_sem false a rho /\ cond_sem false b rho
  | FCNot a => cond_sem (negb pos) a rho
  end.

(* the rule's condition was evaluated to true *)
Definition cond_ok (r : frule) (rho : valuation) : Prop := cond_sem true (fr_cond r) rho.

Definition rule_valid (p : N) (r : frule) : Prop :=
  forall rho, in_range p rho -> fresh_ok r rho -> cond_ok r rho ->
  forall env, peval p rho env (fr_lhs r) = peval p rho env (fr_rhs r).

(* ------------------------------------------------------------------ *)
(* the pool: texts ... *)

(* the condition as handed to the library: slot and variable names as texts *)
Inductive ctext :=
| CTNone
| CTFree (s v : string)
| CTAnd (a b : ctext)
| CTOr (a b : ctext)
| CTNot (a : ctext).

Definition FPPOOL_text : list (string * string * ctext) :=
  [ (* 0 *) ("(add ?a ?b)", "(add ?b ?a)", CTNone);
    (* 1 *) ("(mul ?a ?b)", "(mul ?b ?a)", CTNone);
    (* 2 *) ("(add (add ?a ?b) ?c)", "(add ?a (add ?b ?c))", CTNone);
    (* 3 *) ("(mul (mul ?a ?b) ?c)", "(mul ?a (mul ?b ?c))", CTNone);
    (* 4 *) ("(mul ?a (add ?b ?c))", "(add (mul ?a ?b) (mul ?a ?c))", CTNone);
    (* 5 *) ("(add ?a 0)", "?a", CTNone);
    (* 6 *) ("(mul ?a 1)", "?a", CTNone);
    (* 7 *) ("(mul ?a 0)", "0", CTNone);
    (* 8 *) ("(sum $1 (add ?a ?b))", "(add (sum $1 ?a) (sum $1 ?b))", CTNone);
    (* 9 *) ("(sum $1 (mul ?a ?b))", "(mul ?a (sum $1 ?b))", CTFree "1" "a");
    (* 10 *) ("(sum $1 (sum $2 ?a))", "(sum $2 (sum $1 ?a))", CTNone);
    (* 11 *) ("(let $1 ?b ?t)", "?b[(var $1) := ?t]", CTNone);
    (* 12 *) ("(sum $1 ?a)", "(sum $2 (let $1 ?a (var $2)))", CTNone);
    (* 13 *) ("(let $1 (var $1) ?t)", "?t", CTNone);
    (* 14 *) ("(let $1 ?b ?t)", "?b", CTFree "1" "b");
    (* 15 *) ("(sum $1 ?a)", "0", CTFree "1" "a");
    (* 16 *) ("(add (mul ?a ?b) (mul ?a ?c))", "(mul ?a (add ?b ?c))", CTNone);
    (* 17 *) ("(let $1 (add ?a ?b) ?t)", "(add (let $1 ?a ?t) (let $1 ?b ?t))", CTNone);
    (* 18 *) ("(let $1 ?b ?t)", "(let $2 (let $1 ?b (var $2)) ?t)", CTNone);
    (* 19 *) ("(let $1 (mul ?a ?b) ?t)", "(mul (let $1 ?a ?t) (let $1 ?b ?t))", CTNone);
    (* 20 *) ("(let $1 (sum $2 ?b) ?t)", "(sum $2 (let $1 ?b ?t))", CTFree "2" "t");
    (* 21 *) ("(add ?a ?a)", "(mul 2 ?a)", CTNone);
    (* 22 *) ("(mul ?a (sum $1 ?b))", "(sum $1 (mul ?a ?b))", CTFree "1" "a");
    (* 23 *) ("(let $1 ?b (let $2 ?c ?t))", "(let $2 (let $1 ?b ?c) ?t)", CTFree "2" "b");
    (* rules guarded by condition combinators *)
    (* 24 *) ("(sum $1 (mul ?a ?b))", "(mul (mul ?a ?b) (sum $1 1))", CTAnd (CTFree "1" "a") (CTFree "1" "b"));
    (* 25 *) ("(let $1 (add ?a ?b) ?t)", "(add ?a ?b)", CTAnd (CTFree "1" "a") (CTFree "1" "b"));
    (* 26 *) ("(let $1 (mul ?a ?b) ?t)", "(mul ?a ?b)", CTNot (CTOr (CTNot (CTFree "1" "a")) (CTNot (CTFree "1" "b"))));
    (* 27 *) ("(sum $1 (mul ?a ?b))", "(mul ?a (sum $1 ?b))", CTAnd (CTFree "1" "a") (CTNot (CTFree "1" "b")));
    (* 28 *) ("(sum $1 (sum $2 ?a))", "0", CTOr (CTFree "1" "a") (CTFree "2" "a"));
    (* 29 *) ("(sum $1 (sum $2 (mul ?a ?b)))", "(mul (sum $1 ?a) (sum $2 ?b))", CTAnd (CTFree "2" "a") (CTFree "1" "b"));
    (* 30 *) ("(mul (sum $1 ?a) (sum $2 ?b))", "0", CTOr (CTFree "1" "a") (CTFree "2" "b"));
    (* 31 *) ("(let $1 (let $2 ?b ?c) ?t)", "(let $2 ?b ?c)", CTAnd (CTFree "1" "b") (CTFree "1" "c"));
    (* 32 *) ("(let $1 (add ?a (mul ?b ?c)) ?t)", "(add ?a (mul ?b ?c))",
              CTAnd (CTFree "1" "a") (CTAnd (CTFree "1" "b") (CTFree "1" "c")));
    (* 33 *) ("(sum $1 (sum $2 (mul ?a ?b)))", "0",
              CTOr (CTAnd (CTFree "1" "a") (CTFree "1" "b")) (CTAnd (CTFree "2" "a") (CTFree "2" "b"))) ]%string.

(* ... and patterns.  $1 is the slot 4, $2 the slot 8 (Slots/Slot.v: numeric n = 4n). *)
Definition s1 : slot := 4.
Definition s2 : slot := 8.
Definition va := FPV (T "a").
Definition vb := FPV (T "b").
Definition vc := FPV (T "c").
Definition vt := FPV (T "t").
Definition mk (l r : fpat) (c : fcond) : frule := {| fr_lhs := l; fr_rhs := r; fr_cond := c |}.

Definition fr1 (v : string) : fcond := FCFree s1 (T v).
Definition fr2 (v : string) : fcond := FCFree s2 (T v).

Definition FPPOOL : list frule :=
  [ (* 0 *) mk (FAdd va vb) (FAdd vb va) FCTrue;
    (* 1 *) mk (FMul va vb) (FMul vb va) FCTrue;
    (* 2 *) mk (FAdd (FAdd va vb) vc) (FAdd va (FAdd vb vc)) FCTrue;
    (* 3 *) mk (FMul (FMul va vb) vc) (FMul va (FMul vb vc)) FCTrue;
    (* 4 *) mk (FMul va (FAdd vb vc)) (FAdd (FMul va vb) (FMul va vc)) FCTrue;
    (* 5 *) mk (FAdd va (FNum 0)) va FCTrue;
    (* 6 *) mk (FMul va (FNum 1)) va FCTrue;
    (* 7 *) mk (FMul va (FNum 0)) (FNum 0) FCTrue;
    (* 8 *) mk (FSum s1 (FAdd va vb)) (FAdd (FSum s1 va) (FSum s1 vb)) FCTrue;
    (* 9 *) mk (FSum s1 (FMul va vb)) (FMul va (FSum s1 vb)) (FCFree s1 (T "a"));
    (* 10 *) mk (FSum s1 (FSum s2 va)) (FSum s2 (FSum s1 va)) FCTrue;
    (* 11 *) mk (FLet s1 vb vt) (FSub vb s1 vt) FCTrue;
    (* 12 *) mk (FSum s1 va) (FSum s2 (FLet s1 va (FVar s2))) FCTrue;
    (* 13 *) mk (FLet s1 (FVar s1) vt) vt FCTrue;
    (* 14 *) mk (FLet s1 vb vt) vb (FCFree s1 (T "b"));
    (* 15 *) mk (FSum s1 va) (FNum 0) (FCFree s1 (T "a"));
    (* 16 *) mk (FAdd (FMul va vb) (FMul va vc)) (FMul va (FAdd vb vc)) FCTrue;
    (* 17 *) mk (FLet s1 (FAdd va vb) vt) (FAdd (FLet s1 va vt) (FLet s1 vb vt)) FCTrue;
    (* 18 *) mk (FLet s1 vb vt) (FLet s2 (FLet s1 vb (FVar s2)) vt) FCTrue;
    (* 19 *) mk (FLet s1 (FMul va vb) vt) (FMul (FLet s1 va vt) (FLet s1 vb vt)) FCTrue;
    (* 20 *) mk (FLet s1 (FSum s2 vb) vt) (FSum s2 (FLet s1 vb vt)) (FCFree s2 (T "t"));
    (* 21 *) mk (FAdd va va) (FMul (FNum 2) va) FCTrue;
    (* 22 *) mk (FMul va (FSum s1 vb)) (FSum s1 (FMul va vb)) (FCFree s1 (T "a"));
    (* 23 *) mk (FLet s1 vb (FLet s2 vc vt)) (FLet s2 (FLet s1 vb vc) vt) (FCFree s2 (T "b"));
    (* 24 *) mk (FSum s1 (FMul va vb)) (FMul (FMul va vb) (FSum s1 (FNum 1))) (FCAnd (fr1 "a") (fr1 "b"));
    (* 25 *) mk (FLet s1 (FAdd va vb) vt) (FAdd va vb) (FCAnd (fr1 "a") (fr1 "b"));
    (* 26 *) mk (FLet s1 (FMul va vb) vt) (FMul va vb) (FCNot (FCOr (FCNot (fr1 "a")) (FCNot (fr1 "b"))));
    (* 27 *) mk (FSum s1 (FMul va vb)) (FMul va (FSum s1 vb)) (FCAnd (fr1 "a") (FCNot (fr1 "b")));
    (* 28 *) mk (FSum s1 (FSum s2 va)) (FNum 0) (FCOr (fr1 "a") (fr2 "a"));
    (* 29 *) mk (FSum s1 (FSum s2 (FMul va vb))) (FMul (FSum s1 va) (FSum s2 vb)) (FCAnd (fr2 "a") (fr1 "b"));
    (* 30 *) mk (FMul (FSum s1 va) (FSum s2 vb)) (FNum 0) (FCOr (fr1 "a") (fr2 "b"));
    (* 31 *) mk (FLet s1 (FLet s2 vb vc) vt) (FLet s2 vb vc) (FCAnd (fr1 "b") (fr1 "c"));
    (* 32 *) mk (FLet s1 (FAdd va (FMul vb vc)) vt) (FAdd va (FMul vb vc)) (FCAnd (fr1 "a") (FCAnd (fr1 "b") (fr1 "c")));
    (* 33 *) mk (FSum s1 (FSum s2 (FMul va vb))) (FNum 0)
                (FCOr (FCAnd (fr1 "a") (fr1 "b")) (FCAnd (fr2 "a") (fr2 "b"))) ].

(* from the parser's patterns (Parse/Parser.v, the model of Pattern::parse) to fpat *)
Fixpoint fpat_of_pattern (q : pattern) : option fpat :=
  match q with
  | PVarP v => Some (FPV v)
  | PSubst b (PNode {| nvar := 5%nat; nargs := [ASlot x] |} []) t =>
      match fpat_of_pattern b, fpat_of_pattern t with
      | Some b', Some t' => Some (FSub b' x t')
      | _, _ => None
      end
  | PSubst _ _ _ => None
  | PNode {| nvar := 5%nat; nargs := [ASlot x] |} [] => Some (FVar x)
  | PNode {| nvar := 17%nat; nargs := [APay (PVu32 n)] |} [] => Some (FNum n)
  | PNode {| nvar := 13%nat; nargs := [AApp _; AApp _] |} [a; b] =>
      match fpat_of_pattern a, fpat_of_pattern b with
      | Some a', Some b' => Some (FAdd a' b')
      | _, _ => None
      end
  | PNode {| nvar := 14%nat; nargs := [AApp _; AApp _] |} [a; b] =>
      match fpat_of_pattern a, fpat_of_pattern b with
      | Some a', Some b' => Some (FMul a' b')
      | _, _ => None
      end
  | PNode {| nvar := 15%nat; nargs := [ABind x (AApp _)] |} [b] =>
      match fpat_of_pattern b with
      | Some b' => Some (FSum x b')
      | None => None
      end
  | PNode {| nvar := 10%nat; nargs := [ABind x (AApp _); AApp _] |} [b; t] =>
      match fpat_of_pattern b, fpat_of_pattern t with
      | Some b', Some t' => Some (FLet x b' t')
      | _, _ => None
      end
  | PNode _ _ => None
  end.

(* Rewrite::new_if(name, lhs, rhs, cond): the condition is built first, its slot_free_in leaves name their
   slots (Slot::named) from left to right (and(x, y): x is built before y); then the two patterns are parsed
   (the repaired parser of /repo: legacy = false) *)
Fixpoint parse_cond (st : table) (c : ctext) : option (fcond * table) :=
  match c with
  | CTNone => Some (FCTrue, st)
  | CTFree s v => match named false false st (T s) with
                  | Ok (x, st') => Some (FCFree x (T v), st')
                  | Err _ => None
                  end
  | CTAnd a b => match parse_cond st a with
                 | Some (a', st1) => match parse_cond st1 b with
                                     | Some (b', st2) => Some (FCAnd a' b', st2)
                                     | None => None
                                     end
                 | None => None
                 end
  | CTOr a b => match parse_cond st a with
                | Some (a', st1) => match parse_cond st1 b with
                                    | Some (b', st2) => Some (FCOr a' b', st2)
                                    | None => None
                                    end
                | None => None
                end
  | CTNot a => match parse_cond st a with
               | Some (a', st1) => Some (FCNot a', st1)
               | None => None
               end
  end.

Definition parse_frule (r : string * string * ctext) : option frule :=
  let '(l, rh, c) := r in
  match parse_cond init_table c with
  | None => None
  | Some (c', st0) =>
      match parse_pattern_text false false false sigLV st0 (T l) with
      | POk (pl, st1) =>
          match parse_pattern_text false false false sigLV st1 (T rh) with
          | POk (pr, _) =>
              match fpat_of_pattern pl, fpat_of_pattern pr with
              | Some fl, Some fr => Some {| fr_lhs := fl; fr_rhs := fr; fr_cond := c' |}
              | _, _ => None
              end
          | _ => None
          end
      | _ => None
      end
  end.

(* ------------------------------------------------------------------ *)
(* named terms of the arithmetic fragment, their direct semantics, their rterm, instantiation *)

Inductive fterm :=
| TVar (x : slot)
| TNum (n : N)
| TAdd (a b : fterm)
| TMul (a b : fterm)
| TSum (x : slot) (b : fterm)
| TLet (x : slot) (b t : fterm).

Fixpoint feval (p : N) (env : fenv) (t : fterm) : N :=
  match t with
  | TVar x => env x mod p
  | TNum n => n mod p
  | TAdd a b => (feval p env a + feval p env b) mod p
  | TMul a b => (feval p env a * feval p env b) mod p
  | TSum x b => sum_upto (N.to_nat p) (fun z => feval p (upd N env x z) b) mod p
  | TLet x b t => feval p (upd N env x (feval p env t)) b mod p
  end.

(* the RecExpr of a named term (harness wire format `(rt node children...)` decodes to this) *)
Definition nul : appid := {| aid := 0; am := [] |}.
Fixpoint rterm_of (t : fterm) : rterm :=
  match t with
  | TVar x => RT {| nvar := 5; nargs := [ASlot x] |} []
  | TNum n => RT {| nvar := 17; nargs := [APay (PVu32 n)] |} []
  | TAdd a b => RT {| nvar := 13; nargs := [AApp nul; AApp nul] |} [rterm_of a; rterm_of b]
  | TMul a b => RT {| nvar := 14; nargs := [AApp nul; AApp nul] |} [rterm_of a; rterm_of b]
  | TSum x b => RT {| nvar := 15; nargs := [ABind x (AApp nul)] |} [rterm_of b]
  | TLet x b t => RT {| nvar := 10; nargs := [ABind x (AApp nul); AApp nul] |} [rterm_of b; rterm_of t]
  end.

Fixpoint fsize (t : fterm) : nat :=
  match t with
  | TVar _ | TNum _ => 1
  | TAdd a b | TMul a b => S (fsize a + fsize b)
  | TSum _ b => S (fsize b)
  | TLet _ b t => S (fsize b + fsize t)
  end.

(* every slot name of the term (free, bound, binders) *)
Fixpoint tslots (t : fterm) : list slot :=
  match t with
  | TVar x => [x]
  | TNum _ => []
  | TAdd a b | TMul a b => tslots a ++ tslots b
  | TSum x b => x :: tslots b
  | TLet x b t => x :: tslots b ++ tslots t
  end.

Fixpoint free_slots (t : fterm) : list slot :=
  match t with
  | TVar x => [x]
  | TNum _ => []
  | TAdd a b | TMul a b => free_slots a ++ free_slots b
  | TSum x b => filter (fun y => negb (y =? x)) (free_slots b)
  | TLet x b t => filter (fun y => negb (y =? x)) (free_slots b) ++ free_slots t
  end.

Fixpoint bound_slots (t : fterm) : list slot :=
  match t with
  | TVar _ | TNum _ => []
  | TAdd a b | TMul a b => bound_slots a ++ bound_slots b
  | TSum x b => x :: bound_slots b
  | TLet x b t => x :: bound_slots b ++ bound_slots t
  end.

(* b[(var $x) := t]; it is capture-avoiding when no binder of b binds a free slot of t
   (slots of distinct binders are distinct names): [subst_safe] *)
Fixpoint tsubst (b : fterm) (x : slot) (t : fterm) : fterm :=
  match b with
  | TVar y => if y =? x then t else TVar y
  | TNum n => TNum n
  | TAdd a c => TAdd (tsubst a x t) (tsubst c x t)
  | TMul a c => TMul (tsubst a x t) (tsubst c x t)
  | TSum y c => if y =? x then TSum y c else TSum y (tsubst c x t)
  | TLet y c u => TLet y (if y =? x then c else tsubst c x t) (tsubst u x t)
  end.

Definition disjoint (l l' : list slot) : bool :=
  forallb (fun x => negb (existsb (N.eqb x) l')) l.

Definition subst_safe (b t : fterm) : bool := disjoint (bound_slots b) (free_slots t).

(* instantiation of a pattern by terms *)
Fixpoint inst (sigma : text -> fterm) (q : fpat) : fterm :=
  match q with
  | FVar x => TVar x
  | FNum n => TNum n
  | FAdd a b => TAdd (inst sigma a) (inst sigma b)
  | FMul a b => TMul (inst sigma a) (inst sigma b)
  | FSum x b => TSum x (inst sigma b)
  | FLet x b t => TLet x (inst sigma b) (inst sigma t)
  | FPV v => sigma v
  | FSub b x t => tsubst (inst sigma b) x (inst sigma t)
  end.

(* every substitution performed by [inst] is capture-avoiding *)
Fixpoint inst_safe (sigma : text -> fterm) (q : fpat) : bool :=
  match q with
  | FVar _ | FNum _ | FPV _ => true
  | FAdd a b | FMul a b => inst_safe sigma a && inst_safe sigma b
  | FSum _ b => inst_safe sigma b
  | FLet _ b t => inst_safe sigma b && inst_safe sigma t
  | FSub b _ t => inst_safe sigma b && inst_safe sigma t && subst_safe (inst sigma b) (inst sigma t)
  end.

(* the valuation induced by a term substitution *)
Definition rho_of (p : N) (sigma : text -> fterm) : valuation := fun v env => feval p env (sigma v).

(* sigma is an admissible match of rule r: the matched terms do not mention the rule's fresh slots,
   the condition holds syntactically, and the substitutions on both sides are capture-avoiding *)
Definition fresh_slots (r : frule) : list slot :=
  filter (fun x => negb (existsb (N.eqb x) (pslots (fr_lhs r)))) (pslots (fr_rhs r)).

(* the condition as the implementation evaluates it: slot_free_in(x, v) is "x is not a slot of what ?v
   matched", and / or / not are the Boolean connectives *)
Fixpoint cond_eval (sigma : text -> fterm) (c : fcond) : bool :=
  match c with
  | FCTrue => true
  | FCFree x v => negb (existsb (N.eqb x) (free_slots (sigma v)))
  | FCAnd a b => cond_eval sigma a && cond_eval sigma b
  | FCOr a b => cond_eval sigma a || cond_eval sigma b
  | FCNot a => negb (cond_eval sigma a)
  end.

Definition match_ok (r : frule) (sigma : text -> fterm) : bool :=
  forallb (fun v => disjoint (fresh_slots r) (free_slots (sigma v))) (pvars (fr_lhs r) ++ pvars (fr_rhs r)) &&
  cond_eval sigma (fr_cond r) &&
  inst_safe sigma (fr_lhs r) && inst_safe sigma (fr_rhs r).

(* the equation (between canonical terms) a rule instance asserts *)
Definition rule_instance (r : frule) (sigma : text -> fterm) : cterm * cterm :=
  (canon0 (rterm_of (inst sigma (fr_lhs r))), canon0 (rterm_of (inst sigma (fr_rhs r)))).
