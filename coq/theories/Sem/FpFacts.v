(* Sem/FpFacts.v — facts about the model F_p of Sem/Fp.v (for every modulus p > 0):
   1. fppool_valid: every rule of FPPOOL is valid under the pattern semantics [peval];
   2. fppool_text_parses: the rule texts FPPOOL_text (what the harness hands to Rewrite::new/new_if) parse,
      with the model of the crate's pattern parser, to exactly the patterns FPPOOL;
   3. feval_inst: instantiation lemma, [feval (inst sigma q) = peval (rho_of sigma) q] when the substitutions
      performed are capture-avoiding;
   4. eval_canon0: the direct semantics [feval] of a named term is [eval] (Sem/Algebra.v) of its canonical
      term in the algebra [interp_fp p];
   5. rule_instance_valid / fp_deriv_sound: every admissible instance of a pool rule is an equation valid in
      the algebra, hence (Deriv_sound) everything derivable from such instances by the congruence [Deriv]
      evaluates equally;
   6. fppool_guards_needed: read with one of the slips and-as-or / or-as-and / not-dropped, the conditions of
      the combinator-guarded rules make the rule invalid in F_2 (explicit matches: SLIP_WITNESSES). *)
From SE Require Import Sem.Fp Sem.AlgebraFacts Parse.Parser Lang.LangMachine.
From Coq Require Import Lia FunctionalExtensionality.

(* ------------------------------------------------------------------ *)
(* sums *)

Lemma sum_upto_ext : forall n f g,
  (forall k, (k < n)%nat -> f (N.of_nat k) = g (N.of_nat k)) -> sum_upto n f = sum_upto n g.
Proof.
  induction n as [|n IHn]; intros f g Hfg; [reflexivity|].
  cbn [sum_upto]. rewrite (IHn f g), (Hfg n); [reflexivity|lia|].
  intros k Hk. apply Hfg. lia.
Qed.

Lemma sum_upto_add : forall n f g,
  sum_upto n (fun z => f z + g z) = sum_upto n f + sum_upto n g.
Proof.
  induction n as [|n IHn]; intros f g; [reflexivity|].
  cbn [sum_upto]. rewrite IHn. lia.
Qed.

Lemma sum_upto_mulc : forall n c f, sum_upto n (fun z => c * f z) = c * sum_upto n f.
Proof.
  induction n as [|n IHn]; intros c f; cbn [sum_upto]; [lia|].
  rewrite IHn. lia.
Qed.

Lemma sum_upto_const : forall n c, sum_upto n (fun _ => c) = N.of_nat n * c.
Proof.
  induction n as [|n IHn]; intros c; cbn [sum_upto]; [lia|].
  rewrite IHn. lia.
Qed.

Lemma sum_upto_swap : forall n m (f : N -> N -> N),
  sum_upto n (fun x => sum_upto m (fun y => f x y)) = sum_upto m (fun y => sum_upto n (fun x => f x y)).
Proof.
  induction n as [|n IHn]; intros m f; cbn [sum_upto].
  - induction m as [|m IHm]; cbn [sum_upto]; [reflexivity|]. rewrite <- IHm. reflexivity.
  - rewrite IHn. rewrite <- sum_upto_add. reflexivity.
Qed.

Lemma sum_upto_mod : forall p n f, p <> 0 ->
  sum_upto n (fun z => f z mod p) mod p = sum_upto n f mod p.
Proof.
  intros p n f Hp. induction n as [|n IHn]; cbn [sum_upto]; [reflexivity|].
  rewrite N.add_mod by exact Hp. rewrite IHn. rewrite N.mod_mod by exact Hp.
  rewrite <- N.add_mod by exact Hp. reflexivity.
Qed.

(* ------------------------------------------------------------------ *)
(* environments *)

Lemma upd_same : forall (env : fenv) x z, upd N env x z x = z.
Proof.
  intros env x z. unfold upd. rewrite N.eqb_refl. reflexivity.
Qed.

Lemma upd_other : forall (env : fenv) x z y, y <> x -> upd N env x z y = env y.
Proof.
  intros env x z y Hne. unfold upd. apply N.eqb_neq in Hne. rewrite Hne. reflexivity.
Qed.

Lemma upd_comm : forall (env : fenv) x y a b, x <> y ->
  upd N (upd N env x a) y b = upd N (upd N env y b) x a.
Proof.
  intros env x y a b Hne. apply functional_extensionality. intro w. unfold upd.
  destruct (w =? y) eqn:Hy; destruct (w =? x) eqn:Hx; try reflexivity.
  apply N.eqb_eq in Hy. apply N.eqb_eq in Hx. subst. contradiction.
Qed.

Lemma upd_shadow : forall (env : fenv) x a b, upd N (upd N env x a) x b = upd N env x b.
Proof.
  intros env x a b. apply functional_extensionality. intro w. unfold upd.
  destruct (w =? x); reflexivity.
Qed.

(* ------------------------------------------------------------------ *)
(* 1. the pool is valid *)

Section Valid.
  Variable p : N.
  Hypothesis Hp : p <> 0.

  Lemma s1_s2 : s1 <> s2.
  Proof. unfold s1, s2. discriminate. Qed.

  Lemma s2_s1 : s2 <> s1.
  Proof. unfold s1, s2. discriminate. Qed.

  Ltac start :=
    unfold rule_valid; intros rho Hr Hf Hc env;
    cbn [peval fr_lhs fr_rhs mk va vb vc vt];
    unfold cond_ok in Hc; cbn [fr_cond mk cond_sem negb fr1 fr2] in Hc.

  Ltac fresh2 rho Hf v H :=
    assert (H : indep rho (T v) s2)
      by (apply Hf; [cbn; tauto | cbn; unfold s1, s2; intuition discriminate | cbn; tauto]).

  Lemma rule0 : rule_valid p (nth 0 FPPOOL (mk va va FCTrue)).
  Proof.
    cbn [nth FPPOOL]. start. rewrite N.add_comm. reflexivity.
  Qed.

  Lemma rule1 : rule_valid p (nth 1 FPPOOL (mk va va FCTrue)).
  Proof.
    cbn [nth FPPOOL]. start. rewrite N.mul_comm. reflexivity.
  Qed.

  Lemma rule2 : rule_valid p (nth 2 FPPOOL (mk va va FCTrue)).
  Proof.
    cbn [nth FPPOOL]. start.
    rewrite N.add_mod_idemp_l, N.add_mod_idemp_r by exact Hp. rewrite N.add_assoc. reflexivity.
  Qed.

  Lemma rule3 : rule_valid p (nth 3 FPPOOL (mk va va FCTrue)).
  Proof.
    cbn [nth FPPOOL]. start.
    rewrite N.mul_mod_idemp_l, N.mul_mod_idemp_r by exact Hp. rewrite N.mul_assoc. reflexivity.
  Qed.

  Lemma rule4 : rule_valid p (nth 4 FPPOOL (mk va va FCTrue)).
  Proof.
    cbn [nth FPPOOL]. start.
    rewrite N.mul_mod_idemp_r by exact Hp. rewrite <- N.add_mod by exact Hp.
    rewrite N.mul_add_distr_l. reflexivity.
  Qed.

  Lemma rule5 : rule_valid p (nth 5 FPPOOL (mk va va FCTrue)).
  Proof.
    cbn [nth FPPOOL]. start.
    rewrite N.mod_0_l by exact Hp. rewrite N.add_0_r. apply N.mod_small. apply Hr.
  Qed.

  Lemma rule6 : rule_valid p (nth 6 FPPOOL (mk va va FCTrue)).
  Proof.
    cbn [nth FPPOOL]. start.
    rewrite N.mul_mod_idemp_r by exact Hp. rewrite N.mul_1_r. apply N.mod_small. apply Hr.
  Qed.

  Lemma rule7 : rule_valid p (nth 7 FPPOOL (mk va va FCTrue)).
  Proof.
    cbn [nth FPPOOL]. start.
    rewrite N.mul_mod_idemp_r by exact Hp. rewrite N.mul_0_r. reflexivity.
  Qed.

  Lemma rule8 : rule_valid p (nth 8 FPPOOL (mk va va FCTrue)).
  Proof.
    cbn [nth FPPOOL]. start.
    rewrite sum_upto_mod by exact Hp. rewrite sum_upto_add. apply N.add_mod. exact Hp.
  Qed.

  Lemma rule9 : rule_valid p (nth 9 FPPOOL (mk va va FCTrue)).
  Proof.
    cbn [nth FPPOOL]. start.
    rewrite sum_upto_mod by exact Hp.
    rewrite N.mul_mod_idemp_r by exact Hp. rewrite <- sum_upto_mulc.
    f_equal. apply sum_upto_ext. intros k _. rewrite Hc. reflexivity.
  Qed.

  Lemma rule10 : rule_valid p (nth 10 FPPOOL (mk va va FCTrue)).
  Proof.
    cbn [nth FPPOOL]. start.
    rewrite !sum_upto_mod by exact Hp. rewrite sum_upto_swap. f_equal.
    apply sum_upto_ext. intros k _. apply sum_upto_ext. intros j _.
    rewrite (upd_comm env s1 s2) by exact s1_s2. reflexivity.
  Qed.

  Lemma rule11 : rule_valid p (nth 11 FPPOOL (mk va va FCTrue)).
  Proof.
    cbn [nth FPPOOL]. start. apply N.mod_small. apply Hr.
  Qed.

  Lemma rule12 : rule_valid p (nth 12 FPPOOL (mk va va FCTrue)).
  Proof.
    cbn [nth FPPOOL]. start. fresh2 rho Hf "a"%string Ha.
    rewrite (sum_upto_mod p _ (fun z => rho (T "a") (upd N (upd N env s2 z) s1 (upd N env s2 z s2 mod p)))) by exact Hp.
    f_equal. apply sum_upto_ext. intros k Hk.
    rewrite upd_same. rewrite N.mod_small by lia.
    rewrite (upd_comm env s2 s1) by exact s2_s1. rewrite Ha. reflexivity.
  Qed.

  Lemma rule13 : rule_valid p (nth 13 FPPOOL (mk va va FCTrue)).
  Proof.
    cbn [nth FPPOOL]. start. rewrite upd_same. rewrite N.mod_mod by exact Hp. apply N.mod_small. apply Hr.
  Qed.

  Lemma rule14 : rule_valid p (nth 14 FPPOOL (mk va va FCTrue)).
  Proof.
    cbn [nth FPPOOL]. start. rewrite Hc. apply N.mod_small. apply Hr.
  Qed.

  Lemma rule15 : rule_valid p (nth 15 FPPOOL (mk va va FCTrue)).
  Proof.
    cbn [nth FPPOOL]. start.
    rewrite (sum_upto_ext _ _ (fun _ => rho (T "a") env)) by (intros k _; apply Hc).
    rewrite sum_upto_const. rewrite N2Nat.id. rewrite N.mul_comm. rewrite N.mod_mul by exact Hp.
    rewrite N.mod_0_l by exact Hp. reflexivity.
  Qed.

  Lemma rule16 : rule_valid p (nth 16 FPPOOL (mk va va FCTrue)).
  Proof.
    cbn [nth FPPOOL]. start.
    rewrite N.mul_mod_idemp_r by exact Hp. rewrite <- N.add_mod by exact Hp.
    rewrite N.mul_add_distr_l. reflexivity.
  Qed.

  Lemma rule17 : rule_valid p (nth 17 FPPOOL (mk va va FCTrue)).
  Proof.
    cbn [nth FPPOOL]. start.
    rewrite N.mod_mod by exact Hp. apply N.add_mod. exact Hp.
  Qed.

  Lemma rule18 : rule_valid p (nth 18 FPPOOL (mk va va FCTrue)).
  Proof.
    cbn [nth FPPOOL]. start. fresh2 rho Hf "b"%string Hb.
    rewrite upd_same. rewrite !N.mod_mod by exact Hp.
    rewrite (N.mod_small (rho (T "t") env)) by apply Hr.
    rewrite (upd_comm env s2 s1) by exact s2_s1. rewrite Hb. reflexivity.
  Qed.

  Lemma rule19 : rule_valid p (nth 19 FPPOOL (mk va va FCTrue)).
  Proof.
    cbn [nth FPPOOL]. start.
    rewrite N.mod_mod by exact Hp. apply N.mul_mod. exact Hp.
  Qed.

  Lemma rule20 : rule_valid p (nth 20 FPPOOL (mk va va FCTrue)).
  Proof.
    cbn [nth FPPOOL]. start.
    rewrite N.mod_mod by exact Hp. rewrite (sum_upto_mod p _ (fun z => rho (T "b") (upd N (upd N env s2 z) s1 (rho (T "t") (upd N env s2 z))))) by exact Hp.
    f_equal. apply sum_upto_ext. intros k _.
    rewrite Hc. rewrite (upd_comm env s1 s2) by exact s1_s2. reflexivity.
  Qed.

  Lemma rule21 : rule_valid p (nth 21 FPPOOL (mk va va FCTrue)).
  Proof.
    cbn [nth FPPOOL]. start.
    rewrite N.mul_mod_idemp_l by exact Hp. f_equal. lia.
  Qed.

  Lemma rule22 : rule_valid p (nth 22 FPPOOL (mk va va FCTrue)).
  Proof.
    cbn [nth FPPOOL]. start.
    rewrite sum_upto_mod by exact Hp.
    rewrite N.mul_mod_idemp_r by exact Hp. rewrite <- sum_upto_mulc.
    f_equal. apply sum_upto_ext. intros k _. rewrite Hc. reflexivity.
  Qed.

  Lemma rule23 : rule_valid p (nth 23 FPPOOL (mk va va FCTrue)).
  Proof.
    cbn [nth FPPOOL]. start.
    rewrite N.mod_mod by exact Hp.
    rewrite (N.mod_small (rho (T "c") (upd N env s2 (rho (T "t") env)))) by apply Hr.
    rewrite (upd_comm env s2 s1) by exact s2_s1. rewrite Hc. reflexivity.
  Qed.

  (* a sum of a constant over the whole carrier vanishes *)
  Lemma sum_const_zero : forall c, sum_upto (N.to_nat p) (fun _ => c) mod p = 0.
  Proof.
    intro c. rewrite sum_upto_const. rewrite N2Nat.id. rewrite N.mul_comm. apply N.mod_mul. exact Hp.
  Qed.

  (* a double sum whose body ignores one of the two indices vanishes *)
  Lemma sum2_zero : forall f : N -> N -> N,
    (forall x x' y, f x y = f x' y) \/ (forall x y y', f x y = f x y') ->
    sum_upto (N.to_nat p) (fun x => sum_upto (N.to_nat p) (fun y => f x y) mod p) mod p = 0.
  Proof.
    intros f [Hx|Hy].
    - rewrite (sum_upto_ext _ _ (fun _ => sum_upto (N.to_nat p) (fun y => f 0 y) mod p)).
      + apply sum_const_zero.
      + intros k _. f_equal. apply sum_upto_ext. intros j _. apply Hx.
    - rewrite (sum_upto_ext _ _ (fun _ => 0)).
      + apply sum_const_zero.
      + intros k _. rewrite (sum_upto_ext _ _ (fun _ => f (N.of_nat k) 0)) by (intros j _; apply Hy).
        apply sum_const_zero.
  Qed.

  (* ---- rules guarded by and / or / not ---- *)

  Lemma rule24 : rule_valid p (nth 24 FPPOOL (mk va va FCTrue)).
  Proof.
    cbn [nth FPPOOL]. start. destruct Hc as [Ha Hb].
    rewrite (sum_upto_ext _ _ (fun _ => (rho (T "a") env * rho (T "b") env) mod p))
      by (intros k _; rewrite Ha, Hb; reflexivity).
    rewrite !sum_const_zero. rewrite N.mul_0_r. rewrite N.mod_0_l by exact Hp. reflexivity.
  Qed.

  Lemma rule25 : rule_valid p (nth 25 FPPOOL (mk va va FCTrue)).
  Proof.
    cbn [nth FPPOOL]. start. destruct Hc as [Ha Hb].
    rewrite Ha, Hb. rewrite N.mod_mod by exact Hp. reflexivity.
  Qed.

  Lemma rule26 : rule_valid p (nth 26 FPPOOL (mk va va FCTrue)).
  Proof.
    cbn [nth FPPOOL]. start. destruct Hc as [Ha Hb].
    rewrite Ha, Hb. rewrite N.mod_mod by exact Hp. reflexivity.
  Qed.

  Lemma rule27 : rule_valid p (nth 27 FPPOOL (mk va va FCTrue)).
  Proof.
    cbn [nth FPPOOL]. start. destruct Hc as [Ha _].
    rewrite sum_upto_mod by exact Hp.
    rewrite N.mul_mod_idemp_r by exact Hp. rewrite <- sum_upto_mulc.
    f_equal. apply sum_upto_ext. intros k _. rewrite Ha. reflexivity.
  Qed.

  Lemma rule28 : rule_valid p (nth 28 FPPOOL (mk va va FCTrue)).
  Proof.
    cbn [nth FPPOOL]. start. rewrite N.mod_0_l by exact Hp.
    apply (sum2_zero (fun x y => rho (T "a") (upd N (upd N env s1 x) s2 y))).
    destruct Hc as [Ha|Ha].
    - left. intros x x' y. rewrite !(upd_comm env s1 s2) by exact s1_s2. rewrite !Ha. reflexivity.
    - right. intros x y y'. rewrite !Ha. reflexivity.
  Qed.

  Lemma rule29 : rule_valid p (nth 29 FPPOOL (mk va va FCTrue)).
  Proof.
    cbn [nth FPPOOL]. start. destruct Hc as [Ha Hb].
    rewrite (sum_upto_ext _ _ (fun x => (rho (T "a") (upd N env s1 x) *
                                          sum_upto (N.to_nat p) (fun y => rho (T "b") (upd N env s2 y))) mod p)).
    - rewrite sum_upto_mod by exact Hp.
      rewrite (sum_upto_ext _ _ (fun x => sum_upto (N.to_nat p) (fun y => rho (T "b") (upd N env s2 y)) *
                                           rho (T "a") (upd N env s1 x)))
        by (intros k _; apply N.mul_comm).
      rewrite sum_upto_mulc. rewrite <- N.mul_mod by exact Hp. rewrite N.mul_comm. reflexivity.
    - intros k _. rewrite sum_upto_mod by exact Hp. rewrite <- sum_upto_mulc. f_equal.
      apply sum_upto_ext. intros j _. rewrite Ha. rewrite (upd_comm env s1 s2) by exact s1_s2. rewrite Hb.
      reflexivity.
  Qed.

  Lemma rule30 : rule_valid p (nth 30 FPPOOL (mk va va FCTrue)).
  Proof.
    cbn [nth FPPOOL]. start. rewrite N.mod_0_l by exact Hp. destruct Hc as [Ha|Hb].
    - rewrite (sum_upto_ext _ _ (fun _ => rho (T "a") env)) by (intros k _; apply Ha).
      rewrite sum_const_zero. rewrite N.mul_0_l. apply N.mod_0_l. exact Hp.
    - rewrite (sum_upto_ext (N.to_nat p) (fun z => rho (T "b") (upd N env s2 z)) (fun _ => rho (T "b") env))
        by (intros k _; apply Hb).
      rewrite sum_const_zero. rewrite N.mul_0_r. apply N.mod_0_l. exact Hp.
  Qed.

  Lemma rule31 : rule_valid p (nth 31 FPPOOL (mk va va FCTrue)).
  Proof.
    cbn [nth FPPOOL]. start. destruct Hc as [Hb Hc].
    rewrite Hc. rewrite (upd_comm env s1 s2) by exact s1_s2. rewrite Hb.
    rewrite N.mod_mod by exact Hp. reflexivity.
  Qed.

  Lemma rule32 : rule_valid p (nth 32 FPPOOL (mk va va FCTrue)).
  Proof.
    cbn [nth FPPOOL]. start. destruct Hc as [Ha [Hb Hc]].
    rewrite Ha, Hb, Hc. rewrite N.mod_mod by exact Hp. reflexivity.
  Qed.

  Lemma rule33 : rule_valid p (nth 33 FPPOOL (mk va va FCTrue)).
  Proof.
    cbn [nth FPPOOL]. start. rewrite N.mod_0_l by exact Hp.
    apply (sum2_zero (fun x y => (rho (T "a") (upd N (upd N env s1 x) s2 y) *
                                  rho (T "b") (upd N (upd N env s1 x) s2 y)) mod p)).
    destruct Hc as [[Ha Hb]|[Ha Hb]].
    - left. intros x x' y. rewrite !(upd_comm env s1 s2) by exact s1_s2. rewrite !Ha, !Hb. reflexivity.
    - right. intros x y y'. rewrite !Ha, !Hb. reflexivity.
  Qed.

  Theorem fppool_valid_sec : Forall (rule_valid p) FPPOOL.
  Proof.
    unfold FPPOOL.
    repeat (apply Forall_cons;
            [ first [ exact rule0 | exact rule1 | exact rule2 | exact rule3 | exact rule4 | exact rule5
                    | exact rule6 | exact rule7 | exact rule8 | exact rule9 | exact rule10 | exact rule11
                    | exact rule12 | exact rule13 | exact rule14 | exact rule15 | exact rule16 | exact rule17
                    | exact rule18 | exact rule19 | exact rule20 | exact rule21 | exact rule22 | exact rule23
                    | exact rule24 | exact rule25 | exact rule26 | exact rule27 | exact rule28 | exact rule29
                    | exact rule30 | exact rule31 | exact rule32 | exact rule33 ] | ]).
    apply Forall_nil.
  Qed.
End Valid.

(* for every modulus (in particular every prime) and every rule of the pool: under every valuation of the
   pattern variables by carrier-valued functions of the environment that ignores the rule's fresh slots and
   for which the facts guaranteed by the truth of its condition hold ([cond_ok] = [cond_sem true]: a true
   slot_free_in gives independence, a false one nothing; and / or / not combine the two readings), and under
   every environment, both sides denote the same value *)
Theorem fppool_valid : forall p, p <> 0 -> forall r, In r FPPOOL ->
  forall rho, in_range p rho -> fresh_ok r rho -> cond_ok r rho ->
  forall env, peval p rho env (fr_lhs r) = peval p rho env (fr_rhs r).
Proof.
  intros p Hp r Hin. pose proof (fppool_valid_sec p Hp) as HF.
  rewrite Forall_forall in HF. exact (HF r Hin).
Qed.

(* ------------------------------------------------------------------ *)
(* 2. the texts of the pool are these patterns *)

Theorem fppool_text_parses : map parse_frule FPPOOL_text = map Some FPPOOL.
Proof. vm_compute. reflexivity. Qed.

(* ------------------------------------------------------------------ *)
(* small facts about lists of slots *)

Lemma mem_false : forall x l, ~ In x l -> existsb (N.eqb x) l = false.
Proof.
  intros x l Hn. destruct (existsb (N.eqb x) l) eqn:E; [|reflexivity].
  apply existsb_exists in E. destruct E as [y [Hy Heq]]. apply N.eqb_eq in Heq. subst y. contradiction.
Qed.

Lemma not_mem : forall x l, existsb (N.eqb x) l = false -> ~ In x l.
Proof.
  intros x l H Hin.
  assert (Ht : existsb (N.eqb x) l = true) by (apply existsb_exists; exists x; split; [exact Hin|apply N.eqb_refl]).
  congruence.
Qed.

Lemma disjoint_app : forall l1 l2 l', disjoint (l1 ++ l2) l' = disjoint l1 l' && disjoint l2 l'.
Proof.
  intros l1 l2 l'. unfold disjoint. apply forallb_app.
Qed.

Lemma disjoint_cons : forall x l l', disjoint (x :: l) l' = negb (existsb (N.eqb x) l') && disjoint l l'.
Proof. reflexivity. Qed.

Lemma disjoint_spec : forall l l' x, disjoint l l' = true -> In x l -> ~ In x l'.
Proof.
  intros l l' x Hd Hin. unfold disjoint in Hd. rewrite forallb_forall in Hd.
  specialize (Hd x Hin). apply Bool.negb_true_iff in Hd. apply not_mem. exact Hd.
Qed.

Lemma is_B_B : forall d, is_B (B d) = true.
Proof.
  intro d. unfold is_B, B. rewrite N.add_comm, N.mul_comm, N.mod_add by discriminate. reflexivity.
Qed.

Lemma B_inj_lt : forall k d, (k < d)%nat -> B k <> B d.
Proof.
  intros k d Hk. unfold B. lia.
Qed.

(* ------------------------------------------------------------------ *)
(* 3. instantiation *)

Section Inst.
  Variable p : N.
  Hypothesis Hp : p <> 0.

  Lemma feval_lt : forall t env, feval p env t < p.
  Proof.
    intros t env. destruct t; cbn [feval]; apply N.mod_lt; exact Hp.
  Qed.

  (* the value depends on the free slots only *)
  Lemma feval_ext : forall t env env',
    (forall y, In y (free_slots t) -> env y = env' y) -> feval p env t = feval p env' t.
  Proof.
    induction t as [x|n|a IHa b IHb|a IHa b IHb|x b IHb|x b IHb t IHt]; intros env env' H;
      cbn [feval free_slots] in *.
    - rewrite (H x); [reflexivity|left; reflexivity].
    - reflexivity.
    - rewrite (IHa env env'), (IHb env env'); [reflexivity| |];
        intros y Hy; apply H; apply in_or_app; [right|left]; exact Hy.
    - rewrite (IHa env env'), (IHb env env'); [reflexivity| |];
        intros y Hy; apply H; apply in_or_app; [right|left]; exact Hy.
    - f_equal. apply sum_upto_ext. intros k _. apply IHb. intros y Hy. unfold upd.
      destruct (y =? x) eqn:E; [reflexivity|]. apply H. apply filter_In. split; [exact Hy|].
      rewrite E. reflexivity.
    - rewrite (IHt env env') by (intros y Hy; apply H; apply in_or_app; right; exact Hy).
      f_equal. apply IHb. intros y Hy. unfold upd.
      destruct (y =? x) eqn:E; [reflexivity|]. apply H. apply in_or_app. left.
      apply filter_In. split; [exact Hy|]. rewrite E. reflexivity.
  Qed.

  Lemma feval_upd_notfree : forall t env x z, ~ In x (free_slots t) -> feval p (upd N env x z) t = feval p env t.
  Proof.
    intros t env x z Hn. apply feval_ext. intros y Hy. apply upd_other. intro Heq. subst y. contradiction.
  Qed.

  (* substitution lemma: b[(var $x) := t] evaluates like b with $x bound to the value of t *)
  Lemma feval_tsubst : forall b x t env, subst_safe b t = true ->
    feval p env (tsubst b x t) = feval p (upd N env x (feval p env t)) b.
  Proof.
    induction b as [y|n|a IHa c IHc|a IHa c IHc|y c IHc|y c IHc u IHu]; intros x0 t0 env Hs;
      unfold subst_safe in *; cbn [bound_slots tsubst] in *.
    - destruct (y =? x0) eqn:E.
      + apply N.eqb_eq in E. subst y. cbn [feval]. rewrite upd_same.
        symmetry. apply N.mod_small. apply feval_lt.
      + cbn [feval]. rewrite upd_other by (apply N.eqb_neq; exact E). reflexivity.
    - reflexivity.
    - rewrite disjoint_app in Hs. apply andb_prop in Hs. destruct Hs as [H1 H2].
      cbn [feval]. rewrite IHa, IHc by assumption. reflexivity.
    - rewrite disjoint_app in Hs. apply andb_prop in Hs. destruct Hs as [H1 H2].
      cbn [feval]. rewrite IHa, IHc by assumption. reflexivity.
    - rewrite disjoint_cons in Hs. apply andb_prop in Hs. destruct Hs as [Hy Hc].
      apply Bool.negb_true_iff in Hy. destruct (y =? x0) eqn:E.
      + apply N.eqb_eq in E. subst y. cbn [feval]. f_equal. apply sum_upto_ext. intros k _.
        rewrite upd_shadow. reflexivity.
      + cbn [feval]. f_equal. apply sum_upto_ext. intros k _. rewrite IHc by exact Hc.
        rewrite (feval_upd_notfree t0 env y) by (apply not_mem; exact Hy).
        rewrite (upd_comm env y x0) by (apply N.eqb_neq; exact E). reflexivity.
    - rewrite disjoint_cons in Hs. apply andb_prop in Hs. destruct Hs as [Hy Hcu].
      rewrite disjoint_app in Hcu. apply andb_prop in Hcu. destruct Hcu as [Hc Hu].
      apply Bool.negb_true_iff in Hy. cbn [feval]. rewrite IHu by exact Hu.
      destruct (y =? x0) eqn:E.
      + apply N.eqb_eq in E. subst y. rewrite upd_shadow. reflexivity.
      + rewrite IHc by exact Hc.
        rewrite (feval_upd_notfree t0 env y) by (apply not_mem; exact Hy).
        rewrite (upd_comm env y x0) by (apply N.eqb_neq; exact E). reflexivity.
  Qed.

  (* instantiation lemma: the value of an instance is the pattern semantics under the induced valuation *)
  Theorem feval_inst : forall sigma q env, inst_safe sigma q = true ->
    feval p env (inst sigma q) = peval p (rho_of p sigma) env q.
  Proof.
    intros sigma.
    induction q as [x|n|a IHa b IHb|a IHa b IHb|x b IHb|x b IHb t IHt|v|b IHb x t IHt]; intros env Hs;
      cbn [inst inst_safe peval] in *.
    - reflexivity.
    - reflexivity.
    - apply andb_prop in Hs. destruct Hs as [H1 H2]. cbn [feval]. rewrite IHa, IHb by assumption. reflexivity.
    - apply andb_prop in Hs. destruct Hs as [H1 H2]. cbn [feval]. rewrite IHa, IHb by assumption. reflexivity.
    - cbn [feval]. f_equal. apply sum_upto_ext. intros k _. apply IHb. exact Hs.
    - apply andb_prop in Hs. destruct Hs as [H1 H2]. cbn [feval]. rewrite IHt, IHb by assumption. reflexivity.
    - reflexivity.
    - apply andb_prop in Hs. destruct Hs as [H12 H3]. apply andb_prop in H12. destruct H12 as [H1 H2].
      rewrite feval_tsubst by exact H3. rewrite IHt, IHb by assumption. reflexivity.
  Qed.

  Lemma in_range_rho_of : forall sigma, in_range p (rho_of p sigma).
  Proof.
    intros sigma v env. unfold rho_of. apply feval_lt.
  Qed.

  Lemma indep_of_notfree : forall sigma v x, ~ In x (free_slots (sigma v)) -> indep (rho_of p sigma) v x.
  Proof.
    intros sigma v x Hn env z. unfold rho_of. apply feval_upd_notfree. exact Hn.
  Qed.

  (* the truth value of the condition as the implementation evaluates it (syntactically, on the matched
     terms) guarantees its reading [cond_sem] for the induced valuation *)
  Lemma cond_eval_sound : forall sigma c pos, cond_eval sigma c = pos -> cond_sem pos c (rho_of p sigma).
  Proof.
    intros sigma. induction c as [|x v|a IHa b IHb|a IHa b IHb|a IHa]; intros pos H; cbn [cond_eval cond_sem] in *.
    - subst pos. exact I.
    - destruct pos; [|exact I]. apply indep_of_notfree. apply not_mem. apply Bool.negb_true_iff. exact H.
    - destruct pos.
      + apply andb_prop in H. destruct H as [H1 H2]. split; [apply IHa; exact H1|apply IHb; exact H2].
      + apply Bool.andb_false_iff in H. destruct H as [H|H]; [left; apply IHa; exact H|right; apply IHb; exact H].
    - destruct pos.
      + apply Bool.orb_true_iff in H. destruct H as [H|H]; [left; apply IHa; exact H|right; apply IHb; exact H].
      + apply Bool.orb_false_iff in H. destruct H as [H1 H2]. split; [apply IHa; exact H1|apply IHb; exact H2].
    - apply IHa. rewrite <- H. rewrite Bool.negb_involutive. reflexivity.
  Qed.

  (* ------------------------------------------------------------------ *)
  (* 4. the direct semantics is [eval] of the canonical term *)

  Lemma canon_var : forall f d benv x,
    canon (S f) d benv (rterm_of (TVar x)) = CT 5 [CSlot (env_get benv x)].
  Proof. reflexivity. Qed.
  Lemma canon_num : forall f d benv n,
    canon (S f) d benv (rterm_of (TNum n)) = CT 17 [CPay (PVu32 n)].
  Proof. reflexivity. Qed.
  Lemma canon_add : forall f d benv a b,
    canon (S f) d benv (rterm_of (TAdd a b)) =
    CT 13 [CChild (canon f d benv (rterm_of a)); CChild (canon f d benv (rterm_of b))].
  Proof. reflexivity. Qed.
  Lemma canon_mul : forall f d benv a b,
    canon (S f) d benv (rterm_of (TMul a b)) =
    CT 14 [CChild (canon f d benv (rterm_of a)); CChild (canon f d benv (rterm_of b))].
  Proof. reflexivity. Qed.
  Lemma canon_sum : forall f d benv x b,
    canon (S f) d benv (rterm_of (TSum x b)) =
    CT 15 [CBind (CChild (canon f (S d) ((x, B d) :: benv) (rterm_of b)))].
  Proof. reflexivity. Qed.
  Lemma canon_let : forall f d benv x b t,
    canon (S f) d benv (rterm_of (TLet x b t)) =
    CT 10 [CBind (CChild (canon f (S d) ((x, B d) :: benv) (rterm_of b))); CChild (canon f d benv (rterm_of t))].
  Proof. reflexivity. Qed.

  Notation ev := (eval N (interp_fp p)).

  Lemma eval_var : forall d env x, ev d env (CT 5 [CSlot x]) = env x mod p.
  Proof. reflexivity. Qed.
  Lemma eval_num : forall d env n, ev d env (CT 17 [CPay (PVu32 n)]) = n mod p.
  Proof. reflexivity. Qed.
  Lemma eval_add : forall d env a b, ev d env (CT 13 [CChild a; CChild b]) = (ev d env a + ev d env b) mod p.
  Proof. reflexivity. Qed.
  Lemma eval_mul : forall d env a b, ev d env (CT 14 [CChild a; CChild b]) = (ev d env a * ev d env b) mod p.
  Proof. reflexivity. Qed.
  Lemma eval_sum : forall d env c,
    ev d env (CT 15 [CBind (CChild c)]) = sum_upto (N.to_nat p) (fun z => ev (S d) (upd N env (B d) z) c) mod p.
  Proof. reflexivity. Qed.
  Lemma eval_let : forall d env b t,
    ev d env (CT 10 [CBind (CChild b); CChild t]) = ev (S d) (upd N env (B d) (ev d env t)) b mod p.
  Proof. reflexivity. Qed.

  Lemma rsize_rterm_of : forall t, rsize (rterm_of t) = fsize t.
  Proof.
    induction t as [x|n|a IHa b IHb|a IHa b IHb|x b IHb|x b IHb t IHt];
      cbn [rterm_of rsize fold_right fsize]; try rewrite IHa; try rewrite IHb; try rewrite IHt; lia.
  Qed.

  (* envC: the environment of the canonical term (bound slots are the reserved names B k);
     envN: the environment of the named term; benv: the renaming [canon] carries *)
  Definition benv_ok (d : nat) (benv : list (slot * N)) (envC envN : fenv) : Prop :=
    forall x, is_B x = false ->
      envC (env_get benv x) = envN x /\
      (env_get benv x = x \/ exists k, (k < d)%nat /\ env_get benv x = B k).

  Lemma benv_ok_bind : forall d benv envC envN x z,
    benv_ok d benv envC envN -> is_B x = false ->
    benv_ok (S d) ((x, B d) :: benv) (upd N envC (B d) z) (upd N envN x z).
  Proof.
    intros d benv envC envN x z Hok Hx y Hy. cbn [env_get]. destruct (y =? x) eqn:E.
    - apply N.eqb_eq in E. subst y. split.
      + rewrite !upd_same. reflexivity.
      + right. exists d. split; [lia|reflexivity].
    - destruct (Hok y Hy) as [H1 H2]. split.
      + rewrite (upd_other envN) by (apply N.eqb_neq; exact E). rewrite upd_other; [exact H1|].
        destruct H2 as [H2|[k [Hk H2]]]; rewrite H2.
        * intro Heq. rewrite Heq in Hy. rewrite is_B_B in Hy. discriminate Hy.
        * apply B_inj_lt. exact Hk.
      + destruct H2 as [H2|[k [Hk H2]]]; [left; exact H2|right; exists k; split; [lia|exact H2]].
  Qed.

  Lemma eval_canon : forall t fuel d benv envC envN,
    (fsize t <= fuel)%nat -> (forall x, In x (tslots t) -> is_B x = false) -> benv_ok d benv envC envN ->
    ev d envC (canon fuel d benv (rterm_of t)) = feval p envN t.
  Proof.
    induction t as [x|n|a IHa b IHb|a IHa b IHb|x b IHb|x b IHb t IHt]; intros fuel d benv envC envN Hf Hs Hok;
      (destruct fuel as [|f]; [cbn [fsize] in Hf; lia|]); cbn [fsize tslots] in *.
    - rewrite canon_var, eval_var. cbn [feval].
      destruct (Hok x (Hs x (or_introl eq_refl))) as [H1 _]. rewrite H1. reflexivity.
    - rewrite canon_num, eval_num. reflexivity.
    - rewrite canon_add, eval_add. cbn [feval].
      rewrite (IHa f d benv envC envN), (IHb f d benv envC envN); try assumption; try lia; try reflexivity;
        intros y Hy; apply Hs; apply in_or_app; [right|left]; exact Hy.
    - rewrite canon_mul, eval_mul. cbn [feval].
      rewrite (IHa f d benv envC envN), (IHb f d benv envC envN); try assumption; try lia; try reflexivity;
        intros y Hy; apply Hs; apply in_or_app; [right|left]; exact Hy.
    - rewrite canon_sum, eval_sum. cbn [feval]. f_equal. apply sum_upto_ext. intros k _.
      apply IHb; [lia| |].
      + intros y Hy. apply Hs. right. exact Hy.
      + apply benv_ok_bind; [exact Hok|]. apply Hs. left. reflexivity.
    - rewrite canon_let, eval_let. cbn [feval].
      rewrite (IHt f d benv envC envN); [|lia| |exact Hok].
      + f_equal. apply IHb; [lia| |].
        * intros y Hy. apply Hs. right. apply in_or_app. left. exact Hy.
        * apply benv_ok_bind; [exact Hok|]. apply Hs. left. reflexivity.
      + intros y Hy. apply Hs. right. apply in_or_app. right. exact Hy.
  Qed.

  Theorem eval_canon0 : forall t env, (forall x, In x (tslots t) -> is_B x = false) ->
    eval_fp p env (canon0 (rterm_of t)) = feval p env t.
  Proof.
    intros t env Hs. unfold eval_fp, canon0. apply eval_canon.
    - rewrite rsize_rterm_of. lia.
    - exact Hs.
    - intros x Hx. cbn [env_get]. split; [reflexivity|left; reflexivity].
  Qed.

  (* ------------------------------------------------------------------ *)
  (* 5. instances of pool rules are valid equations *)

  Lemma tslots_tsubst : forall b x t y, In y (tslots (tsubst b x t)) -> In y (tslots b) \/ In y (tslots t).
  Proof.
    induction b as [z|n|a IHa c IHc|a IHa c IHc|z c IHc|z c IHc u IHu]; intros x t y Hy; cbn [tsubst tslots] in *.
    - destruct (z =? x); [right; exact Hy|left; exact Hy].
    - left. exact Hy.
    - apply in_app_or in Hy. destruct Hy as [Hy|Hy]; [apply IHa in Hy|apply IHc in Hy];
        destruct Hy as [Hy|Hy]; try (right; exact Hy); left; apply in_or_app; [left|right]; exact Hy.
    - apply in_app_or in Hy. destruct Hy as [Hy|Hy]; [apply IHa in Hy|apply IHc in Hy];
        destruct Hy as [Hy|Hy]; try (right; exact Hy); left; apply in_or_app; [left|right]; exact Hy.
    - destruct (z =? x); [left; exact Hy|]. cbn [tslots] in Hy. destruct Hy as [Hy|Hy]; [left; left; exact Hy|].
      apply IHc in Hy. destruct Hy as [Hy|Hy]; [left; right; exact Hy|right; exact Hy].
    - destruct Hy as [Hy|Hy]; [left; left; exact Hy|]. apply in_app_or in Hy. destruct Hy as [Hy|Hy].
      + destruct (z =? x).
        * left. right. apply in_or_app. left. exact Hy.
        * apply IHc in Hy. destruct Hy as [Hy|Hy]; [left; right; apply in_or_app; left; exact Hy|right; exact Hy].
      + apply IHu in Hy. destruct Hy as [Hy|Hy]; [left; right; apply in_or_app; right; exact Hy|right; exact Hy].
  Qed.

  Lemma tslots_inst : forall sigma q y, In y (tslots (inst sigma q)) ->
    In y (pslots q) \/ exists v, In v (pvars q) /\ In y (tslots (sigma v)).
  Proof.
    intros sigma.
    assert (Hmono : forall (l1 l2 : list text) y,
              (exists v, In v l1 /\ In y (tslots (sigma v))) \/ (exists v, In v l2 /\ In y (tslots (sigma v))) ->
              exists v, In v (l1 ++ l2) /\ In y (tslots (sigma v))).
    { intros l1 l2 y [[v [Hv Hy]]|[v [Hv Hy]]]; exists v; (split; [apply in_or_app|exact Hy]); [left|right]; exact Hv. }
    induction q as [x|n|a IHa b IHb|a IHa b IHb|x b IHb|x b IHb t IHt|v|b IHb x t IHt]; intros y Hy;
      cbn [inst tslots pslots pvars] in *.
    - left. exact Hy.
    - left. exact Hy.
    - apply in_app_or in Hy. destruct Hy as [Hy|Hy]; [apply IHa in Hy|apply IHb in Hy]; destruct Hy as [Hy|Hy].
      + left. apply in_or_app. left. exact Hy.
      + right. apply Hmono. left. exact Hy.
      + left. apply in_or_app. right. exact Hy.
      + right. apply Hmono. right. exact Hy.
    - apply in_app_or in Hy. destruct Hy as [Hy|Hy]; [apply IHa in Hy|apply IHb in Hy]; destruct Hy as [Hy|Hy].
      + left. apply in_or_app. left. exact Hy.
      + right. apply Hmono. left. exact Hy.
      + left. apply in_or_app. right. exact Hy.
      + right. apply Hmono. right. exact Hy.
    - destruct Hy as [Hy|Hy]; [left; left; exact Hy|]. apply IHb in Hy.
      destruct Hy as [Hy|Hy]; [left; right; exact Hy|right; exact Hy].
    - destruct Hy as [Hy|Hy]; [left; left; exact Hy|]. apply in_app_or in Hy.
      destruct Hy as [Hy|Hy]; [apply IHb in Hy|apply IHt in Hy]; destruct Hy as [Hy|Hy].
      + left. right. apply in_or_app. left. exact Hy.
      + right. apply Hmono. left. exact Hy.
      + left. right. apply in_or_app. right. exact Hy.
      + right. apply Hmono. right. exact Hy.
    - right. exists v. split; [left; reflexivity|exact Hy].
    - apply tslots_tsubst in Hy. destruct Hy as [Hy|Hy]; [apply IHb in Hy|apply IHt in Hy]; destruct Hy as [Hy|Hy].
      + left. right. apply in_or_app. left. exact Hy.
      + right. apply Hmono. left. exact Hy.
      + left. right. apply in_or_app. right. exact Hy.
      + right. apply Hmono. right. exact Hy.
  Qed.

  Lemma pool_slots_ok : forall r, In r FPPOOL ->
    forall x, In x (pslots (fr_lhs r) ++ pslots (fr_rhs r)) -> is_B x = false.
  Proof.
    assert (H : forallb (fun r => forallb (fun x => negb (is_B x)) (pslots (fr_lhs r) ++ pslots (fr_rhs r))) FPPOOL = true)
      by (vm_compute; reflexivity).
    intros r Hr x Hx. rewrite forallb_forall in H. specialize (H r Hr). rewrite forallb_forall in H.
    apply Bool.negb_true_iff. exact (H x Hx).
  Qed.

  (* the slot names of the matched terms are names of the implementation (never a reserved name B k) *)
  Definition wf_sigma (r : frule) (sigma : text -> fterm) : Prop :=
    forall v, In v (pvars (fr_lhs r) ++ pvars (fr_rhs r)) ->
    forall x, In x (tslots (sigma v)) -> is_B x = false.

  Theorem rule_instance_valid : forall r, In r FPPOOL ->
    forall sigma, match_ok r sigma = true -> wf_sigma r sigma ->
    forall env, eval_fp p env (fst (rule_instance r sigma)) = eval_fp p env (snd (rule_instance r sigma)).
  Proof.
    intros r Hr sigma Hm Hwf env. unfold rule_instance. cbn [fst snd].
    unfold match_ok in Hm. apply andb_prop in Hm. destruct Hm as [Hm Hsr].
    apply andb_prop in Hm. destruct Hm as [Hm Hsl]. apply andb_prop in Hm. destruct Hm as [Hfr Hcd].
    rewrite forallb_forall in Hfr.
    rewrite !eval_canon0.
    - rewrite !feval_inst by assumption.
      apply (fppool_valid p Hp r Hr).
      + apply in_range_rho_of.
      + intros x Hx Hnx v Hv. apply indep_of_notfree.
        apply (disjoint_spec (fresh_slots r)); [exact (Hfr v Hv)|].
        unfold fresh_slots. apply filter_In. split; [exact Hx|]. rewrite (mem_false _ _ Hnx). reflexivity.
      + unfold cond_ok. apply cond_eval_sound. exact Hcd.
    - intros x Hx. apply tslots_inst in Hx. destruct Hx as [Hx|[v [Hv Hx]]].
      + apply (pool_slots_ok r Hr). apply in_or_app. right. exact Hx.
      + apply (Hwf v); [apply in_or_app; right; exact Hv|exact Hx].
    - intros x Hx. apply tslots_inst in Hx. destruct Hx as [Hx|[v [Hv Hx]]].
      + apply (pool_slots_ok r Hr). apply in_or_app. left. exact Hx.
      + apply (Hwf v); [apply in_or_app; left; exact Hv|exact Hx].
  Qed.

  (* a set of equations each of which is an admissible instance of a pool rule *)
  Definition pool_instances (E : equations) : Prop :=
    forall e, In e E -> exists r sigma,
      In r FPPOOL /\ match_ok r sigma = true /\ wf_sigma r sigma /\ e = rule_instance r sigma.

  Theorem fp_deriv_sound : forall E, pool_instances E ->
    forall d s t, Deriv E d s t -> forall env, eval N (interp_fp p) d env s = eval N (interp_fp p) d env t.
  Proof.
    intros E HE. apply Deriv_sound. intros l r Hin env.
    destruct (HE (l, r) Hin) as [ru [sigma [Hr [Hm [Hwf Heq]]]]].
    pose proof (rule_instance_valid ru Hr sigma Hm Hwf env) as H. rewrite <- Heq in H. exact H.
  Qed.
End Inst.

(* ------------------------------------------------------------------ *)
(* 6. the combinators matter: the three slips of an implementation of the condition combinators
   (`and` evaluated as `or`, `or` evaluated as `and`, `not` evaluated as the identity) turn the listed pool
   rules into INVALID rules of F_2 — so a wrong firing unions two terms of different value, which the
   evaluator of Sem/FpMachine.v sees. *)

Inductive slip := AndAsOr | OrAsAnd | NotDropped.

Fixpoint slip_cond (m : slip) (c : fcond) : fcond :=
  match c with
  | FCTrue | FCFree _ _ => c
  | FCAnd a b => match m with
                 | AndAsOr => FCOr (slip_cond m a) (slip_cond m b)
                 | _ => FCAnd (slip_cond m a) (slip_cond m b)
                 end
  | FCOr a b => match m with
                | OrAsAnd => FCAnd (slip_cond m a) (slip_cond m b)
                | _ => FCOr (slip_cond m a) (slip_cond m b)
                end
  | FCNot a => match m with
               | NotDropped => slip_cond m a
               | _ => FCNot (slip_cond m a)
               end
  end.

Definition slip_rule (m : slip) (r : frule) : frule :=
  {| fr_lhs := fr_lhs r; fr_rhs := fr_rhs r; fr_cond := slip_cond m (fr_cond r) |}.

(* sigma is an admissible match of r and the two sides of the instance differ at env *)
Definition refutes (p : N) (r : frule) (sigma : text -> fterm) (env : fenv) : bool :=
  match_ok r sigma && negb (feval p env (inst sigma (fr_lhs r)) =? feval p env (inst sigma (fr_rhs r))).

Lemma refutes_sound : forall p r sigma env, p <> 0 -> refutes p r sigma env = true -> ~ rule_valid p r.
Proof.
  intros p r sigma env Hp Href Hv. unfold refutes in Href.
  apply andb_prop in Href. destruct Href as [Hm Hne].
  apply Bool.negb_true_iff in Hne. apply N.eqb_neq in Hne. apply Hne. clear Hne.
  unfold match_ok in Hm. apply andb_prop in Hm. destruct Hm as [Hm Hsr].
  apply andb_prop in Hm. destruct Hm as [Hm Hsl]. apply andb_prop in Hm. destruct Hm as [Hfr Hcd].
  rewrite forallb_forall in Hfr.
  rewrite !(feval_inst p Hp) by assumption.
  apply Hv.
  - apply in_range_rho_of. exact Hp.
  - intros x Hx Hnx v Hv'. apply indep_of_notfree.
    apply (disjoint_spec (fresh_slots r)); [exact (Hfr v Hv')|].
    unfold fresh_slots. apply filter_In. split; [exact Hx|]. rewrite (mem_false _ _ Hnx). reflexivity.
  - unfold cond_ok. apply cond_eval_sound. exact Hcd.
Qed.

Definition sig_of (l : list (string * fterm)) : text -> fterm :=
  fun v => match find (fun e : string * fterm => text_eqb (T (fst e)) v) l with
           | Some e => snd e
           | None => TNum 0
           end.

(* $3 = slot 12 has the value 1, every other slot the value 0 *)
Definition wenv : fenv := fun x => if x =? 12 then 1 else 0.
Definition y3 : fterm := TVar 12.

(* (rule number, slip, a match on which the slipped condition is true and the two sides differ mod 2) *)
Definition SLIP_WITNESSES : list (nat * slip * list (string * fterm)) :=
  [ (24%nat, AndAsOr, [("a", y3); ("b", TVar s1)]);
    (25%nat, AndAsOr, [("a", y3); ("b", TVar s1); ("t", TNum 1)]);
    (26%nat, OrAsAnd, [("a", y3); ("b", TVar s1); ("t", TNum 1)]);
    (26%nat, NotDropped, [("a", y3); ("b", TVar s1); ("t", TNum 1)]);
    (27%nat, AndAsOr, [("a", TVar s1); ("b", TVar s1)]);
    (29%nat, AndAsOr, [("a", TMul (TVar s1) (TVar s2)); ("b", TVar s2)]);
    (31%nat, AndAsOr, [("b", TVar s1); ("c", TNum 0); ("t", TNum 1)]);
    (32%nat, AndAsOr, [("a", TVar s1); ("b", TNum 0); ("c", TNum 0); ("t", TNum 1)]);
    (33%nat, AndAsOr, [("a", TVar s2); ("b", TMul (TVar s1) (TVar s2))]) ]%string.

Definition slipped (w : nat * slip * list (string * fterm)) : frule :=
  slip_rule (snd (fst w)) (nth (fst (fst w)) FPPOOL (mk va va FCTrue)).

Lemma slip_witnesses_refute :
  forallb (fun w => refutes 2 (slipped w) (sig_of (snd w)) wenv) SLIP_WITNESSES = true.
Proof. vm_compute. reflexivity. Qed.

(* the unslipped rules do not fire on these matches *)
Lemma slip_witnesses_guarded :
  forallb (fun w => negb (match_ok (nth (fst (fst w)) FPPOOL (mk va va FCTrue)) (sig_of (snd w)))) SLIP_WITNESSES = true.
Proof. vm_compute. reflexivity. Qed.

Theorem fppool_guards_needed : forall w, In w SLIP_WITNESSES -> ~ rule_valid 2 (slipped w).
Proof.
  intros w Hw. pose proof slip_witnesses_refute as H. rewrite forallb_forall in H.
  apply (refutes_sound 2 (slipped w) (sig_of (snd w)) wenv); [discriminate|]. exact (H w Hw).
Qed.
