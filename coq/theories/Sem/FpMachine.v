(* Sem/FpMachine.v — the evaluator of property C03 as a machine.  Input: one export line of
   harness/src/eg3.rs,
     (c03 (p P...) (seed S) (rules R...) (classes (cls <id> (slots s...) (members T...))...) (handles (h <orig T> <extracted T>)...))
   or (c03 (p P...) (seed S) (rules R...) (err kind)) when the implementation panicked before the export.
   Terms are in the wire format `(rt node children...)`, decoded by Sem/EgMachine.v and canonicalised by
   [canon0]; they are evaluated by [eval] (Sem/Algebra.v) in the algebra [interp_fp P] (Sem/Fp.v), for every
   listed modulus P, under [n_envs] environments derived from S.
   Per class: all members have the same value under every environment, and changing the value of a slot that
   a member mentions but that is not a slot of the class changes no member's value.
   Per handle: the inserted term and the term extracted for it have the same value, and the extracted term
   does not depend on slots the inserted term does not mention.
   Every rule R = (rule n (t lhs) (t rhs) C), C ::= none | (free (t slot) (t var)) | (and C C) | (or C C) | (not C),
   must be (textually, condition tree included) a rule of FPPOOL_text, whose validity is Sem/FpFacts.v: fppool_valid.
   Output: (c03 ok) | (c03 skipped) | (c03 item...) with items
     (bad class <id> member <k> env <j> mod <p>)            member k differs from member 0 under environment j
     (bad class <id> member <k> env <j> mod <p> slot <y>)   member k depends on the redundant slot y
     (bad handle <i> env <j> mod <p>) / (bad handle <i> env <j> mod <p> slot <y>)
   (per class / handle only the first finding is listed)
     (unverified-rule <n>)                          rule number n of the case is not in the pool *)
From SE Require Export Sem.Fp Sem.EgMachine.
From SE Require Import EGraph.RewriteMachine.

Definition n_envs : nat := 4.

Definition env_of (seed j : N) : fenv :=
  fun x => (((x + 1) * (2 * seed + 1 + 7919 * j) + j) * 40503 / 256) mod 1000003.

Record cls := { cl_id : N; cl_slots : list slot; cl_members : list cterm }.

Fixpoint dec_slots (l : list sexp) : option (list slot) :=
  match l with
  | [] => Some []
  | e :: t => match dec_slot e, dec_slots t with Some s, Some r => Some (s :: r) | _, _ => None end
  end.

Definition dec_cls (e : sexp) : option cls :=
  match e with
  | Lst [Sym "cls"; Num i; Lst (Sym "slots" :: ss); Lst (Sym "members" :: ts)] =>
      match dec_slots ss, dec_rterms ts with
      | Some sl, Some rts => Some {| cl_id := i; cl_slots := sl; cl_members := map canon0 rts |}
      | _, _ => None
      end
  | _ => None
  end.
Fixpoint dec_clss (l : list sexp) : option (list cls) :=
  match l with
  | [] => Some []
  | e :: t => match dec_cls e, dec_clss t with Some c, Some r => Some (c :: r) | _, _ => None end
  end.

Definition dec_handle (e : sexp) : option (cterm * cterm) :=
  match e with
  | Lst [Sym "h"; a; b] =>
      match dec_rterm 64 a, dec_rterm 64 b with
      | Some a', Some b' => Some (canon0 a', canon0 b')
      | _, _ => None
      end
  | _ => None
  end.
Fixpoint dec_handles (l : list sexp) : option (list (cterm * cterm)) :=
  match l with
  | [] => Some []
  | e :: t => match dec_handle e, dec_handles t with Some c, Some r => Some (c :: r) | _, _ => None end
  end.

Definition mem_slot (x : slot) (l : list slot) : bool := existsb (N.eqb x) l.

(* the free slot names of a canonical term that are not in [keep] *)
Definition extra_slots (keep : list slot) (t : cterm) : list slot :=
  dedupN (filter (fun x => negb (is_B x) && negb (mem_slot x keep)) (cnames t)).

(* first slot y of [ys] and value z < p such that changing env y to z changes the value of t *)
Definition depends_on (p : N) (env : fenv) (t : cterm) (ys : list slot) : option slot :=
  let v := eval_fp p env t in
  find (fun y => negb (forallb (fun z => eval_fp p (upd N env y z) t =? v) (map N.of_nat (seq 0 (N.to_nat p))))) ys.

Definition envs (seed : N) : list (N * fenv) :=
  map (fun j => (N.of_nat j, env_of seed (N.of_nat j))) (seq 0 n_envs).

(* all findings for one class under one environment *)
Definition check_cls_env (p : N) (c : cls) (je : N * fenv) : list sexp :=
  let '(j, env) := je in
  match cl_members c with
  | [] => []
  | m0 :: _ =>
      let v0 := eval_fp p env m0 in
      flat_map (fun km : nat * cterm =>
                  let '(k, m) := km in
                  (if eval_fp p env m =? v0 then []
                   else [Lst [Sym "bad"; Sym "class"; Num (cl_id c); Sym "member"; Num (N.of_nat k); Sym "env"; Num j; Sym "mod"; Num p]]) ++
                  match depends_on p env m (extra_slots (cl_slots c) m) with
                  | Some y => [Lst [Sym "bad"; Sym "class"; Num (cl_id c); Sym "member"; Num (N.of_nat k); Sym "env"; Num j;
                                    Sym "mod"; Num p; Sym "slot"; slot_sexp y]]
                  | None => []
                  end)
               (combine (seq 0 (List.length (cl_members c))) (cl_members c))
  end.

(* per class only the first finding is reported *)
Definition check_cls (ps : list N) (es : list (N * fenv)) (c : cls) : list sexp :=
  firstn 1 (flat_map (fun p => flat_map (check_cls_env p c) es) ps).

Definition check_handle (ps : list N) (es : list (N * fenv)) (ih : nat * (cterm * cterm)) : list sexp :=
  let '(i, (orig, ext)) := ih in
  firstn 1 (flat_map (fun p => flat_map (fun je : N * fenv =>
              let '(j, env) := je in
              (if eval_fp p env orig =? eval_fp p env ext then []
               else [Lst [Sym "bad"; Sym "handle"; Num (N.of_nat i); Sym "env"; Num j; Sym "mod"; Num p]]) ++
              match depends_on p env ext (extra_slots (cnames orig) ext) with
              | Some y => [Lst [Sym "bad"; Sym "handle"; Num (N.of_nat i); Sym "env"; Num j; Sym "mod"; Num p; Sym "slot"; slot_sexp y]]
              | None => []
              end) es) ps).

(* the rules of the case must be rules of the pool.  Rule format of this stream:
     (rule <n> (t lhs) (t rhs) C)     C ::= none | (free (t slot) (t var)) | (and C C) | (or C C) | (not C)
   (the condition is the tree the harness builds with the library's slot_free_in / and / or / not) *)
Inductive rawcond :=
| RCNone
| RCFree (s v : text)
| RCAnd (a b : rawcond)
| RCOr (a b : rawcond)
| RCNot (a : rawcond).

Fixpoint dec_cond (fuel : nat) (e : sexp) : option rawcond :=
  match fuel with
  | O => None
  | S f =>
      match e with
      | Sym "none" => Some RCNone
      | Lst [Sym "free"; s; v] =>
          match dec_text_sexp s, dec_text_sexp v with
          | Some s', Some v' => Some (RCFree s' v')
          | _, _ => None
          end
      | Lst [Sym "and"; a; b] =>
          match dec_cond f a, dec_cond f b with Some a', Some b' => Some (RCAnd a' b') | _, _ => None end
      | Lst [Sym "or"; a; b] =>
          match dec_cond f a, dec_cond f b with Some a', Some b' => Some (RCOr a' b') | _, _ => None end
      | Lst [Sym "not"; a] =>
          match dec_cond f a with Some a' => Some (RCNot a') | None => None end
      | _ => None
      end
  end.

Record rawfrule := { rf_lhs : text; rf_rhs : text; rf_cond : rawcond }.

Definition dec_frule (e : sexp) : option rawfrule :=
  match e with
  | Lst [Sym "rule"; Num _; l; r; c] =>
      match dec_text_sexp l, dec_text_sexp r, dec_cond 16 c with
      | Some l', Some r', Some c' => Some {| rf_lhs := l'; rf_rhs := r'; rf_cond := c' |}
      | _, _, _ => None
      end
  | _ => None
  end.

Fixpoint cond_matches (c : ctext) (r : rawcond) : bool :=
  match c, r with
  | CTNone, RCNone => true
  | CTFree s v, RCFree s' v' => text_eqb (T s) s' && text_eqb (T v) v'
  | CTAnd a b, RCAnd a' b' => cond_matches a a' && cond_matches b b'
  | CTOr a b, RCOr a' b' => cond_matches a a' && cond_matches b b'
  | CTNot a, RCNot a' => cond_matches a a'
  | _, _ => false
  end.

Definition rule_known (r : rawfrule) : bool :=
  existsb (fun e : string * string * ctext =>
             let '(l, rh, c) := e in
             text_eqb (T l) (rf_lhs r) && text_eqb (T rh) (rf_rhs r) && cond_matches c (rf_cond r)) FPPOOL_text.

Definition check_rules (rs : list sexp) : list sexp :=
  flat_map (fun e => match e with
                     | Lst (Sym "rule" :: Num n :: _) =>
                         match dec_frule e with
                         | Some r => if rule_known r then [] else [Lst [Sym "unverified-rule"; Num n]]
                         | None => [Lst [Sym "unverified-rule"; Num n]]
                         end
                     | _ => [Sym "bad-rule"]
                     end) rs.

Fixpoint dec_nums (l : list sexp) : option (list N) :=
  match l with
  | [] => Some []
  | Num n :: t => match dec_nums t with Some r => Some (n :: r) | None => None end
  | _ => None
  end.

Definition run_c03 (args : list sexp) : sexp :=
  match args with
  | [Lst (Sym "p" :: _); Lst [Sym "seed"; Num seed]; Lst (Sym "rules" :: rs); Lst [Sym "err"; _]] =>
      Lst [Sym "c03"; Sym "skipped"]
  | [Lst (Sym "p" :: pl); Lst [Sym "seed"; Num seed]; Lst (Sym "rules" :: rs);
     Lst (Sym "classes" :: cs); Lst (Sym "handles" :: hs)] =>
      match dec_clss cs, dec_handles hs, dec_nums pl with
      | Some cls, Some hds, Some ps =>
          if existsb (N.eqb 0) ps then Sym "bad-case" else
          let es := envs seed in
          let items := check_rules rs ++ flat_map (check_cls ps es) cls ++
                       flat_map (check_handle ps es) (combine (seq 0 (List.length hds)) hds) in
          match items with
          | [] => Lst [Sym "c03"; Sym "ok"]
          | _ => Lst (Sym "c03" :: items)
          end
      | _, _, _ => Sym "bad-case"
      end
  | _ => Sym "bad-case"
  end.
