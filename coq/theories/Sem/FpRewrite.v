(* Sem/FpRewrite.v — C03: the instance pair of a rule of the arithmetic fragment, under a match delivered by the
   e-matcher, holds in the algebra F_p (Sem/Fp.v).  This is the step `P_step` of
   EGraph/RewriteSound.apply_rewrites_sched_sound for P E := valid N (interp_fp p) E.

   1. GENERIC (any algebra): `eval_names_ext` (eval depends on the names of the term only), `handle_indep` (the value
      of a term denoted by an invocation a does not depend on a slot that is not a value of the map of a),
      `wsem` (the value of a term placed under binders by an instantiating renaming is its value at depth 0
      under the pulled-back environment), `clsT_wsem`, `handle_wsem` (class terms, hence denoted terms, are wsem).
   2. F_p: `pat_sem` (the value of the instance of a pattern is `peval` of the pattern under the valuation induced
      by the valuation of the pattern variables with terms).
   3. `fp_rule_step`: the assembly.  See the summary at the end of the file. *)
From SE Require Import Slots.SlotMapFacts Group.GroupSound Lang.LangFacts Lang.ShapeFacts Lang.RenameFacts
  Base.TextFacts Parse.Parser
  EGraph.Model EGraph.ModelFacts EGraph.ModelMachine EGraph.UnionFindFacts EGraph.InvariantFacts
  EGraph.UnionInvariantFacts EGraph.AddCoversFacts EGraph.MonotoneFacts EGraph.Mod4Facts EGraph.SoundFacts
  EGraph.SoundSyn EGraph.SoundAddExpr
  EGraph.Rewrite EGraph.RewriteFacts EGraph.MatchDefs EGraph.MatchFacts
  EGraph.MatchVals EGraph.RewriteSoundInst EGraph.RewriteSound.
From SE Require Import Sem.Deriv Sem.DerivFacts Sem.Algebra Sem.AlgebraFacts Sem.Fp Sem.FpFacts Explain.CheckerFacts.
From Coq Require Import ZArith Lia ZifyBool ZifyN ZifyNat FunctionalExtensionality.
Ltac Zify.zify_post_hook ::= Z.div_mod_to_equations.

Local Notation ectr := Model.ctr.
Local Notation aupd := Sem.Algebra.upd.
Local Notation rupd := EGraph.SoundFacts.upd.

(* ====================================================================== *)
(* 1. generic facts                                                         *)
(* ====================================================================== *)

Section Generic.
  Variable D : Type.
  Variable interp : nat -> list (sval D) -> D.
  Notation ev := (eval D interp).
  Notation eva := (eval_arg D interp).

  (* ---------- eval depends on the names of the term only ---------- *)
  Lemma eval_names_ext : forall t d env env', (forall y, In y (cnames t) -> env y = env' y) ->
    ev d env t = ev d env' t.
  Proof.
    apply (cterm_ind2
      (fun t => forall d env env', (forall y, In y (cnames t) -> env y = env' y) -> ev d env t = ev d env' t)
      (fun a => forall d env env', (forall y, In y (cnames_arg a) -> env y = env' y) -> eva d env a = eva d env' a)).
    - intros v args HF d env env' H. rewrite !eval_CT. f_equal. apply map_ext_in. intros a Ha.
      rewrite Forall_forall in HF. apply (HF a Ha). intros y Hy. apply H. exact (in_cnames_CT v args a y Ha Hy).
    - intros x d env env' H. cbn [eval_arg]. f_equal. apply H. left. reflexivity.
    - intros t IH d env env' H. cbn [eval_arg]. f_equal. apply IH. exact H.
    - intros a IH d env env' H. cbn [eval_arg]. f_equal. apply functional_extensionality. intros z.
      apply IH. intros y Hy. unfold Algebra.upd. destruct (y =? B d); [reflexivity|apply H; exact Hy].
    - intros q d env env' _. reflexivity.
  Qed.

  (* ---------- the value of a denoted term does not depend on a slot outside the map ---------- *)
  Theorem handle_indep : forall E s a t x, valid D interp E -> syn_wf s -> covers s a -> vnb a ->
    handle_ok E s a t -> ~ In x (values_vec (am a)) -> is_B x = false ->
    forall env z, ev 0 (aupd D env x z) t = ev 0 env t.
  Proof.
    intros E s a t x HV W (c & Hc & Ia & Ka) NB [_ HD] Nx Bx env z.
    set (L := x :: values_vec (am a)).
    assert (RL : rokL L (fun v => v)).
    { split; [intros u w _ _ H; exact H|]. intros u [<-|Hu]; [exact Bx|apply NB; exact Hu]. }
    assert (VL : forall k v, get (am a) k = Some v -> In v L).
    { intros k v G. right. apply get_in in G. unfold values_vec. apply in_map_iff. exists (k, v). split; [reflexivity|exact G]. }
    set (sg := ext_ren (fun v => v) (am a) (bound_of (fun v => v) L)).
    assert (R' : rokL (SS s (aid a)) sg) by (apply (ext_ren_rok L); assumption).
    assert (Cs : completion s a sg).
    { split; [exact R'|]. intros y v G. unfold sg, ext_ren. rewrite G. reflexivity. }
    pose proof (HD sg Cs) as D0.
    rewrite (Deriv_sound D interp E HV 0 _ _ D0 (aupd D env x z)), (Deriv_sound D interp E HV 0 _ _ D0 env).
    apply eval_names_ext. intros y Hy. unfold Algebra.upd. destruct (y =? x) eqn:Eyx; [|reflexivity]. exfalso.
    apply N.eqb_eq in Eyx. subst y. unfold clsT, syn_at in Hy. apply (syn_t_names s W) in Hy.
    destruct Hy as [(y & _ & Hy)|Hy]; [|congruence].
    unfold sg, ext_ren in Hy. destruct (get (am a) y) as [v|] eqn:G.
    - subst v. apply Nx. apply get_in in G. unfold values_vec. apply in_map_iff. exists (y, x). split; [reflexivity|exact G].
    - pose proof (bound_of_spec (fun v => v) L x (or_introl eq_refl)) as T. cbv beta in T. lia.
  Qed.

  (* ---------- terms that may be placed under binders ---------- *)
  (* rho instantiates the free names of a depth-0 term under d binders: injective on user names, user names go to
     user names or to enclosing binder levels; env' is env pulled back along rho *)
  Definition ren_ok (d : nat) (rho : N -> N) (env env' : N -> D) : Prop :=
    (forall x y, is_B x = false -> is_B y = false -> rho x = rho y -> x = y) /\
    forall x, is_B x = false ->
      (is_B (rho x) = false \/ exists k, (k < d)%nat /\ rho x = B k) /\ env (rho x) = env' x.

  Definition wsem (t : cterm) : Prop := forall d rho env env', ren_ok d rho env env' ->
    ev d env (cren (lift d rho) t) = ev 0 env' t.
  Definition wsem_arg (a : carg) : Prop := forall d rho env env', ren_ok d rho env env' ->
    eva d env (cren_arg (lift d rho) a) = eva 0 env' a.

  Lemma lift_user : forall d rho x, is_B x = false -> lift d rho x = rho x.
  Proof. intros d rho x H. unfold lift. rewrite H. reflexivity. Qed.

  Lemma wsem_CT : forall v args, Forall wsem_arg args -> wsem (CT v args).
  Proof.
    intros v args HF d rho env env' R. rewrite cren_CT, !eval_CT, map_map. f_equal. apply map_ext_in. intros a Ha.
    rewrite Forall_forall in HF. apply (HF a Ha). exact R.
  Qed.

  Lemma wsem_slot : forall x, is_B x = false -> wsem_arg (CSlot x).
  Proof.
    intros x Bx d rho env env' [_ R]. cbn [cren_arg eval_arg]. f_equal. rewrite (lift_user d rho x Bx).
    exact (proj2 (R x Bx)).
  Qed.

  Lemma wsem_child : forall t, wsem t -> wsem_arg (CChild t).
  Proof. intros t H d rho env env' R. cbn [cren_arg eval_arg]. f_equal. apply H. exact R. Qed.

  Lemma wsem_pay : forall q, wsem_arg (CPay q).
  Proof. intros q d rho env env' _. reflexivity. Qed.

  (* the child of a binder $x0 of a pattern node: node_t renames x0 to the level name B 0 *)
  Definition bren (x0 : slot) : N -> N := env_get [(x0, B 0)].

  Lemma ren_ok_bind : forall d rho env env' x0 z, is_B x0 = false -> ren_ok d rho env env' ->
    ren_ok (S d) (fun x => if x =? x0 then B d else rho x) (aupd D env (B d) z) (aupd D env' x0 z).
  Proof.
    intros d rho env env' x0 z B0 [Inj R]. split.
    - intros x y Bx By H. destruct (x =? x0) eqn:Ex; destruct (y =? x0) eqn:Ey.
      + apply N.eqb_eq in Ex, Ey. congruence.
      + exfalso. destruct (proj1 (R y By)) as [T|(k & Hk & T)]; rewrite <- H in T.
        * rewrite FpFacts.is_B_B in T. discriminate.
        * unfold B in T. lia.
      + exfalso. destruct (proj1 (R x Bx)) as [T|(k & Hk & T)]; rewrite H in T.
        * rewrite FpFacts.is_B_B in T. discriminate.
        * unfold B in T. lia.
      + apply Inj; assumption.
    - intros x Bx. unfold Algebra.upd. destruct (x =? x0) eqn:Ex.
      + split; [right; exists d; split; [lia|reflexivity]|]. rewrite N.eqb_refl. reflexivity.
      + destruct (R x Bx) as [Rg Ev]. split.
        * destruct Rg as [T|(k & Hk & T)]; [left; exact T|right; exists k; split; [lia|exact T]].
        * assert (Ne : (rho x =? B d) = false).
          { apply N.eqb_neq. intros T. destruct Rg as [T'|(k & Hk & T')]; rewrite T in T'.
            - rewrite FpFacts.is_B_B in T'. discriminate.
            - unfold B in T'. lia. }
          rewrite Ne. exact Ev.
  Qed.

  Lemma lift_bren : forall d rho x0 y, is_B x0 = false ->
    lift d rho (lift 1 (bren x0) y) = lift (S d) (fun x => if x =? x0 then B d else rho x) y.
  Proof.
    intros d rho x0 y B0. unfold lift at 2 3. destruct (is_B y) eqn:By.
    - unfold lift. assert (Hs : is_B (shift_B 1 y) = true) by (unfold is_B, shift_B in *; lia).
      rewrite Hs. unfold shift_B. lia.
    - unfold bren. cbn [env_get]. destruct (y =? x0).
      + rewrite lift_B. f_equal. lia.
      + apply lift_user. exact By.
  Qed.

  Lemma bind_under : forall tb x0 d rho env env' z, wsem tb -> is_B x0 = false -> ren_ok d rho env env' ->
    ev (S d) (aupd D env (B d) z) (cren (lift d rho) (cren (lift 1 (bren x0)) tb)) = ev 0 (aupd D env' x0 z) tb.
  Proof.
    intros tb x0 d rho env env' z Wb B0 R. rewrite cren_cren.
    rewrite (cren_ext tb _ (lift (S d) (fun x => if x =? x0 then B d else rho x))) by (intros y _; apply lift_bren; exact B0).
    apply Wb. apply ren_ok_bind; assumption.
  Qed.

  Lemma ren_ok_id : forall env, ren_ok 0 (fun x => x) env env.
  Proof. intros env. split; [intros x y _ _ H; exact H|]. intros x Bx. split; [left; exact Bx|reflexivity]. Qed.

  Lemma lift0_id : forall t, cren (lift 0 (fun x => x)) t = t.
  Proof. intros t. apply cren_id. intros x _. unfold lift, shift_B. destruct (is_B x); [lia|reflexivity]. Qed.

  Lemma bind_top : forall tb x0 env z, wsem tb -> is_B x0 = false ->
    ev 1 (aupd D env (B 0) z) (cren (lift 1 (bren x0)) tb) = ev 0 (aupd D env x0 z) tb.
  Proof.
    intros tb x0 env z Wb B0. rewrite <- (lift0_id (cren (lift 1 (bren x0)) tb)).
    apply bind_under; [exact Wb|exact B0|apply ren_ok_id].
  Qed.

  Lemma wsem_bind : forall tb x0, wsem tb -> is_B x0 = false ->
    wsem_arg (CBind (CChild (cren (lift 1 (bren x0)) tb))).
  Proof.
    intros tb x0 Wb B0 d rho env env' R.
    change (VBind D (fun z => VChild D (ev (S d) (aupd D env (B d) z) (cren (lift d rho) (cren (lift 1 (bren x0)) tb)))) =
            VBind D (fun z => VChild D (ev 1 (aupd D env' (B 0) z) (cren (lift 1 (bren x0)) tb)))).
    f_equal. apply functional_extensionality. intros z.
    f_equal. rewrite (bind_under tb x0 d rho env env' z Wb B0 R). symmetry. apply bind_top; assumption.
  Qed.

  (* ---------- class terms are wsem ---------- *)
  Definition frn (d : nat) (v : N) : Prop := is_B v = false \/ exists k, (k < d)%nat /\ v = B k.

  Lemma frn_S : forall d v, frn d v -> frn (S d) v.
  Proof. intros d v [H|(k & Hk & H)]; [left; exact H|right; exists k; split; [lia|exact H]]. Qed.

  Lemma frn_neq : forall d v, frn d v -> (v =? B d) = false.
  Proof.
    intros d v H. apply N.eqb_neq. intros T. subst v. destruct H as [H|(k & Hk & H)].
    - rewrite FpFacts.is_B_B in H. discriminate.
    - unfold B in H. lia.
  Qed.

  Definition agree (L : list N) (d j : nat) (rho rho' : N -> N) (env env' : N -> D) : Prop :=
    forall y, In y L -> frn d (rho y) /\ frn j (rho' y) /\ env (rho y) = env' (rho' y).

  Lemma arg_t_eval : forall (c1 c2 : nat -> (N -> N) -> appid -> cterm) a,
    (forall x d j rho rho' env env', In x (app_occ_f a) -> agree (values_vec (am x)) d j rho rho' env env' ->
       ev d env (c1 d rho x) = ev j env' (c2 j rho' x)) ->
    forall d j rho rho' env env', agree (pub_occ_f a) d j rho rho' env env' ->
    eva d env (arg_t c1 d rho a) = eva j env' (arg_t c2 j rho' a).
  Proof.
    intros c1 c2. induction a as [x|x|x b IH|q]; intros Hc d j rho rho' env env' H; cbn [arg_t eval_arg].
    - f_equal. apply H. left. reflexivity.
    - f_equal. apply Hc; [left; reflexivity|]. exact H.
    - f_equal. apply functional_extensionality. intros z. apply IH.
      + intros y d' j' r r' e e' Hy. apply Hc. exact Hy.
      + intros y Hy. unfold SoundFacts.upd, Algebra.upd. destruct (y =? x) eqn:E.
        * split; [right; exists d; split; [lia|reflexivity]|]. split; [right; exists j; split; [lia|reflexivity]|].
          rewrite !N.eqb_refl. reflexivity.
        * assert (Hy' : In y (pub_occ_f (ABind x b))).
          { cbn [pub_occ_f]. apply filter_In. split; [exact Hy|]. rewrite E. reflexivity. }
          destruct (H y Hy') as (F1 & F2 & Ev). split; [apply frn_S; exact F1|]. split; [apply frn_S; exact F2|].
          rewrite (frn_neq d _ F1), (frn_neq j _ F2). exact Ev.
    - reflexivity.
  Qed.

  Lemma syn_t_eval : forall s, syn_wf s -> forall f d j rho rho' i env env',
    agree (SS s i) d j rho rho' env env' ->
    ev d env (syn_t s f d rho i) = ev j env' (syn_t s f j rho' i).
  Proof.
    intros s W. induction f as [|f IH]; intros d j rho rho' i env env' H; [reflexivity|]. cbn [syn_t].
    destruct (nth_opt (classes s) (N.to_nat i)) as [c|] eqn:Hn; [|reflexivity].
    destruct (SS_nth _ _ _ Hn) as [ES Hc]. rewrite ES in H.
    rewrite !eval_CT, !map_map. f_equal. apply map_ext_in. intros a Ha. apply arg_t_eval.
    - intros x d' j' r r' e e' Hx Hv. destruct (aid x <? i); [|reflexivity]. apply IH.
      intros y Hy. destruct (W _ _ _ Hc (app_occ_f_in _ _ _ Ha Hx)) as [_ T]. specialize (T y Hy).
      unfold thru. destruct (get (am x) y) as [v|] eqn:G; [|congruence]. apply Hv.
      apply get_in in G. unfold values_vec. apply in_map_iff. exists (y, v). split; [reflexivity|exact G].
    - intros y Hy. apply H. eapply pub_occ_f_in; eauto.
  Qed.

  Theorem clsT_wsem : forall s sg i, syn_wf s -> rokL (SS s i) sg -> wsem (clsT s sg i).
  Proof.
    intros s sg i W [_ NB] d rho env env' [_ R]. unfold clsT, syn_at.
    rewrite (syn_t_cren s W _ (lift d rho) 0 d sg (fun y => lift d rho (sg y)) i (shifts_lift d rho))
      by (intros; reflexivity).
    apply syn_t_eval; [exact W|]. intros y Hy. pose proof (NB y Hy) as By. rewrite (lift_user d rho _ By).
    destruct (R _ By) as [Rg Ev]. split; [exact Rg|]. split; [left; exact By|exact Ev].
  Qed.

  Theorem handle_wsem : forall E s a t, valid D interp E -> syn_wf s -> covers s a ->
    handle_ok E s a t -> wsem t.
  Proof.
    intros E s a t HV W Cv HO d rho env env' R.
    destruct (completion_exists E s a t HO Cv) as (sg & Cs & _).
    pose proof (proj2 HO sg Cs) as D0.
    assert (Dd : Deriv E d (cren (lift d rho) t) (cren (lift d rho) (clsT s sg (aid a)))).
    { destruct R as [Inj R]. apply Deriv_inst; [exact D0| | |].
      - intros x _ Bx. exact (proj1 (R x Bx)).
      - intros x y _ _ Bx By. apply Inj; assumption.
      - intros x y _ _ Bx By. apply Inj; assumption. }
    rewrite (Deriv_sound D interp E HV d _ _ Dd env), (Deriv_sound D interp E HV 0 _ _ D0 env').
    apply (clsT_wsem s sg (aid a) W (proj1 Cs)). exact R.
  Qed.
End Generic.

(* ====================================================================== *)
(* 2. the F_p value of the instance of a pattern                            *)
(* ====================================================================== *)

Fixpoint nosub (q : fpat) : bool :=
  match q with
  | FVar _ | FNum _ | FPV _ => true
  | FAdd a b | FMul a b => nosub a && nosub b
  | FSum _ b => nosub b
  | FLet _ b t => nosub b && nosub t
  | FSub _ _ _ => false
  end.

Lemma fpat_inv : forall pat q, fpat_of_pattern pat = Some q ->
  match q with
  | FVar x => pat = PNode {| nvar := 5; nargs := [ASlot x] |} []
  | FNum n => pat = PNode {| nvar := 17; nargs := [APay (PVu32 n)] |} []
  | FAdd a b => exists x y pa pb, pat = PNode {| nvar := 13; nargs := [AApp x; AApp y] |} [pa; pb] /\
                  fpat_of_pattern pa = Some a /\ fpat_of_pattern pb = Some b
  | FMul a b => exists x y pa pb, pat = PNode {| nvar := 14; nargs := [AApp x; AApp y] |} [pa; pb] /\
                  fpat_of_pattern pa = Some a /\ fpat_of_pattern pb = Some b
  | FSum x b => exists y pb, pat = PNode {| nvar := 15; nargs := [ABind x (AApp y)] |} [pb] /\
                  fpat_of_pattern pb = Some b
  | FLet x b t => exists y y2 pb pt, pat = PNode {| nvar := 10; nargs := [ABind x (AApp y); AApp y2] |} [pb; pt] /\
                  fpat_of_pattern pb = Some b /\ fpat_of_pattern pt = Some t
  | FPV v => pat = PVarP v
  | FSub _ _ _ => True
  end.
Proof.
  intros pat q H. destruct pat as [n ch|v|b x t].
  - destruct n as [nv na]. cbn [fpat_of_pattern] in H.
    repeat match type of H with
           | context [match ?x with _ => _ end] => is_var x; destruct x; try discriminate H
           end.
    all: repeat match type of H with
           | context [match fpat_of_pattern ?x with _ => _ end] => destruct (fpat_of_pattern x) eqn:?; try discriminate H
           end.
    all: inversion H; subst; eauto 10.
  - cbn [fpat_of_pattern] in H. inversion H. reflexivity.
  - cbn [fpat_of_pattern] in H.
    repeat match type of H with
           | context [match ?x with _ => _ end] => is_var x; destruct x; try discriminate H
           end.
    all: repeat match type of H with
           | context [match fpat_of_pattern ?x with _ => _ end] => destruct (fpat_of_pattern x) eqn:?; try discriminate H
           end.
    all: inversion H; subst; exact I.
Qed.

Lemma lift0_nil : forall t, cren (lift 0 (env_get [])) t = t.
Proof. intros t. exact (lift0_id t). Qed.

Lemma node_var : forall x, node_t {| nvar := 5; nargs := [ASlot x] |} [] = CT 5 [CSlot x].
Proof. reflexivity. Qed.
Lemma node_num : forall n, node_t {| nvar := 17; nargs := [APay (PVu32 n)] |} [] = CT 17 [CPay (PVu32 n)].
Proof. reflexivity. Qed.
Lemma node_bin : forall k x y ta tb, node_t {| nvar := k; nargs := [AApp x; AApp y] |} [ta; tb] = CT k [CChild ta; CChild tb].
Proof. intros. unfold node_t. cbn [nvar nargs cargs_of carg_of]. rewrite !lift0_nil. reflexivity. Qed.
Lemma node_sum : forall x y tb, node_t {| nvar := 15; nargs := [ABind x (AApp y)] |} [tb] =
  CT 15 [CBind (CChild (cren (lift 1 (bren x)) tb))].
Proof. reflexivity. Qed.
Lemma node_let : forall x y y2 tb tt, node_t {| nvar := 10; nargs := [ABind x (AApp y); AApp y2] |} [tb; tt] =
  CT 10 [CBind (CChild (cren (lift 1 (bren x)) tb)); CChild tt].
Proof. intros. unfold node_t. cbn [nvar nargs cargs_of carg_of]. rewrite lift0_nil. reflexivity. Qed.

Section FpSem.
  Variable p : N.
  Variable dn : text -> cterm.
  Notation ws := (wsem N (interp_fp p)).
  Notation wsa := (wsem_arg N (interp_fp p)).

  (* the valuation of the pattern variables induced by a valuation with terms *)
  Definition rho_den : valuation := fun v e => eval_fp p e (dn v).

  Theorem pat_sem : forall q pat, fpat_of_pattern pat = Some q -> nosub q = true ->
    (forall x, In x (Fp.pslots q) -> is_B x = false) ->
    (forall v, In v (pvars q) -> ws (dn v)) ->
    ws (pat_t dn pat) /\ forall env, eval_fp p env (pat_t dn pat) = peval p rho_den env q.
  Proof.
    induction q as [x|n|a IHa b IHb|a IHa b IHb|x b IHb|x b IHb t IHt|v|b IHb x t IHt]; intros pat H NS NB WV;
      apply fpat_inv in H; cbn beta iota in H; cbn [nosub Fp.pslots pvars] in *.
    - subst pat. cbn [pat_t map]. rewrite node_var. split.
      + apply wsem_CT. constructor; [apply wsem_slot; apply NB; left; reflexivity|constructor].
      + intros env. reflexivity.
    - subst pat. cbn [pat_t map]. rewrite node_num. split.
      + apply wsem_CT. constructor; [apply wsem_pay|constructor].
      + intros env. reflexivity.
    - destruct H as (y1 & y2 & pa & pb & -> & Ha & Hb). apply andb_prop in NS. destruct NS as [Na Nb].
      destruct (IHa pa Ha Na) as [Wa Ea]; [intros z Hz; apply NB; apply in_or_app; left; exact Hz|intros z Hz; apply WV; apply in_or_app; left; exact Hz|].
      destruct (IHb pb Hb Nb) as [Wb Eb]; [intros z Hz; apply NB; apply in_or_app; right; exact Hz|intros z Hz; apply WV; apply in_or_app; right; exact Hz|].
      cbn [pat_t map]. rewrite node_bin. split.
      + apply wsem_CT. constructor; [apply wsem_child; exact Wa|]. constructor; [apply wsem_child; exact Wb|constructor].
      + intros env. unfold eval_fp in *. rewrite (eval_add p). cbn [peval]. rewrite Ea, Eb. reflexivity.
    - destruct H as (y1 & y2 & pa & pb & -> & Ha & Hb). apply andb_prop in NS. destruct NS as [Na Nb].
      destruct (IHa pa Ha Na) as [Wa Ea]; [intros z Hz; apply NB; apply in_or_app; left; exact Hz|intros z Hz; apply WV; apply in_or_app; left; exact Hz|].
      destruct (IHb pb Hb Nb) as [Wb Eb]; [intros z Hz; apply NB; apply in_or_app; right; exact Hz|intros z Hz; apply WV; apply in_or_app; right; exact Hz|].
      cbn [pat_t map]. rewrite node_bin. split.
      + apply wsem_CT. constructor; [apply wsem_child; exact Wa|]. constructor; [apply wsem_child; exact Wb|constructor].
      + intros env. unfold eval_fp in *. rewrite (eval_mul p). cbn [peval]. rewrite Ea, Eb. reflexivity.
    - destruct H as (y & pb & -> & Hb).
      assert (Bx : is_B x = false) by (apply NB; left; reflexivity).
      destruct (IHb pb Hb NS) as [Wb Eb]; [intros z Hz; apply NB; right; exact Hz|exact WV|].
      cbn [pat_t map]. rewrite node_sum. split.
      + apply wsem_CT. constructor; [apply wsem_bind; assumption|constructor].
      + intros env. unfold eval_fp in *. rewrite (eval_sum p). cbn [peval]. f_equal. apply sum_upto_ext. intros k _.
        rewrite (bind_top N (interp_fp p) _ x env (N.of_nat k) Wb Bx). apply Eb.
    - destruct H as (y & y2 & pb & pt & -> & Hb & Ht). apply andb_prop in NS. destruct NS as [Nb Nt].
      assert (Bx : is_B x = false) by (apply NB; left; reflexivity).
      destruct (IHb pb Hb Nb) as [Wb Eb]; [intros z Hz; apply NB; right; apply in_or_app; left; exact Hz|intros z Hz; apply WV; apply in_or_app; left; exact Hz|].
      destruct (IHt pt Ht Nt) as [Wt Et]; [intros z Hz; apply NB; right; apply in_or_app; right; exact Hz|intros z Hz; apply WV; apply in_or_app; right; exact Hz|].
      cbn [pat_t map]. rewrite node_let. split.
      + apply wsem_CT. constructor; [apply wsem_bind; assumption|]. constructor; [apply wsem_child; exact Wt|constructor].
      + intros env. unfold eval_fp in *. rewrite (eval_let p). cbn [peval].
        rewrite (bind_top N (interp_fp p) _ x env _ Wb Bx). rewrite Eb, Et. reflexivity.
    - subst pat. cbn [pat_t]. split; [apply WV; left; reflexivity|intros env; reflexivity].
    - discriminate NS.
  Qed.
End FpSem.

(* ====================================================================== *)
(* 3. assembly: the instance pair of a valid rule under a match is valid    *)
(* ====================================================================== *)

Lemma hash_fp_lt : forall p v l, p <> 0 -> hash_fp p v l < p.
Proof.
  intros p v l Hp. unfold hash_fp.
  assert (G : forall l acc, acc < p -> fold_left (fun acc s => (acc * 31 + sval_code s + 1) mod p) l acc < p).
  { clear l. induction l as [|a l IH]; intros acc Ha; cbn [fold_left]; [exact Ha|]. apply IH. apply N.mod_lt. exact Hp. }
  apply G. apply N.mod_lt. exact Hp.
Qed.

Lemma interp_fp_lt : forall p v args, p <> 0 -> interp_fp p v args < p.
Proof.
  intros p v args Hp. unfold interp_fp.
  repeat match goal with
         | |- context [match ?x with _ => _ end] => is_var x; destruct x
         end; try (apply N.mod_lt; exact Hp); apply hash_fp_lt; exact Hp.
Qed.

Lemma eval_fp_lt : forall p env t, p <> 0 -> eval_fp p env t < p.
Proof. intros p env [v args] Hp. unfold eval_fp. rewrite eval_CT. apply interp_fp_lt. exact Hp. Qed.

Lemma in_values_vec : forall m x, In x (values m) <-> In x (values_vec m).
Proof. intros m x. unfold values. apply (proj2 (sset_of_list_spec _)). Qed.

(* the condition of the model rule (rewrite/mod.rs: slot_free_in, or none) and the condition of the frule *)
Definition cond_corr (c : option (slot * text)) (fc : fcond) : Prop :=
  match c with
  | None => fc = FCTrue
  | Some (x, v) => fc = FCFree x v /\ is_B x = false
  end.

Section Step.
  Variable p : N.
  Hypothesis Hp : p <> 0.
  Variables (E : equations) (s : egraph) (sb : subst) (dn : text -> cterm).
  Hypothesis HV : valid N (interp_fp p) E.
  Hypothesis HR : RSt E s.
  Hypothesis SD : sub_den E s sb dn.

  (* the value of a bound pattern variable does not depend on a slot outside the map of its invocation *)
  Lemma den_indep : forall v a x, sub_get sb v = Some a -> ~ In x (values_vec (am a)) -> is_B x = false ->
    indep (rho_den p dn) v x.
  Proof.
    intros v a x G Nx Bx env z. destruct HR as (_ & W & _). destruct (SD v a G) as (Cv & Vn & _ & HO).
    unfold rho_den, eval_fp. exact (handle_indep N (interp_fp p) E s a (dn v) x HV W Cv Vn HO Nx Bx env z).
  Qed.

  Lemma den_wsem : forall v a, sub_get sb v = Some a -> wsem N (interp_fp p) (dn v).
  Proof.
    intros v a G. destruct HR as (_ & W & _). destruct (SD v a G) as (Cv & _ & _ & HO).
    exact (handle_wsem N (interp_fp p) E s a (dn v) HV W Cv HO).
  Qed.

  Theorem fp_rule_step : forall (mr : rule) (fr : frule),
    (* the frule is the model rule *)
    fpat_of_pattern (r_lhs mr) = Some (fr_lhs fr) -> fpat_of_pattern (r_rhs mr) = Some (fr_rhs fr) ->
    nosub (fr_lhs fr) = true -> nosub (fr_rhs fr) = true ->
    (forall x, In x (Fp.pslots (fr_lhs fr) ++ Fp.pslots (fr_rhs fr)) -> is_B x = false) ->
    cond_corr (r_cond mr) (fr_cond fr) ->
    (* rhs_only_named: a slot written on the right-hand side only is not of the kind the matcher draws *)
    (forall x, In x (Fp.pslots (fr_rhs fr)) -> ~ In x (Fp.pslots (fr_lhs fr)) -> x mod 4 <> 1) ->
    rule_valid p fr ->
    cond_holds (r_cond mr) sb = Ok true ->
    (* sub_total: the match binds every pattern variable of the rule *)
    (forall v, In v (pvars (fr_lhs fr) ++ pvars (fr_rhs fr)) -> sub_get sb v <> None) ->
    (* vals_lhs: what MatchVals.ematch_all_vals gives of the match *)
    (forall v a, sub_get sb v = Some a -> forall x, In x (values_vec (am a)) ->
       In x (Fp.pslots (fr_lhs fr)) \/ x mod 4 = 1) ->
    valid N (interp_fp p) (E ++ [(pat_t dn (r_lhs mr), pat_t dn (r_rhs mr))]).
  Proof.
    intros mr fr Fl Fr Nl Nr NB CC RN RV HC ST VL l r Hin env.
    apply in_app_or in Hin. destruct Hin as [Hin|[Heq|[]]]; [exact (HV l r Hin env)|].
    inversion Heq; subst l r; clear Heq.
    assert (WV : forall v, In v (pvars (fr_lhs fr) ++ pvars (fr_rhs fr)) -> wsem N (interp_fp p) (dn v)).
    { intros v Hv. destruct (sub_get sb v) as [a|] eqn:G; [exact (den_wsem v a G)|exfalso; exact (ST v Hv G)]. }
    destruct (pat_sem p dn (fr_lhs fr) (r_lhs mr) Fl Nl) as [_ El];
      [intros x Hx; apply NB; apply in_or_app; left; exact Hx|intros v Hv; apply WV; apply in_or_app; left; exact Hv|].
    destruct (pat_sem p dn (fr_rhs fr) (r_rhs mr) Fr Nr) as [_ Er];
      [intros x Hx; apply NB; apply in_or_app; right; exact Hx|intros v Hv; apply WV; apply in_or_app; right; exact Hv|].
    unfold eval_fp in El, Er. rewrite El, Er. apply RV.
    - intros v e. unfold rho_den. apply eval_fp_lt. exact Hp.
    - intros x Hxr Hxl v Hv. destruct (sub_get sb v) as [a|] eqn:G; [|exfalso; exact (ST v Hv G)].
      apply (den_indep v a x G).
      + intros Hx. destruct (VL v a G x Hx) as [T|T]; [exact (Hxl T)|exact (RN x Hxr Hxl T)].
      + apply NB. apply in_or_app. right. exact Hxr.
    - unfold cond_ok. unfold cond_corr in CC. destruct (r_cond mr) as [[x v]|].
      + destruct CC as [-> Bx]. cbn [cond_sem]. unfold cond_holds in HC.
        destruct (sub_get sb v) as [a|] eqn:G; [|discriminate HC]. inversion HC as [Hm].
        apply (den_indep v a x G); [|exact Bx]. intros Hx. apply in_values_vec in Hx.
        apply sset_mem_in in Hx. rewrite Hx in Hm. discriminate Hm.
      + rewrite CC. exact I.
  Qed.
End Step.


(* ====================================================================== *)
(* 4. the premise vals_lhs from the matcher                                 *)
(* ====================================================================== *)

(* the applied-id placeholders of the nodes of a pattern (Parse/Parser.v: null_appid, empty map) *)
Fixpoint pholes (q : pattern) : list appid :=
  match q with
  | PVarP _ => []
  | PNode n ch => app_occ n ++ (fix go (l : list pattern) : list appid :=
                                  match l with [] => [] | c :: t => pholes c ++ go t end) ch
  | PSubst b x t => pholes b ++ pholes x ++ pholes t
  end.

(* with empty placeholder maps the slot names of the pattern are those of the fpat *)
Lemma fpat_pslots : forall q pat, fpat_of_pattern pat = Some q -> nosub q = true ->
  (forall a, In a (pholes pat) -> am a = []) ->
  forall x, In x (MatchDefs.pslots pat) -> In x (Fp.pslots q).
Proof.
  induction q as [x|n|a IHa b IHb|a IHa b IHb|x b IHb|x b IHb t IHt|v|b IHb x t IHt]; intros pat H NS HE z Hz;
    apply fpat_inv in H; cbn beta iota in H; cbn [nosub Fp.pslots] in *.
  - subst pat. cbn in Hz. exact Hz.
  - subst pat. cbn in Hz. exact Hz.
  - destruct H as (y1 & y2 & pa & pb & -> & Ha & Hb). apply andb_prop in NS. destruct NS as [Na Nb].
    cbn [pholes app_occ nargs flat_map app_occ_f app] in HE.
    rewrite pslots_node in Hz. cbn [all_occ nargs flat_map all_occ_f app] in Hz.
    rewrite (HE y1 (or_introl eq_refl)), (HE y2 (or_intror (or_introl eq_refl))) in Hz.
    unfold values_vec in Hz. cbn [map app] in Hz. rewrite ?app_nil_r in Hz.
    apply in_app_or in Hz. apply in_or_app. destruct Hz as [Hz|Hz]; [left; apply (IHa pa Ha Na)|right; apply (IHb pb Hb Nb)]; try exact Hz;
      intros c Hc; apply HE; right; right; rewrite app_nil_r; apply in_or_app; [left|right]; exact Hc.
  - destruct H as (y1 & y2 & pa & pb & -> & Ha & Hb). apply andb_prop in NS. destruct NS as [Na Nb].
    cbn [pholes app_occ nargs flat_map app_occ_f app] in HE.
    rewrite pslots_node in Hz. cbn [all_occ nargs flat_map all_occ_f app] in Hz.
    rewrite (HE y1 (or_introl eq_refl)), (HE y2 (or_intror (or_introl eq_refl))) in Hz.
    unfold values_vec in Hz. cbn [map app] in Hz. rewrite ?app_nil_r in Hz.
    apply in_app_or in Hz. apply in_or_app. destruct Hz as [Hz|Hz]; [left; apply (IHa pa Ha Na)|right; apply (IHb pb Hb Nb)]; try exact Hz;
      intros c Hc; apply HE; right; right; rewrite app_nil_r; apply in_or_app; [left|right]; exact Hc.
  - destruct H as (y & pb & -> & Hb).
    cbn [pholes app_occ nargs flat_map app_occ_f app] in HE.
    rewrite pslots_node in Hz. cbn [all_occ nargs flat_map all_occ_f app] in Hz.
    rewrite (HE y (or_introl eq_refl)) in Hz.
    unfold values_vec in Hz. cbn [map app] in Hz. rewrite ?app_nil_r in Hz.
    destruct Hz as [Hz|Hz]; [left; exact Hz|right]. apply (IHb pb Hb NS); [|exact Hz].
    intros c Hc. apply HE. right. rewrite app_nil_r. exact Hc.
  - destruct H as (y & y2 & pb & pt & -> & Hb & Ht). apply andb_prop in NS. destruct NS as [Nb Nt].
    cbn [pholes app_occ nargs flat_map app_occ_f app] in HE.
    rewrite pslots_node in Hz. cbn [all_occ nargs flat_map all_occ_f app] in Hz.
    rewrite (HE y (or_introl eq_refl)), (HE y2 (or_intror (or_introl eq_refl))) in Hz.
    unfold values_vec in Hz. cbn [map app] in Hz. rewrite ?app_nil_r in Hz.
    destruct Hz as [Hz|Hz]; [left; exact Hz|right].
    apply in_app_or in Hz. apply in_or_app. destruct Hz as [Hz|Hz]; [left; apply (IHb pb Hb Nb)|right; apply (IHt pt Ht Nt)]; try exact Hz;
      intros c Hc; apply HE; right; right; rewrite app_nil_r; apply in_or_app; [left|right]; exact Hc.
  - subst pat. destruct Hz.
  - discriminate NS.
Qed.

(* every substitution returned by the matcher for the left-hand side satisfies vals_lhs *)
Theorem vals_lhs_of_ematch : forall (mr : rule) (fr : frule) s0 l s',
  fpat_of_pattern (r_lhs mr) = Some (fr_lhs fr) -> nosub (fr_lhs fr) = true ->
  (forall a, In a (pholes (r_lhs mr)) -> am a = []) ->
  inv3 s0 -> kids_ok s0 -> m4 s0 -> ematch_all (r_lhs mr) s0 = Ok (l, s') ->
  forall sb, In sb l -> forall v a, sub_get sb v = Some a -> forall x, In x (values_vec (am a)) ->
  In x (Fp.pslots (fr_lhs fr)) \/ x mod 4 = 1.
Proof.
  intros mr fr s0 l s' Fl Nl HE I3 K M H.
  apply (ematch_all_vals (fun x => In x (Fp.pslots (fr_lhs fr))) (r_lhs mr) s0 l s' I3 K M); [|exact H].
  intros x Hx. exact (fpat_pslots _ _ Fl Nl HE x Hx).
Qed.

Check handle_indep.
Check handle_wsem.
Check pat_sem.
Check fp_rule_step.
Check vals_lhs_of_ematch.
Print Assumptions eval_names_ext.
Print Assumptions handle_indep.
Print Assumptions handle_wsem.
Print Assumptions pat_sem.
Print Assumptions fp_rule_step.
Print Assumptions vals_lhs_of_ematch.

(* SUMMARY.
   Proved (axiom: functional extensionality only, as Sem/AlgebraFacts.Deriv_sound):
   - handle_indep, handle_wsem (any algebra), pat_sem, fp_rule_step, vals_lhs_of_ematch (closed).
   fp_rule_step is P_step of RewriteSound.apply_rewrites_sched_sound for P E := valid N (interp_fp p) E, with these
   premises that P_step does not supply:
   - static, of the rule: the frule is the image of the model rule (fpat_of_pattern, no FSub, cond_corr), no slot
     name is reserved, rhs_only_named (a slot written on the right-hand side only is not 1 mod 4), rule_valid p fr;
   - dynamic, of the match sb: sub_total (every pattern variable of both sides is bound by sb) and vals_lhs
     (every value of every bound map is a slot of the left-hand side or is 1 mod 4).  vals_lhs holds of every
     substitution returned by ematch_all for the left-hand side (vals_lhs_of_ematch; placeholder maps of the parsed
     pattern are empty: Parser.null_appid).  P_step quantifies over all sb with sub_den and cond_holds only, so to use
     fp_rule_step the Section Appliers of RewriteSound.v has to carry these two facts of sb next to sub3. *)
