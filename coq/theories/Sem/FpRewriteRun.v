(* Sem/FpRewriteRun.v — C03: rewriting with rules of the arithmetic fragment that are valid in F_p preserves
   meaning in F_p.  `fp_rule p mr`: the model rule mr (EGraph/Rewrite.v) is an frule (Sem/Fp.v) without
   b[x := t], with condition none / slot_free_in, that is valid in F_p (Fp.rule_valid; FpFacts.fppool_valid for
   the pool).  `fp_P_step` discharges the hypothesis P_step of RewriteSound.apply_rewrites_sched_sound for
   P := valid N (interp_fp p); `fp_rewriting_history_sound`: after any history of insertions, unions (whose
   asserted equations hold in F_p) and rewrite iterations with such rules, handles the e-graph reports equal
   belong to terms with the same value in F_p under every environment. *)
From SE Require Import Slots.SlotMapFacts Group.GroupSound Lang.LangFacts Lang.ShapeFacts Lang.RenameFacts
  Base.TextFacts Parse.Parser
  EGraph.Model EGraph.ModelFacts EGraph.ModelMachine EGraph.UnionFindFacts EGraph.InvariantFacts
  EGraph.UnionInvariantFacts EGraph.AddCoversFacts EGraph.Mod4Facts EGraph.SoundFacts EGraph.SoundSyn EGraph.SoundAddExpr
  EGraph.Rewrite EGraph.RewriteFacts EGraph.MatchDefs EGraph.MatchFacts EGraph.MatchVals
  EGraph.RewriteSoundInst EGraph.RewriteSound EGraph.RewriteSoundRun.
From SE Require Import Sem.Deriv Sem.DerivFacts Sem.Algebra Sem.AlgebraFacts Sem.Fp Sem.FpFacts Sem.FpRewrite Explain.CheckerFacts.
From Coq Require Import ZArith Lia.

Local Notation ectr := Model.ctr.

Lemma fpat_pvars : forall q pat, fpat_of_pattern pat = Some q -> nosub q = true ->
  forall v, In v (Fp.pvars q) -> In v (RewriteFacts.pvars pat).
Proof.
  induction q as [x|n|a IHa b IHb|a IHa b IHb|x b IHb|x b IHb t IHt|v0|b IHb x t IHt]; intros pat H NS v Hv;
    apply fpat_inv in H; cbn beta iota in H; cbn [nosub Fp.pvars] in *.
  - destruct Hv.
  - destruct Hv.
  - destruct H as (y1 & y2 & pa & pb & -> & Ha & Hb). apply andb_prop in NS. destruct NS as [Na Nb].
    rewrite pvars_node. cbn [flat_map]. rewrite app_nil_r. apply in_app_or in Hv. apply in_or_app.
    destruct Hv as [Hv|Hv]; [left; exact (IHa pa Ha Na v Hv)|right; exact (IHb pb Hb Nb v Hv)].
  - destruct H as (y1 & y2 & pa & pb & -> & Ha & Hb). apply andb_prop in NS. destruct NS as [Na Nb].
    rewrite pvars_node. cbn [flat_map]. rewrite app_nil_r. apply in_app_or in Hv. apply in_or_app.
    destruct Hv as [Hv|Hv]; [left; exact (IHa pa Ha Na v Hv)|right; exact (IHb pb Hb Nb v Hv)].
  - destruct H as (y & pb & -> & Hb). rewrite pvars_node. cbn [flat_map]. rewrite app_nil_r. exact (IHb pb Hb NS v Hv).
  - destruct H as (y & y2 & pb & pt & -> & Hb & Ht). apply andb_prop in NS. destruct NS as [Nb Nt].
    rewrite pvars_node. cbn [flat_map]. rewrite app_nil_r. apply in_app_or in Hv. apply in_or_app.
    destruct Hv as [Hv|Hv]; [left; exact (IHb pb Hb Nb v Hv)|right; exact (IHt pt Ht Nt v Hv)].
  - subst pat. exact Hv.
  - discriminate NS.
Qed.

(* the model rule mr is an frule that is valid in F_p *)
Definition fp_rule (p : N) (mr : rule) : Prop :=
  exists fr : frule,
    fpat_of_pattern (r_lhs mr) = Some (fr_lhs fr) /\ fpat_of_pattern (r_rhs mr) = Some (fr_rhs fr) /\
    nosub (fr_lhs fr) = true /\ nosub (fr_rhs fr) = true /\
    (forall x, In x (Fp.pslots (fr_lhs fr) ++ Fp.pslots (fr_rhs fr)) -> is_B x = false) /\
    cond_corr (r_cond mr) (fr_cond fr) /\
    (* a slot written on the right-hand side only is a user slot name, not a fresh-slot name *)
    (forall x, In x (Fp.pslots (fr_rhs fr)) -> ~ In x (Fp.pslots (fr_lhs fr)) -> x mod 4 <> 1) /\
    (* the applied-id placeholders of the left-hand side have empty maps (Parser.null_appid) *)
    (forall a, In a (pholes (r_lhs mr)) -> am a = []) /\
    rule_valid p fr.

(* P_step of RewriteSound.v for P := valid in F_p *)
Theorem fp_P_step : forall p, p <> 0 -> forall E r sb s den, fp_rule p r -> valid N (interp_fp p) E -> RSt E s ->
  sub_den E s sb den -> sub_vals (r_lhs r) sb -> sub_bound r sb -> cond_holds (r_cond r) sb = Ok true ->
  valid N (interp_fp p) (E ++ [(pat_t den (r_lhs r), pat_t den (r_rhs r))]).
Proof.
  intros p Hp E r sb s den (fr & Fl & Fr & Nl & Nr & NB & CC & RN & PH & RV) V R SD SV SB C.
  apply (fp_rule_step p Hp E s sb den V R SD r fr Fl Fr Nl Nr NB CC RN RV C).
  - intros v Hv. apply SB. apply in_app_or in Hv. apply in_or_app.
    destruct Hv as [Hv|Hv]; [left; exact (fpat_pvars _ _ Fl Nl v Hv)|right; exact (fpat_pvars _ _ Fr Nr v Hv)].
  - intros v a G x Hx. destruct (SV v a G x Hx) as [T|T]; [left; exact (fpat_pslots _ _ Fl Nl PH x T)|right; exact T].
Qed.

(* one iteration: validity in F_p of the equations of the invariant is kept *)
Theorem fp_apply_rewrites_sound : forall p, p <> 0 -> forall rs E s hs hts b s', valid N (interp_fp p) E -> GoodR E s hs hts ->
  rules_below (ectr s) rs -> Forall (fp_rule p) rs -> Forall rule_nb rs ->
  apply_rewrites rs s = Ok (b, s') ->
  exists E', (forall e, In e E -> In e E') /\ valid N (interp_fp p) E' /\ GoodR E' s' hs hts.
Proof.
  intros p Hp rs E s hs hts b s' V G RB FP FN H.
  exact (GoodR_rewrite (valid N (interp_fp p)) (fp_rule p) (fp_P_step p Hp) (fun _ l => l) rs E s hs hts b s'
           (fun k l => incl_refl l) V G RB FP FN H).
Qed.

(* histories: every two terms the e-graph reports equal have the same value in F_p *)
Theorem fp_rewriting_history_sound : forall p, p <> 0 -> forall (UA : rterm -> rterm -> Prop),
  (forall t1 t2, UA t1 t2 -> forall env, eval_fp p env (canon0 t1) = eval_fp p env (canon0 t2)) ->
  forall terms ops hs hrs s, Forall rt_ok terms -> Forall rt_wf terms ->
  rops_pre (fp_rule p) UA terms ops [] [] empty_egraph ->
  run_rops terms ops [] [] empty_egraph = Ok (hs, hrs, s) ->
  forall i j a b ti tj, nth_opt hs i = Some a -> nth_opt hs j = Some b ->
    nth_opt hrs i = Some ti -> nth_opt hrs j = Some tj -> eg_eq s a b = Ok true ->
    forall env, eval_fp p env (canon0 ti) = eval_fp p env (canon0 tj).
Proof.
  intros p Hp UA HU terms ops hs hrs s TO TW PRE H i j a b ti tj Ha Hb Hti Htj Q env.
  destruct (rewriting_history_sound (valid N (interp_fp p)) (fp_rule p) (fp_P_step p Hp) UA
              (fun E t1 t2 V U => valid_app1 N (interp_fp p) E _ _ V (HU t1 t2 U))
              terms ops hs hrs s TO TW (fun l r Hin => match Hin with end) PRE H) as (E & V & HD).
  exact (Deriv_sound N (interp_fp p) E V 0 _ _ (HD i j a b ti tj Ha Hb Hti Htj Q) env).
Qed.

(* ====================================================================== *)
(* the rules of the pool without b[x := t] and with condition none / slot_free_in are fp_rules *)
(* ====================================================================== *)

Fixpoint fpat_eqb (a b : fpat) : bool :=
  match a, b with
  | FVar x, FVar y => x =? y
  | FNum n, FNum m => n =? m
  | FAdd a1 a2, FAdd b1 b2 | FMul a1 a2, FMul b1 b2 => fpat_eqb a1 b1 && fpat_eqb a2 b2
  | FSum x a1, FSum y b1 => (x =? y) && fpat_eqb a1 b1
  | FLet x a1 a2, FLet y b1 b2 => (x =? y) && fpat_eqb a1 b1 && fpat_eqb a2 b2
  | FPV v, FPV w => text_eqb v w
  | FSub a1 x a2, FSub b1 y b2 => (x =? y) && fpat_eqb a1 b1 && fpat_eqb a2 b2
  | _, _ => false
  end.

Lemma fpat_eqb_eq : forall a b, fpat_eqb a b = true -> a = b.
Proof.
  induction a as [x|n|a1 IH1 a2 IH2|a1 IH1 a2 IH2|x a1 IH1|x a1 IH1 a2 IH2|v|a1 IH1 x a2 IH2]; intros b H; destruct b; cbn [fpat_eqb] in H; try discriminate H;
    repeat match goal with
    | H : (_ && _) = true |- _ => apply andb_true_iff in H; destruct H
    | H : (_ =? _) = true |- _ => apply N.eqb_eq in H; subst
    | H : text_eqb _ _ = true |- _ => apply text_eqb_eq in H; subst
    | H : fpat_eqb ?a _ = true, IH : forall b, fpat_eqb ?a b = true -> ?a = b |- _ => apply IH in H; subst
    end; reflexivity.
Qed.

Definition cond_corrb (c : option (slot * text)) (fc : fcond) : bool :=
  match c, fc with
  | None, FCTrue => true
  | Some (x, v), FCFree y w => (x =? y) && text_eqb v w && negb (is_B x)
  | _, _ => false
  end.

Definition memN (x : N) (l : list N) : bool := existsb (N.eqb x) l.

(* the static part of fp_rule, evaluated *)
Definition fp_ruleb (mr : rule) (fr : frule) : bool :=
  match fpat_of_pattern (r_lhs mr), fpat_of_pattern (r_rhs mr) with
  | Some ql, Some qr =>
      fpat_eqb ql (fr_lhs fr) && fpat_eqb qr (fr_rhs fr) && nosub (fr_lhs fr) && nosub (fr_rhs fr) &&
      forallb (fun x => negb (is_B x)) (Fp.pslots (fr_lhs fr) ++ Fp.pslots (fr_rhs fr)) &&
      cond_corrb (r_cond mr) (fr_cond fr) &&
      forallb (fun x => memN x (Fp.pslots (fr_lhs fr)) || negb (x mod 4 =? 1)) (Fp.pslots (fr_rhs fr)) &&
      forallb (fun a => match am a with [] => true | _ => false end) (pholes (r_lhs mr))
  | _, _ => false
  end.

Theorem fp_ruleb_sound : forall p mr fr, fp_ruleb mr fr = true -> rule_valid p fr -> fp_rule p mr.
Proof.
  intros p mr fr H RV. unfold fp_ruleb in H.
  destruct (fpat_of_pattern (r_lhs mr)) as [ql|] eqn:Fl; [|discriminate]. destruct (fpat_of_pattern (r_rhs mr)) as [qr|] eqn:Fr; [|discriminate].
  repeat match type of H with (_ && _) = true => let H' := fresh "C" in apply andb_true_iff in H; destruct H as [H H'] end.
  apply fpat_eqb_eq in H. apply fpat_eqb_eq in C5. subst ql qr.
  exists fr. split; [exact Fl|]. split; [exact Fr|]. split; [exact C4|]. split; [exact C3|]. split.
  { intros x Hx. rewrite forallb_forall in C2. apply negb_true_iff. exact (C2 x Hx). }
  split.
  { unfold cond_corrb in C1. unfold cond_corr. destruct (r_cond mr) as [[x v]|]; destruct (fr_cond fr); try discriminate C1; [|reflexivity].
    apply andb_true_iff in C1. destruct C1 as [C1 Nb]. apply andb_true_iff in C1. destruct C1 as [Ex Ev].
    apply N.eqb_eq in Ex. apply text_eqb_eq in Ev. subst. split; [reflexivity|apply negb_true_iff; exact Nb]. }
  split.
  { intros x Hx Hn. rewrite forallb_forall in C0. specialize (C0 x Hx). apply orb_true_iff in C0. destruct C0 as [C0|C0].
    - exfalso. apply Hn. unfold memN in C0. apply existsb_exists in C0. destruct C0 as (y & Hy & Exy). apply N.eqb_eq in Exy. subst y. exact Hy.
    - apply negb_true_iff in C0. apply N.eqb_neq in C0. exact C0. }
  split; [|exact RV].
  intros a Ha. rewrite forallb_forall in C. specialize (C a Ha). destruct (am a); [reflexivity|discriminate].
Qed.

(* the model rules of the pool texts (RewriteMachine.build_rule: the condition's slot, then lhs, then rhs in one table) *)
Definition simple_cond (c : fcond) : option (option (slot * text)) :=
  match c with
  | FCTrue => Some None
  | FCFree x v => Some (Some (x, v))
  | _ => None
  end.

Definition mrule_of_text (r : String.string * String.string * ctext) : option rule :=
  let '(l, rh, c) := r in
  match parse_cond init_table c with
  | None => None
  | Some (c', st0) =>
      match simple_cond c' with
      | None => None
      | Some mc =>
          match parse_pattern_text false false false sigLV st0 (T l) with
          | POk (pl, st1) =>
              match parse_pattern_text false false false sigLV st1 (T rh) with
              | POk (pr, _) => Some {| r_lhs := pl; r_rhs := pr; r_cond := mc |}
              | _ => None
              end
          | _ => None
          end
      end
  end.

(* pool rules 0-10, 12-23: no b[x := t] (rule 11), simple conditions (24-33 have and / or / not) *)
Definition pool_idx : list nat := [0; 1; 2; 3; 4; 5; 6; 7; 8; 9; 10; 12; 13; 14; 15; 16; 17; 18; 19; 20; 21; 22; 23]%nat.
Definition pool_pairs : list (rule * frule) :=
  flat_map (fun k => match nth_error FPPOOL_text k, nth_error FPPOOL k with
                     | Some r, Some fr => match mrule_of_text r with Some m => [(m, fr)] | None => [] end
                     | _, _ => []
                     end) pool_idx.
Definition pool_mrules : list rule := map fst pool_pairs.

Example pool_pairs_checked : List.length pool_pairs = 23%nat /\ forallb (fun q => fp_ruleb (fst q) (snd q)) pool_pairs = true /\
  forallb (fun q => rule_nbb (fst q)) pool_pairs = true.
Proof. vm_compute. auto. Qed.

Lemma pool_pairs_in : forall q, In q pool_pairs -> In (snd q) FPPOOL.
Proof.
  intros q Hq. unfold pool_pairs in Hq. apply in_flat_map in Hq. destruct Hq as (k & _ & Hq).
  destruct (nth_error FPPOOL_text k) as [r|]; [|destruct Hq]. destruct (nth_error FPPOOL k) as [fr|] eqn:Ek; [|destruct Hq].
  destruct (mrule_of_text r) as [m|]; [|destruct Hq]. destruct Hq as [<-|[]]. cbn [snd]. eapply nth_error_In; eauto.
Qed.

Theorem pool_rules_fp : forall p, p <> 0 -> Forall (fp_rule p) pool_mrules /\ Forall rule_nb pool_mrules.
Proof.
  intros p Hp. destruct pool_pairs_checked as (_ & C1 & C2). rewrite forallb_forall in C1, C2. unfold pool_mrules. split.
  - apply Forall_forall. intros mr Hmr. apply in_map_iff in Hmr. destruct Hmr as (q & <- & Hq).
    apply (fp_ruleb_sound p (fst q) (snd q) (C1 q Hq)). intros rho HR HF HC env.
    exact (fppool_valid p Hp (snd q) (pool_pairs_in q Hq) rho HR HF HC env).
  - apply Forall_forall. intros mr Hmr. apply in_map_iff in Hmr. destruct Hmr as (q & <- & Hq).
    apply rule_nbb_sound. exact (C2 q Hq).
Qed.

(* ====================================================================== *)
(* a decision procedure for fp_rule (pool rules), and the theorem applied to a run *)
(* ====================================================================== *)

Definition fp_rule_checkb (mr : rule) : bool := existsb (fun fr => fp_ruleb mr fr) FPPOOL.

Lemma fp_rule_checkb_sound : forall p, p <> 0 -> forall mr, fp_rule_checkb mr = true -> fp_rule p mr.
Proof.
  intros p Hp mr H. unfold fp_rule_checkb in H. apply existsb_exists in H. destruct H as (fr & Hin & Hb).
  apply (fp_ruleb_sound p mr fr Hb). intros rho HR HF HC env. exact (fppool_valid p Hp fr Hin rho HR HF HC env).
Qed.

(* sum x. (x + 2)  and  (sum x. x) + (sum x. 2): two rewrite iterations with the 23 pool rules *)
Definition fx_t0 : fterm := TSum 4 (TAdd (TVar 4) (TNum 2)).
Definition fx_t1 : fterm := TAdd (TSum 4 (TVar 4)) (TSum 4 (TNum 2)).
Definition fx_terms : list rterm := [rterm_of fx_t0; rterm_of fx_t1].
Definition fx_ops : list rop := [RAdd 0; RAdd 1; RRew pool_mrules; RRew pool_mrules].

Example fx_run_equal : match run_rops fx_terms fx_ops [] [] empty_egraph with
                       | Ok ([a; b], _, s) => Some (eg_eq s a b) | _ => None end = Some (Ok true).
Proof. vm_compute. reflexivity. Qed.

Example fx_pre : rops_preb_gen fp_rule_checkb (fun _ _ => false) fx_terms fx_ops [] [] empty_egraph = true.
Proof. vm_compute. reflexivity. Qed.

Lemma fx_terms_ok : Forall rt_ok fx_terms /\ Forall rt_wf fx_terms.
Proof.
  split.
  - cbn; repeat (apply Forall_cons || apply Forall_nil || apply conj || exact I); cbn; intros x Hx;
      repeat (destruct Hx as [Hx|Hx]; [subst x; vm_compute; auto|]); contradiction.
  - cbn; repeat (apply Forall_cons || apply Forall_nil || apply conj || exact I || reflexivity).
Qed.

(* by the theorem (not by evaluating both sides): the two terms have the same value in every F_p under every environment *)
Example fx_same_meaning : forall p, p <> 0 -> forall env, eval_fp p env (canon0 (rterm_of fx_t0)) = eval_fp p env (canon0 (rterm_of fx_t1)).
Proof.
  intros p Hp env.
  destruct (run_rops fx_terms fx_ops [] [] empty_egraph) as [[[hs hrs] s]|] eqn:Run; [|vm_compute in Run; discriminate].
  refine (fp_rewriting_history_sound p Hp (fun _ _ => False) (fun t1 t2 F => match F with end) fx_terms fx_ops hs hrs s
            (proj1 fx_terms_ok) (proj2 fx_terms_ok) _ Run 0%nat 1%nat _ _ _ _ _ _ _ _ _ env).
  - apply (rops_preb_gen_sound (fp_rule p) (fun _ _ => False) fp_rule_checkb (fun _ _ => false)
             (fp_rule_checkb_sound p Hp) (fun t1 t2 F => False_ind _ (Bool.diff_false_true F))). exact fx_pre.
  - vm_compute in Run. inversion Run. reflexivity.
  - vm_compute in Run. inversion Run. reflexivity.
  - vm_compute in Run. inversion Run. reflexivity.
  - vm_compute in Run. inversion Run. reflexivity.
  - vm_compute in Run. inversion Run; subst hs hrs s. vm_compute. reflexivity.
Qed.

(* ---------------------------------------------------------------------- *)
(* b[x := t] on the model, by evaluation (NOT covered by the theorems above): pool rule 11,
   (let $1 ?b ?t) -> ?b[(var $1) := ?t], on  let x = (var $3) in sum $3. (x + $3)  (the bound slot of the sum has the
   name of the free slot of the substituted term): after one iteration the term is equal to sum y. ($3 + y), not to the
   captured sum y. (y + y): the matcher hands over fresh names, extraction uses the private names of the syntactic
   nodes, so re-insertion does not capture here (cf. RewriteSoundEx.psubst_captures for a substitution not produced
   by the matcher). *)
Definition r11 : option rule :=
  match nth_error FPPOOL_text 11 with
  | Some (l, rh, _) =>
      match parse_pattern_text false false false sigLV init_table (T l) with
      | POk (pl, st1) => match parse_pattern_text false false false sigLV st1 (T rh) with
                         | POk (pr, _) => Some {| r_lhs := pl; r_rhs := pr; r_cond := None |}
                         | _ => None
                         end
      | _ => None
      end
  | None => None
  end.
Definition gx_terms : list rterm :=
  [rterm_of (TLet 4 (TSum 12 (TAdd (TVar 4) (TVar 12))) (TVar 12));
   rterm_of (TSum 8 (TAdd (TVar 12) (TVar 8))); rterm_of (TSum 8 (TAdd (TVar 8) (TVar 8)))].
Example psubst_run_no_capture :
  match r11 with
  | Some r => match run_rops gx_terms [RAdd 0; RAdd 1; RAdd 2; RRew [r]] [] [] empty_egraph with
              | Ok ([a; b; c], _, s) => Some (eg_eq s a b, eg_eq s a c)
              | _ => None
              end
  | None => None
  end = Some (Ok true, Ok false).
Proof. vm_compute. reflexivity. Qed.

Check fp_P_step.
Check fp_rewriting_history_sound.
Print Assumptions fp_P_step.
Print Assumptions fp_apply_rewrites_sound.
Print Assumptions fp_rewriting_history_sound.
Print Assumptions pool_rules_fp.
Print Assumptions fx_same_meaning.
