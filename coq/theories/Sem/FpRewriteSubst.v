(* Sem/FpRewriteSubst.v — C03: the F_p instance for rewriting with a right-hand side b[(var $x) := t]:
   pool rule 11, (let $1 ?b ?t) -> ?b[(var $1) := ?t].

   `fp_P_stepJ`: the hypothesis P_stepJ of RewriteSoundSubstJ.apply_rewrites_soundJ for P := valid in F_p and the rules
   RPx = (the 23 fp_rules of FpRewriteRun.v) + (rules of the shape of rule 11), using
   RewriteSoundSubstJ.syn_expr_subst_semJ (what SynExprSubst returns, semantically), SubstPre.subst_pre (its premise
   PRE from the fragment invariant FragS: `var` is the only operator with a bare slot argument),
   LeafHitAfter.hit_after_add (the invocation returned for `var $1` is found again, exactly).
   `fp_rewriting_history_sound_subst`: after any history of insertions, unions and rewrite iterations with such rules,
   handles reported equal evaluate equally in F_p.
   Section hypotheses (see the end of the file): HKA (SubstIface.HitKeepAdd), SXS (the matcher does not bind a slot
   named like the let-binder in the variable outside its scope). *)
From SE Require Import Slots.SlotMapFacts Group.GroupSound Lang.LangFacts Lang.ShapeFacts Lang.RenameFacts
  Base.TextFacts Parse.Parser
  EGraph.Model EGraph.ModelFacts EGraph.ModelMachine EGraph.UnionFindFacts EGraph.InvariantFacts
  EGraph.UnionInvariantFacts EGraph.AddCoversFacts EGraph.MonotoneFacts EGraph.Mod4Facts EGraph.SoundFacts EGraph.SoundUnion
  EGraph.SoundSyn EGraph.SoundNode EGraph.SoundStruct EGraph.NodePass EGraph.SoundBase EGraph.SoundAddNew EGraph.SoundVals
  EGraph.SoundAddExpr EGraph.SoundPending EGraph.SoundRebuild EGraph.SoundGuard EGraph.SoundFinal EGraph.SoundClosed
  EGraph.Rewrite EGraph.RewriteFacts EGraph.ProgressFacts EGraph.MatchDefs EGraph.MatchFacts EGraph.KidsFacts
  EGraph.MatchVals EGraph.RewriteSoundInst EGraph.RewriteSound EGraph.RewriteSoundRun EGraph.SynPriv EGraph.SynPrivOps EGraph.MatchValsWin
  EGraph.RewriteSoundSubst EGraph.RewriteSoundSubstTop EGraph.SubstDefs EGraph.LeafHit EGraph.RewriteSoundSubstRel
  EGraph.ExtractSound EGraph.HashconsFacts EGraph.RepFacts EGraph.OpsPreFacts EGraph.SubstIface EGraph.RewriteSoundSubstJ.
From SE Require EGraph.SubstFragSk EGraph.SubstPreFrag EGraph.SubstPre EGraph.LeafHitAfter.
From SE Require Import Sem.Deriv Sem.DerivFacts Sem.Algebra Sem.AlgebraFacts Sem.EgMachine Explain.CheckerFacts
  Sem.Fp Sem.FpFacts Sem.FpRewrite Sem.FpRewriteRun Sem.SubstSem Sem.FpRewriteSubstCore.
From SE Require Sem.FpRewriteSubstEx.
Require Import ZArith Lia ZifyBool ZifyN ZifyNat.
Ltac Zify.zify_post_hook ::= Z.div_mod_to_equations.

Local Notation ectr := Model.ctr.
Local Notation aupd := Sem.Algebra.upd.
Local Notation nullid := Parse.Parser.null_appid.

(* ====================================================================== *)
(* 1. the invariants of the F_p fragment and their interface                *)
(* ====================================================================== *)

Definition vk : nat := 5.                                     (* the operator `var` *)
Definition NPf (n : node) : Prop := node_frag vk n = true.
(* at operation boundaries / in the applier phase with the matcher's window [c0, c1) *)
Definition J0 (s : egraph) : Prop := priv3 s /\ HXs s /\ FragS vk s.
Definition JJ (c0 c1 : N) (s : egraph) : Prop := JW c0 c1 s /\ HXs s /\ FragS vk s.

Lemma NPf_nodup : forall n, NPf n -> NoDup (binders n).
Proof. intros n H. exact (SubstFragSk.node_frag_nodup vk n H). Qed.

Lemma rt_frag_all : forall T, rt_frag vk T -> rt_all NPf T.
Proof.
  induction T as [n ch IH] using rterm_ind2. intros H. apply SubstPreFrag.rt_frag_iff in H. destruct H as [A C].
  apply rt_all_iff. split; [exact A|]. rewrite Forall_forall in *. intros c Hc. apply (IH c Hc). exact (C c Hc).
Qed.

Lemma JJ_pnb : forall c0 c1 s, JJ c0 c1 s -> syn_pnb s.
Proof. intros c0 c1 s (A & _). exact (JW_pnb c0 c1 s A). Qed.

Lemma ins_pre_set : forall s n l, ins_pre s n l ->
  Forall (covers s) (app_occ (set_apps n l)) /\ (forall y, In y (all_occ (set_apps n l)) -> y mod 4 <> 1 \/ y < ectr s).
Proof.
  intros s n l (U & Len & Fc & _). rewrite (app_occ_set_apps n l Len). split.
  - revert Fc. apply Forall_impl. intros y Hy. exact (proj1 Hy).
  - intros y Hy. unfold all_occ, set_apps in Hy. cbn [nargs] in Hy. apply set_apps_args_all in Hy.
    destruct Hy as [Hy|(z & Hz & Hy)]; [exact (proj2 (U y Hy))|].
    destruct (proj1 (Forall_forall _ _) Fc z Hz) as (_ & _ & Hb). exact (Hb y Hy).
Qed.

Lemma JJ_add : forall c0 c1 E n l s a s', RSt E s -> JJ c0 c1 s -> NPf n -> ins_pre s n l ->
  eg_add (set_apps n l) s = Ok (a, s') -> JJ c0 c1 s'.
Proof.
  intros c0 c1 E n l s a s' R (A & HX & F) Hn IP H. destruct (ins_pre_set s n l IP) as [Cv Bn].
  pose proof R as (I3 & _ & _ & _ & Cm).
  split; [exact (JW_add c0 c1 E _ s a s' R A Cv Bn H)|].
  split; [exact (HXs_eg_add _ s a s' I3 Cm HX (ins_pre_node_pre s n l IP) H)|].
  exact (SubstPreFrag.FragS_eg_add_set vk E n l s a s' R F Hn H).
Qed.

Lemma JJ_sg : forall c0 c1 s s', same_graph s s' -> ectr s <= ectr s' -> ectr s' mod 4 = 1 -> JJ c0 c1 s -> JJ c0 c1 s'.
Proof.
  intros c0 c1 s s' G L Cm (A & HX & F). split; [exact (JW_sg c0 c1 s s' G L A)|].
  split; [exact (HXs_sg s s' G Cm HX)|exact (SubstPreFrag.FragS_same_graph vk s s' G F)].
Qed.

Lemma JJ_union : forall c0 c1 E s l r tl tr b s', RSt E s -> JJ c0 c1 s -> covers s l -> covers s r ->
  handle_ok E s l tl -> handle_ok E s r tr -> eg_union l r s = Ok (b, s') -> JJ c0 c1 s'.
Proof.
  intros c0 c1 E s l r tl tr b s' R (A & HX & F) Cl Cr Ol Or H.
  destruct (RSt_eg_union E s l r tl tr b s' R Cl Cr Ol Or H) as [_ X].
  split; [exact (JW_ext c0 c1 s s' X A)|].
  split; [exact (HXs_eg_union l r s b s' (proj1 R) Cl Cr HX H)|exact (SubstPreFrag.FragS_ext vk s s' X F)].
Qed.

Lemma JJ_rt : forall c0 c1 E b s sb' s1 T, RSt E s -> JJ c0 c1 s -> cvh s b -> synify_app_id b s = Ok (sb', s1) ->
  get_syn_expr (S (List.length (classes s1))) s1 sb' = Ok T -> rt_all NPf T.
Proof.
  intros c0 c1 E b s sb' s1 T R (_ & _ & F) _ H1 HT. apply rt_frag_all.
  exact (SubstPre.get_syn_expr_frag vk _ s1 sb' T (SubstPreFrag.FragS_synify_app_id vk b s sb' s1 H1 F) HT).
Qed.

Lemma JJ_enter : forall s s1, J0 s -> same_graph s s1 -> ectr s <= ectr s1 -> ectr s1 mod 4 = 1 -> JJ (ectr s) (ectr s1) s1.
Proof.
  intros s s1 (P3 & HX & F) G L Cm. split; [|split; [exact (HXs_sg s s1 G Cm HX)|exact (SubstPreFrag.FragS_same_graph vk s s1 G F)]].
  split; [exact (priv3_same_graph s s1 G L P3)|]. split; [|lia].
  intros i c q Hc Hq. left. destruct G as (_ & Gc & _). rewrite (get_class_classes s s1 i Gc) in Hc.
  exact (proj2 (proj1 P3 i c q Hc Hq)).
Qed.

Lemma JJ_exit : forall c0 c1 s, JJ c0 c1 s -> J0 s.
Proof. intros c0 c1 s ((P3 & _) & HX & F). split; [exact P3|split; assumption]. Qed.

(* ====================================================================== *)
(* 2. the rules                                                             *)
(* ====================================================================== *)

Definition letn (x : slot) : node := {| nvar := 10; nargs := [ABind x (AApp nullid); AApp nullid] |}.
Definition varn (x : slot) : node := {| nvar := 5; nargs := [ASlot x] |}.

(* (let $x ?vb ?vt) -> ?vb[(var $x) := ?vt], $x a user slot name *)
Definition r11_like (r : rule) : Prop :=
  exists x vb vt, r_lhs r = PNode (letn x) [PVarP vb; PVarP vt] /\
    r_rhs r = PSubst (PVarP vb) (PNode (varn x) []) (PVarP vt) /\ r_cond r = None /\
    is_B x = false /\ x mod 4 <> 1 /\ vb <> vt.

(* what is needed of a match beyond SVW: the variable outside the scope of the binder has no value named like it *)
Definition SXf (r : rule) (sb : subst) : Prop :=
  forall x vb vt, r_lhs r = PNode (letn x) [PVarP vb; PVarP vt] -> vb <> vt -> x mod 4 <> 1 ->
    forall t', sub_get sb vt = Some t' -> ~ In x (values_vec (am t')).

Lemma R11_like : r11_like FpRewriteSubstEx.R11.
Proof.
  rewrite FpRewriteSubstEx.R11_is. exists 4, [98%N], [116%N]. cbn [r_lhs r_rhs r_cond].
  split; [reflexivity|]. split; [reflexivity|]. split; [reflexivity|]. split; [reflexivity|].
  split; [vm_compute; discriminate|discriminate].
Qed.

Section Fp11.
  Variable p : N.
  Hypothesis Hp : p <> 0.
  (* EGraph/LeafHitClosed.v *)
  Hypothesis HKA : HitKeepAdd.

  Definition RPx (r : rule) : Prop := (fp_rule p r /\ rule_nb r) \/ r11_like r.

  Notation V := (valid N (interp_fp p)).

  (* the class term of a handle has the value of every term the handle denotes *)
  Lemma den_of_value : forall E s y t, V E -> RSt E s -> hdl E s y t ->
    forall env, eval_fp p env t = eval_fp p env (den_of s y).
  Proof.
    intros E s y t HV R H env. pose proof (cvh_hdl E s y R (hdl_cvh E s y t H)) as H2.
    destruct H as (Cy & _ & _ & O1). destruct H2 as (_ & _ & _ & O2).
    exact (Deriv_sound N (interp_fp p) E HV 0 _ _ (handle_ok_same E s y _ _ Cy O1 O2) env).
  Qed.

  Lemma pslots_r11 : forall x vb vt v, In v (MatchDefs.pslots (PNode (letn x) [PVarP vb; PVarP vt])) -> v = x.
  Proof.
    intros x vb vt v H. rewrite pslots_node in H. cbn in H. destruct H as [H|H]; [symmetry; exact H|destruct H].
  Qed.

  Theorem fp_P_stepJ : forall c0 c1 E r sb s den y s2, RPx r -> V E -> RSt E s -> JJ c0 c1 s -> sub_den E s sb den ->
    SVW c0 c1 r sb -> SXf r sb -> sub_bound r sb -> cond_holds (r_cond r) sb = Ok true -> pat_okX (ectr s) (r_rhs r) ->
    pattern_subst (r_rhs r) sb s = Ok (y, s2) ->
    V (E ++ [(pat_t den (r_lhs r), den_of s2 y)]).
  Proof.
    intros c0 c1 E r sb s den y s2 HR HV R HJ SD SV SXr SB C PO H.
    destruct HR as [[FR NB]|(x & vb & vt & El & Er & Ec & Bx & Mx & Nvb)].
    - (* no b[x := t]: the returned invocation denotes the instance of the right-hand side *)
      pose proof (fp_P_step p Hp E r sb s den FR HV R SD (sub_valsW_vals _ _ _ (proj1 SV)) SB C) as V'.
      assert (PO' : pat_ok (ectr s) (r_rhs r)).
      { destruct NB as [_ (_ & Ns & _)]. destruct PO as [Wf Sl]. split; [exact Wf|]. split; [exact Ns|exact Sl]. }
      destruct (pattern_subst_denotes E sb den (r_rhs r) s y s2 R PO' SD H) as (R2 & _ & Oy).
      intros l r1 Hin env. apply in_app_or in Hin. destruct Hin as [Hin|[Heq|[]]]; [exact (HV l r1 Hin env)|].
      inversion Heq; subst l r1; clear Heq.
      rewrite (V' _ _ (in_or_app E [(pat_t den (r_lhs r), pat_t den (r_rhs r))] _ (or_intror (or_introl eq_refl))) env).
      exact (den_of_value E s2 y _ HV R2 Oy env).
    - (* b[(var x) := t] *)
      destruct (pat_okX_subst _ _ _ _ (eq_ind _ (pat_okX (ectr s)) PO _ Er)) as (_ & Px & _).
      rewrite Er in H.
      remember (PVarP vb) as pb eqn:Epb. remember (PVarP vt) as pt eqn:Ept. remember (PNode (varn x) []) as px eqn:Epx.
      cbn [pattern_subst] in H.
      apply mbind_inv in H. destruct H as (b' & s0 & Hb & H).
      apply mbind_inv in H. destruct H as (x' & s1 & Hx & H).
      apply mbind_inv in H. destruct H as (t' & s1' & Ht & H).
      subst pb pt px.
      cbn [pattern_subst] in Hb. destruct (sub_get sb vb) as [b0|] eqn:Gb; [|discriminate Hb]. inversion Hb; subst b0 s0; clear Hb.
      cbn [pattern_subst] in Ht. destruct (sub_get sb vt) as [t0|] eqn:Gt; [|discriminate Ht]. inversion Ht; subst t0 s1'; clear Ht.
      (* the insertion of var x *)
      assert (POx : pat_ok (ectr s) (PNode (varn x) [])).
      { destruct Px as [Wf Sl]. split; [exact Wf|]. split; [reflexivity|exact Sl]. }
      destruct (pattern_subst_denotes E sb den (PNode (varn x) []) s x' s1 R POx SD Hx) as (R1 & X1 & Ox).
      cbn [pat_t map] in Ox.
      rewrite pattern_subst_node in Hx. apply mbind_inv in Hx. destruct Hx as (l0 & sx & Hk & Hx).
      cbn [varn app_occ nargs flat_map app_occ_f List.length app] in Hk. rewrite psubst_kids_nil in Hk.
      inversion Hk; subst l0 sx; clear Hk.
      assert (IPx : ins_pre s (varn x) []).
      { split; [|split; [reflexivity|split; constructor]].
        intros z Hz. cbn in Hz. destruct Hz as [<-|[]]. split; [exact Bx|left; exact Mx]. }
      assert (Fx : NPf (varn x)) by reflexivity.
      pose proof (JJ_add c0 c1 E (varn x) [] s x' s1 R HJ Fx IPx Hx) as J1.
      rewrite set_apps_nil in Hx.
      destruct HJ as (JWs & HX & Fr).
      pose proof (LeafHitAfter.hit_after_add E (varn x) s x' s1 R HX eq_refl IPx Hx) as HH.
      (* the values of the two bound maps *)
      assert (WV : forall v a, sub_get sb v = Some a -> forall z, In z (values_vec (am a)) -> z mod 4 <> 1 \/ (c0 <= z /\ z < c1)).
      { intros v a G z Hz. destruct SV as [S1 S2]. pose proof (S2 v a G z Hz) as Lz.
        destruct (S1 v a G z Hz) as [T|[T1 T2]]; [|right; lia].
        left. rewrite El in T. rewrite (pslots_r11 x vb vt z T). exact Mx. }
      pose proof (SD vb b' Gb) as Hdb. pose proof (SD vt t' Gt) as Hdt.
      pose proof (hdl_ext0 _ _ _ _ _ X1 Hdb) as Hdb1. pose proof (hdl_ext0 _ _ _ _ _ X1 Hdt) as Hdt1.
      destruct J1 as (JW1 & HX1 & Fr1).
      destruct (syn_expr_subst_semJ (JJ c0 c1) NPf NPf_nodup (JJ_pnb c0 c1) (JJ_add c0 c1) (JJ_sg c0 c1) (JJ_union c0 c1) (JJ_rt c0 c1)
                  N (interp_fp p) E HV x (varn x) b' x' t' (den vb) (den vt)
                  (fun s0 HJ0 => proj1 (proj1 HJ0)) Bx eq_refl) with (s := s1) (a := y) (s' := s2)
        as (R2 & _ & _ & r0 & Or & Sem).
      + (* x_lookup *)
        intros env. unfold varn. rewrite node_var. rewrite (eval_var p). unfold Algebra.upd. rewrite N.eqb_refl.
        apply N.mod_small. exact (eval_fp_lt p env (den vt) Hp).
      + (* hit_keep_addJ *)
        intros n l z b0 z' Rz (_ & HXz & _) _ IP Hz Ha. exact (HKA E (varn x) x' n l z b0 z' Rz HXz eq_refl IP Hz Ha).
      + exact R1.
      + split; [exact JW1|split; assumption].
      + exact Hdb1.
      + exact Ox.
      + exact Hdt1.
      + exact HH.
      + exact (SXr x vb vt El Nvb Mx t' Gt).
      + intros sb' sz T H1 HT.
        destruct (SubstPre.subst_pre N (interp_fp p) E c0 c1 vk x b' t' (den vt) s1 HV R1 JW1 Fr1 Bx Mx
                    (hdl_cvh _ _ _ _ Hdb1) Hdt1 (WV vb b' Gb) (WV vt t' Gt) sb' sz T H1 HT) as (A1 & A2 & A3 & _).
        split; [exact A1|]. split; [exact A2|exact A3].
      + exact H.
      + (* the instance pair *)
        intros l r1 Hin env. apply in_app_or in Hin. destruct Hin as [Hin|[Heq|[]]]; [exact (HV l r1 Hin env)|].
        inversion Heq; subst l r1; clear Heq. rewrite El. cbn [pat_t map].
        assert (Wb : wsem N (interp_fp p) (den vb)).
        { pose proof R as (_ & W & _). destruct Hdb as (Cb & _ & _ & Ob). exact (handle_wsem N (interp_fp p) E s b' (den vb) HV W Cb Ob). }
        pose proof (let_instance_value p Hp x nullid nullid (den vb) (den vt) env Wb Bx) as LV.
        unfold letn. unfold eval_fp in LV. rewrite LV.
        rewrite <- (Sem env).
        exact (den_of_value E s2 y r0 HV R2 Or env).
  Qed.

  (* ==================================================================== *)
  (* 3. histories                                                           *)
  (* ==================================================================== *)

  (* the matcher does not bind a slot named like the let-binder in the variable outside its scope (EGraph/MatchScope.v) *)
  Hypothesis SXS : forall rs s ts s1, inv3 s -> kids_ok s -> m4 s -> rules_below (ectr s) rs -> Forall RPx rs ->
    mapM (fun r => ematch_all (r_lhs r)) rs s = Ok (ts, s1) -> Forall2 (fun r l => Forall (SXf r) l) rs ts.

  Definition GoodRX (E : equations) (s : egraph) (hs : list appid) (hts : list cterm) : Prop :=
    GoodR E s hs hts /\ J0 s.

  Lemma GoodRX_empty : forall E, GoodRX E empty_egraph [] [].
  Proof.
    intros E. split; [apply GoodR_empty|]. split; [exact priv3_empty|]. split; [exact HXs_empty|apply SubstPreFrag.FragS_empty].
  Qed.

  (* one rewrite iteration *)
  Theorem fp_apply_rewrites_sound_subst : forall rs E s hs hts b s', V E -> GoodRX E s hs hts ->
    rules_below (ectr s) rs -> Forall RPx rs -> Forall rule_nbX rs ->
    Forall (fun r => pat_all NPf (r_lhs r) /\ pat_all NPf (r_rhs r)) rs ->
    apply_rewrites rs s = Ok (b, s') ->
    exists E', (forall e, In e E -> In e E') /\ V E' /\ GoodRX E' s' hs hts.
  Proof.
    intros rs E s hs hts b s' HV ((R & K & M & Cv & F) & HJ) RB FP FN FA H.
    destruct (apply_rewrites_soundJ J0 JJ NPf NPf_nodup JJ_pnb JJ_add JJ_sg JJ_union JJ_rt JJ_enter JJ_exit
                V RPx SXf SXS fp_P_stepJ rs E s b s' HV R HJ K M RB FP FN FA H) as (E' & I' & V' & R' & J' & X').
    destruct (kinv_apply_rewrites_sched (fun _ l => l) rs s b s' (fun k l => incl_refl l) (conj (proj1 R) (conj M K)) RB H) as [(_ & M1 & K1) _].
    destruct (handles_ext0 E E' s s' hs hts I' X' Cv F) as [Cv1 F1].
    exists E'. split; [exact I'|]. split; [exact V'|]. split; [|exact J'].
    split; [exact R'|]. split; [exact K1|]. split; [exact M1|]. split; assumption.
  Qed.

  Lemma GoodRX_add : forall E s hs hts tm a s1, GoodRX E s hs hts -> rt_ok tm -> twf tm -> rt_frag vk tm ->
    add_expr tm s = Ok (a, s1) -> GoodRX E s1 (hs ++ [a]) (hts ++ [canon0 tm]).
  Proof.
    intros E s hs hts tm a s1 (G & P3 & (Pe & Hc & M4) & Fr) TOk TW TF Ea.
    pose proof G as (R & K & M & _).
    split; [exact (GoodR_add E s hs hts tm a s1 G TOk (twf_rt_wf tm TW) Ea)|].
    split; [exact (priv3_add_expr E tm s a s1 R P3 Ea)|].
    split; [|exact (SubstPreFrag.FragS_add_expr vk E tm s a s1 R Fr TF Ea)].
    pose proof (term_pre_static tm s (conj (proj1 R) (conj M K)) TW (rt_ok_rt_pre (ectr s) tm TOk)) as TP.
    destruct (hc_ok_add_expr tm s a s1 (conj (proj1 R) (conj Pe (conj Hc M4))) TP Ea) as (_ & Pe1 & Hc1 & M1).
    split; [exact Pe1|split; assumption].
  Qed.

  Lemma GoodRX_union : forall E s hs hts i j a b ta tb u s1, GoodRX E s hs hts ->
    nth_opt hs i = Some a -> nth_opt hs j = Some b -> nth_opt hts i = Some ta -> nth_opt hts j = Some tb ->
    eg_union a b s = Ok (u, s1) -> GoodRX (E ++ [(ta, tb)]) s1 hs hts.
  Proof.
    intros E s hs hts i j a b ta tb u s1 (G & P3 & HX & Fr) Ha Hb Hta Htb Eu.
    split; [exact (GoodR_union E s hs hts i j a b ta tb u s1 G Ha Hb Hta Htb Eu)|].
    destruct G as (R & K & M & Cv & F).
    destruct (Forall2_nth_opt _ _ _ _ _ F Ha) as (ta' & E1 & Oa). rewrite Hta in E1. inversion E1; subst ta'.
    destruct (Forall2_nth_opt _ _ _ _ _ F Hb) as (tb' & E2 & Ob). rewrite Htb in E2. inversion E2; subst tb'.
    pose proof (proj1 (Forall_forall _ _) Cv) as Cv'.
    assert (Ca : covers s a) by (apply Cv'; eapply nth_opt_In; eauto). assert (Cb : covers s b) by (apply Cv'; eapply nth_opt_In; eauto).
    split; [exact (priv3_eg_union E s a b ta tb u s1 R Ca Cb Oa Ob Eu P3)|].
    split; [exact (HXs_eg_union a b s u s1 (proj1 R) Ca Cb HX Eu)|].
    exact (SubstPreFrag.FragS_eg_union vk E s a b ta tb u s1 R Ca Cb Oa Ob Eu Fr).
  Qed.

  Variable UA : rterm -> rterm -> Prop.
  Hypothesis UAV : forall t1 t2, UA t1 t2 -> forall env, eval_fp p env (canon0 t1) = eval_fp p env (canon0 t2).

  (* the side conditions of a run *)
  Fixpoint rops_preX (terms : list rterm) (ops : list rop) (hs : list appid) (hrs : list rterm) (s : egraph) : Prop :=
    match ops with
    | [] => True
    | o :: t =>
        match o with
        | RAdd _ => True
        | RUnion i j => match nth_opt hrs i, nth_opt hrs j with Some t1, Some t2 => UA t1 t2 | _, _ => True end
        | RRew rs => rules_below (ectr s) rs /\ Forall RPx rs /\ Forall rule_nbX rs /\
                     Forall (fun r => pat_all NPf (r_lhs r) /\ pat_all NPf (r_rhs r)) rs
        end /\
        match RewriteSoundRun.rstep terms o hs hrs s with
        | Ok (hs', hrs', s') => rops_preX terms t hs' hrs' s'
        | Err _ => True
        end
    end.

  Lemma valid_app1_fp : forall E l r, V E -> (forall env, eval_fp p env l = eval_fp p env r) -> V (E ++ [(l, r)]).
  Proof.
    intros E l r HV H l' r' Hin env. apply in_app_or in Hin. destruct Hin as [Hin|[Hin|[]]]; [exact (HV l' r' Hin env)|].
    inversion Hin; subst. apply H.
  Qed.

  Lemma GoodRX_run_rops : forall terms, Forall rt_ok terms -> Forall twf terms -> Forall (rt_frag vk) terms ->
    forall ops hs hrs s E hs' hrs' s', V E -> GoodRX E s hs (map canon0 hrs) -> rops_preX terms ops hs hrs s ->
    run_rops terms ops hs hrs s = Ok (hs', hrs', s') ->
    exists E', (forall e, In e E -> In e E') /\ V E' /\ GoodRX E' s' hs' (map canon0 hrs').
  Proof.
    intros terms TO TW TF. induction ops as [|o ops IH]; intros hs hrs s E hs' hrs' s' HV G PRE H; cbn [run_rops rops_preX] in *.
    - inversion H; subst. exists E. auto.
    - destruct PRE as [PO PRE]. destruct (RewriteSoundRun.rstep terms o hs hrs s) as [[[hs1 hrs1] s1]|] eqn:St; [|discriminate].
      assert (Q : exists E1, (forall e, In e E -> In e E1) /\ V E1 /\ GoodRX E1 s1 hs1 (map canon0 hrs1)).
      { destruct o as [k|i j|rs]; cbn [RewriteSoundRun.rstep] in St.
        - destruct (nth_opt terms k) as [tm|] eqn:Ek; [|discriminate].
          destruct (add_expr tm s) as [[a s2]|] eqn:Ea; [|discriminate]. inversion St; subst hs1 hrs1 s1.
          assert (In tm terms) as Hin by (eapply nth_opt_In; eauto).
          exists E. split; [auto|]. split; [exact HV|]. rewrite map_app. cbn [map].
          exact (GoodRX_add E s hs _ tm a s2 G (proj1 (Forall_forall _ _) TO tm Hin) (proj1 (Forall_forall _ _) TW tm Hin)
                   (proj1 (Forall_forall _ _) TF tm Hin) Ea).
        - destruct (nth_opt hs i) as [a|] eqn:Ha; [|discriminate]. destruct (nth_opt hs j) as [b|] eqn:Hb; [|discriminate].
          destruct (eg_union a b s) as [[u s2]|] eqn:Eu; [|discriminate]. inversion St; subst hs1 hrs1 s1.
          pose proof G as ((_ & _ & _ & _ & F) & _).
          destruct (Forall2_nth_opt _ _ _ _ _ F Ha) as (ta & Hta & _). destruct (Forall2_nth_opt _ _ _ _ _ F Hb) as (tb & Htb & _).
          rewrite nth_opt_map in Hta, Htb.
          destruct (nth_opt hrs i) as [t1|] eqn:H1; [|discriminate]. destruct (nth_opt hrs j) as [t2|] eqn:H2; [|discriminate].
          cbn [option_map] in Hta, Htb. inversion Hta; subst ta. inversion Htb; subst tb.
          exists (E ++ [(canon0 t1, canon0 t2)]). split; [intros e He; apply in_or_app; left; exact He|].
          split; [exact (valid_app1_fp E _ _ HV (UAV t1 t2 PO))|].
          apply (GoodRX_union E s hs _ i j a b (canon0 t1) (canon0 t2) u s2 G Ha Hb); [| |exact Eu];
            rewrite nth_opt_map; [rewrite H1|rewrite H2]; reflexivity.
        - destruct (apply_rewrites rs s) as [[b s2]|] eqn:Er; [|discriminate]. inversion St; subst hs1 hrs1 s1.
          destruct PO as (RB & FP & FN & FA).
          exact (fp_apply_rewrites_sound_subst rs E s hs _ b s2 HV G RB FP FN FA Er). }
      destruct Q as (E1 & I1 & V1 & G1).
      destruct (IH hs1 hrs1 s1 E1 hs' hrs' s' V1 G1 PRE H) as (E2 & I2 & V2 & G2).
      exists E2. split; [auto|]. split; assumption.
  Qed.

  (* THE END-TO-END STATEMENT for F_p with rule 11: handles reported equal evaluate equally *)
  Theorem fp_rewriting_history_sound_subst : forall terms ops hs hrs s,
    Forall rt_ok terms -> Forall twf terms -> Forall (rt_frag vk) terms ->
    rops_preX terms ops [] [] empty_egraph ->
    run_rops terms ops [] [] empty_egraph = Ok (hs, hrs, s) ->
    forall i j a b ti tj, nth_opt hs i = Some a -> nth_opt hs j = Some b ->
      nth_opt hrs i = Some ti -> nth_opt hrs j = Some tj -> eg_eq s a b = Ok true ->
      forall env, eval_fp p env (canon0 ti) = eval_fp p env (canon0 tj).
  Proof.
    intros terms ops hs hrs s TO TW TF PRE H i j a b ti tj Ha Hb Hti Htj Q env.
    destruct (GoodRX_run_rops terms TO TW TF ops [] [] empty_egraph [] hs hrs s (fun l r Hin => match Hin with end)
                (GoodRX_empty []) PRE H) as (E & _ & VE & (G & _)).
    apply (Deriv_sound N (interp_fp p) E VE 0).
    apply (GoodR_eq_sound E s hs (map canon0 hrs) i j a b _ _ G Ha Hb); [| |exact Q]; rewrite nth_opt_map; [rewrite Hti|rewrite Htj]; reflexivity.
  Qed.
End Fp11.

Check fp_P_stepJ.
Check fp_rewriting_history_sound_subst.
Print Assumptions fp_P_stepJ.
Print Assumptions fp_rewriting_history_sound_subst.
