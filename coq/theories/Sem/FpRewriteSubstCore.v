(* Sem/FpRewriteSubstCore.v — C03, b[x := t]: small facts used by Sem/FpRewriteSubst.v.
   1. the invariant HXs (pending = [], hc_ok, m4; with inv3 this is HashconsFacts.hcb) is kept by eg_add (node_pre),
      eg_union, steps that keep the graph; node_pre from the facts known at an insertion site (ins_pre);
   2. the F_p value of the let-instance: eval (let x tb tt) = eval [x := eval tt] tb. *)
From SE Require Import Slots.SlotMapFacts Group.GroupSound Lang.LangFacts Lang.ShapeFacts Lang.RenameFacts
  Base.TextFacts Parse.Parser
  EGraph.Model EGraph.ModelFacts EGraph.ModelMachine EGraph.UnionFindFacts EGraph.InvariantFacts
  EGraph.UnionInvariantFacts EGraph.AddCoversFacts EGraph.Mod4Facts EGraph.PendingFacts EGraph.HashconsShape EGraph.HashconsAbs
  EGraph.HashconsFacts EGraph.SoundFacts EGraph.SoundSyn EGraph.SoundAddExpr
  EGraph.Rewrite EGraph.RewriteFacts EGraph.MatchDefs EGraph.MatchFacts
  EGraph.RewriteSoundInst EGraph.RewriteSound EGraph.RewriteSoundSubst EGraph.LeafHit EGraph.SubstIface.
From SE Require Import Sem.Deriv Sem.DerivFacts Sem.Algebra Sem.AlgebraFacts Sem.Fp Sem.FpFacts Sem.FpRewrite Explain.CheckerFacts.
From Coq Require Import ZArith Lia List.
Import ListNotations.

Local Notation ectr := Model.ctr.

(* ------------------------------------------------------------------ *)
(* 1. HXs *)

Lemma HXs_empty : HXs empty_egraph.
Proof. destruct hcb_empty as (_ & P & H & M). split; [exact P|]. split; assumption. Qed.

Lemma same_graph_ctr_only : forall s s', same_graph s s' -> ctr_only s s'.
Proof.
  intros [u c h p k] [u' c' h' p' k'] (A & B & C & D). cbn in A, B, C, D. subst. exists k'. reflexivity.
Qed.

Lemma HXs_sg : forall s s', same_graph s s' -> ectr s' mod 4 = 1 -> HXs s -> HXs s'.
Proof.
  intros s s' G Cm (P & H & M). pose proof (same_graph_ctr_only s s' G) as CO.
  split; [destruct G as (_ & _ & _ & Gp); rewrite Gp; exact P|].
  split; [exact (hce_ctr_only noex s s' CO H)|].
  destruct CO as [c ->]. apply m4_set_ctr; [exact M|exact Cm].
Qed.

Lemma HXs_eg_add : forall n s a s', inv3 s -> ectr s mod 4 = 1 -> HXs s -> node_pre s n ->
  eg_add n s = Ok (a, s') -> HXs s'.
Proof.
  intros n s a s' I3 Cm (P & H & M) NP Ha.
  split; [exact (eg_add_drains n s a s' P Ha)|].
  split; [exact (hc_ok_eg_add n s a s' I3 P H Cm NP Ha)|exact (proj1 (h_eg_add n s a s' Ha M))].
Qed.

Lemma HXs_eg_union : forall l r s b s', inv3 s -> covers s l -> covers s r -> HXs s ->
  eg_union l r s = Ok (b, s') -> HXs s'.
Proof.
  intros l r s b s' I3 Cl Cr (P & H & M) Hu.
  split; [exact (eg_union_drains l r s b s' Hu)|].
  split; [exact (hc_ok_eg_union l r s b s' I3 Cl Cr Hu H)|exact (proj1 (h_eg_union l r s b s' Hu M))].
Qed.

(* the premise of hc_ok_eg_add from what is known at an insertion site *)
Lemma ins_pre_node_pre : forall s n l, ins_pre s n l -> node_pre s (set_apps n l).
Proof.
  intros s n l (U & Len & Fc & ND).
  assert (Ao : app_occ (set_apps n l) = l) by (apply app_occ_set_apps; exact Len).
  split; [rewrite Ao; revert Fc; apply Forall_impl; intros y Hy; exact (proj1 Hy)|].
  split; [|rewrite binders_set_apps'; exact ND].
  intros y Hy. apply pub_in_all in Hy. unfold all_occ, set_apps in Hy. cbn [nargs] in Hy.
  apply set_apps_args_all in Hy. destruct Hy as [Hy|(z & Hz & Hy)].
  - destruct (proj2 (U y Hy)) as [T|T]; [right; exact T|left; exact T].
  - destruct (proj1 (Forall_forall _ _) Fc z Hz) as (_ & _ & Hb). destruct (Hb y Hy) as [T|T]; [right; exact T|left; exact T].
Qed.

(* ------------------------------------------------------------------ *)
(* 2. the let-instance in F_p *)

Lemma let_instance_value : forall p, p <> 0 -> forall x y y2 tb tt env, wsem N (interp_fp p) tb -> is_B x = false ->
  eval_fp p env (node_t {| nvar := 10; nargs := [ABind x (AApp y); AApp y2] |} [tb; tt]) =
  eval_fp p (Algebra.upd N env x (eval_fp p env tt)) tb.
Proof.
  intros p Hp x y y2 tb tt env Wb Bx. rewrite node_let. unfold eval_fp. rewrite (eval_let p).
  rewrite (bind_top N (interp_fp p) tb x env _ Wb Bx).
  apply N.mod_small. apply (eval_fp_lt p _ tb Hp).
Qed.

Print Assumptions HXs_sg.
Print Assumptions HXs_eg_add.
Print Assumptions HXs_eg_union.
Print Assumptions ins_pre_node_pre.
Print Assumptions let_instance_value.
