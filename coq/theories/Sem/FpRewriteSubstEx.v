(* Sem/FpRewriteSubstEx.v — C03, b[x := t] on the model, EXPERIMENTS (vm_compute) with pool rule 11
   (let $1 ?b ?t) -> ?b[(var $1) := ?t]:
   1. `r11_runs`: histories in which the let-bound variable occurs 0, 1, 2 times, under a binder whose name is the free
      slot of t, with t mentioning a slot bound in the context of the let, shadowed by an inner binder, and with the
      class of `var $1` having several representatives (after x + 0 = x): after one iteration the let-term is equal to
      the correctly substituted term and to none of the wrong candidates (partially substituted / captured).
      No situation was found in which the model leaves an occurrence unreplaced.
   2. `r11_semantic`: for the substitutions the matcher returns, the class term of the invocation returned by
      pattern_subst on the right-hand side has, in F_7 under sample environments, the value of the class term of ?b
      under the environment that rebinds $1 to the value of ?t  (the statement RewriteSoundSubstSem.v is about).
   3. `redundant_slot_not_syntactic`: b = x * 0 after (mul ?a 0) -> 0: the class of b has lost the slot; the result is
      the substitution instance of the class's syntactic term (0), not of the matched term: the characterisation
      has to be semantic / up to Deriv, not "subst_t of the matched term". *)
From SE Require Import Slots.SlotMapFacts Parse.Parser EGraph.Model EGraph.ModelFacts EGraph.ModelMachine
  EGraph.InvariantFacts EGraph.SoundFacts EGraph.SoundAddExpr EGraph.Rewrite EGraph.RewriteSoundInst EGraph.RewriteSound EGraph.RewriteSoundRun.
From SE Require Import Sem.Term Sem.Deriv Sem.Algebra Explain.CheckerFacts Sem.Fp Sem.FpFacts Sem.FpRewrite Sem.FpRewriteRun.
Require Import ZArith List. Import ListNotations.
Open Scope N_scope.

Definition pr (k : nat) : option rule :=
  match nth_error FPPOOL_text k with
  | Some (l, rh, _) =>
      match parse_pattern_text false false false sigLV init_table (T l) with
      | POk (pl, st1) => match parse_pattern_text false false false sigLV st1 (T rh) with
                         | POk (pr, _) => Some {| r_lhs := pl; r_rhs := pr; r_cond := None |}
                         | _ => None
                         end
      | _ => None
      end
  | None => None
  end.
Definition dflt : rule := {| r_lhs := PVarP []; r_rhs := PVarP []; r_cond := None |}.
Definition R11 : rule := match pr 11 with Some r => r | None => dflt end.
Definition R5 : rule := match pr 5 with Some r => r | None => dflt end.
Definition R7 : rule := match pr 7 with Some r => r | None => dflt end.

Example R11_is : R11 = {| r_lhs := PNode {| nvar := 10; nargs := [ABind 4 (AApp null_appid); AApp null_appid] |} [PVarP [98]; PVarP [116]];
                          r_rhs := PSubst (PVarP [98]) (PNode {| nvar := 5; nargs := [ASlot 4] |} []) (PVarP [116]);
                          r_cond := None |}.
Proof. vm_compute. reflexivity. Qed.

(* is the first term equal to each of the others at the end? *)
Definition eqs (terms : list fterm) (ops : list rop) : option (list (res bool)) :=
  match run_rops (map rterm_of terms) ops [] [] empty_egraph with
  | Ok (a :: hs, _, s) => Some (map (fun b => eg_eq s a b) hs)
  | _ => None
  end.

Example r11_runs :
  (* 0 occurrences *)
  eqs [TLet 4 (TNum 7) (TVar 12); TNum 7] [RAdd 0; RAdd 1; RRew [R11]] = Some [Ok true] /\
  (* 1 occurrence: let x = $3 + 1 in x + 2 *)
  eqs [TLet 4 (TAdd (TVar 4) (TNum 2)) (TAdd (TVar 12) (TNum 1)); TAdd (TAdd (TVar 12) (TNum 1)) (TNum 2); TAdd (TVar 4) (TNum 2)]
      [RAdd 0; RAdd 1; RAdd 2; RRew [R11]] = Some [Ok true; Ok false] /\
  (* 2 occurrences: let x = $3 in x * x: equal to $3 * $3, not to x * $3, $3 * x, x * x *)
  eqs [TLet 4 (TMul (TVar 4) (TVar 4)) (TVar 12); TMul (TVar 12) (TVar 12); TMul (TVar 4) (TVar 12); TMul (TVar 12) (TVar 4); TMul (TVar 4) (TVar 4)]
      [RAdd 0; RAdd 1; RAdd 2; RAdd 3; RAdd 4; RRew [R11]] = Some [Ok true; Ok false; Ok false; Ok false] /\
  (* t mentions a slot bound in the context: sum y. let x = y in x + y *)
  eqs [TSum 8 (TLet 4 (TAdd (TVar 4) (TVar 8)) (TVar 8)); TSum 8 (TAdd (TVar 8) (TVar 8)); TSum 8 (TAdd (TVar 4) (TVar 8))]
      [RAdd 0; RAdd 1; RAdd 2; RRew [R11]] = Some [Ok true; Ok false] /\
  (* shadowing: let x = $3 in sum x. x + 1 *)
  eqs [TLet 4 (TSum 4 (TAdd (TVar 4) (TNum 1))) (TVar 12); TSum 4 (TAdd (TVar 4) (TNum 1)); TSum 4 (TAdd (TVar 12) (TNum 1))]
      [RAdd 0; RAdd 1; RAdd 2; RRew [R11]] = Some [Ok true; Ok false] /\
  (* the class of var x has several representatives (x + 0 = x), in an earlier and in the same iteration *)
  eqs [TLet 4 (TMul (TAdd (TVar 4) (TNum 0)) (TNum 2)) (TVar 12); TMul (TAdd (TVar 12) (TNum 0)) (TNum 2); TMul (TVar 12) (TNum 2); TMul (TVar 4) (TNum 2)]
      [RAdd 0; RAdd 1; RAdd 2; RAdd 3; RRew [R5]; RRew [R11]] = Some [Ok true; Ok true; Ok false] /\
  eqs [TLet 4 (TMul (TAdd (TVar 4) (TNum 0)) (TNum 2)) (TVar 12); TMul (TAdd (TVar 12) (TNum 0)) (TNum 2); TMul (TVar 12) (TNum 2); TMul (TVar 4) (TNum 2)]
      [RAdd 0; RAdd 1; RAdd 2; RAdd 3; RRew [R5; R11]] = Some [Ok true; Ok true; Ok false].
Proof. vm_compute. repeat split. Qed.

(* the semantic statement, evaluated: for every substitution of the matcher, sample environments, p = 7 *)
Definition envs : list fenv := [fun _ => 0; fun x => x mod 7; fun x => (3 * x + 2) mod 7; fun x => (x * x + 5) mod 7].
Definition sem_ok (p : N) (terms : list fterm) (ops : list rop) : option bool :=
  match run_rops (map rterm_of terms) ops [] [] empty_egraph with
  | Ok (_, _, s) =>
      match ematch_all (r_lhs R11) s with
      | Ok (l, s1) =>
          Some (negb (match l with [] => true | _ => false end) &&
                forallb (fun sb => match pattern_subst (r_rhs R11) sb s1, sub_get sb [98], sub_get sb [116] with
                                   | Ok (a, s2), Some b', Some t' =>
                                       forallb (fun env => eval_fp p env (den_of s2 a) =?
                                                           eval_fp p (Algebra.upd N env 4 (eval_fp p env (den_of s1 t'))) (den_of s1 b')) envs
                                   | _, _, _ => false
                                   end) l)
      | Err _ => None
      end
  | _ => None
  end.

Example r11_semantic :
  map (fun q => sem_ok 7 (fst q) (snd q))
    [ ([TLet 4 (TNum 7) (TVar 12)], [RAdd 0]);
      ([TLet 4 (TMul (TVar 4) (TVar 4)) (TAdd (TVar 12) (TNum 1))], [RAdd 0]);
      ([TSum 8 (TLet 4 (TAdd (TVar 4) (TVar 8)) (TVar 8))], [RAdd 0]);
      ([TLet 4 (TSum 12 (TAdd (TVar 4) (TVar 12))) (TVar 12)], [RAdd 0]);
      ([TLet 4 (TSum 4 (TAdd (TVar 4) (TNum 1))) (TVar 12)], [RAdd 0]);
      ([TLet 4 (TLet 8 (TMul (TVar 8) (TVar 4)) (TAdd (TVar 4) (TNum 3))) (TMul (TVar 12) (TVar 16))], [RAdd 0]);
      ([TLet 4 (TMul (TAdd (TVar 4) (TNum 0)) (TNum 2)) (TVar 12); TAdd (TVar 4) (TNum 0)], [RAdd 0; RAdd 1; RRew [R5]]);
      ([TLet 4 (TMul (TVar 4) (TNum 0)) (TVar 12)], [RAdd 0; RRew [R7]]) ]
  = [Some true; Some true; Some true; Some true; Some true; Some true; Some true; Some true].
Proof. vm_compute. reflexivity. Qed.

(* b = x * 0 after x * 0 = 0: the result is the instance of the class's syntactic term *)
Example redundant_slot_not_syntactic :
  match run_rops (map rterm_of [TLet 4 (TMul (TVar 4) (TNum 0)) (TVar 12)]) [RAdd 0; RRew [R7]] [] [] empty_egraph with
  | Ok (_, _, s) =>
      match ematch_all (r_lhs R11) s with
      | Ok ([sb], s1) => match pattern_subst (r_rhs R11) sb s1 with
                         | Ok (a, s2) => Some (den_of s2 a, option_map (den_of s1) (sub_get sb [98]))
                         | Err _ => None end
      | _ => None
      end
  | _ => None
  end = Some (CT 17 [CPay (PVu32 0)], Some (CT 17 [CPay (PVu32 0)])).
Proof. vm_compute. reflexivity. Qed.

Print Assumptions r11_runs.
Print Assumptions r11_semantic.
