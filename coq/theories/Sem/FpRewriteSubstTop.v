(* Sem/FpRewriteSubstTop.v — C03 with b[x := t], closed forms:
   - `fp_P_stepJ_closed`, `fp_rewriting_history_sound_subst_closed`: Sem/FpRewriteSubst.v with the hypothesis HitKeepAdd
     discharged (EGraph/LeafHitClosed.v); the remaining premise is SXS (the matcher scope fact, see MatchScope.v);
   - `pool_rules_fpX`: the 23 pool rules of FpRewriteRun.v + pool rule 11 satisfy the static premises of a rewrite step;
   - boolean forms of the side conditions of a run (`rops_preXb_sound`) and the theorem applied to a run with rule 11. *)
From SE Require Import Slots.SlotMapFacts Lang.LangFacts Lang.ShapeFacts Lang.RenameFacts Base.TextFacts Parse.Parser
  EGraph.Model EGraph.ModelFacts EGraph.ModelMachine EGraph.UnionFindFacts EGraph.InvariantFacts EGraph.AddCoversFacts
  EGraph.Mod4Facts EGraph.SoundFacts EGraph.SoundAddExpr
  EGraph.Rewrite EGraph.RewriteFacts EGraph.MatchDefs EGraph.MatchFacts EGraph.KidsFacts
  EGraph.RewriteSoundInst EGraph.RewriteSound EGraph.RewriteSoundRun EGraph.RewriteSoundSubst EGraph.RewriteSoundSubstTop
  EGraph.OpsPreFacts EGraph.SubstIface EGraph.RewriteSoundSubstJ EGraph.LeafHitClosed.
From SE Require EGraph.MatchScope.
From SE Require EGraph.RepFacts.
From SE Require Import Sem.Algebra Sem.AlgebraFacts Sem.Fp Sem.FpFacts Sem.FpRewrite Sem.FpRewriteRun Sem.FpRewriteSubst.
From SE Require Sem.FpRewriteSubstEx.
Require Import ZArith Lia List. Import ListNotations.

Local Notation ectr := Model.ctr.
Local Notation twf := RepFacts.twf.

(* ====================================================================== *)
(* 1. HitKeepAdd discharged                                                 *)
(* ====================================================================== *)

Theorem fp_P_stepJ_closed : forall p, p <> 0 -> forall c0 c1 E r sb s den y s2, RPx p r -> valid N (interp_fp p) E ->
  RSt E s -> JJ c0 c1 s -> sub_den E s sb den -> SVW c0 c1 r sb -> SXf r sb -> sub_bound r sb ->
  cond_holds (r_cond r) sb = Ok true -> pat_okX (ectr s) (r_rhs r) -> pattern_subst (r_rhs r) sb s = Ok (y, s2) ->
  valid N (interp_fp p) (E ++ [(pat_t den (r_lhs r), den_of s2 y)]).
Proof. intros p Hp. exact (fp_P_stepJ p Hp hit_keep_add). Qed.

Definition SXS_stmt (p : N) : Prop :=
  forall rs s ts s1, inv3 s -> kids_ok s -> m4 s -> rules_below (ectr s) rs -> Forall (RPx p) rs ->
    mapM (fun r => ematch_all (r_lhs r)) rs s = Ok (ts, s1) -> Forall2 (fun r l => Forall (SXf r) l) rs ts.

(* the matcher's scope fact (EGraph/MatchScope.v) *)
Theorem SXS_proved : forall p, SXS_stmt p.
Proof.
  intros p rs s ts s1 I3 K M _ _ H. pose proof (MatchScope.searchers_let_scope rs s ts s1 I3 K M H) as F.
  clear H. induction F as [|r l rs' ts' Hrl F IHF]; [constructor|]. constructor; [|exact IHF].
  revert Hrl. apply Forall_impl. intros sb HS x vb vt El Nvb Mx t' G.
  exact (HS (letn x) x vb vt Parser.null_appid Parser.null_appid El eq_refl Nvb Mx t' G).
Qed.

Theorem fp_rewriting_history_sound_subst_closed : forall p, p <> 0 ->
  forall (UA : rterm -> rterm -> Prop),
  (forall t1 t2, UA t1 t2 -> forall env, eval_fp p env (canon0 t1) = eval_fp p env (canon0 t2)) ->
  forall terms ops hs hrs s, Forall rt_ok terms -> Forall twf terms -> Forall (rt_frag vk) terms ->
  rops_preX p UA terms ops [] [] empty_egraph ->
  run_rops terms ops [] [] empty_egraph = Ok (hs, hrs, s) ->
  forall i j a b ti tj, nth_opt hs i = Some a -> nth_opt hs j = Some b ->
    nth_opt hrs i = Some ti -> nth_opt hrs j = Some tj -> eg_eq s a b = Ok true ->
    forall env, eval_fp p env (canon0 ti) = eval_fp p env (canon0 tj).
Proof. intros p Hp. exact (fp_rewriting_history_sound_subst p Hp hit_keep_add (SXS_proved p)). Qed.

(* ====================================================================== *)
(* 2. the pool: 23 rules without b[x := t] + rule 11                        *)
(* ====================================================================== *)

Fixpoint pat_fragb (q : pattern) : bool :=
  match q with
  | PVarP _ => true
  | PNode n ch => node_frag vk n &&
                  (fix go (l : list pattern) : bool := match l with [] => true | c :: t => pat_fragb c && go t end) ch
  | PSubst b x t => pat_fragb b && pat_fragb x && pat_fragb t
  end.

Lemma pat_fragb_sound : forall q, pat_fragb q = true -> pat_all NPf q.
Proof.
  induction q as [v|n ch IH|b x t IHb IHx IHt] using pattern_ind2; intros H.
  - exact I.
  - cbn [pat_fragb] in H. apply andb_true_iff in H. destruct H as [Hn Hc]. apply pat_all_node_iff. split; [exact Hn|].
    induction IH as [|c l Hcq _ IHl]; [constructor|]. apply andb_true_iff in Hc. destruct Hc as [H1 H2].
    constructor; [exact (Hcq H1)|exact (IHl H2)].
  - cbn [pat_fragb] in H. apply andb_true_iff in H. destruct H as [H H3]. apply andb_true_iff in H. destruct H as [H1 H2].
    apply pat_all_subst_iff. split; [exact (IHb H1)|]. split; [exact (IHx H2)|exact (IHt H3)].
Qed.

Definition pat_nbXb (q : pattern) : bool := Parse.ArityFacts.arity_okb q && forallb (fun x => negb (is_B x)) (MatchDefs.pslots q).
Definition rule_nbXb (r : rule) : bool := pat_nbb (r_lhs r) && pat_nbXb (r_rhs r).

Lemma rule_nbXb_sound : forall r, rule_nbXb r = true -> rule_nbX r.
Proof.
  intros r H. unfold rule_nbXb in H. apply andb_true_iff in H. destruct H as [H1 H2]. split; [exact (pat_nbb_sound _ H1)|].
  unfold pat_nbXb in H2. apply andb_true_iff in H2. destruct H2 as [A C]. split; [exact A|].
  intros x Hx. rewrite forallb_forall in C. apply negb_true_iff. exact (C x Hx).
Qed.

(* rules of the shape of rule 11, decided *)
Definition r11_likeb (r : rule) : bool :=
  match r_lhs r, r_rhs r, r_cond r with
  | PNode {| nvar := 10; nargs := [ABind x (AApp a1); AApp a2] |} [PVarP vb; PVarP vt],
    PSubst (PVarP vb') (PNode {| nvar := 5; nargs := [ASlot x'] |} []) (PVarP vt'), None =>
      appid_eqb a1 Parser.null_appid && appid_eqb a2 Parser.null_appid && text_eqb vb vb' && text_eqb vt vt' && (x =? x')%N &&
      negb (is_B x) && negb (x mod 4 =? 1)%N && negb (text_eqb vb vt)
  | _, _, _ => false
  end.

Lemma r11_likeb_sound : forall r, r11_likeb r = true -> r11_like r.
Proof.
  intros [l rh c] H. unfold r11_likeb in H. cbn [r_lhs r_rhs r_cond] in H.
  repeat match type of H with
         | context [match ?v with _ => _ end] => is_var v; destruct v; try discriminate H
         end.
  repeat match goal with
         | Hc : (_ && _) = true |- _ => apply andb_true_iff in Hc; destruct Hc
         end.
  repeat match goal with
         | Hc : appid_eqb _ _ = true |- _ => apply appid_eqb_iff in Hc
         | Hc : text_eqb _ _ = true |- _ => apply text_eqb_eq in Hc
         | Hc : (_ =? _)%N = true |- _ => apply N.eqb_eq in Hc
         | Hc : negb _ = true |- _ => apply negb_true_iff in Hc
         end.
  subst. unfold r11_like, letn, varn. cbn [r_lhs r_rhs r_cond]. eexists _, _, _.
  split; [reflexivity|]. split; [reflexivity|]. split; [reflexivity|]. split; [assumption|].
  split; [apply N.eqb_neq; assumption|]. intros Heq. subst.
  match goal with Hc : text_eqb ?a ?a = false |- _ => rewrite text_eqb_refl in Hc; discriminate Hc end.
Qed.

Definition rpx_checkb (r : rule) : bool := (fp_rule_checkb r && rule_nbb r) || r11_likeb r.

Lemma rpx_checkb_sound : forall p, p <> 0 -> forall r, rpx_checkb r = true -> RPx p r.
Proof.
  intros p Hp r H. unfold rpx_checkb in H. apply orb_true_iff in H. destruct H as [H|H].
  - apply andb_true_iff in H. destruct H as [H1 H2]. left. split; [exact (fp_rule_checkb_sound p Hp r H1)|exact (rule_nbb_sound r H2)].
  - right. exact (r11_likeb_sound r H).
Qed.

Definition pool_mrulesX : list rule := pool_mrules ++ [FpRewriteSubstEx.R11].

Example pool_mrulesX_checked : List.length pool_mrulesX = 24%nat /\ forallb rpx_checkb pool_mrulesX = true /\
  forallb rule_nbXb pool_mrulesX = true /\ forallb (fun r => pat_fragb (r_lhs r) && pat_fragb (r_rhs r)) pool_mrulesX = true.
Proof. vm_compute. auto. Qed.

(* the 24 rules satisfy the static premises of a rewrite step of the history theorem *)
Theorem pool_rules_fpX : forall p, p <> 0 ->
  Forall (RPx p) pool_mrulesX /\ Forall rule_nbX pool_mrulesX /\
  Forall (fun r => pat_all NPf (r_lhs r) /\ pat_all NPf (r_rhs r)) pool_mrulesX.
Proof.
  intros p Hp. destruct pool_mrulesX_checked as (_ & C1 & C2 & C3). rewrite forallb_forall in C1, C2, C3.
  split; [|split]; apply Forall_forall; intros r Hr.
  - exact (rpx_checkb_sound p Hp r (C1 r Hr)).
  - exact (rule_nbXb_sound r (C2 r Hr)).
  - specialize (C3 r Hr). apply andb_true_iff in C3. destruct C3 as [A B]. split; apply pat_fragb_sound; assumption.
Qed.

(* ====================================================================== *)
(* 3. the side conditions of a run, decided                                 *)
(* ====================================================================== *)

Fixpoint rops_preXb (uab : rterm -> rterm -> bool)
  (terms : list rterm) (ops : list rop) (hs : list appid) (hrs : list rterm) (s : egraph) : bool :=
  match ops with
  | [] => true
  | o :: t =>
      match o with
      | RAdd _ => true
      | RUnion i j => match nth_opt hrs i, nth_opt hrs j with Some t1, Some t2 => uab t1 t2 | _, _ => true end
      | RRew rs => rules_belowb (ectr s) rs && forallb rpx_checkb rs && forallb rule_nbXb rs &&
                   forallb (fun r => pat_fragb (r_lhs r) && pat_fragb (r_rhs r)) rs
      end &&
      match RewriteSoundRun.rstep terms o hs hrs s with
      | Ok (hs', hrs', s') => rops_preXb uab terms t hs' hrs' s'
      | Err _ => true
      end
  end.

Lemma rops_preXb_sound : forall p, p <> 0 -> forall (UA : rterm -> rterm -> Prop) uab,
  (forall t1 t2, uab t1 t2 = true -> UA t1 t2) ->
  forall terms ops hs hrs s, rops_preXb uab terms ops hs hrs s = true -> rops_preX p UA terms ops hs hrs s.
Proof.
  intros p Hp UA uab HU terms. induction ops as [|o ops IH]; intros hs hrs s H; cbn [rops_preXb rops_preX] in *; [exact I|].
  apply andb_true_iff in H. destruct H as [H1 H2]. split.
  - destruct o as [k|i j|rs]; [exact I|destruct (nth_opt hrs i), (nth_opt hrs j); try exact I; apply HU; exact H1|].
    repeat match type of H1 with (_ && _) = true => let H' := fresh "C" in apply andb_true_iff in H1; destruct H1 as [H1 H'] end.
    rewrite forallb_forall in C, C0, C1.
    split; [apply rules_belowb_sound; exact H1|].
    split; [apply Forall_forall; intros r Hr; exact (rpx_checkb_sound p Hp r (C1 r Hr))|].
    split; [apply Forall_forall; intros r Hr; exact (rule_nbXb_sound r (C0 r Hr))|].
    apply Forall_forall. intros r Hr. specialize (C r Hr). apply andb_true_iff in C. destruct C as [A B].
    split; apply pat_fragb_sound; assumption.
  - destruct (RewriteSoundRun.rstep terms o hs hrs s) as [[[hs' hrs'] s']|]; [apply IH; exact H2|exact I].
Qed.

Fixpoint rt_fragb (t : rterm) : bool :=
  match t with
  | RT n ch => node_frag vk n && (fix go (l : list rterm) : bool := match l with [] => true | c :: r => rt_fragb c && go r end) ch
  end.

Lemma rt_fragb_sound : forall t, rt_fragb t = true -> rt_frag vk t.
Proof.
  fix IH 1. intros [n ch] H. cbn [rt_fragb] in H. apply andb_true_iff in H. destruct H as [Hn Hc]. cbn [rt_frag].
  split; [exact Hn|]. induction ch as [|c r IHr]; [exact I|]. apply andb_true_iff in Hc. destruct Hc as [H1 H2].
  split; [apply IH; exact H1|apply IHr; exact H2].
Qed.

Check fp_P_stepJ_closed.
Check fp_rewriting_history_sound_subst_closed.
Check pool_rules_fpX.
Print Assumptions fp_P_stepJ_closed.
Print Assumptions fp_rewriting_history_sound_subst_closed.
Print Assumptions pool_rules_fpX.
Print Assumptions rops_preXb_sound.

(* ====================================================================== *)
(* 4. the theorem applied to runs with rule 11                              *)
(* ====================================================================== *)

Definition terms_okb (ts : list rterm) : bool := forallb term_static_userb ts && forallb rt_fragb ts.

Lemma terms_okb_sound : forall ts, terms_okb ts = true -> Forall rt_ok ts /\ Forall twf ts /\ Forall (rt_frag vk) ts.
Proof.
  intros ts H. unfold terms_okb in H. apply andb_true_iff in H. destruct H as [H1 H2]. rewrite forallb_forall in H1, H2.
  split; [|split]; apply Forall_forall; intros t Ht.
  - exact (proj2 (term_static_userb_sound t (H1 t Ht))).
  - exact (proj1 (term_static_userb_sound t (H1 t Ht))).
  - exact (rt_fragb_sound t (H2 t Ht)).
Qed.

(* let x = $3 in sum $3. (x + $3)  is  sum y. ($3 + y)  (FpRewriteRun.psubst_run_no_capture), now BY THE THEOREM:
   the two terms have the same value in every F_p under every environment *)
Definition gx_ops : list rop := [RAdd 0; RAdd 1; RAdd 2; RRew [FpRewriteSubstEx.R11]].

Example gx_pre : terms_okb gx_terms = true /\ rops_preXb (fun _ _ => false) gx_terms gx_ops [] [] empty_egraph = true.
Proof. vm_compute. auto. Qed.

Example gx_same_meaning : forall p, p <> 0 -> forall env,
  eval_fp p env (canon0 (rterm_of (TLet 4 (TSum 12 (TAdd (TVar 4) (TVar 12))) (TVar 12)))) =
  eval_fp p env (canon0 (rterm_of (TSum 8 (TAdd (TVar 12) (TVar 8))))).
Proof.
  intros p Hp env.
  destruct (run_rops gx_terms gx_ops [] [] empty_egraph) as [[[hs hrs] s]|] eqn:Run; [|vm_compute in Run; discriminate].
  destruct (terms_okb_sound gx_terms (proj1 gx_pre)) as (TO & TW & TF).
  refine (fp_rewriting_history_sound_subst_closed p Hp (fun _ _ => False) (fun t1 t2 F => match F with end) gx_terms gx_ops hs hrs s
            TO TW TF _ Run 0%nat 1%nat _ _ _ _ _ _ _ _ _ env).
  - apply (rops_preXb_sound p Hp (fun _ _ => False) (fun _ _ => false) (fun t1 t2 F => False_ind _ (Bool.diff_false_true F))).
    exact (proj2 gx_pre).
  - vm_compute in Run. inversion Run. reflexivity.
  - vm_compute in Run. inversion Run. reflexivity.
  - vm_compute in Run. inversion Run. reflexivity.
  - vm_compute in Run. inversion Run. reflexivity.
  - vm_compute in Run. inversion Run; subst hs hrs s. vm_compute. reflexivity.
Qed.

(* let x = 2 in sum y. (x + y)  is  sum y. (y + 2): substitution (rule 11), then commutativity, with all 24 rules *)
Definition hx_terms : list rterm :=
  [rterm_of (TLet 4 (TSum 8 (TAdd (TVar 4) (TVar 8))) (TNum 2)); rterm_of (TSum 8 (TAdd (TVar 8) (TNum 2)))].
Definition hx_ops : list rop := [RAdd 0; RAdd 1; RRew pool_mrulesX; RRew pool_mrulesX].

Example hx_run_equal : match run_rops hx_terms hx_ops [] [] empty_egraph with
                       | Ok ([a; b], _, s) => Some (eg_eq s a b) | _ => None end = Some (Ok true).
Proof. vm_compute. reflexivity. Qed.

Example hx_pre : terms_okb hx_terms = true /\ rops_preXb (fun _ _ => false) hx_terms hx_ops [] [] empty_egraph = true.
Proof. vm_compute. auto. Qed.

Example hx_same_meaning : forall p, p <> 0 -> forall env,
  eval_fp p env (canon0 (rterm_of (TLet 4 (TSum 8 (TAdd (TVar 4) (TVar 8))) (TNum 2)))) =
  eval_fp p env (canon0 (rterm_of (TSum 8 (TAdd (TVar 8) (TNum 2))))).
Proof.
  intros p Hp env.
  destruct (run_rops hx_terms hx_ops [] [] empty_egraph) as [[[hs hrs] s]|] eqn:Run; [|vm_compute in Run; discriminate].
  destruct (terms_okb_sound hx_terms (proj1 hx_pre)) as (TO & TW & TF).
  refine (fp_rewriting_history_sound_subst_closed p Hp (fun _ _ => False) (fun t1 t2 F => match F with end) hx_terms hx_ops hs hrs s
            TO TW TF _ Run 0%nat 1%nat _ _ _ _ _ _ _ _ _ env).
  - apply (rops_preXb_sound p Hp (fun _ _ => False) (fun _ _ => false) (fun t1 t2 F => False_ind _ (Bool.diff_false_true F))).
    exact (proj2 hx_pre).
  - vm_compute in Run. inversion Run. reflexivity.
  - vm_compute in Run. inversion Run. reflexivity.
  - vm_compute in Run. inversion Run. reflexivity.
  - vm_compute in Run. inversion Run. reflexivity.
  - vm_compute in Run. inversion Run; subst hs hrs s. vm_compute. reflexivity.
Qed.

Print Assumptions SXS_proved.
Print Assumptions gx_same_meaning.
Print Assumptions hx_same_meaning.

(* ====================================================================== *)
(* 5. RewriteSoundSubstSem.syn_expr_subst_sem, CLOSED (any algebra): no hypothesis hit_keep_add, no premise PRE    *)
(* ====================================================================== *)

From SE Require EGraph.SubstPre.
From SE Require Import EGraph.UnionInvariantFacts EGraph.LeafHit EGraph.ExtractSound Sem.Deriv.

Theorem syn_expr_subst_sem_closed : forall (D : Type) (interp : nat -> list (sval D) -> D) E, valid D interp E ->
  forall c0 c1 x b' x' t' tb tt, is_B x = false -> x mod 4 <> 1 ->
  (forall env, eval D interp 0 (Algebra.upd D env x (eval D interp 0 env tt)) (node_t (varn x) []) = eval D interp 0 env tt) ->
  forall s a s', RSt E s -> JJ c0 c1 s ->
  hdl E s b' tb -> hdl E s x' (node_t (varn x) []) -> hdl E s t' tt -> Hit (varn x) x' s -> ~ In x (values_vec (am t')) ->
  (forall v, In v (values_vec (am b')) -> v mod 4 <> 1 \/ (c0 <= v /\ v < c1)) ->
  (forall v, In v (values_vec (am t')) -> v mod 4 <> 1 \/ (c0 <= v /\ v < c1)) ->
  syn_expr_subst b' x' t' s = Ok (a, s') ->
  RSt E s' /\ JJ c0 c1 s' /\ ext0 s s' /\
  exists r, hdl E s' a r /\ forall env, eval D interp 0 env r = eval D interp 0 (Algebra.upd D env x (eval D interp 0 env tt)) tb.
Proof.
  intros D interp E HV c0 c1 x b' x' t' tb tt Bx Mx XL s a s' R HJ Hb Hx Ht HH Nx Wb Wt H.
  refine (syn_expr_subst_semJ (JJ c0 c1) NPf NPf_nodup (JJ_pnb c0 c1) (JJ_add c0 c1) (JJ_sg c0 c1) (JJ_union c0 c1) (JJ_rt c0 c1)
            D interp E HV x (varn x) b' x' t' tb tt (fun s0 HJ0 => proj1 (proj1 HJ0)) Bx eq_refl XL _ s a s' R HJ Hb Hx Ht HH Nx _ H).
  - intros n l z b0 z' Rz (_ & HXz & _) _ IP Hz Ha. exact (hit_keep_add E (varn x) x' n l z b0 z' Rz HXz eq_refl IP Hz Ha).
  - intros sb' sz T H1 HT. destruct HJ as (JWs & _ & Fr).
    destruct (SubstPre.subst_pre D interp E c0 c1 vk x b' t' tt s HV R JWs Fr Bx Mx (hdl_cvh _ _ _ _ Hb) Ht Wb Wt sb' sz T H1 HT)
      as (A1 & A2 & A3 & _).
    split; [exact A1|]. split; [exact A2|exact A3].
Qed.

Check syn_expr_subst_sem_closed.
Print Assumptions syn_expr_subst_sem_closed.
