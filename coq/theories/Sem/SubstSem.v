(* Sem/SubstSem.v — C03, b[x := t]: the value of the term obtained by the replacement DSr (EGraph/SubstDefs.v) is the
   value of the term of the original under the environment in which x is rebound to the value of tt.

   0. `sarg`/`sargs`: the value of (a field of) node_t n ch, written directly over the farg, with the children evaluated at
      depth 0; `node_t_sem`: ev d' e (cren (lift d' rho) (node_t n ch)) = interp (nvar n) (sargs (nargs n) env0 ch)
      whenever ren_ok d' rho e env0 and the children are wsem.
   1. node_t_wsem.   2. node_t_cong_sem.   3. node_t_indep.   4. DSr_sem. *)
From SE Require Import Parse.Parser EGraph.Model EGraph.SoundFacts EGraph.SoundAddExpr EGraph.RewriteSoundInst
  EGraph.SubstDefs Lang.RenameFacts Extract.ExtractorFacts
  Sem.Term Sem.Deriv Sem.DerivFacts Sem.Algebra Sem.AlgebraFacts Sem.FpFacts Sem.FpRewrite Explain.CheckerFacts.
From Coq Require Import List ZArith Lia ZifyBool ZifyN ZifyNat FunctionalExtensionality.
Import ListNotations.

Local Notation aupd := Sem.Algebra.upd.

Lemma rterm_ind2 : forall P : rterm -> Prop, (forall n ch, Forall P ch -> P (RT n ch)) -> forall T, P T.
Proof.
  intros P H. fix IH 1. intros [n ch]. apply H. induction ch as [|c l IHl]; constructor; [apply IH|exact IHl].
Qed.

(* the children left after the field a has consumed its own *)
Fixpoint rest (a : farg) (ch : list cterm) : list cterm :=
  match a with
  | AApp _ => tl ch
  | ABind _ b => rest b ch
  | _ => ch
  end.

Lemma carg_of_snd : forall a d envl ch, snd (carg_of d envl a ch) = rest a ch.
Proof.
  induction a as [y|y|p b IH|q]; intros d envl ch; cbn [carg_of rest]; try reflexivity.
  - destruct ch; reflexivity.
  - specialize (IH (S d) ((p, B d) :: envl) ch). destruct (carg_of (S d) ((p, B d) :: envl) b ch) as [b' ch'].
    exact IH.
Qed.

Lemma rest_incl : forall a ch c, In c (rest a ch) -> In c ch.
Proof.
  induction a as [y|y|p b IH|q]; intros ch c H; cbn [rest] in H; try exact H.
  - destruct ch; [exact H|right; exact H].
  - apply IH. exact H.
Qed.

Lemma rest_Forall2 : forall (R : cterm -> cterm -> Prop) a l l', Forall2 R l l' -> Forall2 R (rest a l) (rest a l').
Proof.
  intros R. induction a as [y|y|p b IH|q]; intros l l' F; cbn [rest]; try exact F.
  - destruct F; [constructor|assumption].
  - apply IH. exact F.
Qed.

Section SubstSem.
  Variable D : Type.
  Variable interp : nat -> list (sval D) -> D.
  Notation ev := (eval D interp).
  Notation eva := (eval_arg D interp).
  Notation wsem := (FpRewrite.wsem D interp).
  Notation ren_ok := (FpRewrite.ren_ok D).

  (* ====================================================================== *)
  (* 0. the value of node_t                                                   *)
  (* ====================================================================== *)

  Fixpoint sarg (a : farg) (env0 : N -> D) (ch : list cterm) : sval D :=
    match a with
    | ASlot y => VSlot D (env0 y)
    | AApp _ => VChild D (ev 0 env0 (hd (CT 0 []) ch))
    | ABind p b => VBind D (fun z => sarg b (aupd D env0 p z) ch)
    | APay q => VPay D q
    end.

  Fixpoint sargs (l : list farg) (env0 : N -> D) (ch : list cterm) : list (sval D) :=
    match l with
    | [] => []
    | a :: l' => sarg a env0 ch :: sargs l' env0 (rest a ch)
    end.

  Lemma ren_ok_ext : forall d rho rho' e e', (forall y, is_B y = false -> rho y = rho' y) ->
    ren_ok d rho e e' -> ren_ok d rho' e e'.
  Proof.
    intros d rho rho' e e' H [Inj R]. split.
    - intros u w Bu Bw Eq. apply Inj; [exact Bu|exact Bw|]. rewrite (H u Bu), (H w Bw). exact Eq.
    - intros u Bu. rewrite <- (H u Bu). exact (R u Bu).
  Qed.

  (* the two renamings (of carg_of, then the instantiating one) are one *)
  Lemma lift_lift_env : forall d d' rho envl y,
    lift d' rho (lift d (env_get envl) y) = lift (d + d') (fun u => lift d' rho (env_get envl u)) y.
  Proof.
    intros d d' rho envl y. unfold lift at 2 3. destruct (is_B y) eqn:By; [|reflexivity].
    unfold lift. assert (Hs : is_B (shift_B d y) = true) by (unfold is_B, shift_B in *; lia).
    rewrite Hs. unfold shift_B. lia.
  Qed.

  Lemma carg_of_sem : forall a d envl ch d' rho e env0,
    env_wf d envl -> (forall y, In y (all_occ_f a) -> is_B y = false) -> (forall c, In c ch -> wsem c) ->
    ren_ok (d + d') (fun u => lift d' rho (env_get envl u)) e env0 ->
    eva (d + d') e (cren_arg (lift d' rho) (fst (carg_of d envl a ch))) = sarg a env0 ch.
  Proof.
    induction a as [y|y|p b IH|q]; intros d envl ch d' rho e env0 EW NB Wc R.
    - cbn [carg_of fst cren_arg eval_arg sarg]. f_equal.
      assert (By : is_B y = false) by (apply NB; left; reflexivity).
      exact (proj2 (proj2 R y By)).
    - cbn [carg_of sarg]. destruct ch as [|c ch']; cbn [fst hd].
      + reflexivity.
      + change (VChild D (ev (d + d') e (cren (lift d' rho) (cren (lift d (env_get envl)) c))) = VChild D (ev 0 env0 c)).
        f_equal.
        rewrite cren_cren.
        rewrite (cren_ext c _ (lift (d + d') (fun u => lift d' rho (env_get envl u))))
          by (intros u _; apply lift_lift_env).
        apply (Wc c (or_introl eq_refl)). exact R.
    - cbn [carg_of sarg].
      assert (Bp : is_B p = false) by (apply NB; left; reflexivity).
      pose proof (fun z => IH (S d) ((p, B d) :: envl) ch d' rho (aupd D e (B (d + d')) z) (aupd D env0 p z)
                             (ew_cons _ _ _ EW)) as IH'.
      destruct (carg_of (S d) ((p, B d) :: envl) b ch) as [b' ch'']. cbn [fst] in *. cbn [cren_arg eval_arg].
      f_equal. apply functional_extensionality. intros z.
      change (S (d + d')%nat) with (S d + d')%nat. apply IH'.
      + intros u Hu. apply NB. right. exact Hu.
      + exact Wc.
      + apply (ren_ok_ext (S (d + d')) (fun u => if u =? p then B (d + d') else lift d' rho (env_get envl u))).
        * intros u _. cbn [env_get]. destruct (u =? p); [|reflexivity]. rewrite lift_B. f_equal. lia.
        * apply (ren_ok_bind D interp (d + d')%nat (fun u => lift d' rho (env_get envl u)) e env0 p z Bp R).
    - reflexivity.
  Qed.

  Lemma cargs_of_sem : forall l d envl ch d' rho e env0,
    env_wf d envl -> (forall y, In y (flat_map all_occ_f l) -> is_B y = false) -> (forall c, In c ch -> wsem c) ->
    ren_ok (d + d') (fun u => lift d' rho (env_get envl u)) e env0 ->
    map (eva (d + d') e) (map (cren_arg (lift d' rho)) (cargs_of d envl l ch)) = sargs l env0 ch.
  Proof.
    induction l as [|a l IH]; intros d envl ch d' rho e env0 EW NB Wc R; cbn [cargs_of sargs]; [reflexivity|].
    pose proof (carg_of_sem a d envl ch d' rho e env0 EW) as Ha. pose proof (carg_of_snd a d envl ch) as Hs.
    destruct (carg_of d envl a ch) as [a' ch']. cbn [fst snd] in *. subst ch'. cbn [map]. f_equal.
    - apply Ha; [|exact Wc|exact R]. intros y Hy. apply NB. cbn [flat_map]. apply in_or_app. left. exact Hy.
    - apply IH; [exact EW| | |exact R].
      + intros y Hy. apply NB. cbn [flat_map]. apply in_or_app. right. exact Hy.
      + intros c Hc. apply Wc. exact (rest_incl a ch c Hc).
  Qed.

  Theorem node_t_sem : forall n ch d' rho e env0,
    (forall y, In y (all_occ n) -> is_B y = false) -> Forall wsem ch -> ren_ok d' rho e env0 ->
    ev d' e (cren (lift d' rho) (node_t n ch)) = interp (nvar n) (sargs (nargs n) env0 ch).
  Proof.
    intros n ch d' rho e env0 NB Wc R. unfold node_t. rewrite cren_CT, eval_CT. f_equal.
    rewrite Forall_forall in Wc.
    apply (cargs_of_sem (nargs n) 0 [] ch d' rho e env0 ew_nil NB Wc).
    apply (ren_ok_ext d' rho); [|exact R]. intros y By. cbn [env_get]. symmetry. apply lift_user. exact By.
  Qed.

  Lemma node_t_eval0 : forall n ch env,
    (forall y, In y (all_occ n) -> is_B y = false) -> Forall wsem ch ->
    ev 0 env (node_t n ch) = interp (nvar n) (sargs (nargs n) env ch).
  Proof.
    intros n ch env NB Wc. rewrite <- (lift0_id (node_t n ch)).
    apply node_t_sem; [exact NB|exact Wc|apply ren_ok_id].
  Qed.

  (* ====================================================================== *)
  (* 1. node_t of wsem children is wsem                                       *)
  (* ====================================================================== *)
  Theorem node_t_wsem : forall n tcs,
    (forall y, In y (all_occ n) -> is_B y = false) -> Forall wsem tcs -> wsem (node_t n tcs).
  Proof.
    intros n tcs NB Wc d rho env env' R.
    rewrite (node_t_sem n tcs d rho env env' NB Wc R). symmetry. apply node_t_eval0; assumption.
  Qed.

  (* ====================================================================== *)
  (* 2./3. congruence of node_t under a transformation of the environment     *)
  (* ====================================================================== *)
  Section Cong.
    Variable x : slot.
    Variable Psi : (N -> D) -> N -> D.
    Hypothesis Psi_other : forall env y, y <> x -> Psi env y = env y.

    Definition bcomm (p : slot) : Prop := forall env z, Psi (aupd D env p z) = aupd D (Psi env) p z.
    Definition crel (tl tj : cterm) : Prop := forall env, ev 0 env tl = ev 0 (Psi env) tj.

    Lemma sarg_cong : forall a tls tjs env,
      ~ In x (all_occ_f a) -> (forall p, In p (binders_f a) -> bcomm p) -> Forall2 crel tls tjs ->
      sarg a env tls = sarg a (Psi env) tjs.
    Proof.
      induction a as [y|y|p b IH|q]; intros tls tjs env Nx Bc F; cbn [sarg].
      - f_equal. symmetry. apply Psi_other. intros ->. apply Nx. left. reflexivity.
      - f_equal. destruct F as [|tl tj tls tjs H F]; cbn [hd]; [rewrite !eval_CT; reflexivity|apply H].
      - f_equal. apply functional_extensionality. intros z.
        rewrite <- (Bc p (or_introl eq_refl) env z). apply IH; [| |exact F].
        + intros H. apply Nx. right. exact H.
        + intros p' Hp'. apply Bc. right. exact Hp'.
      - reflexivity.
    Qed.

    Lemma sargs_cong : forall l tls tjs env,
      ~ In x (flat_map all_occ_f l) -> (forall p, In p (flat_map binders_f l) -> bcomm p) -> Forall2 crel tls tjs ->
      sargs l env tls = sargs l (Psi env) tjs.
    Proof.
      induction l as [|a l IH]; intros tls tjs env Nx Bc F; cbn [sargs]; [reflexivity|]. cbn [flat_map] in Nx, Bc. f_equal.
      - apply sarg_cong; [|intros p Hp; apply Bc|exact F]; [intros H; apply Nx|]; apply in_or_app; left; assumption.
      - apply IH; [|intros p Hp; apply Bc|apply rest_Forall2; exact F]; [intros H; apply Nx|]; apply in_or_app; right;
          assumption.
    Qed.

    Lemma node_t_cong_gen : forall n tls tjs,
      (forall y, In y (all_occ n) -> is_B y = false) -> ~ In x (all_occ n) ->
      (forall p, In p (binders n) -> bcomm p) ->
      Forall2 (fun tl tj => wsem tl /\ wsem tj /\ crel tl tj) tls tjs ->
      forall env, ev 0 env (node_t n tls) = ev 0 (Psi env) (node_t n tjs).
    Proof.
      intros n tls tjs NB Nx Bc F env.
      assert (W1 : Forall wsem tls).
      { clear - F. induction F as [|tl tj tls tjs H F IH]; constructor; [exact (proj1 H)|exact IH]. }
      assert (W2 : Forall wsem tjs).
      { clear - F. induction F as [|tl tj tls tjs H F IH]; constructor; [exact (proj1 (proj2 H))|exact IH]. }
      assert (F' : Forall2 crel tls tjs).
      { clear - F. induction F as [|tl tj tls tjs H F IH]; constructor; [exact (proj2 (proj2 H))|exact IH]. }
      rewrite (node_t_eval0 n tls env NB W1), (node_t_eval0 n tjs (Psi env) NB W2). f_equal.
      apply sargs_cong; assumption.
    Qed.
  End Cong.

  (* ====================================================================== *)
  (* the substitution setting                                                 *)
  (* ====================================================================== *)
  Variable E : equations.
  Hypothesis HV : valid D interp E.
  Variables (x : slot) (xn : node) (tx tt : cterm).

  Definition Phi (env : N -> D) : N -> D := aupd D env x (ev 0 env tt).

  Hypothesis Bx : is_B x = false.
  Hypothesis xn_leaf : app_occ xn = [].
  Hypothesis tx_def : tx = node_t xn [].
  Hypothesis x_lookup : forall env, ev 0 (Phi env) tx = ev 0 env tt.
  Hypothesis tt_wsem : wsem tt.
  Hypothesis tt_indep_x : forall env z, ev 0 (aupd D env x z) tt = ev 0 env tt.

  Definition tt_indep (p : slot) : Prop := forall env z, ev 0 (aupd D env p z) tt = ev 0 env tt.

  Lemma Phi_other : forall env y, y <> x -> Phi env y = env y.
  Proof.
    intros env y H. unfold Phi, Algebra.upd. apply N.eqb_neq in H. rewrite H. reflexivity.
  Qed.

  Lemma Phi_bcomm : forall p, p <> x -> tt_indep p -> bcomm Phi p.
  Proof.
    intros p Np Ip env z. apply functional_extensionality. intros y. unfold Phi. rewrite (Ip env z).
    unfold Algebra.upd. destruct (y =? x) eqn:Ex; destruct (y =? p) eqn:Ep; try reflexivity.
    exfalso. apply N.eqb_eq in Ex, Ep. congruence.
  Qed.

  Lemma updx_other : forall z env y, y <> x -> aupd D env x z y = env y.
  Proof.
    intros z env y H. unfold Algebra.upd. apply N.eqb_neq in H. rewrite H. reflexivity.
  Qed.

  Lemma updx_bcomm : forall z p, p <> x -> bcomm (fun env => aupd D env x z) p.
  Proof.
    intros z p Np env z'. apply functional_extensionality. intros y.
    unfold Algebra.upd. destruct (y =? x) eqn:Ex; destruct (y =? p) eqn:Ep; try reflexivity.
    exfalso. apply N.eqb_eq in Ex, Ep. congruence.
  Qed.

  (* 2. *)
  Theorem node_t_cong_sem : forall n tls tjs,
    (forall y, In y (all_occ n) -> is_B y = false) -> ~ In x (all_occ n) ->
    (forall p, In p (binders n) -> p <> x /\ forall env z, ev 0 (aupd D env p z) tt = ev 0 env tt) ->
    Forall2 (fun tl tj => wsem tl /\ wsem tj /\ forall env, ev 0 env tl = ev 0 (Phi env) tj) tls tjs ->
    forall env, ev 0 env (node_t n tls) = ev 0 (Phi env) (node_t n tjs).
  Proof.
    intros n tls tjs NB Nx Bn F env.
    apply (node_t_cong_gen x Phi Phi_other n tls tjs NB Nx); [|exact F].
    intros p Hp. destruct (Bn p Hp) as [Np Ip]. apply Phi_bcomm; assumption.
  Qed.

  (* 3. *)
  Theorem node_t_indep : forall n tcs,
    (forall y, In y (all_occ n) -> is_B y = false) -> ~ In x (all_occ n) ->
    (forall p, In p (binders n) -> p <> x) ->
    Forall (fun c => wsem c /\ forall env z, ev 0 (aupd D env x z) c = ev 0 env c) tcs ->
    forall env z, ev 0 (aupd D env x z) (node_t n tcs) = ev 0 env (node_t n tcs).
  Proof.
    intros n tcs NB Nx Bn F env z. symmetry.
    apply (node_t_cong_gen x (fun env => aupd D env x z) (updx_other z) n tcs tcs NB Nx).
    - intros p Hp. apply updx_bcomm. exact (Bn p Hp).
    - clear - F. induction F as [|c l H F IH]; constructor; [|exact IH].
      destruct H as [W I]. split; [exact W|]. split; [exact W|]. intros env'. symmetry. apply I.
  Qed.

  (* ====================================================================== *)
  (* 4. the replacement                                                       *)
  (* ====================================================================== *)
  Fixpoint Tok (T : rterm) : Prop :=
    match T with
    | RT n ch =>
        (forall y, In y (all_occ n) -> is_B y = false) /\
        (n = xn -> ch = []) /\
        (n <> xn -> ~ In x (all_occ n)) /\
        (forall p, In p (binders n) -> p <> x /\ forall env z, ev 0 (aupd D env p z) tt = ev 0 env tt) /\
        List.length ch = List.length (app_occ n) /\
        (fix go (l : list rterm) : Prop := match l with [] => True | c :: r => Tok c /\ go r end) ch
    end.

  Lemma Tok_iff : forall n ch, Tok (RT n ch) <->
    (forall y, In y (all_occ n) -> is_B y = false) /\
    (n = xn -> ch = []) /\
    (n <> xn -> ~ In x (all_occ n)) /\
    (forall p, In p (binders n) -> p <> x /\ forall env z, ev 0 (aupd D env p z) tt = ev 0 env tt) /\
    List.length ch = List.length (app_occ n) /\
    Forall Tok ch.
  Proof.
    intros n ch. cbn [Tok]. split; intros (A1 & A2 & A3 & A4 & A5 & C); (repeat (split; [assumption|])); clear - C.
    - induction ch as [|c r IH]; constructor; [apply C|apply IH; apply C].
    - induction C as [|c r Hc C IH]; [exact I|split; assumption].
  Qed.

  Definition sem_ok (T : rterm) (r : cterm) : Prop :=
    wsem r /\ wsem (rt_t T) /\ (forall env z, ev 0 (aupd D env x z) r = ev 0 env r) /\
    forall env, ev 0 env r = ev 0 (Phi env) (rt_t T).

  Theorem DSr_sem : forall T r, Tok T -> DSr E xn tx tt T r ->
    wsem r /\ wsem (rt_t T) /\ (forall env z, ev 0 (aupd D env x z) r = ev 0 env r) /\
    forall env, ev 0 env r = ev 0 (Phi env) (rt_t T).
  Proof.
    intros T. induction T as [n ch IH] using rterm_ind2. intros r HT HD.
    apply Tok_iff in HT. destruct HT as (NB & Leaf & Nx & Bn & _ & TC).
    apply DSr_iff in HD. destruct HD as (rs & F & C).
    assert (G : Forall2 (fun c r0 => sem_ok c r0) ch rs).
    { clear - IH TC F. revert TC IH. induction F as [|c r0 l rs' Hc F IHF]; intros TC IH; constructor.
      - inversion TC; subst. inversion IH; subst. apply H3; assumption.
      - inversion TC; subst. inversion IH; subst. apply IHF; assumption. }
    clear IH F TC.
    assert (Wrs : Forall wsem rs).
    { clear - G. induction G as [|c r0 l rs' H G IH]; constructor; [exact (proj1 H)|exact IH]. }
    assert (Wch : Forall wsem (map rt_t ch)).
    { clear - G. induction G as [|c r0 l rs' H G IH]; cbn [map]; constructor; [exact (proj1 (proj2 H))|exact IH]. }
    assert (Irs : Forall (fun c => wsem c /\ forall env z, ev 0 (aupd D env x z) c = ev 0 env c) rs).
    { clear - G. induction G as [|c r0 l rs' H G IH]; constructor; [|exact IH].
      destruct H as (H1 & _ & H3 & _). split; assumption. }
    assert (Crs : Forall2 (fun tl tj => wsem tl /\ wsem tj /\ forall env, ev 0 env tl = ev 0 (Phi env) tj)
                    rs (map rt_t ch)).
    { clear - G. induction G as [|c r0 l rs' H G IH]; cbn [map]; constructor; [|exact IH].
      destruct H as (H1 & H2 & _ & H4). repeat split; assumption. }
    assert (WT : wsem (rt_t (RT n ch))) by (rewrite rt_t_eq; apply node_t_wsem; assumption).
    assert (Bn' : forall p, In p (binders n) -> p <> x) by (intros p Hp; exact (proj1 (Bn p Hp))).
    destruct C as [[Nn ->]|[-> Dv]].
    - (* kept *)
      specialize (Nx Nn). split; [apply node_t_wsem; assumption|]. split; [exact WT|]. split.
      + apply node_t_indep; assumption.
      + rewrite rt_t_eq. apply node_t_cong_sem; assumption.
    - (* replaced *)
      split; [exact tt_wsem|]. split; [exact WT|]. split; [exact tt_indep_x|]. intros env.
      destruct (node_eq_dec n xn) as [->|Nn].
      + rewrite (Leaf eq_refl). rewrite rt_t_eq. cbn [map]. rewrite <- tx_def. symmetry. apply x_lookup.
      + specialize (Nx Nn). rewrite rt_t_eq.
        rewrite <- (node_t_cong_sem n rs (map rt_t ch) NB Nx Bn Crs env).
        rewrite <- (node_t_indep n rs NB Nx Bn' Irs env (ev 0 env tt)). fold (Phi env).
        rewrite (Deriv_sound D interp E HV 0 _ _ Dv (Phi env)). symmetry. apply x_lookup.
  Qed.
End SubstSem.

Check node_t_sem.
Print Assumptions node_t_sem.
Check node_t_wsem.
Print Assumptions node_t_wsem.
Check node_t_cong_sem.
Print Assumptions node_t_cong_sem.
Check node_t_indep.
Print Assumptions node_t_indep.
Check DSr_sem.
Print Assumptions DSr_sem.
