(* Sem/Term.v — terms, independent of the e-graph.
   `rterm` is RecExpr: a node whose applied-id fields are placeholders for the children.
   `cterm` is its canonical form: binders carry no name; a slot bound by the k-th enclosing binder
   (counted from the root, "de Bruijn level") is the reserved name B k = 4k+3 (residue 3 is never
   produced by Slot), free slots keep their names.  Alpha-equivalence of rterms is equality of
   their canonical forms.  Definitions only. *)
From SE Require Export Lang.Sig.

Inductive rterm := RT (n : node) (children : list rterm).

Inductive cterm := CT (v : nat) (args : list carg)
with carg :=
| CSlot (x : N)
| CChild (t : cterm)
| CBind (a : carg)
| CPay (p : pval).

Definition B (k : nat) : N := 4 * N.of_nat k + 3.
Definition is_B (x : N) : bool := x mod 4 =? 3.

Fixpoint env_get (env : list (slot * N)) (s : slot) : N :=
  match env with
  | [] => s
  | (k, v) :: t => if s =? k then v else env_get t s
  end.

(* canon: d = number of enclosing binders, env = their names (innermost first) -> level names.
   Children are consumed left to right by the applied-id positions. *)
Fixpoint canon (fuel : nat) (d : nat) (env : list (slot * N)) (t : rterm) : cterm :=
  match fuel with
  | O => CT 0 []
  | S f =>
      match t with
      | RT n ch =>
          let fix go_arg (d : nat) (env : list (slot * N)) (a : farg) (ch : list rterm) : carg * list rterm :=
            match a with
            | ASlot s => (CSlot (env_get env s), ch)
            | AApp _ => match ch with
                        | c :: ch' => (CChild (canon f d env c), ch')
                        | [] => (CChild (CT 0 []), [])
                        end
            | ABind s b => let '(b', ch') := go_arg (S d) ((s, B d) :: env) b ch in (CBind b', ch')
            | APay p => (CPay p, ch)
            end in
          let fix go_args (l : list farg) (ch : list rterm) : list carg :=
            match l with
            | [] => []
            | a :: l' => let '(a', ch') := go_arg d env a ch in a' :: go_args l' ch'
            end in
          CT (nvar n) (go_args (nargs n) ch)
      end
  end.

Fixpoint rsize (t : rterm) : nat :=
  match t with RT _ ch => S (fold_right (fun c acc => rsize c + acc)%nat O ch) end.

Definition canon0 (t : rterm) : cterm := canon (S (rsize t)) 0 [] t.

(* renaming of every slot name of a canonical term *)
Fixpoint cren (r : N -> N) (t : cterm) : cterm :=
  match t with
  | CT v args => CT v ((fix go (l : list carg) : list carg :=
                          match l with [] => [] | a :: l' => cren_arg r a :: go l' end) args)
  end
with cren_arg (r : N -> N) (a : carg) : carg :=
  match a with
  | CSlot x => CSlot (r x)
  | CChild t => CChild (cren r t)
  | CBind b => CBind (cren_arg r b)
  | CPay p => CPay p
  end.

(* decidable equality *)
Definition pval_eqb (p q : pval) : bool :=
  match p, q with
  | PVu32 a, PVu32 b => a =? b
  | PVbool a, PVbool b => Bool.eqb a b
  | PVsym a, PVsym b => text_eqb a b
  | _, _ => false
  end.

Fixpoint cterm_eqb (s t : cterm) : bool :=
  match s, t with
  | CT v a, CT w b =>
      Nat.eqb v w &&
      (fix go (l l' : list carg) : bool :=
         match l, l' with
         | [], [] => true
         | x :: r, y :: r' => carg_eqb x y && go r r'
         | _, _ => false
         end) a b
  end
with carg_eqb (a b : carg) : bool :=
  match a, b with
  | CSlot x, CSlot y => x =? y
  | CChild s, CChild t => cterm_eqb s t
  | CBind x, CBind y => carg_eqb x y
  | CPay p, CPay q => pval_eqb p q
  | _, _ => false
  end.

(* slot names occurring in a canonical term *)
Fixpoint cnames (t : cterm) : list N :=
  match t with
  | CT _ args => (fix go (l : list carg) : list N :=
                    match l with [] => [] | a :: l' => cnames_arg a ++ go l' end) args
  end
with cnames_arg (a : carg) : list N :=
  match a with
  | CSlot x => [x]
  | CChild t => cnames t
  | CBind b => cnames_arg b
  | CPay _ => []
  end.
