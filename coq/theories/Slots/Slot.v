(* Slots/Slot.v — model of /repo/src/slot.rs: the u32 encoding of slots, the
   thread-local table, fresh/numeric/named and Display, in u32 arithmetic with the
   wrap-around written out.  `legacy = true` is the behaviour of the pinned commit
   (any text accepted by u32::from_str names a numeric / fresh slot, products are not
   range-checked); `legacy = false` is the repaired behaviour (only canonical
   numerals in range do).  `debug = true`: arithmetic overflow panics. *)
From SE Require Export Base.Text Slots.SlotMap.

Definition u32_max : N := 4294967295.
Definition two32 : N := 4294967296.
Definition two30 : N := 1073741824.

Record table := { fresh_idx : N; named_vec : list text }.
Definition init_table : table := {| fresh_idx := 1; named_vec := [] |}.

Definition u32_op (debug : bool) (v : N) : res N :=
  if v <? two32 then Ok v else if debug then Err Overflow else Ok (v mod two32).

(* repaired: the increment is checked in every build (`checked_add(4).expect(..)`) *)
Definition fresh (legacy debug : bool) (st : table) : res (slot * table) :=
  do nxt <- u32_op (debug || negb legacy) (fresh_idx st + 4);
  Ok (fresh_idx st, {| fresh_idx := nxt; named_vec := named_vec st |}).

Definition numeric (debug : bool) (u : N) : res slot := u32_op debug (u * 4).

Fixpoint find_text (l : list text) (s : text) (i : N) : option N :=
  match l with
  | [] => None
  | x :: t => if text_eqb x s then Some i else find_text t s (i + 1)
  end.

Definition parse_num (legacy : bool) (s : text) : option N :=
  if legacy then parse_u32 s
  else match parse_canonical s with
       | Some x => if x <? two30 then Some x else None
       | None => None
       end.
Definition parse_fresh (legacy : bool) (s : text) : option N :=
  match s with
  | 102 :: r =>            (* 'f' *)
      if legacy then parse_u32 r
      else match parse_canonical r with
           | Some x => if x <? two30 - 1 then Some x else None
           | None => None
           end
  | _ => None
  end.

Definition named (legacy debug : bool) (st : table) (s : text) : res (slot * table) :=
  match parse_num legacy s with
  | Some x => do v <- u32_op debug (x * 4); Ok (v, st)
  | None =>
      match parse_fresh legacy s with
      | Some x =>
          do o4 <- u32_op debug (x * 4);
          do out <- u32_op debug (o4 + 1);
          if fresh_idx st <=? out then
            do nxt <- u32_op debug (out + 4);
            Ok (out, {| fresh_idx := nxt; named_vec := named_vec st |})
          else Ok (out, st)
      | None =>
          match find_text (named_vec st) s 0 with
          | Some i => Ok (4 * i + 2, st)
          | None =>
              let i := N.of_nat (List.length (named_vec st)) in
              (* `len as u32` truncates; `4 * i + 2` is checked arithmetic *)
              do v <- u32_op debug (4 * (i mod two32) + 2);
              Ok (v, {| fresh_idx := fresh_idx st; named_vec := named_vec st ++ [s] |})
          end
      end
  end.

(* Display without the leading '$' *)
Definition name_of (st : table) (s : slot) : res text :=
  let r := s mod 4 in
  if r =? 0 then Ok (dec_text (s / 4))
  else if r =? 1 then Ok (102 :: dec_text ((s - 1) / 4))
  else if r =? 2 then
    match nth_opt (named_vec st) (N.to_nat ((s - 2) / 4)) with
    | Some t => Ok t
    | None => Err OutOfBounds
    end
  else Err ExplicitPanic.
