(* Slots/SlotFacts.v — proofs about the slot table model (C17), repaired behaviour
   (legacy = false).  Debug arithmetic (overflow = Err) is the reference; a release
   run agrees with it whenever the debug run does not fail. *)
From SE Require Import Base.Text Base.TextFacts Slots.Slot Slots.SlotMachine.
From Coq Require Import ZArith Lia ZifyBool ZifyN.
Ltac Zify.zify_post_hook ::= Z.div_mod_to_equations.

Local Ltac nb := repeat match goal with
  | H : (_ =? _) = true |- _ => apply N.eqb_eq in H
  | H : (_ =? _) = false |- _ => apply N.eqb_neq in H
  | H : (_ <? _) = true |- _ => apply N.ltb_lt in H
  | H : (_ <? _) = false |- _ => apply N.ltb_ge in H
  | H : (_ <=? _) = true |- _ => apply N.leb_le in H
  | H : (_ <=? _) = false |- _ => apply N.leb_gt in H
  end.

Lemma u32_op_ok : forall v r, u32_op true v = Ok r -> r = v /\ v < two32.
Proof. intros v r H. unfold u32_op in H. destruct (v <? two32) eqn:E; [|discriminate]. nb. inversion H; subst. auto. Qed.

Lemma u32_op_release : forall v r, u32_op true v = Ok r -> u32_op false v = Ok r.
Proof. intros v r H. unfold u32_op in *. destruct (v <? two32); [assumption|discriminate]. Qed.

(* ---- names ---- *)
Lemma parse_num_inv : forall s x, parse_num false s = Some x -> s = dec_text x /\ x < two30.
Proof.
  intros s x H. unfold parse_num in H. destruct (parse_canonical s) as [v|] eqn:E; [|discriminate].
  destruct (v <? two30) eqn:L; [|discriminate]. inversion H; subst. nb.
  apply parse_canonical_inv in E. tauto.
Qed.

Lemma parse_num_dec : forall x, x < two30 -> parse_num false (dec_text x) = Some x.
Proof.
  intros x H. unfold parse_num. rewrite parse_canonical_dec by (unfold two30 in H; lia).
  apply N.ltb_lt in H. rewrite H. reflexivity.
Qed.

Lemma parse_canonical_f : forall r, parse_canonical (102 :: r) = None.
Proof. intro r. unfold parse_canonical. cbn. destruct (uint_of_text r); reflexivity. Qed.

Lemma parse_num_f : forall r, parse_num false (102 :: r) = None.
Proof. intro r. unfold parse_num. rewrite parse_canonical_f. reflexivity. Qed.

Lemma parse_fresh_inv : forall s x, parse_fresh false s = Some x -> s = 102 :: dec_text x /\ x < two30 - 1.
Proof.
  intros s x H. unfold parse_fresh in H. destruct s as [|c r]; [discriminate|].
  destruct (N.eq_dec c 102) as [->|Hne].
  - destruct (parse_canonical r) as [v|] eqn:E; [|discriminate].
    destruct (v <? two30 - 1) eqn:L; [|discriminate]. inversion H; subst. nb.
    apply parse_canonical_inv in E. destruct E as [-> _]. auto.
  - exfalso. destruct c as [|p]; [discriminate|].
    repeat (destruct p as [p|p|]; try discriminate). apply Hne. reflexivity.
Qed.

Lemma parse_fresh_dec : forall x, x < two30 - 1 -> parse_fresh false (102 :: dec_text x) = Some x.
Proof.
  intros x H. cbn. rewrite parse_canonical_dec by (unfold two30 in H; lia).
  apply N.ltb_lt in H. rewrite H. reflexivity.
Qed.

(* ---- the name vector ---- *)
Lemma find_text_some : forall l s i j, find_text l s i = Some j ->
  i <= j /\ nth_opt l (N.to_nat (j - i)) = Some s.
Proof.
  induction l as [|x t IH]; intros s i j H; cbn in H; [discriminate|].
  destruct (text_eqb x s) eqn:E.
  - inversion H; subst. apply text_eqb_eq in E. subst. rewrite N.sub_diag. cbn. split; [lia|reflexivity].
  - apply IH in H. destruct H as [Hle Hn]. split; [lia|].
    replace (N.to_nat (j - i)) with (S (N.to_nat (j - (i + 1)))) by lia. cbn. assumption.
Qed.

Lemma find_text_none : forall l s i, find_text l s i = None -> ~ In s l.
Proof.
  induction l as [|x t IH]; intros s i H; cbn in *; [tauto|].
  destruct (text_eqb x s) eqn:E; [discriminate|].
  intros [Hx|Hin]; [subst; rewrite text_eqb_refl in E; discriminate|]. eapply IH; eauto.
Qed.

Lemma find_text_nth : forall l k s i, NoDup l -> nth_opt l k = Some s ->
  find_text l s i = Some (i + N.of_nat k).
Proof.
  induction l as [|x t IH]; intros k s i Hnd Hn; [destruct k; discriminate|].
  inversion Hnd as [|? ? Hnotin Hnd']; subst. destruct k; cbn in *.
  - inversion Hn; subst. rewrite text_eqb_refl. f_equal. lia.
  - destruct (text_eqb x s) eqn:E.
    + apply text_eqb_eq in E. subst. exfalso. apply Hnotin.
      clear -Hn. revert k Hn. induction t as [|y t IH]; intros k Hn; [destruct k; discriminate|].
      destruct k; cbn in Hn; [inversion Hn; left; reflexivity|right; eauto].
    + rewrite (IH k s (i + 1) Hnd' Hn). f_equal. lia.
Qed.

Lemma nth_opt_app_l : forall {A} (l l' : list A) k x, nth_opt l k = Some x -> nth_opt (l ++ l') k = Some x.
Proof. induction l as [|y t IH]; intros l' k x H; [destruct k; discriminate|]. destruct k; cbn in *; auto. Qed.

Lemma nth_opt_app_len : forall {A} (l : list A) x, nth_opt (l ++ [x]) (List.length l) = Some x.
Proof. induction l as [|y t IH]; intros x; cbn; auto. Qed.

Lemma nth_opt_in : forall {A} (l : list A) k x, nth_opt l k = Some x -> In x l.
Proof. induction l as [|y t IH]; intros k x H; [destruct k; discriminate|]. destruct k; cbn in *; [inversion H; auto|eauto]. Qed.

Lemma nth_opt_lt : forall {A} (l : list A) k x, nth_opt l k = Some x -> (k < List.length l)%nat.
Proof. induction l as [|y t IH]; intros k x H; [destruct k; discriminate|]. destruct k; cbn in *; [lia|]. apply IH in H. lia. Qed.

Lemma NoDup_app_one : forall {A} (l : list A) x, NoDup l -> ~ In x l -> NoDup (l ++ [x]).
Proof.
  induction l as [|y t IH]; intros x Hnd Hx; cbn; [constructor; [tauto|constructor]|].
  inversion Hnd; subst. constructor.
  - rewrite in_app_iff. cbn. intros [H|[H|[]]]; [contradiction|]. subst. apply Hx. left. reflexivity.
  - apply IH; [assumption|]. intro. apply Hx. right. assumption.
Qed.

(* ---- invariant ---- *)
Definition plain (s : text) : Prop := parse_num false s = None /\ parse_fresh false s = None.

Record TInv (st : table) : Prop := {
  inv_res : fresh_idx st mod 4 = 1;
  inv_range : fresh_idx st < two32;
  inv_plain : Forall plain (named_vec st);
  inv_nodup : NoDup (named_vec st);
  inv_len : N.of_nat (List.length (named_vec st)) <= two30
}.

Definition valid (st : table) (s : slot) : Prop :=
  (s mod 4 = 0 /\ s < two32) \/
  (s mod 4 = 1 /\ s < fresh_idx st) \/
  (s mod 4 = 2 /\ (N.to_nat ((s - 2) / 4) < List.length (named_vec st))%nat).

Definition ext (a b : table) : Prop :=
  fresh_idx a <= fresh_idx b /\ exists l, named_vec b = named_vec a ++ l.

Lemma ext_refl : forall a, ext a a.
Proof. intro a. split; [lia|]. exists []. rewrite app_nil_r. reflexivity. Qed.

Lemma ext_trans : forall a b c, ext a b -> ext b c -> ext a c.
Proof.
  intros a b c [H1 [l1 E1]] [H2 [l2 E2]]. split; [lia|]. exists (l1 ++ l2). rewrite E2, E1, app_assoc. reflexivity.
Qed.

Lemma valid_ext : forall a b s, ext a b -> valid a s -> valid b s.
Proof.
  intros a b s [Hf [l El]] [H|[H|H]]; [left; assumption| right; left; split; [tauto|lia] |].
  right; right. split; [tauto|]. rewrite El, app_length. lia.
Qed.

Lemma init_inv : TInv init_table.
Proof. constructor; cbn; try constructor; unfold two32, two30; try reflexivity; lia. Qed.

(* ---- fresh ---- *)
Lemma fresh_spec : forall st s st', TInv st -> fresh false true st = Ok (s, st') ->
  TInv st' /\ ext st st' /\ valid st' s /\ s = fresh_idx st /\ s mod 4 = 1.
Proof.
  intros st s st' I H. unfold fresh in H. cbn [orb negb] in H. destruct (u32_op true (fresh_idx st + 4)) as [nxt|] eqn:E; [|discriminate].
  cbn in H. inversion H; subst. apply u32_op_ok in E. destruct E as [-> Hlt].
  destruct I as [Ir Ig Ip In Il]. repeat split; cbn; try assumption; try lia.
  - exists []. rewrite app_nil_r. reflexivity.
  - right. left. cbn. split; [assumption|lia].
Qed.

(* ---- named ---- *)
Lemma named_spec : forall d st x s st', TInv st -> named false d st x = Ok (s, st') -> d = true ->
  TInv st' /\ ext st st' /\ valid st' s /\ (forall st'', ext st' st'' -> name_of st'' s = Ok x).
Proof.
  intros d st x s st' I H ->. unfold named in H.
  destruct (parse_num false x) as [v|] eqn:En.
  - (* numeric *)
    destruct (u32_op true (v * 4)) as [r|] eqn:E; [|discriminate]. cbn in H. inversion H; subst.
    apply u32_op_ok in E. destruct E as [-> Hlt]. apply parse_num_inv in En. destruct En as [-> Hv].
    split; [assumption|]. split; [apply ext_refl|]. split; [left; split; lia|].
    intros st'' _. unfold name_of. replace ((v * 4) mod 4) with 0 by lia. cbn.
    replace (v * 4 / 4) with v by lia. reflexivity.
  - destruct (parse_fresh false x) as [v|] eqn:Ef.
    + (* fresh-form *)
      apply parse_fresh_inv in Ef. destruct Ef as [-> Hv]. unfold two30 in Hv.
      destruct (u32_op true (v * 4)) as [o4|] eqn:E1; [|discriminate]. cbn in H.
      apply u32_op_ok in E1. destruct E1 as [-> _].
      destruct (u32_op true (v * 4 + 1)) as [out|] eqn:E2; [|discriminate]. cbn in H.
      apply u32_op_ok in E2. destruct E2 as [-> _].
      assert (Hname : forall st'', name_of st'' (v * 4 + 1) = Ok (102 :: dec_text v)).
      { intro st''. unfold name_of. replace ((v * 4 + 1) mod 4) with 1 by lia. cbn.
        replace ((v * 4 + 1 - 1) / 4) with v by lia. reflexivity. }
      destruct I as [Ir Ig Ip In Il].
      destruct (fresh_idx st <=? v * 4 + 1) eqn:L; nb.
      * destruct (u32_op true (v * 4 + 1 + 4)) as [nxt|] eqn:E3; [|discriminate]. cbn in H. inversion H; subst.
        apply u32_op_ok in E3. destruct E3 as [-> Hlt].
        split; [constructor; cbn; try assumption; lia|]. split; [split; cbn; [lia|exists []; rewrite app_nil_r; reflexivity]|].
        split; [right; left; cbn; split; lia|]. intros; apply Hname.
      * inversion H; subst. split; [constructor; assumption|]. split; [apply ext_refl|].
        split; [right; left; split; lia|]. intros; apply Hname.
    + (* plain names *)
      destruct (find_text (named_vec st) x 0) as [i|] eqn:Ft.
      * inversion H; subst. split; [assumption|]. split; [apply ext_refl|].
        apply find_text_some in Ft. destruct Ft as [_ Hn]. rewrite N.sub_0_r in Hn.
        split.
        -- right. right. split; [lia|]. replace ((4 * i + 2 - 2) / 4) with i by lia. eapply nth_opt_lt; eauto.
        -- intros st'' [_ [l El]]. unfold name_of. replace ((4 * i + 2) mod 4) with 2 by lia. cbn.
           replace ((4 * i + 2 - 2) / 4) with i by lia. rewrite El. rewrite (nth_opt_app_l _ l _ _ Hn). reflexivity.
      * destruct (u32_op true (4 * (N.of_nat (List.length (named_vec st)) mod two32) + 2)) as [r|] eqn:E; [|discriminate].
        cbn in H. inversion H; subst. apply u32_op_ok in E. destruct E as [-> Hlt].
        destruct I as [Ir Ig Ip In Il].
        set (n := N.of_nat (List.length (named_vec st))) in *.
        assert (Hn30 : n < two30).
        { unfold two30, two32 in *. destruct (N.eq_dec n 1073741824) as [En'|]; [|lia].
          exfalso. rewrite En' in Hlt. cbn in Hlt. lia. }
        assert (Hmod : n mod two32 = n) by (apply N.mod_small; unfold two30, two32 in *; lia).
        rewrite Hmod.
        split.
        { constructor; cbn; try assumption.
          - apply Forall_app. split; [assumption|]. constructor; [split; assumption|constructor].
          - apply NoDup_app_one; [assumption|]. eapply find_text_none; eauto.
          - rewrite app_length. cbn. unfold n in Hn30. lia. }
        split; [split; cbn; [lia|exists [x]; reflexivity]|].
        split.
        -- right. right. cbn. split; [lia|]. replace ((4 * n + 2 - 2) / 4) with n by lia. rewrite app_length. cbn. unfold n. lia.
        -- intros st'' [_ [l El]]. unfold name_of. replace ((4 * n + 2) mod 4) with 2 by lia. cbn.
           replace ((4 * n + 2 - 2) / 4) with n by lia. rewrite El. cbn.
           rewrite (nth_opt_app_l _ l _ x); [reflexivity|]. unfold n. rewrite Nnat.Nat2N.id. apply nth_opt_app_len.
Qed.

(* ---- printing a valid slot and parsing the name back yields the same slot, table unchanged ---- *)
Lemma reparse_spec : forall st s t, TInv st -> valid st s -> name_of st s = Ok t ->
  named false true st t = Ok (s, st).
Proof.
  intros st s t I V H. destruct I as [Ir Ig Ip In Il]. unfold name_of in H. unfold valid in V. unfold two32, two30 in *.
  destruct V as [[Hm Hlt]|[[Hm Hlt]|[Hm Hlt]]]; rewrite Hm in H; cbn in H; inversion H; subst; clear H; unfold named.
  - rewrite parse_num_dec by (unfold two30; lia).
    unfold u32_op. replace (s / 4 * 4 <? two32) with true by (symmetry; apply N.ltb_lt; unfold two32; lia).
    cbn. f_equal. f_equal. lia.
  - rewrite parse_num_f. rewrite parse_fresh_dec by (unfold two30; lia).
    unfold u32_op.
    replace ((s - 1) / 4 * 4 <? two32) with true by (symmetry; apply N.ltb_lt; unfold two32; lia). cbn.
    replace ((s - 1) / 4 * 4 + 1 <? two32) with true by (symmetry; apply N.ltb_lt; unfold two32; lia). cbn.
    replace ((s - 1) / 4 * 4 + 1) with s by lia.
    replace (fresh_idx st <=? s) with false by (symmetry; apply N.leb_gt; lia). reflexivity.
  - destruct (nth_opt (named_vec st) (N.to_nat ((s - 2) / 4))) as [t'|] eqn:En; inversion H1; subst; clear H1.
    assert (Hp : plain t). { rewrite Forall_forall in Ip. apply Ip. eapply nth_opt_in; eauto. }
    destruct Hp as [Hp1 Hp2]. rewrite Hp1, Hp2.
    rewrite (find_text_nth _ _ _ 0 In En). f_equal. f_equal. lia.
Qed.

Lemma numeric_spec : forall st u s, numeric true u = Ok s -> valid st s /\ s = u * 4 /\ name_of st s = Ok (dec_text u).
Proof.
  intros st u s H. unfold numeric in H. apply u32_op_ok in H. destruct H as [-> Hlt].
  split; [left; split; [lia|assumption]|]. split; [reflexivity|].
  unfold name_of. replace ((u * 4) mod 4) with 0 by lia. cbn. replace (u * 4 / 4) with u by lia. reflexivity.
Qed.

(* ---- runs ---- *)
Fixpoint sruns (legacy debug : bool) (st : table) (outs : list slot) (ops : list sop) : res (table * list slot) :=
  match ops with
  | [] => Ok (st, outs)
  | o :: t => do r <- sstep legacy debug st outs o; let '(st', outs', _) := r in sruns legacy debug st' outs' t
  end.

Definition RInv (st : table) (outs : list slot) : Prop := TInv st /\ Forall (valid st) outs.

Lemma Forall_valid_ext : forall a b outs, ext a b -> Forall (valid a) outs -> Forall (valid b) outs.
Proof. intros a b outs E H. eapply Forall_impl; [|exact H]. intros s. apply valid_ext. assumption. Qed.

Lemma sstep_inv : forall st outs o st' outs' ob, RInv st outs ->
  sstep false true st outs o = Ok (st', outs', ob) ->
  RInv st' outs' /\ ext st st' /\ exists l, outs' = outs ++ l.
Proof.
  intros st outs o st' outs' ob [I V] H. destruct o; cbn in H.
  - destruct (fresh false true st) as [[s st1]|] eqn:E; cbn in H; [|discriminate]. inversion H; subst.
    destruct (fresh_spec _ _ _ I E) as [I' [X [Vs _]]].
    split; [split; [assumption|apply Forall_app; split; [eapply Forall_valid_ext; eauto|constructor; [assumption|constructor]]]|].
    split; [assumption|eexists; reflexivity].
  - destruct (numeric true u) as [s|] eqn:E; cbn in H; [|discriminate]. inversion H; subst.
    destruct (numeric_spec st' u s E) as [Vs _].
    split; [split; [assumption|apply Forall_app; split; [assumption|constructor; [assumption|constructor]]]|].
    split; [apply ext_refl|eexists; reflexivity].
  - destruct (named false true st s) as [[s1 st1]|] eqn:E; cbn in H; [|discriminate]. inversion H; subst.
    destruct (named_spec _ _ _ _ _ I E eq_refl) as [I' [X [Vs _]]].
    split; [split; [assumption|apply Forall_app; split; [eapply Forall_valid_ext; eauto|constructor; [assumption|constructor]]]|].
    split; [assumption|eexists; reflexivity].
  - destruct (nth_opt outs k) as [s0|] eqn:En.
    + destruct (name_of st s0) as [t|] eqn:Et; cbn in H; [|discriminate].
      destruct (named false true st t) as [[s1 st1]|] eqn:E; cbn in H; [|discriminate]. inversion H; subst.
      destruct (named_spec _ _ _ _ _ I E eq_refl) as [I' [X [Vs _]]].
      split; [split; [assumption|apply Forall_app; split; [eapply Forall_valid_ext; eauto|constructor; [assumption|constructor]]]|].
      split; [assumption|eexists; reflexivity].
    + inversion H; subst. split; [split; assumption|]. split; [apply ext_refl|exists []; rewrite app_nil_r; reflexivity].
Qed.

Theorem sruns_inv : forall ops st outs st' outs', RInv st outs ->
  sruns false true st outs ops = Ok (st', outs') -> RInv st' outs' /\ ext st st'.
Proof.
  induction ops as [|o t IH]; intros st outs st' outs' R H; cbn in H.
  - inversion H; subst. split; [assumption|apply ext_refl].
  - destruct (sstep false true st outs o) as [[[st1 outs1] ob]|] eqn:E; cbn in H; [|discriminate].
    destruct (sstep_inv _ _ _ _ _ _ R E) as [R1 [X1 _]].
    destruct (IH _ _ _ _ R1 H) as [R' X']. split; [assumption|eapply ext_trans; eauto].
Qed.

Lemma init_rinv : RInv init_table [].
Proof. split; [apply init_inv|constructor]. Qed.

(* ---- the property theorems ---- *)

(* a fresh slot differs from everything produced so far and from every numeric slot *)
Theorem fresh_is_new : forall ops st outs s st',
  sruns false true init_table [] ops = Ok (st, outs) -> fresh false true st = Ok (s, st') ->
  ~ In s outs /\ (forall u, numeric true u <> Ok s).
Proof.
  intros ops st outs s st' Hr Hf.
  destruct (sruns_inv _ _ _ _ _ init_rinv Hr) as [[I V] _].
  destruct (fresh_spec _ _ _ I Hf) as [_ [_ [_ [Es Hm]]]].
  split.
  - intro Hin. rewrite Forall_forall in V. specialize (V s Hin).
    destruct V as [[Hm' _]|[[_ Hlt]|[Hm' _]]]; lia.
  - intros u Hu. apply u32_op_ok in Hu. lia.
Qed.

(* after any run, every produced slot prints to a name that parses back to itself *)
Theorem display_roundtrip : forall ops st outs s,
  sruns false true init_table [] ops = Ok (st, outs) -> In s outs ->
  exists t, name_of st s = Ok t /\ named false true st t = Ok (s, st).
Proof.
  intros ops st outs s Hr Hin.
  destruct (sruns_inv _ _ _ _ _ init_rinv Hr) as [[I V] _].
  rewrite Forall_forall in V. specialize (V s Hin).
  assert (exists t, name_of st s = Ok t) as [t Ht].
  { unfold name_of. destruct V as [[Hm _]|[[Hm _]|[Hm Hlt]]]; rewrite Hm; cbn; try (eexists; reflexivity).
    destruct (nth_opt (named_vec st) (N.to_nat ((s - 2) / 4))) eqn:E; [eexists; reflexivity|].
    exfalso. clear -E Hlt. revert Hlt E. generalize (N.to_nat ((s - 2) / 4)). generalize (named_vec st).
    induction l as [|y l IH]; intros n Hlt E; cbn in *; [lia|]. destruct n; [discriminate|]. apply (IH n); [lia|assumption]. }
  exists t. split; [assumption|]. apply reparse_spec; assumption.
Qed.

(* two slots with the same printed name are the same slot *)
Theorem display_injective : forall ops st outs s1 s2 t,
  sruns false true init_table [] ops = Ok (st, outs) -> In s1 outs -> In s2 outs ->
  name_of st s1 = Ok t -> name_of st s2 = Ok t -> s1 = s2.
Proof.
  intros ops st outs s1 s2 t Hr H1 H2 N1 N2.
  destruct (sruns_inv _ _ _ _ _ init_rinv Hr) as [[I V] _]. rewrite Forall_forall in V.
  pose proof (reparse_spec st s1 t I (V _ H1) N1) as E1.
  pose proof (reparse_spec st s2 t I (V _ H2) N2) as E2. congruence.
Qed.

(* distinct names denote distinct slots, at any two points of a run *)
Theorem named_injective : forall ops1 ops2 st1 outs1 x sx st1' st2 outs2 y sy st2',
  sruns false true init_table [] ops1 = Ok (st1, outs1) ->
  named false true st1 x = Ok (sx, st1') ->
  sruns false true st1' (outs1 ++ [sx]) ops2 = Ok (st2, outs2) ->
  named false true st2 y = Ok (sy, st2') ->
  sx = sy -> x = y.
Proof.
  intros ops1 ops2 st1 outs1 x sx st1' st2 outs2 y sy st2' R1 N1 R2 N2 E. subst sy.
  destruct (sruns_inv _ _ _ _ _ init_rinv R1) as [[I1 V1] _].
  destruct (named_spec _ _ _ _ _ I1 N1 eq_refl) as [I1' [X1 [Vx Nx]]].
  assert (R1' : RInv st1' (outs1 ++ [sx])).
  { split; [assumption|]. apply Forall_app. split; [eapply Forall_valid_ext; eauto|constructor; [assumption|constructor]]. }
  destruct (sruns_inv _ _ _ _ _ R1' R2) as [[I2 V2] X2].
  destruct (named_spec _ _ _ _ _ I2 N2 eq_refl) as [I2' [X2' [Vy Ny]]].
  pose proof (Nx st2' (ext_trans _ _ _ X2 X2')) as A.
  pose proof (Ny st2' (ext_refl _)) as B. congruence.
Qed.

(* a release build behaves like the debug build whenever the latter does not overflow *)
Lemma named_release : forall legacy st x r, named legacy true st x = Ok r -> named legacy false st x = Ok r.
Proof.
  intros legacy st x r H. unfold named in *.
  destruct (parse_num legacy x).
  - destruct (u32_op true (n * 4)) eqn:E; [|discriminate]. rewrite (u32_op_release _ _ E). assumption.
  - destruct (parse_fresh legacy x).
    + destruct (u32_op true (n * 4)) eqn:E1; [|discriminate]. rewrite (u32_op_release _ _ E1). cbn in *.
      destruct (u32_op true (a + 1)) eqn:E2; [|discriminate]. rewrite (u32_op_release _ _ E2). cbn in *.
      destruct (fresh_idx st <=? a0); [|assumption].
      destruct (u32_op true (a0 + 4)) eqn:E3; [|discriminate]. rewrite (u32_op_release _ _ E3). assumption.
    + destruct (find_text (named_vec st) x 0); [assumption|].
      destruct (u32_op true _) eqn:E; [|discriminate]. rewrite (u32_op_release _ _ E). assumption.
Qed.

Theorem release_agrees : forall legacy ops st outs r,
  sruns legacy true st outs ops = Ok r -> sruns legacy false st outs ops = Ok r.
Proof.
  intros legacy ops. induction ops as [|o t IH]; intros st outs r H; cbn in *; [assumption|].
  destruct (sstep legacy true st outs o) as [[[st1 outs1] ob]|] eqn:E; cbn in H; [|discriminate].
  assert (E' : sstep legacy false st outs o = Ok (st1, outs1, ob)).
  { destruct o; cbn in *.
    - unfold fresh in *. destruct legacy; cbn [orb negb] in *; [|assumption].
      destruct (u32_op true (fresh_idx st + 4)) eqn:E1; [|discriminate].
      rewrite (u32_op_release _ _ E1). assumption.
    - unfold numeric in *. destruct (u32_op true (u * 4)) eqn:E1; [|discriminate].
      rewrite (u32_op_release _ _ E1). assumption.
    - destruct (named legacy true st s) eqn:E1; [|discriminate]. rewrite (named_release _ _ _ _ E1). assumption.
    - destruct (nth_opt outs k); [|assumption]. destruct (name_of st s); [|discriminate]. cbn in *.
      destruct (named legacy true st a) eqn:E1; [|discriminate]. rewrite (named_release _ _ _ _ E1). assumption. }
  rewrite E'. cbn. apply IH. assumption.
Qed.
