(* Slots/SlotMachine.v — operation machine of the C17 correspondence: interleavings of
   fresh / numeric / named / display in one thread.  Observation per produced slot:
   the index of the first earlier output equal to it (the equality partition) and
   its printed name. *)
From SE Require Export Slots.Slot.

Inductive sop :=
| SFresh
| SNumeric (u : N)
| SNamed (s : text)
| SReparse (k : nat).       (* print the k-th produced slot and parse the name back *)

Fixpoint first_eq (outs : list slot) (s : slot) (i : N) : N :=
  match outs with
  | [] => i
  | x :: t => if x =? s then i else first_eq t s (i + 1)
  end.

Definition obs_slot (st : table) (outs : list slot) (s : slot) : sexp :=
  Lst [Num (first_eq outs s 0);
       match name_of st s with Ok t => text_sexp t | Err e => Lst [Sym "err"; site_sexp e] end].

Definition sstep (legacy debug : bool) (st : table) (outs : list slot) (o : sop)
  : res (table * list slot * sexp) :=
  match o with
  | SFresh => do r <- fresh legacy debug st; let '(s, st') := r in Ok (st', outs ++ [s], obs_slot st' outs s)
  | SNumeric u => do s <- numeric debug u; Ok (st, outs ++ [s], obs_slot st outs s)
  | SNamed t => do r <- named legacy debug st t; let '(s, st') := r in Ok (st', outs ++ [s], obs_slot st' outs s)
  | SReparse k =>
      match nth_opt outs k with
      | None => Ok (st, outs, Sym "skip")
      | Some s0 =>
          do t <- name_of st s0;
          do r <- named legacy debug st t;
          let '(s, st') := r in Ok (st', outs ++ [s], obs_slot st' outs s)
      end
  end.

Fixpoint srun (legacy debug : bool) (st : table) (outs : list slot) (ops : list sop) : list sexp :=
  match ops with
  | [] => []
  | o :: t =>
      match sstep legacy debug st outs o with
      | Ok (st', outs', ob) => ob :: srun legacy debug st' outs' t
      | Err e => [Lst [Sym "err"; site_sexp e]]
      end
  end.

Definition dec_sop (e : sexp) : option sop :=
  match e with
  | Sym "fresh" => Some SFresh
  | Lst [Sym "numeric"; Num u] => Some (SNumeric u)
  | Lst [Sym "named"; t] => match dec_text_sexp t with Some t => Some (SNamed t) | None => None end
  | Lst [Sym "reparse"; Num k] => Some (SReparse (N.to_nat k))
  | _ => None
  end.

Fixpoint dec_sops (l : list sexp) : option (list sop) :=
  match l with
  | [] => Some []
  | e :: t => match dec_sop e, dec_sops t with Some o, Some r => Some (o :: r) | _, _ => None end
  end.

(* case: (c17 <debug:0|1> op ...) *)
Definition run_c17 (legacy : bool) (args : list sexp) : sexp :=
  match args with
  | Num d :: ops =>
      match dec_sops ops with
      | Some ops => Lst (Sym "obs" :: srun legacy (negb (d =? 0)) init_table [] ops)
      | None => Sym "bad-case"
      end
  | _ => Sym "bad-case"
  end.
