(* Slots/SlotMap.v — model of /repo/src/slotmap.rs.
   A slot is the u32 inside `Slot` (an N here).  A SlotMap is the key-sorted
   pair vector; `SmallHashSet<Slot>` (a sorted VecSet) is a strictly sorted list.
   Definitions only. *)
From SE Require Export Base.Prelude.

Definition slot := N.
Definition slotmap := list (slot * slot).
Definition sset := list slot.          (* strictly increasing *)

(* ---- SmallHashSet<Slot> ---- *)
Fixpoint sset_insert (x : slot) (s : sset) : sset :=
  match s with
  | [] => [x]
  | y :: t => if x <? y then x :: s else if x =? y then s else y :: sset_insert x t
  end.
Definition sset_of_list (l : list slot) : sset := fold_left (fun s x => sset_insert x s) l [].
Fixpoint sset_mem (x : slot) (s : sset) : bool :=
  match s with [] => false | y :: t => (x =? y) || sset_mem x t end.
Definition sset_eqb (a b : sset) : bool := forallb2 N.eqb a b.
Definition sset_subset (a b : sset) : bool := forallb (fun x => sset_mem x b) a.
Definition sset_inter (a b : sset) : sset := filter (fun x => sset_mem x b) a.
Definition sset_diff (a b : sset) : sset := filter (fun x => negb (sset_mem x b)) a.
Definition sset_union (a b : sset) : sset := fold_left (fun s x => sset_insert x s) b a.

(* ---- SlotMap ---- *)
(* SlotMap::search + get: binary search by key; under the sortedness invariant it
   finds the unique entry with that key. *)
Fixpoint get (m : slotmap) (l : slot) : option slot :=
  match m with
  | [] => None
  | (k, v) :: t => if l =? k then Some v else get t l
  end.

Definition contains_key (m : slotmap) (k : slot) : bool :=
  match get m k with Some _ => true | None => false end.

(* SlotMap::insert: replace at the found index, or insert at the insertion point *)
Fixpoint insert (l r : slot) (m : slotmap) : slotmap :=
  match m with
  | [] => [(l, r)]
  | (k, v) :: t =>
      if l <? k then (l, r) :: m
      else if l =? k then (l, r) :: t
      else (k, v) :: insert l r t
  end.

Fixpoint remove (x : slot) (m : slotmap) : slotmap :=
  match m with
  | [] => []
  | (k, v) :: t => if x =? k then t else (k, v) :: remove x t
  end.

Definition keys_vec (m : slotmap) : list slot := map fst m.
Definition values_vec (m : slotmap) : list slot := map snd m.
Definition keys (m : slotmap) : sset := sset_of_list (keys_vec m).
Definition values (m : slotmap) : sset := sset_of_list (values_vec m).

(* FromIterator / From<[_;N]> / from_pairs without the CHECKS assertion:
   successive inserts, a later pair with the same key wins. *)
Definition from_iter_onto (acc : slotmap) (ps : list (slot * slot)) : slotmap :=
  fold_left (fun out p => insert (fst p) (snd p) out) ps acc.
Definition from_iter (ps : list (slot * slot)) : slotmap := from_iter_onto [] ps.

Fixpoint nodupb (l : list slot) : bool :=
  match l with [] => true | x :: t => negb (existsb (N.eqb x) t) && nodupb t end.

Definition is_bijection (m : slotmap) : bool := nodupb (values_vec m).
Definition is_perm (m : slotmap) : bool := is_bijection m && sset_eqb (keys m) (values m).

Definition swap (p : slot * slot) : slot * slot := (snd p, fst p).
Definition inverse_nocheck (m : slotmap) : slotmap := from_iter (map swap m).
Definition inverse (checks : bool) (m : slotmap) : res slotmap :=
  if checks && negb (is_bijection m) then Err AssertFailed else Ok (inverse_nocheck m).

Definition compose_partial (a b : slotmap) : slotmap :=
  from_iter (flat_map (fun p => match get b (snd p) with
                                | Some z => [(fst p, z)]
                                | None => []
                                end) a).

Definition compose (checks : bool) (a b : slotmap) : res slotmap :=
  if checks && negb (sset_eqb (values a) (keys b)) then Err AssertFailed
  else Ok (compose_partial a b).

(* Slot::fresh from a table whose fresh_idx is `ctr` (an u32 = 1 mod 4): returns
   ctr and advances by 4.  Overflow is not modelled here (see Slot.v). *)
Fixpoint compose_fresh_go (a b : slotmap) (ctr : N) (out : slotmap) : slotmap * N :=
  match a with
  | [] => (out, ctr)
  | (x, y) :: t =>
      match get b y with
      | Some z => compose_fresh_go t b ctr (insert x z out)
      | None => compose_fresh_go t b (ctr + 4) (insert x ctr out)
      end
  end.
Definition compose_fresh (a b : slotmap) (ctr : N) : slotmap * N := compose_fresh_go a b ctr [].

Definition identity (s : sset) : slotmap := from_iter (map (fun x => (x, x)) s).

Fixpoint bff_go (s : sset) (ctr : N) (out : slotmap) : slotmap * N :=
  match s with
  | [] => (out, ctr)
  | x :: t => bff_go t (ctr + 4) (insert ctr x out)
  end.
Definition bijection_from_fresh_to (s : sset) (ctr : N) : slotmap * N := bff_go s ctr [].

Fixpoint agree_on (out : slotmap) (ps : list (slot * slot)) : bool :=
  match ps with
  | [] => true
  | (x, y) :: t =>
      match get out x with
      | Some z => (y =? z) && agree_on (insert x y out) t
      | None => agree_on (insert x y out) t
      end
  end.

Definition union_nocheck (a b : slotmap) : slotmap := from_iter_onto a b.
Definition union (checks : bool) (a b : slotmap) : res slotmap :=
  if checks && negb (agree_on a b) then Err AssertFailed else Ok (union_nocheck a b).
Definition try_union (a b : slotmap) : option slotmap :=
  if agree_on a b then Some (union_nocheck a b) else None.

Fixpoint keys_distinct_go (seen : slotmap) (ps : list (slot * slot)) : bool :=
  match ps with
  | [] => true
  | (x, y) :: t => negb (contains_key seen x) && keys_distinct_go (insert x y seen) t
  end.
Definition from_pairs (checks : bool) (ps : list (slot * slot)) : res slotmap :=
  if checks && negb (keys_distinct_go [] ps) then Err AssertFailed else Ok (from_iter ps).

Definition index (m : slotmap) (l : slot) : res slot :=
  match get m l with Some v => Ok v | None => Err SlotMapIndexMissing end.

(* derived Ord on SmallVec<[(Slot,Slot);10]>: lexicographic on the pair list *)
Definition cmp_pair (p q : slot * slot) : comparison :=
  match fst p ?= fst q with Eq => snd p ?= snd q | c => c end.
Fixpoint cmp_map (a b : slotmap) : comparison :=
  match a, b with
  | [], [] => Eq
  | [], _ :: _ => Lt
  | _ :: _, [] => Gt
  | p :: a', q :: b' => match cmp_pair p q with Eq => cmp_map a' b' | c => c end
  end.
Definition eqb_map (a b : slotmap) : bool :=
  forallb2 (fun p q => (fst p =? fst q) && (snd p =? snd q)) a b.

(* ---- the invariant (slotmap.rs: "map is sorted by their keys", unique keys) ---- *)
Definition lb (k : slot) (m : slotmap) : Prop :=
  match m with [] => True | (k', _) :: _ => k < k' end.
Fixpoint wf (m : slotmap) : Prop :=
  match m with [] => True | (k, _) :: t => lb k t /\ wf t end.

Definition slb (k : slot) (s : sset) : Prop :=
  match s with [] => True | k' :: _ => k < k' end.
Fixpoint swf (s : sset) : Prop :=
  match s with [] => True | k :: t => slb k t /\ swf t end.
