(* Slots/SlotMapFacts.v — proofs about the SlotMap model (C19). *)
From SE Require Import Slots.SlotMap.
From Coq Require Import Lia Permutation.

Local Ltac neq := repeat match goal with
  | H : (_ =? _) = true |- _ => apply N.eqb_eq in H
  | H : (_ =? _) = false |- _ => apply N.eqb_neq in H
  | H : (_ <? _) = true |- _ => apply N.ltb_lt in H
  | H : (_ <? _) = false |- _ => apply N.ltb_ge in H
  end.

(* ------------------------------------------------------------------ *)
(* keys above a bound *)
Definition all_gt (k : slot) (m : slotmap) : Prop := forall l, get m l <> None -> k < l.

Lemma wf_all_gt : forall m k, lb k m -> wf m -> all_gt k m.
Proof.
  induction m as [|[k' v'] t IH]; intros k Hlb Hwf l Hg; cbn in *.
  - congruence.
  - destruct Hwf as [Hlb' Hwf']. destruct (l =? k') eqn:E; neq.
    + subst. exact Hlb.
    + specialize (IH k' Hlb' Hwf' l Hg). lia.
Qed.

Lemma wf_tail_get : forall k v t l, wf ((k, v) :: t) -> get t l <> None -> k < l.
Proof. intros k v t l [Hlb Hwf] Hg. eapply wf_all_gt; eauto. Qed.

Lemma get_below : forall m k l, lb k m -> wf m -> l <= k -> get m l = None.
Proof.
  intros m k l Hlb Hwf Hle. destruct (get m l) eqn:E; [|reflexivity].
  assert (k < l) by (eapply wf_all_gt; eauto; congruence). lia.
Qed.

(* ------------------------------------------------------------------ *)
(* insert *)
Lemma insert_lb : forall m l r k, lb k m -> k < l -> lb k (insert l r m).
Proof.
  destruct m as [|[k' v'] t]; intros l r k Hlb Hlt; cbn in *; [exact Hlt|].
  destruct (l <? k'); [exact Hlt|]. destruct (l =? k'); [exact Hlt| exact Hlb].
Qed.

Lemma insert_wf : forall m l r, wf m -> wf (insert l r m).
Proof.
  induction m as [|[k v] t IH]; intros l r Hwf; cbn in *; [auto|].
  destruct Hwf as [Hlb Hwf].
  destruct (l <? k) eqn:E1; neq.
  - cbn. auto.
  - destruct (l =? k) eqn:E2; neq.
    + subst. cbn. auto.
    + cbn. split; [|auto]. apply insert_lb; [exact Hlb| lia].
Qed.

Lemma get_insert : forall m l r k, wf m ->
  get (insert l r m) k = if k =? l then Some r else get m k.
Proof.
  induction m as [|[k' v'] t IH]; intros l r k Hwf; cbn in *.
  - reflexivity.
  - destruct Hwf as [Hlb Hwf].
    destruct (l <? k') eqn:E1; neq.
    + cbn. reflexivity.
    + destruct (l =? k') eqn:E2; neq.
      * subst. cbn. destruct (k =? k'); reflexivity.
      * cbn. rewrite IH by exact Hwf.
        destruct (k =? k') eqn:E3; neq; [|reflexivity].
        subst. destruct (k' =? l) eqn:E4; neq; [congruence|reflexivity].
Qed.

(* ------------------------------------------------------------------ *)
(* remove *)
Lemma remove_lb : forall m x k, lb k m -> wf m -> lb k (remove x m).
Proof.
  destruct m as [|[k' v'] t]; intros x k Hlb Hwf; cbn in *; [auto|].
  destruct (x =? k'); [|exact Hlb].
  destruct Hwf as [Hlb' _]. destruct t as [|[k'' v''] t']; cbn in *; [auto|lia].
Qed.

Lemma remove_wf : forall m x, wf m -> wf (remove x m).
Proof.
  induction m as [|[k v] t IH]; intros x Hwf; cbn in *; [auto|].
  destruct Hwf as [Hlb Hwf]. destruct (x =? k); [exact Hwf|].
  cbn. split; [apply remove_lb; assumption | auto].
Qed.

Lemma get_remove : forall m x k, wf m ->
  get (remove x m) k = if k =? x then None else get m k.
Proof.
  induction m as [|[k' v'] t IH]; intros x k Hwf; cbn in *.
  - destruct (k =? x); reflexivity.
  - destruct Hwf as [Hlb Hwf].
    destruct (x =? k') eqn:E1; neq.
    + subst. destruct (k =? k') eqn:E2; neq; [|reflexivity].
      subst. apply get_below with (k := k'); [assumption|assumption|lia].
    + cbn. rewrite IH by exact Hwf.
      destruct (k =? k') eqn:E2; neq; [|reflexivity].
      subst. destruct (k' =? x) eqn:E3; neq; [congruence|reflexivity].
Qed.

(* ------------------------------------------------------------------ *)
(* representation extensionality: a well-formed map is determined by its lookups *)
Theorem ext_eq : forall a b, wf a -> wf b -> (forall k, get a k = get b k) -> a = b.
Proof.
  induction a as [|[k v] t IH]; intros b Ha Hb Hext.
  - destruct b as [|[k' v'] t']; [reflexivity|].
    specialize (Hext k'). cbn in Hext. rewrite N.eqb_refl in Hext. discriminate.
  - destruct b as [|[k' v'] t'].
    + specialize (Hext k). cbn in Hext. rewrite N.eqb_refl in Hext. discriminate.
    + destruct Ha as [Hlba Hwa]. destruct Hb as [Hlbb Hwb].
      assert (Hk : k = k').
      { pose proof (Hext k) as H1. pose proof (Hext k') as H2. cbn in H1, H2.
        rewrite N.eqb_refl in H1, H2.
        destruct (k =? k') eqn:E; neq; [assumption|].
        rewrite (proj2 (N.eqb_neq k' k)) in H2 by congruence.
        assert (k' < k) by (eapply wf_all_gt with (m := t'); eauto; congruence).
        assert (k < k') by (eapply wf_all_gt with (m := t); eauto; congruence).
        lia. }
      subst k'.
      assert (Hv : v = v').
      { specialize (Hext k). cbn in Hext. rewrite N.eqb_refl in Hext. congruence. }
      subst v'. f_equal. apply IH; try assumption.
      intro l. specialize (Hext l). cbn in Hext.
      destruct (l =? k) eqn:E; neq; [|exact Hext].
      subst. rewrite (get_below t k k), (get_below t' k k); auto; lia.
Qed.

(* ------------------------------------------------------------------ *)
(* from_iter_onto: later pairs win *)
Fixpoint assoc_last (ps : list (slot * slot)) (k : slot) : option slot :=
  match ps with
  | [] => None
  | (x, y) :: t => match assoc_last t k with
                   | Some v => Some v
                   | None => if k =? x then Some y else None
                   end
  end.

Lemma from_iter_onto_wf : forall ps acc, wf acc -> wf (from_iter_onto acc ps).
Proof.
  induction ps as [|[x y] t IH]; intros acc Hwf; cbn; [exact Hwf|].
  apply IH. apply insert_wf. exact Hwf.
Qed.

Lemma get_from_iter_onto : forall ps acc k, wf acc ->
  get (from_iter_onto acc ps) k =
  match assoc_last ps k with Some v => Some v | None => get acc k end.
Proof.
  induction ps as [|[x y] t IH]; intros acc k Hwf; cbn; [reflexivity|].
  unfold from_iter_onto in IH. rewrite IH by (apply insert_wf; exact Hwf).
  destruct (assoc_last t k); [reflexivity|].
  rewrite get_insert by exact Hwf. cbn. destruct (k =? x); reflexivity.
Qed.

Lemma from_iter_wf : forall ps, wf (from_iter ps).
Proof. intro ps. apply from_iter_onto_wf. exact I. Qed.

Lemma get_from_iter : forall ps k, get (from_iter ps) k = assoc_last ps k.
Proof.
  intros ps k. unfold from_iter. rewrite get_from_iter_onto by exact I.
  destruct (assoc_last ps k); reflexivity.
Qed.

(* with pairwise distinct keys the result does not depend on the insertion order *)
Lemma assoc_last_in : forall ps k v, assoc_last ps k = Some v -> In (k, v) ps.
Proof.
  induction ps as [|[x y] t IH]; intros k v H; cbn in *; [discriminate|].
  destruct (assoc_last t k) eqn:E.
  - inversion H; subst. right. apply IH. exact E.
  - destruct (k =? x) eqn:E2; neq; [|discriminate]. inversion H; subst. left. reflexivity.
Qed.

Lemma in_assoc_last : forall ps k v, NoDup (map fst ps) -> In (k, v) ps -> assoc_last ps k = Some v.
Proof.
  induction ps as [|[x y] t IH]; intros k v Hnd Hin; cbn in *; [contradiction|].
  inversion Hnd as [|? ? Hnotin Hnd']; subst.
  destruct Hin as [Heq|Hin].
  - inversion Heq; subst.
    destruct (assoc_last t k) eqn:E.
    + exfalso. apply Hnotin. apply assoc_last_in in E.
      change k with (fst (k, s)). apply in_map. exact E.
    + rewrite N.eqb_refl. reflexivity.
  - rewrite (IH k v Hnd' Hin). reflexivity.
Qed.

Theorem from_iter_perm : forall ps qs,
  NoDup (map fst ps) -> Permutation ps qs -> from_iter ps = from_iter qs.
Proof.
  intros ps qs Hnd Hperm.
  assert (Hnd' : NoDup (map fst qs)).
  { eapply Permutation_NoDup; [|exact Hnd]. apply Permutation_map. exact Hperm. }
  apply ext_eq; try apply from_iter_wf.
  intro k. rewrite !get_from_iter.
  destruct (assoc_last ps k) eqn:E1.
  - apply assoc_last_in in E1. symmetry. apply in_assoc_last; [exact Hnd'|].
    eapply Permutation_in; eauto.
  - destruct (assoc_last qs k) eqn:E2; [|reflexivity].
    apply assoc_last_in in E2. apply Permutation_sym in Hperm.
    rewrite (in_assoc_last ps k s Hnd) in E1; [discriminate|].
    eapply Permutation_in; eauto.
Qed.

(* a well-formed map is from_iter of its own pair list *)
Lemma get_in : forall m k v, get m k = Some v -> In (k, v) m.
Proof.
  induction m as [|[k' v'] t IH]; intros k v H; cbn in *; [discriminate|].
  destruct (k =? k') eqn:E; neq.
  - inversion H; subst. left. reflexivity.
  - right. apply IH. exact H.
Qed.

Lemma wf_nodup_keys : forall m, wf m -> NoDup (map fst m).
Proof.
  induction m as [|[k v] t IH]; intros Hwf; cbn; [constructor|].
  destruct Hwf as [Hlb Hwf]. constructor; [|auto].
  intro Hin. apply in_map_iff in Hin. destruct Hin as [[k' v'] [Heq Hin]]. cbn in Heq. subst k'.
  assert (k < k).
  { eapply wf_all_gt with (m := t); eauto.
    assert (forall m, In (k, v') m -> get m k <> None) as Hx.
    { clear. induction m as [|[a b] t IH]; intros Hin; cbn in *; [contradiction|].
      destruct (k =? a) eqn:E; [discriminate|]. destruct Hin as [Heq|Hin].
      - inversion Heq; subst. rewrite N.eqb_refl in E. discriminate.
      - apply IH. exact Hin. }
    apply Hx. exact Hin. }
  lia.
Qed.

Lemma in_get : forall m k v, wf m -> In (k, v) m -> get m k = Some v.
Proof.
  induction m as [|[k' v'] t IH]; intros k v Hwf Hin; cbn in *; [contradiction|].
  destruct Hin as [Heq|Hin].
  - inversion Heq; subst. rewrite N.eqb_refl. reflexivity.
  - pose proof (wf_nodup_keys ((k', v') :: t) Hwf) as Hnd. cbn in Hnd. inversion Hnd as [|? ? Hnotin _]; subst.
    destruct (k =? k') eqn:E; neq.
    + subst. exfalso. apply Hnotin. change k' with (fst (k', v)). apply in_map. exact Hin.
    + destruct Hwf as [_ Hwf]. apply IH; assumption.
Qed.

(* ------------------------------------------------------------------ *)
(* the operations refine the finite-map specification  (lookup semantics) *)

Theorem get_union : forall a b k, wf a -> wf b ->
  get (union_nocheck a b) k = match get b k with Some v => Some v | None => get a k end.
Proof.
  intros a b k Ha Hb. unfold union_nocheck. rewrite get_from_iter_onto by exact Ha.
  destruct (assoc_last b k) eqn:E.
  - apply assoc_last_in in E. rewrite (in_get b k s Hb E). reflexivity.
  - destruct (get b k) eqn:E2; [|reflexivity].
    apply get_in in E2. rewrite (in_assoc_last b k s (wf_nodup_keys _ Hb) E2) in E. discriminate.
Qed.

Lemma assoc_last_flat_map_none : forall (a : slotmap) (f : slot * slot -> list (slot * slot)) k,
  (forall p q, In q (f p) -> fst q = fst p) ->
  get a k = None -> wf a -> assoc_last (flat_map f a) k = None.
Proof.
  intros a f k Hf Hg Hwf.
  destruct (assoc_last (flat_map f a) k) eqn:E; [|reflexivity].
  apply assoc_last_in in E. apply in_flat_map in E. destruct E as [[x y] [Hin Hq]].
  apply Hf in Hq. cbn in Hq. subst x. rewrite (in_get a k y Hwf Hin) in Hg. discriminate.
Qed.

Theorem get_compose_partial : forall a b k, wf a ->
  get (compose_partial a b) k = match get a k with Some y => get b y | None => None end.
Proof.
  intros a b k Ha. unfold compose_partial. rewrite get_from_iter.
  set (f := fun p : slot * slot => match get b (snd p) with Some z => [(fst p, z)] | None => [] end).
  assert (Hf : forall p q, In q (f p) -> fst q = fst p).
  { intros p q. unfold f. destruct (get b (snd p)); cbn; [|tauto]. intros [<-|[]]. reflexivity. }
  assert (Hnd : NoDup (map fst (flat_map f a))).
  { pose proof (wf_nodup_keys _ Ha) as H. clear Ha. induction a as [|[x y] t IH]; cbn; [constructor|].
    cbn in H. inversion H as [|? ? Hnotin H']; subst. rewrite map_app.
    unfold f at 1. cbn. destruct (get b y); cbn; [|auto].
    constructor; [|auto]. intro Hin. apply Hnotin.
    apply in_map_iff in Hin. destruct Hin as [q [Hq Hin]]. apply in_flat_map in Hin.
    destruct Hin as [p [Hp Hqp]]. apply Hf in Hqp. rewrite <- Hq, Hqp. apply in_map. exact Hp. }
  destruct (get a k) as [y|] eqn:Eg.
  - destruct (get b y) as [z|] eqn:Eb.
    + apply in_assoc_last; [exact Hnd|]. apply in_flat_map. exists (k, y). split.
      * apply get_in. exact Eg.
      * unfold f. cbn. rewrite Eb. left. reflexivity.
    + destruct (assoc_last (flat_map f a) k) eqn:E; [|reflexivity].
      apply assoc_last_in in E. apply in_flat_map in E. destruct E as [[x y'] [Hin Hq]].
      pose proof (Hf _ _ Hq) as Hx. cbn in Hx. subst x.
      rewrite (in_get a k y' Ha Hin) in Eg. inversion Eg; subst.
      unfold f in Hq. cbn in Hq. rewrite Eb in Hq. contradiction.
  - apply assoc_last_flat_map_none; assumption.
Qed.

Lemma compose_partial_wf : forall a b, wf (compose_partial a b).
Proof. intros. apply from_iter_wf. Qed.

Theorem compose_partial_assoc : forall a b c, wf a -> wf b ->
  compose_partial (compose_partial a b) c = compose_partial a (compose_partial b c).
Proof.
  intros a b c Ha Hb. apply ext_eq; try apply compose_partial_wf.
  intro k. rewrite !get_compose_partial by (try assumption; apply compose_partial_wf).
  destruct (get a k); [|reflexivity]. rewrite get_compose_partial by assumption. reflexivity.
Qed.

(* values are pairwise distinct *)
Definition injective (m : slotmap) : Prop :=
  forall k1 k2 v, get m k1 = Some v -> get m k2 = Some v -> k1 = k2.

Lemma nodupb_NoDup : forall l, nodupb l = true <-> NoDup l.
Proof.
  induction l as [|x t IH]; cbn; split; intro H; try constructor; auto.
  - apply andb_true_iff in H. destruct H as [H1 H2].
    intro Hin. apply negb_true_iff in H1.
    assert (existsb (N.eqb x) t = true) by (apply existsb_exists; exists x; split; [assumption|apply N.eqb_refl]).
    congruence.
  - apply IH. apply andb_true_iff in H. tauto.
  - inversion H as [|? ? Hnotin Hnd]; subst. apply andb_true_iff. split; [|apply IH; assumption].
    apply negb_true_iff. destruct (existsb (N.eqb x) t) eqn:E; [|reflexivity].
    apply existsb_exists in E. destruct E as [y [Hin Heq]]. neq. subst. contradiction.
Qed.

Lemma is_bijection_injective : forall m, wf m -> (is_bijection m = true <-> injective m).
Proof.
  intros m Hwf. unfold is_bijection. rewrite nodupb_NoDup. unfold values_vec. split.
  - intros Hnd k1 k2 v H1 H2. apply get_in in H1, H2.
    clear Hwf. induction m as [|[k v'] t IH]; cbn in *; [contradiction|].
    inversion Hnd as [|? ? Hnotin Hnd']; subst.
    destruct H1 as [E1|H1], H2 as [E2|H2].
    + congruence.
    + inversion E1; subst. exfalso. apply Hnotin. change v with (snd (k2, v)). apply in_map. exact H2.
    + inversion E2; subst. exfalso. apply Hnotin. change v with (snd (k1, v)). apply in_map. exact H1.
    + auto.
  - intro Hinj. pose proof (wf_nodup_keys _ Hwf) as Hk.
    assert (Hget : forall k v, In (k, v) m -> get m k = Some v) by (intros; apply in_get; assumption).
    clear Hwf. induction m as [|[k v] t IH]; cbn in *; [constructor|].
    inversion Hk as [|? ? Hnotin Hk']; subst. constructor.
    + intro Hin. apply in_map_iff in Hin. destruct Hin as [[k' v'] [Hv Hin]]. cbn in Hv. subst v'.
      assert (k' = k).
      { apply (Hinj k' k v); [apply Hget; right; exact Hin | apply Hget; left; reflexivity]. }
      subst. apply Hnotin. change k with (fst (k, v)). apply in_map. exact Hin.
    + apply IH; [|exact Hk'|].
      * intros k1 k2 v0 H1 H2.
        assert (forall kk vv, get t kk = Some vv -> get ((k, v) :: t) kk = Some vv) as Hlift.
        { intros kk vv Hg. apply Hget. right. apply get_in. exact Hg. }
        apply (Hinj k1 k2 v0); apply Hlift; assumption.
      * intros k' v' Hin. pose proof (Hget k' v' (or_intror Hin)) as Hg. cbn in Hg.
        destruct (k' =? k) eqn:E; neq; [|exact Hg].
        subst. exfalso. apply Hnotin. change k with (fst (k, v')). apply in_map. exact Hin.
Qed.

Lemma inverse_wf : forall m, wf (inverse_nocheck m).
Proof. intros. apply from_iter_wf. Qed.

Theorem get_inverse : forall m y x, wf m -> is_bijection m = true ->
  (get (inverse_nocheck m) y = Some x <-> get m x = Some y).
Proof.
  intros m y x Hwf Hbij. unfold inverse_nocheck. rewrite get_from_iter.
  assert (Hnd : NoDup (map fst (map swap m))).
  { rewrite map_map. cbn. apply nodupb_NoDup. exact Hbij. }
  split; intro H.
  - apply assoc_last_in in H. apply in_map_iff in H. destruct H as [[a b] [Heq Hin]].
    cbn in Heq. inversion Heq; subst. apply in_get; assumption.
  - apply in_assoc_last; [exact Hnd|]. apply in_map_iff. exists (x, y). split; [reflexivity|].
    apply get_in. exact H.
Qed.

(* without the bijection premise the inverse still only contains reversed pairs *)
Theorem get_inverse_sound : forall m y x, wf m ->
  get (inverse_nocheck m) y = Some x -> get m x = Some y.
Proof.
  intros m y x Hwf H. unfold inverse_nocheck in H. rewrite get_from_iter in H.
  apply assoc_last_in in H. apply in_map_iff in H. destruct H as [[a b] [Heq Hin]].
  cbn in Heq. inversion Heq; subst. apply in_get; assumption.
Qed.

Lemma inverse_bijection : forall m, wf m -> is_bijection m = true ->
  is_bijection (inverse_nocheck m) = true.
Proof.
  intros m Hwf Hbij. apply is_bijection_injective; [apply inverse_wf|].
  intros k1 k2 v H1 H2. apply (proj1 (get_inverse m _ _ Hwf Hbij)) in H1.
  apply (proj1 (get_inverse m _ _ Hwf Hbij)) in H2. congruence.
Qed.

Theorem inverse_involutive : forall m, wf m -> is_bijection m = true ->
  inverse_nocheck (inverse_nocheck m) = m.
Proof.
  intros m Hwf Hbij. apply ext_eq; [apply inverse_wf|exact Hwf|].
  pose proof (inverse_wf m) as Hwf'. pose proof (inverse_bijection m Hwf Hbij) as Hbij'.
  intro k. destruct (get m k) as [v|] eqn:E.
  - apply (proj2 (get_inverse _ k v Hwf' Hbij')). apply (proj2 (get_inverse _ v k Hwf Hbij)). exact E.
  - destruct (get (inverse_nocheck (inverse_nocheck m)) k) as [v|] eqn:E2; [|reflexivity].
    apply (proj1 (get_inverse _ k v Hwf' Hbij')) in E2.
    apply (proj1 (get_inverse _ v k Hwf Hbij)) in E2. congruence.
Qed.

(* identity *)
Lemma sset_insert_in : forall s x y, In y (sset_insert x s) <-> y = x \/ In y s.
Proof.
  induction s as [|z t IH]; intros x y; cbn.
  - intuition congruence.
  - destruct (x <? z) eqn:E1; cbn; [intuition congruence|].
    destruct (x =? z) eqn:E2; neq; cbn.
    + subst. intuition congruence.
    + rewrite IH. intuition congruence.
Qed.

Lemma sset_insert_slb : forall s x k, slb k s -> k < x -> slb k (sset_insert x s).
Proof.
  destruct s as [|z t]; intros x k Hs Hlt; cbn in *; [exact Hlt|].
  destruct (x <? z); [exact Hlt|]. destruct (x =? z); exact Hs.
Qed.

Lemma sset_insert_swf : forall s x, swf s -> swf (sset_insert x s).
Proof.
  induction s as [|z t IH]; intros x Hs; cbn in *; [auto|].
  destruct Hs as [Hlb Hs]. destruct (x <? z) eqn:E1; neq; cbn; [auto|].
  destruct (x =? z) eqn:E2; neq; cbn; [auto|].
  split; [|auto]. apply sset_insert_slb; [assumption|lia].
Qed.

Lemma sset_of_list_spec : forall l, swf (sset_of_list l) /\ (forall y, In y (sset_of_list l) <-> In y l).
Proof.
  intro l. unfold sset_of_list.
  assert (G : forall l acc, swf acc ->
            swf (fold_left (fun s x => sset_insert x s) l acc) /\
            (forall y, In y (fold_left (fun s x => sset_insert x s) l acc) <-> In y l \/ In y acc)).
  { clear. induction l as [|x t IH]; intros acc Hacc; cbn.
    - split; [assumption|]. intro y. tauto.
    - destruct (IH (sset_insert x acc) (sset_insert_swf _ _ Hacc)) as [H1 H2]. split; [assumption|].
      intro y. rewrite H2, sset_insert_in. intuition congruence. }
  destruct (G l [] I) as [H1 H2]. split; [assumption|].
  intro y. rewrite H2. cbn. tauto.
Qed.

Lemma keys_spec : forall m k, In k (keys m) <-> get m k <> None.
Proof.
  intros m k. unfold keys, keys_vec. rewrite (proj2 (sset_of_list_spec _)).
  induction m as [|[k' v'] t IH]; cbn.
  - split; [contradiction|congruence].
  - destruct (k =? k') eqn:E; neq.
    + subst. split; [discriminate|auto].
    + rewrite <- IH. intuition congruence.
Qed.

Lemma values_spec : forall m v, wf m -> (In v (values m) <-> exists k, get m k = Some v).
Proof.
  intros m v Hwf. unfold values, values_vec. rewrite (proj2 (sset_of_list_spec _)).
  rewrite in_map_iff. split.
  - intros [[k v'] [Heq Hin]]. cbn in Heq. subst. exists k. apply in_get; assumption.
  - intros [k Hg]. exists (k, v). split; [reflexivity|apply get_in; assumption].
Qed.

Theorem get_identity : forall s k, get (identity s) k = if sset_mem k s then Some k else None.
Proof.
  intros s k. unfold identity. rewrite get_from_iter.
  induction s as [|x t IH]; cbn; [reflexivity|].
  rewrite IH. destruct (sset_mem k t) eqn:E.
  - rewrite orb_true_r. reflexivity.
  - rewrite orb_false_r. destruct (k =? x) eqn:E2; neq; subst; reflexivity.
Qed.

Lemma sset_mem_in : forall s x, sset_mem x s = true <-> In x s.
Proof.
  induction s as [|y t IH]; intros x; cbn; [split; [discriminate|contradiction]|].
  rewrite orb_true_iff, IH, N.eqb_eq. intuition congruence.
Qed.

Theorem compose_inverse : forall m, wf m -> is_bijection m = true ->
  compose_partial m (inverse_nocheck m) = identity (keys m).
Proof.
  intros m Hwf Hbij. apply ext_eq; [apply compose_partial_wf|apply from_iter_wf|].
  intro k. rewrite get_compose_partial by assumption. rewrite get_identity.
  destruct (get m k) as [v|] eqn:E.
  - assert (sset_mem k (keys m) = true) as ->.
    { apply sset_mem_in. apply keys_spec. congruence. }
    apply get_inverse; assumption.
  - destruct (sset_mem k (keys m)) eqn:E2; [|reflexivity].
    apply sset_mem_in in E2. apply keys_spec in E2. congruence.
Qed.

(* try_union / union agreement test *)
Lemma agree_on_spec : forall b a, wf a -> NoDup (map fst b) ->
  (agree_on a b = true <->
   forall k v w, In (k, v) b -> get a k = Some w -> v = w).
Proof.
  induction b as [|[x y] t IH]; intros a Ha Hnd; cbn.
  - split; [intros _ k v w []|reflexivity].
  - inversion Hnd as [|? ? Hnotin Hnd']; subst.
    assert (Hstep : forall k v w, In (k, v) t ->
              (get (insert x y a) k = Some w <-> get a k = Some w)).
    { intros k v w Hin. rewrite get_insert by assumption.
      destruct (k =? x) eqn:E; neq; [|tauto].
      subst. exfalso. apply Hnotin. change x with (fst (x, v)). apply in_map. exact Hin. }
    destruct (get a x) as [z|] eqn:Ex.
    + rewrite andb_true_iff, (IH (insert x y a) (insert_wf _ _ _ Ha) Hnd'). split.
      * intros [Hyz Hrest] k v w [Heq|Hin] Hg.
        -- inversion Heq; subst. neq. congruence.
        -- apply (Hrest k v w Hin). apply (Hstep k v w Hin). exact Hg.
      * intro H. split.
        -- apply N.eqb_eq. apply (H x y z); auto.
        -- intros k v w Hin Hg. apply (H k v w); [auto|]. apply (Hstep k v w Hin). exact Hg.
    + rewrite (IH (insert x y a) (insert_wf _ _ _ Ha) Hnd'). split.
      * intros Hrest k v w [Heq|Hin] Hg.
        -- inversion Heq; subst. congruence.
        -- apply (Hrest k v w Hin). apply (Hstep k v w Hin). exact Hg.
      * intros H k v w Hin Hg. apply (H k v w); [auto|]. apply (Hstep k v w Hin). exact Hg.
Qed.

Theorem try_union_spec : forall a b, wf a -> wf b ->
  match try_union a b with
  | Some m => wf m /\ (forall k, get m k = match get b k with Some v => Some v | None => get a k end)
              /\ (forall k v w, get a k = Some v -> get b k = Some w -> v = w)
  | None => exists k v w, get a k = Some v /\ get b k = Some w /\ v <> w
  end.
Proof.
  intros a b Ha Hb. unfold try_union.
  pose proof (agree_on_spec b a Ha (wf_nodup_keys _ Hb)) as Hspec.
  destruct (agree_on a b) eqn:E.
  - split; [apply from_iter_onto_wf; assumption|]. split.
    + intro k. apply get_union; assumption.
    + intros k v w Hga Hgb. symmetry. apply (proj1 Hspec eq_refl k w v); [apply get_in; assumption|assumption].
  - (* a disagreeing key exists: search b *)
    assert (Hex : forall b' a', wf a' -> NoDup (map fst b') -> agree_on a' b' = false ->
                   exists k v w, In (k, v) b' /\ get a' k = Some w /\ v <> w).
    { clear. induction b' as [|[x y] t IH]; intros a' Ha' Hnd Hf; cbn in *; [discriminate|].
      inversion Hnd as [|? ? Hnotin Hnd']; subst.
      assert (Hlift : (exists k v w, In (k, v) t /\ get (insert x y a') k = Some w /\ v <> w) ->
                      exists k v w, ((x, y) = (k, v) \/ In (k, v) t) /\ get a' k = Some w /\ v <> w).
      { intros [k [v [w [Hin [Hg Hne]]]]]. exists k, v, w. split; [auto|]. split; [|assumption].
        rewrite get_insert in Hg by assumption. destruct (k =? x) eqn:E; [|assumption].
        apply N.eqb_eq in E. subst. exfalso. apply Hnotin. change x with (fst (x, v)). apply in_map. assumption. }
      destruct (get a' x) as [z|] eqn:Ex.
      - apply andb_false_iff in Hf. destruct Hf as [Hf|Hf].
        + exists x, y, z. split; [auto|]. split; [assumption|]. apply N.eqb_neq. assumption.
        + apply Hlift. apply IH; [apply insert_wf; assumption|assumption|assumption].
      - apply Hlift. apply IH; [apply insert_wf; assumption|assumption|assumption]. }
    destruct (Hex b a Ha (wf_nodup_keys _ Hb) E) as [k [v [w [Hin [Hg Hne]]]]].
    exists k, w, v. split; [assumption|]. split; [apply in_get; assumption|congruence].
Qed.

(* derived Eq/Ord depend only on the pair list, which is determined by the lookups *)
Lemma eqb_map_eq : forall a b, eqb_map a b = true <-> a = b.
Proof.
  induction a as [|[k v] t IH]; destruct b as [|[k' v'] t']; cbn; split; intro H; try discriminate; auto.
  - apply andb_true_iff in H. destruct H as [H1 H2]. apply andb_true_iff in H1. destruct H1 as [Hk Hv].
    neq. subst. f_equal. apply IH. assumption.
  - inversion H; subst. rewrite !N.eqb_refl. cbn. apply IH. reflexivity.
Qed.

Lemma cmp_map_eq : forall a b, cmp_map a b = Eq <-> a = b.
Proof.
  induction a as [|[k v] t IH]; destruct b as [|[k' v'] t']; cbn; split; intro H; try discriminate; auto.
  - unfold cmp_pair in H. cbn in H. destruct (k ?= k') eqn:E1; try discriminate.
    destruct (v ?= v') eqn:E2; try discriminate.
    apply N.compare_eq in E1, E2. subst. f_equal. apply IH. assumption.
  - inversion H; subst. unfold cmp_pair. cbn. rewrite !N.compare_refl. apply IH. reflexivity.
Qed.

Theorem eq_iff_same_lookups : forall a b, wf a -> wf b ->
  (eqb_map a b = true <-> forall k, get a k = get b k).
Proof.
  intros a b Ha Hb. rewrite eqb_map_eq. split; [intros ->; reflexivity|apply ext_eq; assumption].
Qed.

Theorem cmp_eq_iff_same_lookups : forall a b, wf a -> wf b ->
  (cmp_map a b = Eq <-> forall k, get a k = get b k).
Proof.
  intros a b Ha Hb. rewrite cmp_map_eq. split; [intros ->; reflexivity|apply ext_eq; assumption].
Qed.

(* compose_fresh: keys preserved, uncovered slots get successive fresh names *)
Lemma compose_fresh_go_wf : forall a b c out, wf out -> wf (fst (compose_fresh_go a b c out)).
Proof.
  induction a as [|[x y] t IH]; intros b c out Hout; cbn; [assumption|].
  destruct (get b y); apply IH; apply insert_wf; assumption.
Qed.

Lemma compose_fresh_go_ctr : forall a b c out, c <= snd (compose_fresh_go a b c out).
Proof.
  induction a as [|[x y] t IH]; intros b c out; cbn; [lia|].
  destruct (get b y); [apply IH|]. specialize (IH b (c + 4) (insert x c out)). lia.
Qed.

Lemma compose_fresh_go_get : forall a b c out k, wf out -> NoDup (map fst a) ->
  (forall x, In x (map fst a) -> get out x = None) ->
  match get (fst (compose_fresh_go a b c out)) k with
  | Some z =>
      get out k = Some z \/
      (exists y, In (k, y) a /\ (get b y = Some z \/ (get b y = None /\ c <= z < snd (compose_fresh_go a b c out) /\ z mod 4 = c mod 4)))
  | None => get out k = None /\ ~ In k (map fst a)
  end.
Proof.
  induction a as [|[x y] t IH]; intros b c out k Hout Hnd Hdis; cbn.
  - destruct (get out k); [left; reflexivity|split; [reflexivity|tauto]].
  - cbn in Hnd. inversion Hnd as [|? ? Hnotin Hnd']; subst.
    destruct (get b y) as [z|] eqn:Eb.
    + specialize (IH b c (insert x z out) k (insert_wf _ _ _ Hout) Hnd').
      assert (Hd' : forall x0, In x0 (map fst t) -> get (insert x z out) x0 = None).
      { intros x0 Hin. rewrite get_insert by assumption. destruct (x0 =? x) eqn:E; neq; [subst; contradiction|].
        apply Hdis. right. assumption. }
      specialize (IH Hd').
      destruct (get (fst (compose_fresh_go t b c (insert x z out))) k) as [z'|].
      * destruct IH as [IH|[y' [Hin Hc]]].
        -- rewrite get_insert in IH by assumption. destruct (k =? x) eqn:E; neq; [|left; assumption].
           subst. inversion IH; subst. right. exists y. split; [left; reflexivity|left; assumption].
        -- right. exists y'. split; [right; assumption|assumption].
      * destruct IH as [IH Hn]. rewrite get_insert in IH by assumption.
        destruct (k =? x) eqn:E; neq; [discriminate|]. split; [assumption|]. intros [H|H]; [congruence|contradiction].
    + specialize (IH b (c + 4) (insert x c out) k (insert_wf _ _ _ Hout) Hnd').
      assert (Hd' : forall x0, In x0 (map fst t) -> get (insert x c out) x0 = None).
      { intros x0 Hin. rewrite get_insert by assumption. destruct (x0 =? x) eqn:E; neq; [subst; contradiction|].
        apply Hdis. right. assumption. }
      specialize (IH Hd').
      pose proof (compose_fresh_go_ctr t b (c + 4) (insert x c out)) as Hc.
      destruct (get (fst (compose_fresh_go t b (c + 4) (insert x c out))) k) as [z'|].
      * destruct IH as [IH|[y' [Hin Hcase]]].
        -- rewrite get_insert in IH by assumption. destruct (k =? x) eqn:E; neq; [|left; assumption].
           subst. inversion IH; subst. right. exists y. split; [left; reflexivity|].
           right. split; [assumption|]. split; [lia|reflexivity].
        -- right. exists y'. split; [right; assumption|].
           destruct Hcase as [Hcase|[Hn [Hr Hm]]]; [left; assumption|].
           right. split; [assumption|]. split; [lia|].
           rewrite Hm. rewrite N.add_mod by lia. replace (4 mod 4) with 0 by reflexivity.
           rewrite N.add_0_r. apply N.mod_mod. lia.
      * destruct IH as [IH Hn]. rewrite get_insert in IH by assumption.
        destruct (k =? x) eqn:E; neq; [discriminate|]. split; [assumption|]. intros [H|H]; [congruence|contradiction].
Qed.

Theorem compose_fresh_spec : forall a b c k, wf a ->
  let r := compose_fresh a b c in
  wf (fst r) /\ c <= snd r /\
  match get a k with
  | None => get (fst r) k = None
  | Some y =>
      match get b y with
      | Some z => get (fst r) k = Some z
      | None => exists z, get (fst r) k = Some z /\ c <= z < snd r /\ z mod 4 = c mod 4
      end
  end.
Proof.
  intros a b c k Ha r. subst r. unfold compose_fresh.
  split; [apply compose_fresh_go_wf; exact I|]. split; [apply compose_fresh_go_ctr|].
  pose proof (compose_fresh_go_get a b c [] k I (wf_nodup_keys _ Ha) (fun _ _ => eq_refl)) as H.
  destruct (get (fst (compose_fresh_go a b c [])) k) as [z|] eqn:E.
  - destruct H as [H|[y [Hin Hc]]]; [discriminate|].
    rewrite (in_get a k y Ha Hin).
    destruct Hc as [Hc|[Hn Hr]]; [rewrite Hc; reflexivity|].
    rewrite Hn. exists z. split; [reflexivity|assumption].
  - destruct H as [_ Hn]. destruct (get a k) as [y|] eqn:Eg; [|reflexivity].
    exfalso. apply Hn. apply get_in in Eg. change k with (fst (k, y)). apply in_map. assumption.
Qed.

(* every machine operation preserves well-formedness of the result *)
Lemma union_wf : forall a b, wf a -> wf (union_nocheck a b).
Proof. intros. apply from_iter_onto_wf. assumption. Qed.

Lemma bff_go_wf : forall s c out, wf out -> wf (fst (bff_go s c out)).
Proof.
  induction s as [|x t IH]; intros c out Hout; cbn; [assumption|]. apply IH. apply insert_wf. assumption.
Qed.
