(* Slots/SlotMapMachine.v — the operation machine used by the C19 correspondence:
   four registers holding slot maps, the thread's fresh counter, and one
   observation per operation.  The Rust harness interprets the same op list with
   the real `SlotMap` (harness/src/c19.rs). *)
From SE Require Export Slots.SlotMap.

Record mstate := { regs : list slotmap; ctr : N }.

Inductive mop :=
| OIns (r : nat) (l v : slot)
| ORem (r : nat) (x : slot)
| OInv (r d : nat)
| OComp (r1 r2 d : nat)
| OCompP (r1 r2 d : nat)
| OCompF (r1 r2 d : nat)
| OIdentK (r d : nat)
| OIdentV (r d : nat)
| OBff (r d : nat)
| OUnion (r1 r2 d : nat)
| OTUnion (r1 r2 d : nat)
| OFromP (d : nat) (ps : list (slot * slot))
| OGet (r : nat) (k : slot)
| OIdx (r : nat) (k : slot)
| OQuery (r : nat)
| OCmp (r1 r2 : nat).

Definition reg (s : mstate) (r : nat) : slotmap :=
  match nth_opt (regs s) r with Some m => m | None => [] end.
Definition setreg (s : mstate) (d : nat) (m : slotmap) : mstate :=
  {| regs := set_nth (regs s) d m; ctr := ctr s |}.

(* slots on the wire: 4u -> u ; 4k+1 -> (f k) ; 4i+2 -> (n i) *)
Definition slot_sexp (x : slot) : sexp :=
  let r := x mod 4 in
  if r =? 0 then Num (x / 4)
  else if r =? 1 then Lst [Sym "f"; Num (x / 4)]
  else if r =? 2 then Lst [Sym "n"; Num (x / 4)]
  else Lst [Sym "bad"; Num x].

Definition map_sexp (m : slotmap) : sexp :=
  Lst (Sym "m" :: map (fun p => Lst [slot_sexp (fst p); slot_sexp (snd p)]) m).
Definition set_sexp (s : list slot) : sexp := Lst (map slot_sexp s).

Definition cmp_sexp (c : comparison) : sexp :=
  match c with Lt => Sym "lt" | Eq => Sym "eq" | Gt => Sym "gt" end.

(* step: new state and the observation *)
Definition mstep (checks : bool) (s : mstate) (o : mop) : res (mstate * sexp) :=
  match o with
  | OIns r l v => let m := insert l v (reg s r) in Ok (setreg s r m, map_sexp m)
  | ORem r x => let m := remove x (reg s r) in Ok (setreg s r m, map_sexp m)
  | OInv r d => do m <- inverse checks (reg s r); Ok (setreg s d m, map_sexp m)
  | OComp r1 r2 d => do m <- compose checks (reg s r1) (reg s r2); Ok (setreg s d m, map_sexp m)
  | OCompP r1 r2 d => let m := compose_partial (reg s r1) (reg s r2) in Ok (setreg s d m, map_sexp m)
  | OCompF r1 r2 d =>
      let '(m, c) := compose_fresh (reg s r1) (reg s r2) (ctr s) in
      Ok ({| regs := set_nth (regs s) d m; ctr := c |}, map_sexp m)
  | OIdentK r d => let m := identity (keys (reg s r)) in Ok (setreg s d m, map_sexp m)
  | OIdentV r d => let m := identity (values (reg s r)) in Ok (setreg s d m, map_sexp m)
  | OBff r d =>
      let '(m, c) := bijection_from_fresh_to (values (reg s r)) (ctr s) in
      Ok ({| regs := set_nth (regs s) d m; ctr := c |}, map_sexp m)
  | OUnion r1 r2 d => do m <- union checks (reg s r1) (reg s r2); Ok (setreg s d m, map_sexp m)
  | OTUnion r1 r2 d =>
      match try_union (reg s r1) (reg s r2) with
      | Some m => Ok (setreg s d m, Lst [Sym "some"; map_sexp m])
      | None => Ok (s, Sym "none")
      end
  | OFromP d ps => do m <- from_pairs checks ps; Ok (setreg s d m, map_sexp m)
  | OGet r k => Ok (s, Lst [opt_sexp slot_sexp (get (reg s r) k); sbool (contains_key (reg s r) k)])
  | OIdx r k => do v <- index (reg s r) k; Ok (s, slot_sexp v)
  | OQuery r =>
      let m := reg s r in
      Ok (s, Lst [Num (N.of_nat (length m)); sbool (match m with [] => true | _ => false end);
                  sbool (is_bijection m); sbool (is_perm m);
                  set_sexp (keys m); set_sexp (values m);
                  set_sexp (keys_vec m); set_sexp (values_vec m)])
  | OCmp r1 r2 =>
      Ok (s, Lst [cmp_sexp (cmp_map (reg s r1) (reg s r2)); sbool (eqb_map (reg s r1) (reg s r2));
                  (* third component: hash equality on the Rust side, a function of the pair list *)
                  sbool (eqb_map (reg s r1) (reg s r2))])
  end.

Fixpoint mrun (checks : bool) (s : mstate) (ops : list mop) : list sexp :=
  match ops with
  | [] => []
  | o :: t =>
      match mstep checks s o with
      | Ok (s', obs) => obs :: mrun checks s' t
      | Err e => [Lst [Sym "err"; site_sexp e]]
      end
  end.

Definition minit : mstate := {| regs := [[]; []; []; []]; ctr := 1 |}.

(* ---- decoding ops from the wire ---- *)
Definition dec_slot (e : sexp) : option slot :=
  match e with
  | Num u => Some (4 * u)
  | Lst [Sym "f"; Num k] => Some (4 * k + 1)
  | Lst [Sym "n"; Num k] => Some (4 * k + 2)
  | _ => None
  end.
Definition dec_reg (e : sexp) : option nat :=
  match e with Num r => Some (N.to_nat r) | _ => None end.

Fixpoint dec_pairs (l : list sexp) : option (list (slot * slot)) :=
  match l with
  | [] => Some []
  | Lst [a; b] :: t =>
      match dec_slot a, dec_slot b, dec_pairs t with
      | Some x, Some y, Some r => Some ((x, y) :: r)
      | _, _, _ => None
      end
  | _ => None
  end.

Definition o2 {A} (f : nat -> nat -> A) a b := match dec_reg a, dec_reg b with Some x, Some y => Some (f x y) | _, _ => None end.
Definition o3 {A} (f : nat -> nat -> nat -> A) a b c :=
  match dec_reg a, dec_reg b, dec_reg c with Some x, Some y, Some z => Some (f x y z) | _, _, _ => None end.

Definition dec_op (e : sexp) : option mop :=
  match e with
  | Lst [Sym "ins"; r; l; v] =>
      match dec_reg r, dec_slot l, dec_slot v with Some r, Some l, Some v => Some (OIns r l v) | _, _, _ => None end
  | Lst [Sym "rem"; r; x] =>
      match dec_reg r, dec_slot x with Some r, Some x => Some (ORem r x) | _, _ => None end
  | Lst [Sym "inv"; r; d] => o2 OInv r d
  | Lst [Sym "comp"; a; b; d] => o3 OComp a b d
  | Lst [Sym "compp"; a; b; d] => o3 OCompP a b d
  | Lst [Sym "compf"; a; b; d] => o3 OCompF a b d
  | Lst [Sym "identk"; r; d] => o2 OIdentK r d
  | Lst [Sym "identv"; r; d] => o2 OIdentV r d
  | Lst [Sym "bff"; r; d] => o2 OBff r d
  | Lst [Sym "union"; a; b; d] => o3 OUnion a b d
  | Lst [Sym "tunion"; a; b; d] => o3 OTUnion a b d
  | Lst (Sym "fromp" :: d :: ps) =>
      match dec_reg d, dec_pairs ps with Some d, Some ps => Some (OFromP d ps) | _, _ => None end
  | Lst [Sym "get"; r; k] =>
      match dec_reg r, dec_slot k with Some r, Some k => Some (OGet r k) | _, _ => None end
  | Lst [Sym "idx"; r; k] =>
      match dec_reg r, dec_slot k with Some r, Some k => Some (OIdx r k) | _, _ => None end
  | Lst [Sym "q"; r] => match dec_reg r with Some r => Some (OQuery r) | None => None end
  | Lst [Sym "cmp"; a; b] => o2 OCmp a b
  | _ => None
  end.

Fixpoint dec_ops (l : list sexp) : option (list mop) :=
  match l with
  | [] => Some []
  | e :: t => match dec_op e, dec_ops t with Some o, Some r => Some (o :: r) | _, _ => None end
  end.

(* case: (c19 <checks:0|1> op ...) ; observation: (obs o1 o2 ...) *)
Definition run_c19 (args : list sexp) : sexp :=
  match args with
  | Num c :: ops =>
      match dec_ops ops with
      | Some ops => Lst (Sym "obs" :: mrun (negb (c =? 0)) minit ops)
      | None => Sym "bad-case"
      end
  | _ => Sym "bad-case"
  end.
