(* every operation of the C19 machine keeps every register well formed *)
From SE Require Import Slots.SlotMap Slots.SlotMapMachine Slots.SlotMapFacts.
From Coq Require Import Lia.

Definition all_wf (s : mstate) : Prop := Forall wf (regs s).

Lemma reg_wf : forall s r, all_wf s -> wf (reg s r).
Proof.
  intros s r H. unfold reg. destruct (nth_opt (regs s) r) eqn:E; [|exact I].
  unfold all_wf in H. revert r E. induction H as [|m l Hm Hl IH]; intros r E; [destruct r; discriminate|].
  destruct r; cbn in E; [inversion E; subst; assumption|eauto].
Qed.

Lemma set_nth_Forall : forall {A} (P : A -> Prop) l n x, Forall P l -> P x -> Forall P (set_nth l n x).
Proof.
  induction l as [|y t IH]; intros n x Hl Hx; cbn; [constructor|].
  inversion Hl; subst. destruct n; constructor; auto.
Qed.

Lemma setreg_wf : forall s d m, all_wf s -> wf m -> all_wf (setreg s d m).
Proof. intros. unfold all_wf, setreg. cbn. apply set_nth_Forall; assumption. Qed.

Lemma minit_wf : all_wf minit.
Proof. repeat constructor. Qed.

Theorem mstep_wf : forall checks s o s' obs,
  all_wf s -> mstep checks s o = Ok (s', obs) -> all_wf s'.
Proof.
  intros checks s o s' obs Hs H. destruct o; cbn in H.
  - inversion H; subst. apply setreg_wf; [assumption|]. apply insert_wf. apply reg_wf. assumption.
  - inversion H; subst. apply setreg_wf; [assumption|]. apply remove_wf. apply reg_wf. assumption.
  - unfold inverse in H. destruct (checks && negb (is_bijection (reg s r))); [discriminate|].
    cbn in H. inversion H; subst. apply setreg_wf; [assumption|apply inverse_wf].
  - unfold compose in H. destruct (checks && _); [discriminate|]. cbn in H. inversion H; subst.
    apply setreg_wf; [assumption|apply compose_partial_wf].
  - inversion H; subst. apply setreg_wf; [assumption|apply compose_partial_wf].
  - destruct (compose_fresh (reg s r1) (reg s r2) (ctr s)) as [m c] eqn:E. inversion H; subst.
    unfold all_wf. cbn. apply set_nth_Forall; [assumption|].
    change m with (fst (m, c)). rewrite <- E. apply compose_fresh_go_wf. exact I.
  - inversion H; subst. apply setreg_wf; [assumption|apply from_iter_wf].
  - inversion H; subst. apply setreg_wf; [assumption|apply from_iter_wf].
  - destruct (bijection_from_fresh_to (values (reg s r)) (ctr s)) as [m c] eqn:E. inversion H; subst.
    unfold all_wf. cbn. apply set_nth_Forall; [assumption|].
    change m with (fst (m, c)). rewrite <- E. apply bff_go_wf. exact I.
  - unfold union in H. destruct (checks && _); [discriminate|]. cbn in H. inversion H; subst.
    apply setreg_wf; [assumption|]. apply union_wf. apply reg_wf. assumption.
  - destruct (try_union (reg s r1) (reg s r2)) as [m|] eqn:E; inversion H; subst; [|assumption].
    apply setreg_wf; [assumption|]. unfold try_union in E. destruct (agree_on _ _); [|discriminate].
    inversion E; subst. apply union_wf. apply reg_wf. assumption.
  - unfold from_pairs in H. destruct (checks && _); [discriminate|]. cbn in H. inversion H; subst.
    apply setreg_wf; [assumption|apply from_iter_wf].
  - inversion H; subst. assumption.
  - destruct (index (reg s r) k); cbn in H; [|discriminate]. inversion H; subst. assumption.
  - inversion H; subst. assumption.
  - inversion H; subst. assumption.
Qed.

(* every state reachable by any operation sequence is well formed *)
Fixpoint mstates (checks : bool) (s : mstate) (ops : list mop) : list mstate :=
  match ops with
  | [] => [s]
  | o :: t => s :: match mstep checks s o with Ok (s', _) => mstates checks s' t | Err _ => [] end
  end.

Theorem reachable_wf : forall checks ops s, all_wf s -> Forall all_wf (mstates checks s ops).
Proof.
  intros checks ops. induction ops as [|o t IH]; intros s Hs; cbn; [repeat constructor; assumption|].
  constructor; [assumption|]. destruct (mstep checks s o) as [[s' obs]|] eqn:E; [|constructor].
  apply IH. eapply mstep_wf; eauto.
Qed.
