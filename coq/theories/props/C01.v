(* C01 — Equality is sound: no equality is reported that the input does not imply.
   The e-graph algorithm itself is not proved sound here (C01_full is stated, not proved).
   What IS proved are the three certificate principles with which every equality the implementation
   reports is judged on every run:
   (1) an equality confirmed by the bounded closure is implied (C01_confirmed_by_closure),
   (2) an equality whose explanation the checker accepts is implied (C01_confirmed_by_explanation),
   (3) an equality that fails in some algebra validating all asserted equations is NOT implied
       (C01_refuted_by_model: `Deriv` is sound for evaluation in every algebra, binders included). *)
From SE Require Import Sem.Closure Sem.ClosureFacts Sem.Algebra Sem.AlgebraFacts Explain.Checker Explain.CheckerFacts.

Theorem C01_confirmed_by_closure : forall pool maxd fuel E terms s t,
  gcc pool maxd fuel E terms s t = true -> Deriv E 0 s t.
Proof. exact gcc_sound. Qed.
Print Assumptions C01_confirmed_by_closure.

Theorem C01_confirmed_by_explanation : forall A p ql qr,
  check_proof A p ql qr = true -> Deriv (eqs_of_asserted A) 0 ql qr.
Proof. exact check_proof_sound. Qed.
Print Assumptions C01_confirmed_by_explanation.

Theorem C01_refuted_by_model : forall (D : Type) (interp : nat -> list (sval D) -> D) (E : equations) s t env,
  valid D interp E -> eval D interp 0 env s <> eval D interp 0 env t -> ~ Deriv E 0 s t.
Proof. intros D interp E s t env Hv Hne Hd. apply Hne. eapply Deriv_sound; eauto. Qed.
Print Assumptions C01_refuted_by_model.

Definition C01_full : Prop :=
  forall (eq_reported : equations -> cterm -> cterm -> bool) E s t,
    eq_reported E s t = true -> Deriv E 0 s t.
