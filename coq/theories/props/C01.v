(* C01 — Equality is sound: no equality is reported that the input does not imply.
   SECOND SESSION - soundness of the e-graph MODEL itself is PROVED (EGraph/Sound*.v, NodeCong.v, ShapeCong.v,
   EntriesPersist.v, KidsCov.v, KeyInv.v, SynNodup.v, ...; about 20 000 lines, no axiom):
     C01_model_sound : for every history of insertions and unions whose terms use user slot names only and have
       one child per invocation position, if the model reports two handles equal then the two inserted terms are
       derivable-equal (Deriv) from the equations asserted by the unions of that history.
   The invariant `Sound E s` (every union-find edge, every stored e-node and every member of every class group relates
   terms that are Deriv-equal from E under all compatible renamings) holds in the empty e-graph and is preserved by
   insertion, by union (move_to, shrink_slots, group extension) and by the whole of rebuild (re-canonicalisation,
   upward shrink, hash-cons hits, self-symmetries, re-adding).  The hash-cons-hit step composes the bijections of two
   separately computed weak shapes without comparing them; that they agree at every call is carried by the run
   invariant KS (every stored key is node-congruent to its source's syntactic node) - SoundClosed.v.
   C01_model_sound_modulo_congruence and C01_model_sound_certified (guarded model, evaluated per run) are the two
   earlier forms, kept: the second also tells, for each explored history, that the guard never fired.
   The implementation is tied to the model by the per-run agreement of the equality matrices after every operation;
   for unexplored histories that tie is the remaining gap.
   ALSO proved are the three certificate principles with which every equality the implementation
   reports is judged on every run:
   (1) an equality confirmed by the bounded closure is implied (C01_confirmed_by_closure),
   (2) an equality whose explanation the checker accepts is implied (C01_confirmed_by_explanation),
   (3) an equality that fails in some algebra validating all asserted equations is NOT implied
       (C01_refuted_by_model: `Deriv` is sound for evaluation in every algebra, binders included). *)
From SE Require Import Sem.Closure Sem.ClosureFacts Sem.Algebra Sem.AlgebraFacts Explain.Checker Explain.CheckerFacts.

Theorem C01_confirmed_by_closure : forall pool maxd fuel E terms s t,
  gcc pool maxd fuel E terms s t = true -> Deriv E 0 s t.
Proof. exact gcc_sound. Qed.
Print Assumptions C01_confirmed_by_closure.

Theorem C01_confirmed_by_explanation : forall A p ql qr,
  check_proof A p ql qr = true -> Deriv (eqs_of_asserted A) 0 ql qr.
Proof. exact check_proof_sound. Qed.
Print Assumptions C01_confirmed_by_explanation.

Theorem C01_refuted_by_model : forall (D : Type) (interp : nat -> list (sval D) -> D) (E : equations) s t env,
  valid D interp E -> eval D interp 0 env s <> eval D interp 0 env t -> ~ Deriv E 0 s t.
Proof. intros D interp E s t env Hv Hne Hd. apply Hne. eapply Deriv_sound; eauto. Qed.
Print Assumptions C01_refuted_by_model.

Definition C01_full : Prop :=
  forall (eq_reported : equations -> cterm -> cterm -> bool) E s t,
    eq_reported E s t = true -> Deriv E 0 s t.

(* ---------- soundness of the e-graph model ---------- *)
From SE Require Import EGraph.Model EGraph.ModelMachine EGraph.SoundFacts EGraph.SoundAddExpr EGraph.SoundPending
  EGraph.SoundReadd EGraph.SoundFinal EGraph.SoundMachine.

Theorem C01_model_sound_modulo_congruence : spec_HC_sim_x syn_cov ->
  forall terms ops hs s i j a b ti tj,
  List.Forall rt_ok terms -> List.Forall rt_wf terms ->
  run_ops terms ops [] empty_egraph = Ok (hs, s) ->
  nth_opt hs i = Some a -> nth_opt hs j = Some b ->
  nth_opt (handle_cterms terms ops) i = Some ti -> nth_opt (handle_cterms terms ops) j = Some tj ->
  eg_eq s a b = Ok true -> Deriv (asserted terms ops) 0 ti tj.
Proof. exact equality_sound_modulo_congruence. Qed.
Print Assumptions C01_model_sound_modulo_congruence.

(* unconditional: the fact about handle_congruence is discharged in EGraph/SoundClosed.v *)
From SE Require Import EGraph.SoundClosed.
Theorem C01_model_sound : forall terms ops hs s i j a b ti tj,
  List.Forall rt_ok terms -> List.Forall rt_wf terms ->
  run_ops terms ops [] empty_egraph = Ok (hs, s) ->
  nth_opt hs i = Some a -> nth_opt hs j = Some b ->
  nth_opt (handle_cterms terms ops) i = Some ti -> nth_opt (handle_cterms terms ops) j = Some tj ->
  eg_eq s a b = Ok true -> Deriv (asserted terms ops) 0 ti tj.
Proof. exact equality_sound_all. Qed.
Print Assumptions C01_model_sound.

Theorem C01_model_sound_certified : forall terms ops hs s i j a b ti tj,
  sound_premises terms ops = true ->
  run_ops terms ops [] empty_egraph = Ok (hs, s) ->
  nth_opt hs i = Some a -> nth_opt hs j = Some b ->
  nth_opt (handle_cterms terms ops) i = Some ti -> nth_opt (handle_cterms terms ops) j = Some tj ->
  eg_eq s a b = Ok true -> Deriv (asserted terms ops) 0 ti tj.
Proof. exact equality_sound_certified. Qed.
Print Assumptions C01_model_sound_certified.

(* with ONE static, decidable premise on the inserted terms (EGraph/OpsPreFacts.v: term_static_user = arity-correct children,
   pairwise distinct binders per node, slot names of the two user residues) *)
From SE Require Import EGraph.OpsPreFacts.
Theorem C01_model_sound_for_all_histories : forall terms ops hs s i j a b ti tj, List.Forall term_static_user terms ->
  run_ops terms ops [] empty_egraph = Ok (hs, s) ->
  nth_opt hs i = Some a -> nth_opt hs j = Some b ->
  nth_opt (handle_cterms terms ops) i = Some ti -> nth_opt (handle_cterms terms ops) j = Some tj ->
  eg_eq s a b = Ok true -> Deriv (asserted terms ops) 0 ti tj.
Proof. exact equality_sound_all_static. Qed.
Print Assumptions C01_model_sound_for_all_histories.

(* with completeness (EGraph/Complete.v, C02_completeness): the model's equality on handles DECIDES the specified congruence *)
From SE Require Import EGraph.Complete.
Theorem C01_model_equality_is_exactly_the_congruence : forall terms ops hs s i j a b ti tj, List.Forall term_static_user terms ->
  run_ops terms ops [] empty_egraph = Ok (hs, s) -> nth_opt hs i = Some a -> nth_opt hs j = Some b ->
  nth_opt (handle_cterms terms ops) i = Some ti -> nth_opt (handle_cterms terms ops) j = Some tj ->
  (eg_eq s a b = Ok true <-> Deriv (asserted terms ops) 0 ti tj).
Proof. exact eq_iff_deriv. Qed.
Print Assumptions C01_model_equality_is_exactly_the_congruence.
