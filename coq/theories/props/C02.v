(* STATUS NOTE (third session): remarks of the form "NOT PROVED" in the comments below were written when the first theorems of this
   file were stated; theorems added further down in this file supersede them.  The current status of the property is the row of
   DESIGN.md section 14.4; the premises that remain are listed in DESIGN.md section 14.9. *)
(* C02 — Congruence closure is complete: every implied equality is reported.
   The expected answer is computed, as the property's quantifier says, by a brute-force ground
   congruence closure over a finite name pool (Sem/Closure.v).  PROVED here: that closure is SOUND
   for the congruence `Deriv` (smallest relation containing all injective renamings of the
   asserted equations, closed under reflexivity, symmetry, transitivity and node congruence under
   binders; alpha-equivalence is built into canonical terms) — so every pair it derives really is
   implied, and an implementation that answers "not equal" on such a pair violates C02, with the
   closure's run as a kernel-grade reason.
   PROVED at the end of this file (EGraph/Complete*.v): the MODEL is complete for `Deriv` — for every history over
   terms satisfying the static premise `term_static_user`, derivably equal handle terms compare equal
   (`C02_completeness`), hence `eg_eq` on handles decides exactly `Deriv` (`C02_eq_iff_deriv`), the answers do not
   depend on order / orientation / repetition of the asserted equations (`C02_order_independence`) and are
   equivariant under renaming of the user slots (`C02_equivariance`). *)
From SE Require Import Sem.Closure Sem.ClosureFacts Sem.EgMachine.
From SE Require Import EGraph.Model EGraph.ModelMachine EGraph.PendingFacts EGraph.UnionFindFacts EGraph.AddCoversFacts EGraph.MonotoneFacts.

Theorem C02_closure_sound : forall pool maxd fuel E terms a b,
  same_cls (gcc_part pool maxd fuel E terms) a b = true ->
  fst a = fst b /\ Deriv E (fst a) (snd a) (snd b).
Proof. exact gcc_part_sound. Qed.
Print Assumptions C02_closure_sound.

Theorem C02_gcc_sound : forall pool maxd fuel E terms s t,
  gcc pool maxd fuel E terms s t = true -> Deriv E 0 s t.
Proof. exact gcc_sound. Qed.
Print Assumptions C02_gcc_sound.

(* "immediately after union returns": the model has no deferred work — when eg_union (or add_expr) returns, the
   worklist of pending e-nodes is empty, in every reachable state (EGraph/PendingFacts.v).  Whatever the e-graph
   will ever conclude from the equations asserted so far, it has concluded when the call returns. *)
Theorem C02_no_deferred_work_after_union : forall l r s b s', eg_union l r s = Ok (b, s') -> pending s' = [].
Proof. exact eg_union_drains. Qed.
Print Assumptions C02_no_deferred_work_after_union.

Theorem C02_no_deferred_work_reachable : forall terms ops hs s,
  run_ops terms ops [] empty_egraph = Ok (hs, s) -> pending s = [].
Proof. exact reachable_no_pending_empty. Qed.
Print Assumptions C02_no_deferred_work_reachable.

(* the asserted pair itself: when eg_union l r returns, l and r compare equal (every reachable state satisfies inv3,
   every handle is covered: AddCoversFacts.reachable_inv3); EGraph/MonotoneFacts.v *)
Theorem C02_union_establishes_the_asserted_equality : forall l r s x s',
  inv3 s -> covers s l -> covers s r -> eg_union l r s = Ok (x, s') -> eg_eq s' l r = Ok true.
Proof. exact eg_union_establishes. Qed.
Print Assumptions C02_union_establishes_the_asserted_equality.

(* THE CONGRUENCE CLAUSE on the model (EGraph/CongruenceFacts.v): in a state in which the operation has returned
   (inv3, hash-cons invariant hc_ok, worklist empty), two represented e-nodes of the same operator whose children are
   pairwise equal are themselves equal - in particular, immediately after eg_union a b every pair of represented
   parents f(..a..) / f(..b..) is equal.  Premise ss_ok (every symmetry of a stored e-node that is induced by
   symmetries of its children is in its class group - what determine_self_symmetries is there to establish): decidable
   (ss_okb, sound), NOT proved to be a reachable invariant, evaluated on every explored state (machine egc); false in
   the middle of a union (counterexample node_congruence_false_mid_union), which is why the clause is about states in
   which the operation has returned. *)
From SE Require Import EGraph.ModelFacts EGraph.HashconsFacts EGraph.NodeCong EGraph.CongruenceFacts.

Theorem C02_congruence_of_represented_nodes : forall s n l x1 x2,
  inv3 s -> hc_ok s -> ss_okb s = true -> List.NoDup (RenameFacts.binders n) ->
  List.Forall2 (kid_eq s) (app_occ n) l ->
  eg_lookup s n = Ok (Some x1) -> eg_lookup s (set_apps n l) = Ok (Some x2) -> eg_eq s x1 x2 = Ok true.
Proof. exact node_congruence_checked. Qed.
Print Assumptions C02_congruence_of_represented_nodes.

Theorem C02_congruence_immediately_after_union : forall a b s u s',
  inv3 s -> hc_ok s -> covers s a -> covers s b -> eg_union a b s = Ok (u, s') -> ss_ok s' ->
  inv3 s' /\ hc_ok s' /\ pending s' = [] /\ eg_eq s' a b = Ok true /\
  (forall n l x1 x2, List.NoDup (RenameFacts.binders n) -> List.Forall (covers s') (app_occ n) ->
     List.Forall2 (swap_ab a b) (app_occ n) l ->
     eg_lookup s' n = Ok (Some x1) -> eg_lookup s' (set_apps n l) = Ok (Some x2) -> eg_eq s' x1 x2 = Ok true).
Proof. exact union_congruence. Qed.
Print Assumptions C02_congruence_immediately_after_union.

(* third session (EGraph/SelfSym*.v, eight files): `ss_ok` is PROVED for every state in which an operation has returned
   (invariant `sse` with the pending / in-flight exemption, plus source coherence `srcx`, through move_to, shrink_slots,
   handle_pending incl. determine_self_symmetries, rebuild, insertion and union).  Hence the congruence clause holds for
   every reachable state with no checked premise: represented nodes with pairwise-equal children are equal, terms
   that are congruent subterm by subterm are equal, and immediately after a union the two united invocations can be
   exchanged in any represented node.  `exemption_needed` (SelfSymCheck.v) shows that without the final
   determine_self_symmetries the invariant fails. *)
From SE Require Import EGraph.ModelMachine EGraph.Model9 EGraph.KidEqFacts EGraph.SelfSymFacts.

Theorem C02_self_symmetries_complete_reachable : forall terms ops hs s, ops_pre terms ops [] empty_egraph ->
  run_ops terms ops [] empty_egraph = Ok (hs, s) -> ss_ok s.
Proof. exact reachable_ss_ok. Qed.
Print Assumptions C02_self_symmetries_complete_reachable.

Theorem C02_congruence_reachable : forall terms ops hs s n l x1 x2, ops_pre terms ops [] empty_egraph ->
  run_ops terms ops [] empty_egraph = Ok (hs, s) -> List.NoDup (RenameFacts.binders n) -> List.Forall2 (kid_eq s) (app_occ n) l ->
  eg_lookup s n = Ok (Some x1) -> eg_lookup s (set_apps n l) = Ok (Some x2) -> eg_eq s x1 x2 = Ok true.
Proof. exact node_congruence_reachable. Qed.
Print Assumptions C02_congruence_reachable.

Theorem C02_term_congruence_reachable : forall terms ops hs s t1 t2 x1 x2, ops_pre terms ops [] empty_egraph ->
  run_ops terms ops [] empty_egraph = Ok (hs, s) -> tcong s t1 t2 ->
  lookup_rec s t1 = Ok (Some x1) -> lookup_rec s t2 = Ok (Some x2) -> eg_eq s x1 x2 = Ok true.
Proof. exact term_congruence_reachable. Qed.
Print Assumptions C02_term_congruence_reachable.

Theorem C02_congruence_immediately_after_union_reachable : forall terms ops hs s a b u s', ops_pre terms ops [] empty_egraph ->
  run_ops terms ops [] empty_egraph = Ok (hs, s) -> List.In a hs -> List.In b hs -> eg_union a b s = Ok (u, s') ->
  inv3 s' /\ hc_ok s' /\ pending s' = [] /\ ss_ok s' /\ eg_eq s' a b = Ok true /\
  forall n l x1 x2, List.NoDup (RenameFacts.binders n) -> List.Forall (covers s') (app_occ n) -> List.Forall2 (swap_ab a b) (app_occ n) l ->
    eg_lookup s' n = Ok (Some x1) -> eg_lookup s' (set_apps n l) = Ok (Some x2) -> eg_eq s' x1 x2 = Ok true.
Proof. exact union_congruence_reachable. Qed.
Print Assumptions C02_congruence_immediately_after_union_reachable.

(* the informal shape of the completeness statement; its precise form for the model is `C02_completeness` below *)
Definition C02_full : Prop :=
  forall (eq_reported : equations -> cterm -> cterm -> bool) E s t,
    Deriv E 0 s t -> eq_reported E s t = true.

(* non-vacuity: from g(1,2,3) = g(2,3,1) the closure derives g(1,2,3) = g(3,1,2), and u(..) by congruence *)
Definition gN (a b c : N) : cterm := CT 1 [CSlot (4*a); CSlot (4*b); CSlot (4*c)].
Example C02_nonvacuous :
  gcc [4;8;12;16] 0 4 [(gN 1 2 3, gN 2 3 1)] [CT 6 [CChild (gN 1 2 3)]; CT 6 [CChild (gN 3 1 2)]]
      (CT 6 [CChild (gN 1 2 3)]) (CT 6 [CChild (gN 3 1 2)]) = true /\
  gcc [4;8;12;16] 0 4 [(gN 1 2 3, gN 2 3 1)] [] (gN 1 2 3) (gN 2 1 3) = false.
Proof. split; vm_compute; reflexivity. Qed.

(* the same with ONE static, decidable premise on the inserted terms (EGraph/OpsPreFacts.v: term_static = every node has
   arity-correct children, pairwise distinct binders and no slot name of the fresh residue 1 mod 4): for EVERY history of
   insertions and unions over such terms *)
From SE Require Import EGraph.OpsPreFacts.
Theorem C02_congruence_for_all_histories : forall terms ops hs s n l x1 x2, List.Forall term_static terms ->
  run_ops terms ops [] empty_egraph = Ok (hs, s) -> List.NoDup (RenameFacts.binders n) -> List.Forall2 (kid_eq s) (app_occ n) l ->
  eg_lookup s n = Ok (Some x1) -> eg_lookup s (set_apps n l) = Ok (Some x2) -> eg_eq s x1 x2 = Ok true.
Proof. exact node_congruence_reachable_static. Qed.
Print Assumptions C02_congruence_for_all_histories.

Theorem C02_congruence_immediately_after_union_for_all_histories : forall terms ops hs s a b u s', List.Forall term_static terms ->
  run_ops terms ops [] empty_egraph = Ok (hs, s) -> List.In a hs -> List.In b hs -> eg_union a b s = Ok (u, s') ->
  inv3 s' /\ hc_ok s' /\ pending s' = [] /\ ss_ok s' /\ eg_eq s' a b = Ok true /\
  forall n l x1 x2, List.NoDup (RenameFacts.binders n) -> List.Forall (covers s') (app_occ n) -> List.Forall2 (swap_ab a b) (app_occ n) l ->
    eg_lookup s' n = Ok (Some x1) -> eg_lookup s' (set_apps n l) = Ok (Some x2) -> eg_eq s' x1 x2 = Ok true.
Proof. exact union_congruence_reachable_static. Qed.
Print Assumptions C02_congruence_immediately_after_union_for_all_histories.

Theorem C02_static_premise_is_decidable : forall t, term_staticb t = true <-> term_static t.
Proof. exact term_staticb_iff. Qed.
Print Assumptions C02_static_premise_is_decidable.

(* ------------------------------------------------------------------ *)
(* COMPLETENESS of the model (EGraph/Complete.v): the converse of C01's `equality_sound_all`.  For EVERY history of
   insertions and unions over terms satisfying the one static, decidable premise `term_static_user` (arity-correct
   children, pairwise distinct binder names per node, user slot names of residue 0 or 2 mod 4): if the canonical terms of
   two handles are equal in the congruence generated by the asserted equations, `eg_eq` answers true.  The premise is
   needed: `complete_needs_user_names` (EGraph/CompleteCheck.v). *)
From SE Require Import EGraph.SoundFacts EGraph.Complete EGraph.CompleteEquiv EGraph.CompleteCheck.

Theorem C02_completeness : forall terms ops hs s i j a b ti tj, List.Forall term_static_user terms ->
  run_ops terms ops [] empty_egraph = Ok (hs, s) -> nth_opt hs i = Some a -> nth_opt hs j = Some b ->
  nth_opt (handle_cterms terms ops) i = Some ti -> nth_opt (handle_cterms terms ops) j = Some tj ->
  Deriv (asserted terms ops) 0 ti tj -> eg_eq s a b = Ok true.
Proof. exact equality_complete_all. Qed.
Print Assumptions C02_completeness.

Theorem C02_eq_iff_deriv : forall terms ops hs s i j a b ti tj, List.Forall term_static_user terms ->
  run_ops terms ops [] empty_egraph = Ok (hs, s) -> nth_opt hs i = Some a -> nth_opt hs j = Some b ->
  nth_opt (handle_cterms terms ops) i = Some ti -> nth_opt (handle_cterms terms ops) j = Some tj ->
  (eg_eq s a b = Ok true <-> Deriv (asserted terms ops) 0 ti tj).
Proof. exact eq_iff_deriv. Qed.
Print Assumptions C02_eq_iff_deriv.

Theorem C02_order_independence : forall terms1 ops1 hs1 s1 terms2 ops2 hs2 s2 i j i' j' a b a' b' ti tj,
  List.Forall term_static_user terms1 -> List.Forall term_static_user terms2 ->
  run_ops terms1 ops1 [] empty_egraph = Ok (hs1, s1) -> run_ops terms2 ops2 [] empty_egraph = Ok (hs2, s2) ->
  (forall l r, List.In (l, r) (asserted terms1 ops1) -> List.In (l, r) (asserted terms2 ops2) \/ List.In (r, l) (asserted terms2 ops2)) ->
  (forall l r, List.In (l, r) (asserted terms2 ops2) -> List.In (l, r) (asserted terms1 ops1) \/ List.In (r, l) (asserted terms1 ops1)) ->
  nth_opt hs1 i = Some a -> nth_opt hs1 j = Some b ->
  nth_opt (handle_cterms terms1 ops1) i = Some ti -> nth_opt (handle_cterms terms1 ops1) j = Some tj ->
  nth_opt hs2 i' = Some a' -> nth_opt hs2 j' = Some b' ->
  nth_opt (handle_cterms terms2 ops2) i' = Some ti -> nth_opt (handle_cterms terms2 ops2) j' = Some tj ->
  eg_eq s1 a b = eg_eq s2 a' b'.
Proof. exact order_independence. Qed.
Print Assumptions C02_order_independence.

(* renaming the user slots of all inputs (rren sg: every slot occurrence, binders included) by a renaming that is
   injective on the non-reserved names: positive answers are preserved; with a left inverse, all answers *)
Theorem C02_equivariance : forall sg terms ops hs s hs' s' i j a b a' b', nonB_ren sg -> List.Forall term_static_user terms ->
  run_ops terms ops [] empty_egraph = Ok (hs, s) -> run_ops (List.map (rren sg) terms) ops [] empty_egraph = Ok (hs', s') ->
  nth_opt hs i = Some a -> nth_opt hs j = Some b -> nth_opt hs' i = Some a' -> nth_opt hs' j = Some b' ->
  eg_eq s a b = Ok true -> eg_eq s' a' b' = Ok true.
Proof. exact equivariance_all. Qed.
Print Assumptions C02_equivariance.

Theorem C02_equivariance_iff : forall sg tau terms ops hs s hs' s' i j a b a' b', nonB_ren sg -> nonB_ren tau ->
  (forall x, tau (sg x) = x) -> List.Forall term_static_user terms ->
  run_ops terms ops [] empty_egraph = Ok (hs, s) -> run_ops (List.map (rren sg) terms) ops [] empty_egraph = Ok (hs', s') ->
  nth_opt hs i = Some a -> nth_opt hs j = Some b -> nth_opt hs' i = Some a' -> nth_opt hs' j = Some b' ->
  eg_eq s a b = eg_eq s' a' b'.
Proof. exact equivariance_iff_all. Qed.
Print Assumptions C02_equivariance_iff.

Example C02_completeness_needs_the_static_premise :
  List.map term_static_userb ceT = [true; false] /\
  List.map term_staticb ceT = [true; true] /\
  (exists t, handle_cterms ceT ceO = [t; t]) /\
  match run_ops ceT ceO [] empty_egraph with
  | Ok ([a; b], s) => eg_eq s a b
  | _ => Err OutOfBounds
  end = Ok false.
Proof. exact complete_needs_user_names. Qed.
