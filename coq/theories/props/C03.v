(* C03 — Rewriting is sound in a model: if every rule handed to apply_rewrites is valid in F_p (arithmetic
   modulo p with a summation binder and a let binder), every e-node of every class and the inserted terms
   denote the same function of the class's parameter slots, and redundant slots do not influence the value.
   Model: Sem/Fp.v (the algebra interp_fp p for [eval] of Sem/Algebra.v; the semantics [peval] of rewrite
   patterns: a pattern variable is a function of the environment, binders update the environment,
   b[(var $x) := t] evaluates b with $x bound to the value of t; the rule pool FPPOOL / FPPOOL_text).
   PROVED, for every modulus p > 0 (Sem/FpFacts.v):
   - C03_pool_valid: the 34 rules of the pool (commutativity, associativity, distributivity, units, linearity
     of sum, factors out of / into a sum under slot_free_in, swapping sums, let as substitution, re-binding
     under a new binder, dropping an unused let, ...; rules 24-33 are guarded by conditions built with the
     library's combinators and / or / not over slot_free_in) are valid under every valuation of the pattern
     variables that ignores the rule's fresh (right-hand-side-only) slots and for which the facts guaranteed by
     the truth of the rule's condition hold ([cond_sem true]: slot_free_in true => independence, slot_free_in
     false => nothing; and / or / not as connectives, not swapping the two readings);
   - C03_guards_needed: the conditions of rules 24-27, 29, 31-33 are needed: with `and` read as `or`, `or` read as
     `and`, or `not` dropped (SLIP_WITNESSES) the rule is invalid in F_2, witnessed by a match on which the
     correct condition is false, the slipped one true, and the two sides differ;
   - C03_pool_text: the texts handed to Rewrite::new / new_if parse (model of the crate's parser) to those patterns;
   - C03_instantiation: the value of a capture-avoiding instance of a pattern is the pattern semantics under
     the valuation induced by the matched terms; C03_canonical: the named semantics is [eval] of the canonical term;
   - C03_congruence_sound: every admissible instance of a pool rule is a valid equation, so everything derivable
     from instances by the congruence [Deriv] (closed under binders and injective renaming) evaluates equally.
   NOT PROVED: that the e-graph implementation (e-matching on classes, pattern_subst, union, rebuild,
   redundancy inference) only ever derives such consequences.  That is decided per run: the stream `eg3`
   exports every class of the final e-graph and every handle, and the machine `c03` (Sem/FpMachine.v)
   evaluates them with the verified [eval] for p = 5, 3, 2 (tools/compare_eg3.sh). *)
From SE Require Import Sem.Fp Sem.FpFacts Sem.AlgebraFacts.

Theorem C03_pool_valid : forall p, p <> 0 -> forall r, In r FPPOOL ->
  forall rho, in_range p rho -> fresh_ok r rho -> cond_ok r rho ->
  forall env, peval p rho env (fr_lhs r) = peval p rho env (fr_rhs r).
Proof. exact fppool_valid. Qed.
Print Assumptions C03_pool_valid.

Theorem C03_guards_needed : forall w, In w SLIP_WITNESSES -> ~ rule_valid 2 (slipped w).
Proof. exact fppool_guards_needed. Qed.
Print Assumptions C03_guards_needed.

Theorem C03_pool_text : map parse_frule FPPOOL_text = map Some FPPOOL.
Proof. exact fppool_text_parses. Qed.
Print Assumptions C03_pool_text.

Theorem C03_instantiation : forall p, p <> 0 -> forall sigma q env, inst_safe sigma q = true ->
  feval p env (inst sigma q) = peval p (rho_of p sigma) env q.
Proof. exact feval_inst. Qed.
Print Assumptions C03_instantiation.

Theorem C03_canonical : forall p, p <> 0 -> forall t env, (forall x, In x (tslots t) -> is_B x = false) ->
  eval_fp p env (canon0 (rterm_of t)) = feval p env t.
Proof. exact eval_canon0. Qed.
Print Assumptions C03_canonical.

Theorem C03_congruence_sound : forall p, p <> 0 -> forall E, pool_instances E ->
  forall d s t, Deriv E d s t -> forall env, eval N (interp_fp p) d env s = eval N (interp_fp p) d env t.
Proof. exact fp_deriv_sound. Qed.
Print Assumptions C03_congruence_sound.
