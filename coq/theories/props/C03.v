(* STATUS NOTE (third session): remarks of the form "NOT PROVED" in the comments below were written when the first theorems of this
   file were stated; theorems added further down in this file supersede them.  The current status of the property is the row of
   DESIGN.md section 14.4; the premises that remain are listed in DESIGN.md section 14.9. *)
(* C03 — Rewriting is sound in a model: if every rule handed to apply_rewrites is valid in F_p (arithmetic
   modulo p with a summation binder and a let binder), every e-node of every class and the inserted terms
   denote the same function of the class's parameter slots, and redundant slots do not influence the value.
   Model: Sem/Fp.v (the algebra interp_fp p for [eval] of Sem/Algebra.v; the semantics [peval] of rewrite
   patterns: a pattern variable is a function of the environment, binders update the environment,
   b[(var $x) := t] evaluates b with $x bound to the value of t; the rule pool FPPOOL / FPPOOL_text).
   PROVED, for every modulus p > 0 (Sem/FpFacts.v):
   - C03_pool_valid: the 34 rules of the pool (commutativity, associativity, distributivity, units, linearity
     of sum, factors out of / into a sum under slot_free_in, swapping sums, let as substitution, re-binding
     under a new binder, dropping an unused let, ...; rules 24-33 are guarded by conditions built with the
     library's combinators and / or / not over slot_free_in) are valid under every valuation of the pattern
     variables that ignores the rule's fresh (right-hand-side-only) slots and for which the facts guaranteed by
     the truth of the rule's condition hold ([cond_sem true]: slot_free_in true => independence, slot_free_in
     false => nothing; and / or / not as connectives, not swapping the two readings);
   - C03_guards_needed: the conditions of rules 24-27, 29, 31-33 are needed: with `and` read as `or`, `or` read as
     `and`, or `not` dropped (SLIP_WITNESSES) the rule is invalid in F_2, witnessed by a match on which the
     correct condition is false, the slipped one true, and the two sides differ;
   - C03_pool_text: the texts handed to Rewrite::new / new_if parse (model of the crate's parser) to those patterns;
   - C03_instantiation: the value of a capture-avoiding instance of a pattern is the pattern semantics under
     the valuation induced by the matched terms; C03_canonical: the named semantics is [eval] of the canonical term;
   - C03_congruence_sound: every admissible instance of a pool rule is a valid equation, so everything derivable
     from instances by the congruence [Deriv] (closed under binders and injective renaming) evaluates equally.
   PROVED ON THE MODEL OF THE E-GRAPH (EGraph/Model.v, EGraph/Rewrite.v), for rules whose two sides contain no b[x := t],
   for every history of insertions, unions and rewrite iterations (EGraph/RewriteSound*.v, Sem/FpRewrite*.v):
   - C03_instance_denoted: in a state satisfying the soundness invariant (RSt E s: the run invariant of C01), if every
     invocation bound by the substitution denotes a term (sub_den), pattern_subst keeps the invariant and returns an
     invocation that DENOTES the instance pat_t den p: variables replaced by their denotations, and at a pattern node with a
     binder the bound slot becomes a binder level of the term that binds exactly the occurrences of that slot name in the
     terms of the children, the binder levels of substituted terms being shifted (node_t): rules matched under binders do not
     capture or confuse slots (counterexamples for the two naive formulations: RewriteSoundEx.v);
   - C03_rewrite_iteration_sound: one apply_rewrites keeps the invariant for a larger set of equations E' that still satisfies
     any property P that is kept when an instance pair of a rule under a match is added;
   - C03_history_sound_in_algebra: if the rules (and the asserted unions) are valid in an algebra, any two handles the e-graph
     reports equal belong to terms of equal value, after any history;
   - C03_history_sound_fp / C03_pool_rules_covered: the instance for F_p: the hypothesis "rules valid" is discharged for model
     rules that are valid frules (fp_rule; 23 of the 34 pool rules: no b[x := t], condition none or one slot_free_in).
   NOT PROVED: the same for right-hand sides b[x := t] (the model implements it by extraction and re-insertion; a value of
   the substitution that is the private name of a binder of a syntactic node is captured: RewriteSoundEx.psubst_captures; the
   matcher never produces such values, but that invariant is not proved), for conditions built with and / or / not (the model's
   rule record has one optional slot_free_in), and that the IMPLEMENTATION behaves like the model: decided per run: the stream
   `eg3` exports every class of the final e-graph and every handle, and the machine `c03` (Sem/FpMachine.v) evaluates them with
   the verified [eval] for p = 5, 3, 2 (tools/compare_eg3.sh). *)
From SE Require Import Sem.Fp Sem.FpFacts Sem.AlgebraFacts.
From SE Require Import Sem.Algebra EGraph.Model EGraph.ModelMachine EGraph.UnionInvariantFacts EGraph.SoundFacts EGraph.SoundAddExpr EGraph.Mod4Facts
  EGraph.Rewrite EGraph.MatchDefs EGraph.MatchFacts EGraph.RewriteSound EGraph.RewriteSoundRun Sem.FpRewrite Sem.FpRewriteRun.

Theorem C03_pool_valid : forall p, p <> 0 -> forall r, In r FPPOOL ->
  forall rho, in_range p rho -> fresh_ok r rho -> cond_ok r rho ->
  forall env, peval p rho env (fr_lhs r) = peval p rho env (fr_rhs r).
Proof. exact fppool_valid. Qed.
Print Assumptions C03_pool_valid.

Theorem C03_guards_needed : forall w, In w SLIP_WITNESSES -> ~ rule_valid 2 (slipped w).
Proof. exact fppool_guards_needed. Qed.
Print Assumptions C03_guards_needed.

Theorem C03_pool_text : map parse_frule FPPOOL_text = map Some FPPOOL.
Proof. exact fppool_text_parses. Qed.
Print Assumptions C03_pool_text.

Theorem C03_instantiation : forall p, p <> 0 -> forall sigma q env, inst_safe sigma q = true ->
  feval p env (inst sigma q) = peval p (rho_of p sigma) env q.
Proof. exact feval_inst. Qed.
Print Assumptions C03_instantiation.

Theorem C03_canonical : forall p, p <> 0 -> forall t env, (forall x, In x (tslots t) -> is_B x = false) ->
  eval_fp p env (canon0 (rterm_of t)) = feval p env t.
Proof. exact eval_canon0. Qed.
Print Assumptions C03_canonical.

Theorem C03_congruence_sound : forall p, p <> 0 -> forall E, pool_instances E ->
  forall d s t, Deriv E d s t -> forall env, eval N (interp_fp p) d env s = eval N (interp_fp p) d env t.
Proof. exact fp_deriv_sound. Qed.
Print Assumptions C03_congruence_sound.

Theorem C03_instance_denoted : forall E sb den p s a s', RSt E s -> pat_ok (Model.ctr s) p -> sub_den E s sb den ->
  pattern_subst p sb s = Ok (a, s') -> RSt E s' /\ ext0 s s' /\ hdl E s' a (pat_t den p).
Proof. exact pattern_subst_denotes. Qed.
Print Assumptions C03_instance_denoted.

Theorem C03_rewrite_iteration_sound : forall (P : equations -> Prop) (RP : rule -> Prop),
  (forall E r sb s den, RP r -> P E -> RSt E s -> sub_den E s sb den -> sub_vals (r_lhs r) sb -> sub_bound r sb ->
     cond_holds (r_cond r) sb = Ok true -> P (E ++ [(pat_t den (r_lhs r), pat_t den (r_rhs r))])) ->
  forall rs E s b s', P E -> RSt E s -> kids_ok s -> m4 s -> rules_below (Model.ctr s) rs -> Forall RP rs -> Forall rule_nb rs ->
  apply_rewrites rs s = Ok (b, s') ->
  exists E', (forall e, In e E -> In e E') /\ P E' /\ RSt E' s' /\ ext0 s s'.
Proof. exact apply_rewrites_sound. Qed.
Print Assumptions C03_rewrite_iteration_sound.

Theorem C03_history_sound_in_algebra : forall (D : Type) (interp : nat -> list (sval D) -> D) (RP : rule -> Prop) (UA : rterm -> rterm -> Prop),
  (forall E r sb s den, RP r -> valid D interp E -> RSt E s -> sub_den E s sb den -> sub_vals (r_lhs r) sb -> sub_bound r sb ->
     cond_holds (r_cond r) sb = Ok true ->
     forall env, eval D interp 0 env (pat_t den (r_lhs r)) = eval D interp 0 env (pat_t den (r_rhs r))) ->
  (forall t1 t2, UA t1 t2 -> forall env, eval D interp 0 env (canon0 t1) = eval D interp 0 env (canon0 t2)) ->
  forall terms ops hs hrs s, Forall rt_ok terms -> Forall rt_wf terms ->
  rops_pre RP UA terms ops [] [] empty_egraph ->
  run_rops terms ops [] [] empty_egraph = Ok (hs, hrs, s) ->
  forall i j a b ti tj, nth_opt hs i = Some a -> nth_opt hs j = Some b -> nth_opt hrs i = Some ti -> nth_opt hrs j = Some tj ->
  eg_eq s a b = Ok true -> forall env, eval D interp 0 env (canon0 ti) = eval D interp 0 env (canon0 tj).
Proof. exact rewriting_history_sound_in_algebra. Qed.
Print Assumptions C03_history_sound_in_algebra.

Theorem C03_history_sound_fp : forall p, p <> 0 -> forall (UA : rterm -> rterm -> Prop),
  (forall t1 t2, UA t1 t2 -> forall env, eval_fp p env (canon0 t1) = eval_fp p env (canon0 t2)) ->
  forall terms ops hs hrs s, Forall rt_ok terms -> Forall rt_wf terms ->
  rops_pre (fp_rule p) UA terms ops [] [] empty_egraph ->
  run_rops terms ops [] [] empty_egraph = Ok (hs, hrs, s) ->
  forall i j a b ti tj, nth_opt hs i = Some a -> nth_opt hs j = Some b -> nth_opt hrs i = Some ti -> nth_opt hrs j = Some tj ->
  eg_eq s a b = Ok true -> forall env, eval_fp p env (canon0 ti) = eval_fp p env (canon0 tj).
Proof. exact fp_rewriting_history_sound. Qed.
Print Assumptions C03_history_sound_fp.

Theorem C03_pool_rules_covered : forall p, p <> 0 -> Forall (fp_rule p) pool_mrules /\ Forall rule_nb pool_mrules.
Proof. exact pool_rules_fp. Qed.
Print Assumptions C03_pool_rules_covered.

(* third session, third round (EGraph/RewriteSoundSubst{,Top,Rel,Sem}.v, SynPrivOps.v, MatchValsWin.v, ExtractSound.v, LeafHit.v,
   Sem/SubstSem.v, Sem/FpRewriteSubstEx.v): right-hand sides b[x := t].  PROVED, closed: one apply_rewrites with rules whose right-hand
   sides may contain b[x := t] keeps the soundness invariant for an enlarged equation set (below) - the premise that psubst_captures shows
   necessary (no substitution value is the private binder name of a syntactic node) is ESTABLISHED for the matcher's own substitutions
   (their fresh values lie in the window drawn during the search phase, no syntactic node has a private name in that window); extraction
   of the syntactic term is sound (ExtractSound.get_syn_expr_handle).  PROVED at that point modulo two explicit hypotheses, both discharged in the fourth round below (RewriteSoundSubstSem.
   syn_expr_subst_sem; hit_keep_add: inserting another node does not change what re-inserting the leaf (var $x) returns - proved up to the
   rebuild of mk_singleton_class; PRE: well-formedness facts of the extracted term): the invocation returned for b[(var $x) := t] denotes
   a term whose value in every algebra validating E is the value of b with $x bound to the value of t.  EVALUATED (FpRewriteSubstEx.v,
   vm_compute): with pool rule 11 the model replaces ALL occurrences in every tested situation (0/1/2 occurrences, under a binder, t
   mentioning a slot bound in the context, shadowing, several representatives of the variable's class) and the semantic equation holds
   on 8 histories x 4 environments in F_7; the exact SYNTACTIC formulation is false (redundant_slot_not_syntactic: after (mul ?a 0) -> 0
   the result is the instance of the class's syntactic term), so the theorem has to be semantic.  (The F_p instance for rule 11 and the two hypotheses are closed in the fourth round, below.) *)
From SE Require Import EGraph.SynPrivOps EGraph.RewriteSoundSubst EGraph.RewriteSoundSubstTop.
Theorem C03_rewrite_iteration_with_substitution_rhs_keeps_the_invariant : forall rs E s b s',
  RSt E s -> priv3 s -> kids_ok s -> m4 s -> rules_below (Model.ctr s) rs -> Forall rule_nbX rs ->
  apply_rewrites rs s = Ok (b, s') ->
  exists E', (forall e, In e E -> In e E') /\ RSt E' s' /\ priv3 s' /\ ext0 s s'.
Proof. exact apply_rewrites_keeps_RSt. Qed.
Print Assumptions C03_rewrite_iteration_with_substitution_rhs_keeps_the_invariant.

(* third session, fourth round (EGraph/SubstIface.v, LeafFrameDefs.v, LeafFrame.v, LeafNoHitPre.v, LeafNoHit.v, LeafHitAfter.v,
   LeafHitClosed.v, SubstFragSk.v, SubstPreFrag.v, SubstPre.v, RewriteSoundSubstJ.v, MatchScope.v, Sem/FpRewriteSubstCore.v,
   Sem/FpRewriteSubst.v, Sem/FpRewriteSubstTop.v): right-hand sides b[(var $x) := t], CLOSED for the fragment of languages in which
   `var` is the only operator with a bare slot argument and no operator has two binders (SubstIface.node_frag; true of the
   arithmetic language of the F_p pool).  PROVED:
   - C03_reinsertion_exact: the two former hypotheses.  The implementation compares `add_syn(n) == x` SYNTACTICALLY, so what is needed
     (and true) is exactness, not equality up to eg_eq: re-inserting a childless node returns literally the same invocation after the
     insertion of any other node (on a miss eg_add allocates one class and its rebuild touches only that class:
     LeafFrame.rebuild_new_frame, because the re-added node is never hash-consed: LeafNoHit.add_miss_nohit), and right after its own
     insertion (LeafHitAfter);
   - C03_substitution_denotes: in every algebra validating E, the invocation SynExprSubst returns for b[(var $x) := t] denotes a term
     whose value is the value of b with $x bound to the value of t (no hypothesis left: PRE derived from the fragment invariant,
     SubstPre.subst_pre);
   - C03_matcher_scope: the e-matcher binds no slot named like the let-binder in the variable outside its scope (needed: the value of t
     must not depend on $x; MatchScope.let_scope_needs_x_not_fresh: false for a pattern binder named like a fresh slot);
   - C03_history_sound_fp_subst: after any history of insertions, unions and rewrite iterations with rules that are fp_rules or of the
     shape (let $x ?b ?t) -> ?b[(var $x) := ?t], handles reported equal evaluate equally in F_p; C03_pool_rules_covered_subst: the 23
     rules + pool rule 11 satisfy the static premises; FpRewriteSubstTop.gx_same_meaning / hx_same_meaning: the theorem applied to
     runs (let x = $3 in sum $3. (x + $3) = sum y. ($3 + y) in every F_p, by the theorem). *)
From SE Require Import EGraph.SubstIface EGraph.LeafHitClosed EGraph.RewriteSoundSubstJ Sem.FpRewriteSubst Sem.FpRewriteSubstTop.
From SE Require EGraph.MatchScope EGraph.LeafHit EGraph.RepFacts EGraph.UnionInvariantFacts.
From SE Require Import EGraph.RewriteSoundInst EGraph.RewriteSoundSubst EGraph.AddCoversFacts EGraph.MatchDefs EGraph.Mod4Facts EGraph.RewriteFacts Parse.Parser EGraph.SoundFacts EGraph.SoundAddExpr EGraph.RewriteSoundRun.

Theorem C03_reinsertion_exact : HitKeepAdd /\ HitAfterAdd.
Proof. exact (conj hit_keep_add hit_after_add). Qed.
Print Assumptions C03_reinsertion_exact.

Theorem C03_substitution_denotes : forall (D : Type) (interp : nat -> list (sval D) -> D) E, valid D interp E ->
  forall c0 c1 x b' x' t' tb tt, is_B x = false -> x mod 4 <> 1 ->
  (forall env, eval D interp 0 (Algebra.upd D env x (eval D interp 0 env tt)) (node_t (varn x) []) = eval D interp 0 env tt) ->
  forall s a s', RSt E s -> JJ c0 c1 s ->
  hdl E s b' tb -> hdl E s x' (node_t (varn x) []) -> hdl E s t' tt -> LeafHit.Hit (varn x) x' s -> ~ In x (values_vec (am t')) ->
  (forall v, In v (values_vec (am b')) -> v mod 4 <> 1 \/ (c0 <= v /\ v < c1)) ->
  (forall v, In v (values_vec (am t')) -> v mod 4 <> 1 \/ (c0 <= v /\ v < c1)) ->
  syn_expr_subst b' x' t' s = Ok (a, s') ->
  RSt E s' /\ JJ c0 c1 s' /\ UnionInvariantFacts.ext0 s s' /\
  exists r, hdl E s' a r /\ forall env, eval D interp 0 env r = eval D interp 0 (Algebra.upd D env x (eval D interp 0 env tt)) tb.
Proof. exact syn_expr_subst_sem_closed. Qed.
Print Assumptions C03_substitution_denotes.

Theorem C03_matcher_scope : forall n x vb vt a1 a2 s l s',
  nargs n = [ABind x (AApp a1); AApp a2] -> vb <> vt -> inv3 s -> kids_ok s -> m4 s -> x mod 4 <> 1 ->
  ematch_all (PNode n [PVarP vb; PVarP vt]) s = Ok (l, s') ->
  forall sb t', In sb l -> sub_get sb vt = Some t' -> ~ In x (values_vec (am t')).
Proof. exact MatchScope.let_scope. Qed.
Print Assumptions C03_matcher_scope.

Theorem C03_history_sound_fp_subst : forall p, p <> 0 -> forall (UA : rterm -> rterm -> Prop),
  (forall t1 t2, UA t1 t2 -> forall env, eval_fp p env (canon0 t1) = eval_fp p env (canon0 t2)) ->
  forall terms ops hs hrs s, Forall rt_ok terms -> Forall RepFacts.twf terms -> Forall (rt_frag vk) terms ->
  rops_preX p UA terms ops [] [] empty_egraph ->
  run_rops terms ops [] [] empty_egraph = Ok (hs, hrs, s) ->
  forall i j a b ti tj, nth_opt hs i = Some a -> nth_opt hs j = Some b -> nth_opt hrs i = Some ti -> nth_opt hrs j = Some tj ->
  eg_eq s a b = Ok true -> forall env, eval_fp p env (canon0 ti) = eval_fp p env (canon0 tj).
Proof. exact fp_rewriting_history_sound_subst_closed. Qed.
Print Assumptions C03_history_sound_fp_subst.

Theorem C03_pool_rules_covered_subst : forall p, p <> 0 ->
  Forall (RPx p) pool_mrulesX /\ Forall rule_nbX pool_mrulesX /\
  Forall (fun r => pat_all NPf (r_lhs r) /\ pat_all NPf (r_rhs r)) pool_mrulesX.
Proof. exact pool_rules_fpX. Qed.
Print Assumptions C03_pool_rules_covered_subst.
