(* STATUS NOTE (third session): remarks of the form "NOT PROVED" in the comments below were written when the first theorems of this
   file were stated; theorems added further down in this file supersede them.  The current status of the property is the row of
   DESIGN.md section 14.4; the premises that remain are listed in DESIGN.md section 14.9. *)
(* C04 — Every represented instance of a rule's left side fires.
   SECOND SESSION (EGraph/MatchComplete.v): FIRING is proved - for every substitution the searcher returns for a rule
   without condition, after apply_rewrites both instantiated sides are represented, covered and EQUAL
   (C04_every_match_fires); depth-one COMPLETENESS of the matcher is proved from one e-graph-side hypothesis repr_hyp
   (a represented node is a renamed group variant of a listed node of its class; tested on all candidates of 14
   states, not proved) and backed by a verified checker (C04_checked_depth_one_complete); nested patterns / repeated
   variables are complete only outside the documented limitations (counterexamples reproduce redundancy_matching_bug2/3
   and show that a bound slot name bound twice or also used free breaks completeness at depth one).
   Before that, the following was proved:  PROVED about the model of the matcher and of the applier (EGraph/RewriteFacts.v), the
   parts of the firing that do not depend on those invariants:
   - for every substitution the searcher returns for the left side, the applier can instantiate the
     right side whenever its variables occur on the left (it never reaches the "unbound variable" panic),
     and likewise the left side itself (apply_rewrites re-instantiates both sides);
   - pattern slots are matched with pairwise distinct e-graph slots: the partial slot map stays a
     bijection through the whole descent, and grows monotonically;
   - the searchers do not disturb one another: matching leaves union-find, classes, hashcons and pending
     untouched ("all searchers run before any applier" is then order-independent on the model).
   DECIDED PER RUN (stream eg4): instances are planted — a rule of a 39-rule pool inside the property's
   scope, an injective slot renaming, small terms for the variables, the instance present only through
   variants unioned with its subterms (incl. permuted leaves, i.e. symmetric classes), possibly inside
   a context —; e-graphs in which some class has a redundant slot are skipped (scope); after ONE
   apply_rewrites the right instance must be found by a read-only lookup, be equal to the left
   instance, and inserting it must not add a node.  The model (EGraph/Rewrite.v + MatchMachine.v)
   replays every case and must give the same observation. *)
From SE Require Import EGraph.Model EGraph.Rewrite EGraph.RewriteFacts.

Theorem C04_applier_can_instantiate : forall lhs rhs s l s', wf_pat lhs -> ematch_all lhs s = Ok (l, s') ->
  incl (pvars rhs) (pvars lhs) -> forall sb, In sb l ->
  forall (d : text -> M appid) s2, pattern_subst rhs sb s2 = pattern_subst_gen d rhs sb s2.
Proof. exact rule_rhs_instantiable. Qed.
Print Assumptions C04_applier_can_instantiate.

Theorem C04_pattern_slots_pairwise_distinct : forall p st i s l s', ematch_impl p st i s = Ok (l, s') ->
  is_bijection (partial_slotmap st) = true -> forall st', In st' l -> is_bijection (partial_slotmap st') = true.
Proof. exact ematch_impl_bij. Qed.
Print Assumptions C04_pattern_slots_pairwise_distinct.

Theorem C04_searchers_independent : forall p s l s', ematch_all p s = Ok (l, s') ->
  unionfind s' = unionfind s /\ classes s' = classes s /\ hashcons s' = hashcons s /\ pending s' = pending s.
Proof. exact ematch_all_state. Qed.
Print Assumptions C04_searchers_independent.

From SE Require Import EGraph.AddCoversFacts EGraph.UnionFindFacts EGraph.MatchDefs EGraph.Mod4Facts EGraph.ProgressFacts EGraph.MatchComplete.

Theorem C04_every_match_fires : forall rl s b1 s1,
  inv3 s -> kids_ok s -> m4 s -> pat_below (Model.ctr s) (r_lhs rl) -> r_cond rl = None ->
  apply_rewrites [rl] s = Ok (b1, s1) ->
  exists l s', ematch_all (r_lhs rl) s = Ok (l, s') /\
    (forall sb, List.In sb l ->
       exists t a b t1 t2, qstep s t /\ pattern_subst (r_lhs rl) sb t = Ok (a, t1) /\
         pattern_subst (r_rhs rl) sb t1 = Ok (b, t2) /\
         covers s1 a /\ covers s1 b /\ eg_eq s1 a b = Ok true).
Proof. exact apply_rewrites_fires. Qed.
Print Assumptions C04_every_match_fires.

Theorem C04_depth_one_complete : forall s nd vs n theta,
  List.NoDup vs -> List.length vs = List.length (app_occ nd) -> pat_below (Model.ctr s) (d1_pat nd vs) ->
  instance_of nd n = Some theta -> repr_hyp s n ->
  complete_for s (d1_pat nd vs) theta (List.combine vs (app_occ n)).
Proof. exact d1_complete_from_repr. Qed.
Print Assumptions C04_depth_one_complete.

Theorem C04_checked_depth_one_complete : forall s nd vs, complete_okb s nd vs = true ->
  forall n theta, List.In n (d1_candidates s) -> instance_of nd n = Some theta ->
  complete_for s (d1_pat nd vs) theta (List.combine vs (app_occ n)).
Proof. exact complete_okb_sound. Qed.
Print Assumptions C04_checked_depth_one_complete.

(* third session (EGraph/MatchReprFacts.v, MatchReprFix.v, MatchReprAlg.v, StoredLive.v): the hypothesis `repr_hyp` is
   DISCHARGED from state invariants that are proved for every state of a run (`match_inv`, which includes the new invariant
   `stored_live`: dead classes store no e-nodes).  The remaining premises are about the INSTANCE: its children cover
   their classes (what the matcher's own substitutions satisfy) and `cleanp` (its bound names are pairwise distinct and
   not used free) - exactly the property's stated scope; `repr_needs_clean` is a vm_compute witness that it cannot be
   dropped.  Beyond depth one: evaluation and counterexamples only (EGraph/MatchReprDeep.v) - nested patterns are complete
   on all 268 tested states without a redundant slot, and INCOMPLETE in the presence of a redundant slot (CE1..CE4), the
   limitation the repository documents with its redundancy_matching_bug tests and the property excludes. *)
From SE Require Import EGraph.ModelMachine EGraph.HashconsFacts EGraph.SoundAddExpr EGraph.KidsFacts EGraph.MatchReprAlg EGraph.MatchMachine EGraph.MatchLookup EGraph.MatchReprFacts.

Theorem C04_matcher_invariant_reachable : forall terms ops hs s,
  ops_pre terms ops [] empty_egraph -> List.Forall (fun t => rt_wf t /\ rt_pre 1 t) terms ->
  run_ops terms ops [] empty_egraph = Ok (hs, s) -> match_inv s.
Proof. exact match_inv_reachable. Qed.
Print Assumptions C04_matcher_invariant_reachable.

Theorem C04_depth_one_complete_reachable : forall s nd vs n theta, match_inv s ->
  List.NoDup vs -> List.length vs = List.length (app_occ nd) -> pat_below (Model.ctr s) (d1_pat nd vs) ->
  instance_of nd n = Some theta -> List.Forall (covers s) (app_occ n) -> cleanp n ->
  complete_for s (d1_pat nd vs) theta (List.combine vs (app_occ n)).
Proof. exact depth_one_complete_reachable. Qed.
Print Assumptions C04_depth_one_complete_reachable.

Theorem C04_depth_one_instance_is_matched_and_fires : forall s rl nd vs n theta b1 s1, match_inv s ->
  r_lhs rl = d1_pat nd vs -> r_cond rl = None ->
  List.NoDup vs -> List.length vs = List.length (app_occ nd) -> pat_below (Model.ctr s) (d1_pat nd vs) ->
  instance_of nd n = Some theta -> List.Forall (covers s) (app_occ n) -> cleanp n ->
  forall a0, MatchMachine.eg_lookup s n = Ok (Some a0) ->
  apply_rewrites [rl] s = Ok (b1, s1) ->
  exists l s' sb r, ematch_all (d1_pat nd vs) s = Ok (l, s') /\ List.In sb l /\ mr_sb r = sb /\
    describes s' (d1_pat nd vs) theta (List.combine vs (app_occ n)) a0 r /\
    exists t a b t1 t2, qstep s t /\
      pattern_subst (d1_pat nd vs) sb t = Ok (a, t1) /\ pattern_subst (r_rhs rl) sb t1 = Ok (b, t2) /\
      covers s1 a /\ covers s1 b /\ eg_eq s1 a b = Ok true.
Proof. exact depth_one_complete_and_fires_reachable. Qed.
Print Assumptions C04_depth_one_instance_is_matched_and_fires.

(* with ONE static, decidable premise on the inserted terms (EGraph/OpsPreFacts.v) *)
From SE Require Import EGraph.OpsPreFacts.
Theorem C04_matcher_invariant_for_all_histories : forall terms ops hs s, List.Forall term_static terms ->
  run_ops terms ops [] empty_egraph = Ok (hs, s) -> match_inv s.
Proof. exact match_inv_reachable_static. Qed.
Print Assumptions C04_matcher_invariant_for_all_histories.

(* third session, second round (EGraph/MatchEmbed{Defs,Eq,,Check}.v, MatchCompleteAll.v): NESTED patterns.  The proof splits at a
   predicate `emb_root s theta zeta p a` ("the instance (theta, zeta) of p is embedded at invocation a": at every pattern node the
   enumeration enodes_applied / weak_variants lists a node whose children embed the sub-instances; it mentions the e-graph only,
   never the matcher).  MATCHER SIDE, PROVED for every pattern depth, repeated variables and binders, with neither ss_ok nor
   no-redundant-slot premise: an embedded instance is reported by the matcher (C04_embedded_instances_are_matched).  E-GRAPH SIDE:
   that every represented instance in scope is embedded (`repr_emb s`) is NOT proved; it is validated by vm_compute for all 11280
   represented instances of 194 patterns on the 213 states without redundant slot (MatchEmbedCheck.v), fails exactly on states
   with a redundant slot (the excluded scope) and never holds where the matcher misses.  `binder_clash` / `bare_variable_dead_class`
   show the two side conditions (bound names of the pattern fresh for the matched class; pattern is not a bare variable). *)
From SE Require Import EGraph.UnionInvariantFacts EGraph.MatchReprDeep EGraph.MatchEmbedDefs EGraph.MatchEmbed EGraph.MatchCompleteAll.
Theorem C04_embedded_instances_are_matched : forall (s : egraph) (theta : slotmap) (zeta : subst),
  eg_inv s -> wf theta -> is_bijection theta = true ->
  (forall v c, sub_get zeta v = Some c -> covers s c) ->
  forall (p : Parser.pattern) (a : appid), List.NoDup (pbinders p) -> pat_below (Model.ctr s) p ->
  (forall i c z, get_class s i = Ok c -> List.In z (c_slots c) -> (z < Model.ctr s)%N) ->
  emb_root s theta zeta p a ->
  forall l s', ematch_all_r p s = Ok (l, s') -> exists r, List.In r l /\ describes s' p theta zeta a r.
Proof. exact emb_complete. Qed.
Print Assumptions C04_embedded_instances_are_matched.

(* third session, third round (EGraph/MatchEmbedRepr{Chk,Chk2,CE,Wv,Listed,Lk,Ext,Data,Node,,Ex}.v): the E-GRAPH SIDE IS PROVED - every represented
   instance in scope is embedded - in a corrected form: the hypothesis as first stated was FALSE (MatchEmbedReprCE.H_emb_false: it did not
   require theta to be defined on the pattern's slots); added premises: theta defined on the pattern's slots (inst_ok2), the pattern's nodes
   carry null placeholders for their children (pat_null: what the parser produces; shown necessary by pat_null_needed), and the run invariant
   stored2 (no premise for reachable states).  An induction "up to the class group" is false (group_precondition_false: emb is not invariant
   under the class group); the proof computes the exact invocation bottom-up.
   NESTED COMPLETENESS, for every history over statically well-formed terms whose final e-graph has no redundant slot (the property's scope):
   every represented instance of a pattern in scope (bound names bound once and not used free, fresh for the matched class) is reported by the
   matcher, and the rule fires. *)
From SE Require Import EGraph.MatchEmbedRepr EGraph.MatchEmbedReprCE.
Theorem C04_nested_complete_for_all_histories : forall terms ops hs s p theta zeta,
  List.Forall term_static terms -> run_ops terms ops [] empty_egraph = Ok (hs, s) -> no_redundant s ->
  pat_ok s p -> pat_null p -> inst_ok2 s p theta zeta -> complete_fresh s p theta zeta.
Proof. exact nested_complete_reachable_proved. Qed.
Print Assumptions C04_nested_complete_for_all_histories.

Theorem C04_nested_instance_is_matched_and_fires : forall terms ops hs s rl theta zeta b1 s1,
  List.Forall term_static terms -> run_ops terms ops [] empty_egraph = Ok (hs, s) -> no_redundant s ->
  pat_ok s (r_lhs rl) -> pat_null (r_lhs rl) -> inst_ok2 s (r_lhs rl) theta zeta -> r_cond rl = None ->
  forall a0, MatchMachine.lookup_pat s (pren theta (r_lhs rl)) zeta = Ok (Some a0) -> fresh_binders (r_lhs rl) theta a0 ->
  apply_rewrites [rl] s = Ok (b1, s1) ->
  exists l s' sb r, ematch_all (r_lhs rl) s = Ok (l, s') /\ List.In sb l /\ mr_sb r = sb /\
    describes s' (r_lhs rl) theta zeta a0 r /\
    exists t a b t1 t2, qstep s t /\ pattern_subst (r_lhs rl) sb t = Ok (a, t1) /\ pattern_subst (r_rhs rl) sb t1 = Ok (b, t2) /\
      covers s1 a /\ covers s1 b /\ eg_eq s1 a b = Ok true.
Proof. exact nested_complete_and_fires_reachable_proved. Qed.
Print Assumptions C04_nested_instance_is_matched_and_fires.

Theorem C04_first_formulation_of_the_embedding_hypothesis_is_false :
  ~ (forall s, match_inv s -> CongruenceFacts.ss_ok s -> no_redundant s -> repr_emb s).
Proof. exact H_emb_false. Qed.
Print Assumptions C04_first_formulation_of_the_embedding_hypothesis_is_false.
