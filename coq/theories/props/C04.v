(* C04 — Every represented instance of a rule's left side fires.
   This is a completeness statement about the matcher over the whole e-graph; it is NOT proved for the
   model (it needs the canonical-shape / group-variant invariants of the e-graph model, which are not
   established).  PROVED about the model of the matcher and of the applier (EGraph/RewriteFacts.v), the
   parts of the firing that do not depend on those invariants:
   - for every substitution the searcher returns for the left side, the applier can instantiate the
     right side whenever its variables occur on the left (it never reaches the "unbound variable" panic),
     and likewise the left side itself (apply_rewrites re-instantiates both sides);
   - pattern slots are matched with pairwise distinct e-graph slots: the partial slot map stays a
     bijection through the whole descent, and grows monotonically;
   - the searchers do not disturb one another: matching leaves union-find, classes, hashcons and pending
     untouched ("all searchers run before any applier" is then order-independent on the model).
   DECIDED PER RUN (stream eg4): instances are planted — a rule of a 39-rule pool inside the property's
   scope, an injective slot renaming, small terms for the variables, the instance present only through
   variants unioned with its subterms (incl. permuted leaves, i.e. symmetric classes), possibly inside
   a context —; e-graphs in which some class has a redundant slot are skipped (scope); after ONE
   apply_rewrites the right instance must be found by a read-only lookup, be equal to the left
   instance, and inserting it must not add a node.  The model (EGraph/Rewrite.v + MatchMachine.v)
   replays every case and must give the same observation. *)
From SE Require Import EGraph.Model EGraph.Rewrite EGraph.RewriteFacts.

Theorem C04_applier_can_instantiate : forall lhs rhs s l s', wf_pat lhs -> ematch_all lhs s = Ok (l, s') ->
  incl (pvars rhs) (pvars lhs) -> forall sb, In sb l ->
  forall (d : text -> M appid) s2, pattern_subst rhs sb s2 = pattern_subst_gen d rhs sb s2.
Proof. exact rule_rhs_instantiable. Qed.
Print Assumptions C04_applier_can_instantiate.

Theorem C04_pattern_slots_pairwise_distinct : forall p st i s l s', ematch_impl p st i s = Ok (l, s') ->
  is_bijection (partial_slotmap st) = true -> forall st', In st' l -> is_bijection (partial_slotmap st') = true.
Proof. exact ematch_impl_bij. Qed.
Print Assumptions C04_pattern_slots_pairwise_distinct.

Theorem C04_searchers_independent : forall p s l s', ematch_all p s = Ok (l, s') ->
  unionfind s' = unionfind s /\ classes s' = classes s /\ hashcons s' = hashcons s /\ pending s' = pending s.
Proof. exact ematch_all_state. Qed.
Print Assumptions C04_searchers_independent.
