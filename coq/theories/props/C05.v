(* STATUS NOTE (third session): remarks of the form "NOT PROVED" in the comments below were written when the first theorems of this
   file were stated; theorems added further down in this file supersede them.  The current status of the property is the row of
   DESIGN.md section 14.4; the premises that remain are listed in DESIGN.md section 14.9. *)
(* C05 — Reported matches denote terms that are really in the e-graph.
   PROVED about the model of the single-pattern matcher (EGraph/Rewrite.v, facts in EGraph/RewriteFacts.v),
   for every e-graph state, every pattern that satisfies the parser's arity invariant (Parse/ArityFacts.v
   proves it of every parsed pattern) and every returned substitution:
   - every pattern variable is bound (without the arity invariant this is false: RewriteFacts.v,
     ematch_all_binds_needs_wf_pat — the child loop zips with the node's invocation positions, as in /repo);
   - instantiating either rule side never takes the "unbound variable" branch;
   - matching changes nothing but the fresh-slot counter (union-find, classes, hashcons, pending are equal);
   - the partial slot map kept while descending is well formed and injective (e-graph slot <-> pattern slot).
   REFUTED for the pinned multi-pattern matcher (C05_legacy_multi_ematch_refuted): on the e-graph that
   contains only (lam $1 (var $1)), the multi-pattern ?x == (lam $1 ?b) returns a substitution whose
   instance cannot be looked up (?b is bound to var[fresh] instead of var[$1]); replayed on the
   implementation this was a genuine defect, repaired in /repo (fix: multi_ematch normalises ...).  The model
   carries both behaviours (MultiPat.v, norm = false | true); the correspondence runs against norm = true.
   NOT PROVED: that the instance of a returned substitution is represented (needs the shape/lookup
   invariants of the e-graph model) and the multi-pattern equations.  Decided per run: every substitution of
   every pattern and multi-pattern is validated with read-only lookups on the implementation, the counts and
   flags must equal the model's, and a fingerprint of the e-graph is compared before and after matching. *)
From SE Require Import EGraph.Model EGraph.Rewrite EGraph.RewriteFacts EGraph.MultiPat EGraph.MatchMachine.
From SE Require Import Slots.SlotMapFacts.

Theorem C05_every_variable_bound : forall p s l s', wf_pat p -> ematch_all p s = Ok (l, s') ->
  forall sb, In sb l -> forall v, In v (pvars p) -> sub_get sb v <> None.
Proof. exact ematch_all_binds. Qed.
Print Assumptions C05_every_variable_bound.

Theorem C05_instantiation_never_unbound : forall lhs s l s', wf_pat lhs -> ematch_all lhs s = Ok (l, s') ->
  forall sb, In sb l -> forall (d : text -> M appid) s2, pattern_subst lhs sb s2 = pattern_subst_gen d lhs sb s2.
Proof. exact rule_lhs_instantiable. Qed.
Print Assumptions C05_instantiation_never_unbound.

Theorem C05_matching_changes_nothing : forall p s l s', ematch_all p s = Ok (l, s') ->
  unionfind s' = unionfind s /\ classes s' = classes s /\ hashcons s' = hashcons s /\ pending s' = pending s.
Proof. exact ematch_all_state. Qed.
Print Assumptions C05_matching_changes_nothing.

Theorem C05_slot_map_injective : forall p i s l s', ematch_impl p estate0 i s = Ok (l, s') ->
  forall st', In st' l -> wf (partial_slotmap st') /\ injective (partial_slotmap st').
Proof. exact ematch_impl_estate0_injective. Qed.
Print Assumptions C05_slot_map_injective.

(* the pinned multi_ematch: one match, all variables bound, instance NOT found (flag (ii) false);
   with the repair: found *)
Definition c05_case : list sexp := [Lst [Sym "cfg"; Num 0; Num 0]; Lst [Sym "terms"; Lst [Sym "rt"; Lst [Sym "nd"; Num 8; Lst [Sym "b"; Num 1; Lst [Sym "a"; Num 0; Lst [Sym "m"]]]]; Lst [Sym "rt"; Lst [Sym "nd"; Num 5; Lst [Sym "s"; Num 1]]]]]; Lst [Sym "ops"; Lst [Sym "add"; Num 0]]; Sym "corpus"; Lst [Sym "pats"; Lst [Sym "t"; Num 40; Num 108; Num 97; Num 109; Num 32; Num 36; Num 49; Num 32; Num 63; Num 98; Num 41]]; Lst [Sym "mpats"; Lst [Sym "mp"; Lst [Sym "eqn"; Lst [Sym "t"; Num 120]; Lst [Sym "t"; Num 40; Num 108; Num 97; Num 109; Num 32; Num 36; Num 49; Num 32; Num 63; Num 98; Num 41]]]]].
Theorem C05_legacy_multi_ematch_refuted :
  run_eg5 false c05_case = Lst [Sym "obs"; Lst [Sym "res"; Sym "ok"]; Lst [Sym "p"; Num 1; Sym "true"; Sym "true"];
                               Lst [Sym "mp"; Num 1; Sym "true"; Sym "false"; Sym "true"]].
Proof. vm_compute. reflexivity. Qed.
Print Assumptions C05_legacy_multi_ematch_refuted.
Example C05_repaired :
  run_eg5 true c05_case = Lst [Sym "obs"; Lst [Sym "res"; Sym "ok"]; Lst [Sym "p"; Num 1; Sym "true"; Sym "true"];
                              Lst [Sym "mp"; Num 1; Sym "true"; Sym "true"; Sym "true"]].
Proof. vm_compute. reflexivity. Qed.

(* second session (EGraph/MatchFacts.v, KidsFacts.v, MatchLookup.v): every invocation bound by a returned substitution
   covers its class (for every reachable state; premise on the pattern's slot names as in C15), and a VERIFIED
   executable checker for the main clause: if matches_okb s p holds then every returned substitution's instance is found
   by the read-only lookup and is equal to the class the match was found in.  The checker is what the machine eg5
   evaluates for every pattern of every explored state; for depth-one patterns the lookup part is proved outright
   (MatchLookup.depth_one_found_closed, under two tested structural hypotheses). *)
From SE Require Import EGraph.AddCoversFacts EGraph.MatchDefs EGraph.Mod4Facts EGraph.ProgressFacts EGraph.MatchFacts EGraph.MatchLookup.

Theorem C05_bound_invocations_cover_their_classes : forall p s l s',
  inv3 s -> kids_ok s -> m4 s -> pat_pre (Model.ctr s) p -> ematch_all p s = Ok (l, s') -> List.Forall (sub_cov s') l.
Proof. exact ematch_all_covers. Qed.
Print Assumptions C05_bound_invocations_cover_their_classes.

Theorem C05_checked_matches_are_represented : forall s p, matches_okb s p = true ->
  forall l s', ematch_all p s = Ok (l, s') -> forall sb, List.In sb l ->
  exists r a, mr_sb r = sb /\ List.In (mr_id r) (ids s) /\
    lookup_pat s' p sb = Ok (Some a) /\ eg_eq s' a (mr_root r) = Ok true.
Proof. exact matches_okb_sound. Qed.
Print Assumptions C05_checked_matches_are_represented.

(* third session (EGraph/MatchReprFix.v, MatchReprFacts.v): for depth-one patterns the two structural hypotheses of
   MatchLookup.v are discharged - in every state satisfying the reachable invariant `match_inv`, every substitution
   the matcher returns instantiates the pattern to a term that the read-only lookup finds in a live class. *)
From SE Require Import Parse.Parser EGraph.Rewrite EGraph.MatchReprFacts.
Theorem C05_depth_one_matches_are_represented : forall s, match_inv s ->
  forall nd vs l s', List.NoDup vs -> List.length vs = List.length (app_occ nd) ->
    pat_below (Model.ctr s) (PNode nd (List.map PVarP vs)) ->
    ematch_all (PNode nd (List.map PVarP vs)) s = Ok (l, s') ->
    forall sb, List.In sb l -> exists a, lookup_pat s' (PNode nd (List.map PVarP vs)) sb = Ok (Some a) /\ List.In (aid a) (ids s).
Proof. exact matches_are_represented_inv. Qed.
Print Assumptions C05_depth_one_matches_are_represented.

(* third session, second round (EGraph/MatchReprAll{Chk,Defs,Ren,K1,Inv,Top,}.v): the MAIN CLAUSE for patterns of ARBITRARY depth,
   repeated variables and binders, with no restriction for redundant slots or symmetric classes: in every state satisfying the
   reachable invariants - hence after EVERY history over statically well-formed terms - every substitution the matcher returns
   instantiates the pattern to a term that the read-only lookup finds, in a live class, by an invocation EQUAL to the root the
   match was reported for.  This is the conclusion of the verified checker (C05_checked_matches_are_represented) without running it.
   (`inv_needs_hc_ok`: on a state violating the hash-cons invariant the statement fails - the invariant is needed.) *)
From SE Require Import EGraph.ModelMachine EGraph.CongruenceFacts EGraph.OpsPreFacts EGraph.MatchReprAll.
Theorem C05_matches_are_represented : forall s p, match_inv s -> ss_ok s -> wf_pat p -> pat_pre (Model.ctr s) p ->
  forall l s', ematch_all p s = Ok (l, s') -> forall sb, List.In sb l ->
  exists r a, mr_sb r = sb /\ List.In (mr_id r) (ids s) /\ lookup_pat s' p sb = Ok (Some a) /\ eg_eq s' a (mr_root r) = Ok true.
Proof. exact matches_are_represented_all. Qed.
Print Assumptions C05_matches_are_represented.

Theorem C05_matches_are_represented_for_all_histories : forall terms ops hs s p, List.Forall term_static terms ->
  run_ops terms ops [] empty_egraph = Ok (hs, s) -> wf_pat p -> pat_pre (Model.ctr s) p ->
  forall l s', ematch_all p s = Ok (l, s') -> forall sb, List.In sb l ->
  exists r a, mr_sb r = sb /\ List.In (mr_id r) (ids s) /\ lookup_pat s' p sb = Ok (Some a) /\ eg_eq s' a (mr_root r) = Ok true.
Proof. exact matches_are_represented_all_reachable. Qed.
Print Assumptions C05_matches_are_represented_for_all_histories.

(* third session, third round (EGraph/MultiPat{Uf,Diseq,State,Listed,Ren,Redirect,Defs,Sound,Union,Unify,Step*,Chk,Facts}.v, 19 files): the
   MULTI-PATTERN matcher (repaired form, fix 3d0e524).  After every history over statically well-formed terms, every substitution
   multi_ematch returns satisfies ALL equations of the multi-pattern: every variable is bound, each equation's node instantiated with the
   bindings is found by the read-only lookup by an invocation EQUAL to the binding of its left variable, the final slot union-find fixes
   every pattern slot (hence distinct pattern slots stay distinct), and matching changes nothing but the fresh counter.
   MultiPatFacts.legacy_conclusion_fails: the conclusion FAILS for the pinned behaviour on the witness of C05_legacy_multi_ematch_refuted -
   the fix is what makes it true. *)
From SE Require Import EGraph.MultiPat EGraph.MultiPatDefs EGraph.MultiPatFacts.
Theorem C05_multi_pattern_matches_satisfy_all_equations : forall terms ops hs s pat, List.Forall term_static terms ->
  run_ops terms ops [] empty_egraph = Ok (hs, s) -> mp_arity pat -> mp_below (Model.ctr s) pat ->
  forall l s', multi_ematch true pat s = Ok (l, s') ->
  (unionfind s' = unionfind s /\ classes s' = classes s /\ hashcons s' = hashcons s /\ pending s' = pending s /\ (Model.ctr s <= Model.ctr s')%N) /\
  forall sb, List.In sb l -> exists st, sb = ms_subst st /\ ps_fixed pat st /\
    forall v nd ch, List.In (v, nd, ch) pat ->
      (sub_get sb v <> None /\ forall cv, List.In cv ch -> sub_get sb cv <> None) /\
      exists a c, sub_get sb v = Some a /\
        lookup_pat s' (PNode nd (List.map PVarP ch)) sb = Ok (Some c) /\ eg_eq s' c a = Ok true.
Proof. exact multi_matches_satisfy_equations_reachable. Qed.
Print Assumptions C05_multi_pattern_matches_satisfy_all_equations.
