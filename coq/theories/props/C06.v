(* STATUS NOTE (third session): remarks of the form "NOT PROVED" in the comments below were written when the first theorems of this
   file were stated; theorems added further down in this file supersede them.  The current status of the property is the row of
   DESIGN.md section 14.4; the premises that remain are listed in DESIGN.md section 14.9. *)
(* C06 — Extraction returns a cheapest term of the requested class.
   PROVED (Extract/Knuth.v, abstract and-or graph, all sizes): the table computed by the worklist of
   Extractor::new — repeatedly take a node of minimal candidate cost whose children are all tabled and
   whose class is not — holds exactly the MINIMUM derivation cost of every class that has a finite
   derivation, and nothing else, for every cost function that is monotone in its children's costs
   and not below any of them ("superior", Knuth's generalisation of Dijkstra): AstSize,
   depth-weighted and per-operator weighted sizes, also with u64 saturation; and the table does not
   depend on how ties in the priority queue are broken.
   Also PROVED (Extract/LazyQueue.v): the LAZY PRIORITY QUEUE formulation that Extractor::new actually uses — leaves are
   queued first; pop an entry of minimal cost, skip it if its class is tabled, else table the class and queue every
   usage whose children are now all tabled — computes the same table, for every minimal pop discipline (first or last
   among equal costs), with or without pruning of entries whose class is tabled, with fuel 1 + number of nodes.
   BRIDGE to the concrete extractor model (Extract/ExtractorFacts.v): the and-or graph `agraph cf s` of an e-graph state, the
   concrete u64-saturating cost functions as instances of the abstract scheme, and (i) under the usages/lookup consistency of
   the state (executable: usages_okb) and normal-form stability (nf_ok, not executable, assumed) the concrete worklist IS the
   lazy queue (C06_extractor_is_lazy_queue); (ii) WITHOUT any hypothesis: a table accepted by the executable checker table_okb
   holds exactly the minimum derivation costs (C06_certified_table_is_minimum) and, with extract_okb, every extracted term
   costs the table value and no derivation of its class is cheaper (C06_certified_extraction_is_cheapest).  The checkers are
   evaluated on every explored state (stream `certificate`, machine egtc).
   NOT PROVED: that the concrete extractor model (Extract/Extractor.v, the Gallina mirror of
   src/extract/mod.rs on top of the e-graph model) is an instance of the abstract algorithm, and
   membership of the extracted term.  Per run: best costs of all handles under the three cost
   functions are compared with the extractor model, and on the implementation the extracted term is
   re-looked-up (must be equal to the query), its cost recomputed, its free slots checked. *)
From Coq Require Import List Arith.
From SE Require Import Extract.Knuth Extract.LazyQueue.

Theorem C06_table_is_minimum : forall f, monotone f -> superior f ->
  forall nodes n tbl,
    (forall c chs w, In (c, chs, w) nodes -> c < n) ->
    run f nodes n = tbl ->
    (forall c k, tbl c = Some k ->
       derivable f nodes c k /\ (forall k', derivable f nodes c k' -> k <= k')) /\
    (forall c, tbl c = None -> forall k, ~ derivable f nodes c k).
Proof. exact knuth_min_general. Qed.
Print Assumptions C06_table_is_minimum.

Theorem C06_ast_size_minimum : forall nodes n tbl,
    (forall c chs w, In (c, chs, w) nodes -> c < n /\ 1 <= w) ->
    run additive nodes n = tbl ->
    (forall c k, tbl c = Some k ->
       derivable additive nodes c k /\ (forall k', derivable additive nodes c k' -> k <= k')) /\
    (forall c, tbl c = None -> forall k, ~ derivable additive nodes c k).
Proof. exact knuth_min. Qed.
Print Assumptions C06_ast_size_minimum.

Theorem C06_tie_break_irrelevant : forall f (good : nat -> Prop),
  monotone f -> (forall w ks, good (f w ks)) -> (forall w ks k, In k ks -> good k -> k <= f w ks) ->
  forall nodes pick1 pick2, min_choice f nodes pick1 -> min_choice f nodes pick2 ->
  forall n, (forall c chs w, In (c, chs, w) nodes -> c < n) ->
  forall c, run_with pick1 n c = run_with pick2 n c.
Proof. exact tie_break_irrelevant. Qed.
Print Assumptions C06_tie_break_irrelevant.

Theorem C06_lazy_queue_table_is_minimum : forall f, monotone f -> superior f ->
  forall (prune : bool) (pop : queue -> option (entry * queue)), min_pop pop ->
  forall (nodes : list node) (tbl : table), lazy_run f prune pop nodes = tbl ->
    (forall c k, tbl c = Some k -> derivable f nodes c k /\ (forall k', derivable f nodes c k' -> k <= k')) /\
    (forall c, tbl c = None -> forall k, ~ derivable f nodes c k).
Proof. exact lazy_min_general. Qed.
Print Assumptions C06_lazy_queue_table_is_minimum.

Theorem C06_lazy_queue_is_knuth : forall f, monotone f -> superior f ->
  forall (prune : bool) (pop : queue -> option (entry * queue)), min_pop pop ->
  forall (nodes : list (nat * list nat * nat)) (n : nat),
    (forall c chs w, List.In (c, chs, w) nodes -> c < n) ->
    forall c, lazy_run f prune pop nodes c = run f nodes n c.
Proof. exact lazy_run_eq_run. Qed.
Print Assumptions C06_lazy_queue_is_knuth.

Theorem C06_first_and_last_minimum_are_minimal_pops : forall last : bool, min_pop (pop_tb last).
Proof. exact pop_tb_min_pop. Qed.
Print Assumptions C06_first_and_last_minimum_are_minimal_pops.

(* the bridge theorems are stated over the e-graph model (binary naturals in scope from here on) *)
From SE Require Import EGraph.Model Extract.Extractor Extract.ExtractorFacts.

Theorem C06_certified_table_is_minimum : forall (s : egraph) (cf : nat) (m : emap), table_okb s cf m = true ->
  (forall c k, tbl m c = Some k ->
     derivable (f_cf cf) (agraph cf s) c k /\ (forall k', derivable (f_cf cf) (agraph cf s) c k' -> (k <= k')%nat)) /\
  (forall c, tbl m c = None -> forall k, ~ derivable (f_cf cf) (agraph cf s) c k).
Proof. exact table_okb_sound. Qed.
Print Assumptions C06_certified_table_is_minimum.

Theorem C06_certified_extraction_is_cheapest : forall (s : egraph) (cf : nat) (m : emap),
  table_okb s cf m = true -> extract_okb s cf m = true ->
  forall fuel i t s', extract fuel m i s = Ok (t, s') ->
  exists i' k, find_applied_id s i = Ok i' /\ cost_rec cf t = Ok k /\ get_best_cost m i' = Ok k /\
    derivable (f_cf cf) (agraph cf s) (N.to_nat (aid i')) (N.to_nat k) /\
    (forall k', derivable (f_cf cf) (agraph cf s) (N.to_nat (aid i')) k' -> (N.to_nat k <= k')%nat).
Proof. exact extract_cheapest_checked. Qed.
Print Assumptions C06_certified_extraction_is_cheapest.

Theorem C06_extractor_is_lazy_queue : forall (s : egraph) (cf : nat), usages_ok s -> nf_ok s ->
  forall last m s', extractor_new last cf s = Ok (m, s') ->
  forall c, tbl m c = lazy_run (f_cf cf) true (pop_tb last) (agraph cf s) c.
Proof. exact extractor_new_eq_lazy_run. Qed.
Print Assumptions C06_extractor_is_lazy_queue.

(* third session (Extract/ExtractorReach.v, ExtractorBridgeUp.v, UsagesOk.v, NfOk.v, ExtractOkb.v, EGraph/UsesConv*.v,
   EGraph/StaticFacts.v): the two state premises of the bridge are discharged for every reachable state - `usages_ok` as it
   stands (new invariant uses_conv), `nf_ok` in the weaker form the extractor really needs (`nf_ok` AS STATED IS FALSE on a
   reachable state when the fresh counter is moved DOWN: ExtractorBridgeUp.nf_ok_false_on_reachable; the extractor only moves
   it up, and the bridge is re-proved under `nf_ok_up`).  Hence for EVERY history of insertions and unions over statically
   well-formed terms, with no premise on the state: the concrete extractor's table is the lazy queue's, holds exactly the
   minimum derivation cost of every class, and every extracted term costs the table value of its class, which no
   derivation of the class undercuts (cf = 0 AstSize, 1 depth-weighted, 2 per-operator weights).  Still per run only:
   membership of the extracted term in the class (checker Extract/ExtractRepr.extract_reprb; on the implementation the
   extracted term is re-looked-up). *)
From SE Require Import EGraph.ModelMachine EGraph.OpsPreFacts EGraph.StaticFacts Extract.Extractor.
Theorem C06_extractor_table_is_minimum_for_all_histories : forall terms ops hs s, List.Forall term_static terms ->
  run_ops terms ops [] empty_egraph = Ok (hs, s) ->
  forall cf last m s', extractor_new last cf s = Ok (m, s') ->
  (forall c k, tbl m c = Some k ->
     Knuth.derivable (f_cf cf) (agraph cf s) c k /\ (forall k', Knuth.derivable (f_cf cf) (agraph cf s) c k' -> (k <= k')%nat)) /\
  (forall c, tbl m c = None -> forall k, ~ Knuth.derivable (f_cf cf) (agraph cf s) c k).
Proof. exact extractor_table_is_minimum_static. Qed.
Print Assumptions C06_extractor_table_is_minimum_for_all_histories.

Theorem C06_extracted_term_is_cheapest_for_all_histories : forall terms ops hs s, List.Forall term_static terms ->
  run_ops terms ops [] empty_egraph = Ok (hs, s) ->
  forall cf last m s0, extractor_new last cf s = Ok (m, s0) ->
  forall fuel i t s', extract fuel m i s = Ok (t, s') ->
  exists i' k, find_applied_id s i = Ok i' /\ cost_rec cf t = Ok k /\ get_best_cost m i' = Ok k /\
    Knuth.derivable (f_cf cf) (agraph cf s) (N.to_nat (aid i')) (N.to_nat k) /\
    (forall k', Knuth.derivable (f_cf cf) (agraph cf s) (N.to_nat (aid i')) k' -> (N.to_nat k <= k')%nat).
Proof. exact extract_cheapest_static. Qed.
Print Assumptions C06_extracted_term_is_cheapest_for_all_histories.

(* third session, second round (Extract/ExtractMember*.v, eight files): MEMBERSHIP of the extracted term, for every history over
   statically well-formed terms: the extracted term is represented in the queried class by an invocation equal to the query,
   re-inserting it creates nothing and returns an invocation equal to the query, and every free slot of the term is an argument
   slot of the query's canonical form or a slot drawn fresh during the extraction.  Two premises are NECESSARY (vm_compute
   counterexamples in ExtractMemberCheck.v): the extraction starts from a fresh counter not below the one the extractor left
   (a rolled-back counter re-draws a table node's binder name: capture), and the query's argument slots are older than the
   extractor (a query mentioning a table node's binder name is captured).  "No brand-new free slot" is FALSE as a blanket
   statement: a redundant slot of the chosen node appears as a fresh free slot of the term (extract_new_free_slot) - the
   property's own wording allows exactly that ("or brand-new"). *)
From SE Require Import EGraph.InvariantFacts EGraph.UnionFindFacts EGraph.Model9 Extract.ExtractMemberStatic.
Theorem C06_extracted_term_is_represented_for_all_histories : forall terms ops hs s, List.Forall term_static terms ->
  run_ops terms ops [] empty_egraph = Ok (hs, s) ->
  forall cf last m s0, extractor_new last cf s = Ok (m, s0) ->
  forall fuel i s1 t s1', ctr_only s s1 -> (Model.ctr s0 <= Model.ctr s1)%N -> covers s i ->
  (forall x v, get (am i) x = Some v -> (v < Model.ctr s)%N) ->
  extract fuel m i s1 = Ok (t, s1') ->
  (exists x, lookup_rec s t = Ok (Some x) /\ eg_eq s x i = Ok true) /\
  (forall a' s', add_expr t s = Ok (a', s') -> s' = s /\ eg_eq s' i a' = Ok true) /\
  (exists i', find_applied_id s i = Ok i' /\
     forall v, List.In v (rfree t) -> (exists y, get (am i') y = Some v) \/ (Model.ctr s1 <= v)%N).
Proof. exact extract_member_static. Qed.
Print Assumptions C06_extracted_term_is_represented_for_all_histories.
