(* STATUS NOTE (third session): remarks of the form "NOT PROVED" in the comments below were written when the first theorems of this
   file were stated; theorems added further down in this file supersede them.  The current status of the property is the row of
   DESIGN.md section 14.4; the premises that remain are listed in DESIGN.md section 14.9. *)
(* C07 — Explanations are valid proofs of the queried equation.
   PROVED: the explanation checker (Explain/Checker.v) is sound for `Deriv`: if it accepts a proof
   DAG — leaves are asserted equations with the recorded justification, inner steps are
   reflexivity / symmetry / transitivity / congruence with premises instantiated by a renaming that is
   injective on each side of the premise, conclusion equal to the query up to an injective renaming —
   then the queried equation is derivable from the asserted ones.  The key lemma is the admissibility
   of side-wise injective instantiation (C07_side_wise_instantiation).
   NOT proved: that `explain_equivalence` always returns (the proof-producing code is not modelled);
   this half is established per explored history by running it and checking its output. *)
From SE Require Import Explain.Checker Explain.CheckerFacts.

Theorem C07_side_wise_instantiation : forall E l r, Deriv E 0 l r ->
  forall d rho,
    (forall x, In x (cnames l ++ cnames r) -> is_B x = false -> is_B (rho x) = false \/ exists k, (k < d)%nat /\ rho x = B k) ->
    (forall x y, In x (cnames l) -> In y (cnames l) -> is_B x = false -> is_B y = false -> rho x = rho y -> x = y) ->
    (forall x y, In x (cnames r) -> In y (cnames r) -> is_B x = false -> is_B y = false -> rho x = rho y -> x = y) ->
    Deriv E d (cren (lift d rho) l) (cren (lift d rho) r).
Proof. exact Deriv_inst. Qed.
Print Assumptions C07_side_wise_instantiation.

Theorem C07_every_node_derivable : forall A done todo,
  (forall n, In n done -> Deriv (eqs_of_asserted A) 0 (pl n) (pr n)) ->
  check_nodes A done todo = true ->
  forall n, In n todo -> Deriv (eqs_of_asserted A) 0 (pl n) (pr n).
Proof. exact check_nodes_sound. Qed.
Print Assumptions C07_every_node_derivable.

Theorem C07_checker_sound : forall A p ql qr,
  check_proof A p ql qr = true -> Deriv (eqs_of_asserted A) 0 ql qr.
Proof. exact check_proof_sound. Qed.
Print Assumptions C07_checker_sound.

(* non-vacuity: a proof through a 3-cycle and a congruence step is accepted *)
Definition gN (a b c : N) : cterm := CT 1 [CSlot (4*a); CSlot (4*b); CSlot (4*c)].
Definition uN (t : cterm) : cterm := CT 6 [CChild t].
Example C07_nonvacuous :
  let A := [(gN 1 2 3, gN 2 3 1, Some [106; 48])] in
  let p := [ {| pl := gN 5 6 7; pr := gN 6 7 5; pst := PExplicit (Some [106; 48]) |};
             {| pl := gN 1 2 3; pr := gN 3 1 2; pst := PTrans 0 0 |};
             {| pl := uN (gN 1 2 3); pr := uN (gN 3 1 2); pst := PCong [1%nat] |} ] in
  check_proof A p (uN (gN 1 2 3)) (uN (gN 3 1 2)) = true /\
  check_proof A p (uN (gN 1 2 3)) (uN (gN 2 1 3)) = false.
Proof. split; vm_compute; reflexivity. Qed.
