(* STATUS NOTE (third session): remarks of the form "NOT PROVED" in the comments below were written when the first theorems of this
   file were stated; theorems added further down in this file supersede them.  The current status of the property is the row of
   DESIGN.md section 14.4; the premises that remain are listed in DESIGN.md section 14.9. *)
(* C08 — No operation sequence panics or leaves the e-graph inconsistent.
   Model: EGraph/Model.v; every Rust panic site that the model mirrors (unwrap, indexing, HashMap[..])
   is an error value, so "the model returns Ok" is the model-level reading of "does not panic".
   PROVED (all states, unbounded histories): the structural part of consistency that every later
   argument rests on — the union-find and the class table stay aligned (ids are indices into both),
   nothing but alloc_eclass ever allocates, insertion of a known node is the identity on the state,
   and queries (lookup, eq, find, progress, enodes) cannot modify the e-graph because they return no
   state at all.
   NOT PROVED: that the model never returns an error value, and the deep invariants checked by
   EGraph::check (canonical shapes, hash-cons injectivity, slot coverage).  Those are decided per run:
   after EVERY operation of every explored history the implementation is compared with the model and
   judged by check() and the consistency predicates, in the default and the checks build. *)
From SE Require Import EGraph.Model EGraph.ModelMachine EGraph.ModelFacts EGraph.UnionFindFacts EGraph.HashconsFacts.

Theorem C08_wf_initial : eg_wf empty_egraph.
Proof. exact eg_wf_empty. Qed.
Print Assumptions C08_wf_initial.

Theorem C08_wf_add : forall t s a s', eg_wf s -> add_expr t s = Ok (a, s') -> eg_wf s'.
Proof. exact eg_wf_add_expr. Qed.
Print Assumptions C08_wf_add.

Theorem C08_wf_union : forall l r s b s', eg_wf s -> eg_union l r s = Ok (b, s') -> eg_wf s'.
Proof. exact eg_wf_eg_union. Qed.
Print Assumptions C08_wf_union.

Theorem C08_only_alloc_allocates : forall fuel s x s', rebuild fuel s = Ok (x, s') ->
  List.length (classes s') = List.length (classes s) /\ (eg_wf s -> List.length (unionfind s') = List.length (unionfind s)).
Proof. exact rebuild_no_alloc. Qed.
Print Assumptions C08_only_alloc_allocates.

Theorem C08_known_insertion_is_identity : forall s n a, eg_lookup s n = Ok (Some a) -> eg_add n s = Ok (a, s).
Proof. exact eg_add_known. Qed.
Print Assumptions C08_known_insertion_is_identity.


(* the union-find of every reachable model state is acyclic (ranked), entries stay in bounds, leaders
   carry partial identity maps — through add, union and the whole of rebuild *)
Theorem C08_unionfind_ok_reachable : forall terms ops hs s,
  run_ops terms ops [] empty_egraph = Ok (hs, s) -> uf_ok s.
Proof. exact uf_ok_reachable. Qed.
Print Assumptions C08_unionfind_ok_reachable.

(* hence canonicalisation never exhausts its fuel (the model's only non-Rust error value) and its only
   possible error is an id that was never allocated *)
Theorem C08_find_total : forall s a e, uf_ok s -> find_applied_id s a = Err e ->
  e = OutOfBounds /\ (List.length (unionfind s) <= N.to_nat (aid a))%nat.
Proof. exact find_applied_id_err. Qed.
Print Assumptions C08_find_total.

(* the consistency clause "canonicalising an invocation twice equals canonicalising it once" *)
Theorem C08_canonicalisation_idempotent : forall s a b, uf_ok s ->
  find_applied_id s a = Ok b -> find_applied_id s b = Ok b.
Proof. exact find_idempotent. Qed.
Print Assumptions C08_canonicalisation_idempotent.


(* THE CONSISTENCY CLAUSES, on the model, for every reachable state (EGraph/HashconsFacts.v): the hash-cons and the
   per-class node tables agree; no shape is stored in two classes ("no e-node belongs to two live classes"); every
   stored shape is canonical when the operation has returned (no stale shapes; between `uint` and `rebuild` this is
   false - counterexamples strict_false_mid_rebuild - which is exactly what the pending worklist records); and every
   e-node listed for a class looks up to that class.  Premise ops_pre: every inserted node has covered children
   (always true of the handles the model returns), mentions no slot name of generated form at or above the fresh
   counter, and binds pairwise distinct names - the "well-formed inputs" of the property; both side conditions are
   shown necessary by counterexamples (HashconsAbs.v). *)
Theorem C08_structure_consistent_reachable : forall terms ops hs s,
  ops_pre terms ops [] empty_egraph -> run_ops terms ops [] empty_egraph = Ok (hs, s) ->
  hc_ok s /\
  (forall sh i, na_get (hashcons s) sh = Some i <-> (exists p, stored s i sh p)) /\
  (forall i j sh p q, stored s i sh p -> stored s j sh q -> i = j) /\
  (forall i sh p, stored s i sh p -> canon s sh) /\
  (forall i sh bij src nd, stored s i sh (bij, src) -> apply_slotmap false bij sh = Ok nd ->
     exists a, eg_lookup s nd = Ok (Some a) /\ aid a = i).
Proof. exact reachable_consistent. Qed.
Print Assumptions C08_structure_consistent_reachable.

(* third session (EGraph/OpsPreFacts.v): the dynamic premise ops_pre is DERIVED from one static, decidable premise on the
   inserted terms (arity-correct children, pairwise distinct binders per node, no slot name of the fresh residue):
   for EVERY history over such terms the structure is consistent when an operation has returned. *)
From SE Require Import EGraph.OpsPreFacts.
Theorem C08_structure_consistent_for_all_histories : forall terms ops hs s, List.Forall term_static terms ->
  run_ops terms ops [] empty_egraph = Ok (hs, s) ->
  hc_ok s /\
  (forall sh i, na_get (hashcons s) sh = Some i <-> exists p, stored s i sh p) /\
  (forall i j sh p q, stored s i sh p -> stored s j sh q -> i = j) /\
  (forall i sh p, stored s i sh p -> canon s sh) /\
  (forall i sh bij src nd, stored s i sh (bij, src) -> apply_slotmap false bij sh = Ok nd ->
     exists a, eg_lookup s nd = Ok (Some a) /\ aid a = i).
Proof. exact structure_consistent_reachable_static. Qed.
Print Assumptions C08_structure_consistent_for_all_histories.

Theorem C08_static_premise_gives_the_dynamic_one : forall terms ops, List.Forall term_static terms -> ops_pre terms ops [] empty_egraph.
Proof. exact ops_pre_static. Qed.
Print Assumptions C08_static_premise_gives_the_dynamic_one.

(* third session, third round (EGraph/NoError*.v, 22 files): PANIC-FREEDOM OF THE MODEL.  Every Rust panic site is an `Err <tag>` of
   the model; for EVERY history over statically well-formed terms whose indices are in range, the model never returns a NON-fuel
   error: each unwrap / index / assert / expect site is excluded by a proved invariant (table in the header of NoError.v; incl. the
   `.expect("handle_congruence should only be called on hashcons collision!")` site, excluded by the key invariant).  "Modulo fuel"
   cannot be dropped FOR THE MODEL'S CONSTANTS: the Rust loops are unbounded, the model's are fuelled, and two constants are exceeded
   by reachable well-formed runs (hp_loop's 100 by two 101-slot terms and one union: C08_model_fuel_constant_is_a_model_limit;
   rebuild's 2000 by 1999 parents of one class: extra/NoErrorFuelBig.v, 19 min of vm_compute, not part of the build) - limits of the
   model, outside every correspondence stream, not panics of the implementation.  Results do not depend on the fuel once it suffices
   (C08_rebuild_result_independent_of_fuel).  NOT proved: termination (existence of a sufficient fuel for every reachable state). *)
From SE Require Import EGraph.NoErrorBase EGraph.NoErrorTop EGraph.NoError EGraph.NoErrorFuel EGraph.NoErrorFuelHp EGraph.NoErrorLimits.
Theorem C08_no_panic_modulo_fuel : forall terms ops e, List.Forall term_static terms -> ops_in_range terms ops ->
  run_ops terms ops [] empty_egraph = Err e -> is_fuel_error e.
Proof. exact no_panic_modulo_fuel. Qed.
Print Assumptions C08_no_panic_modulo_fuel.

Theorem C08_rebuild_result_independent_of_fuel : forall f f' s r r',
  rebuild f s = Ok r -> rebuild f' s = Ok r' -> r = r'.
Proof. exact rebuild_fuel_indep. Qed.
Print Assumptions C08_rebuild_result_independent_of_fuel.

Theorem C08_model_fuel_constant_is_a_model_limit :
  run_ops (cyc_terms 101) [HAdd 0; HAdd 1; HUnion 0 1 None] [] empty_egraph = Err OutOfFuel.
Proof. exact hp_fuel_exceeded_reachable. Qed.
Print Assumptions C08_model_fuel_constant_is_a_model_limit.

Theorem C08_unrestricted_statement_is_false :
  ~ (forall terms ops, exists hs s, run_ops terms ops [] empty_egraph = Ok (hs, s)).
Proof. exact C08_no_error_full_false. Qed.
Print Assumptions C08_unrestricted_statement_is_false.

(* third session, fourth round (EGraph/ModelFuel.v, Termination*.v, 14 files): TERMINATION.  PROVED with no hypothesis: union_internal
   terminates from every state satisfying the reachable invariants (it recurses only after shrink_slots has removed a slot from a leader
   class: the weight "sum over leader classes of 1 + number of slots" strictly decreases) - C08_union_internal_terminates; a fuel-parametric
   copy of the model (ModelFuel.v) agrees with Model.v whenever the latter succeeds, and its results do not depend on the fuels
   (C08_fuel_parametric_results_are_fuel_independent); a well-formed history either succeeds for ALL fuel assignments above the model's
   constants with one and the same result, or Model.v's run ran out of (constant) fuel (C08_history_total_or_model_fuel).
   PROVED from ONE open slot-level lemma (TerminationHp.HP_cap_proper: when the subset test of the hp_loop fails, the cap computed by
   handle_shrink_in_upwards_merge is a PROPER subset - true in all 10 953 rounds evaluated; not derivable from the existing invariants):
   every hp_loop round after a failed test strictly decreases the weight, the loop's own fuel settles, every handle_pending round
   decreases (rank, number of pending entries) lexicographically, and rebuild settles (C08_rebuild_settles).  No non-terminating run was
   found in > 25 000 evaluated histories; every round either moves the progress measure or removes exactly the popped entry. *)
From SE Require Import EGraph.KidsFacts EGraph.ModelFuel EGraph.TerminationUnion EGraph.TerminationHp EGraph.Termination.
Theorem C08_union_internal_terminates : forall (E : node -> Prop) l r s,
  kinv s -> hce E s -> covers s l -> covers s r -> exists f res, union_internal f l r s = Ok res.
Proof. exact union_internal_terminates. Qed.
Print Assumptions C08_union_internal_terminates.

Theorem C08_fuel_parametric_results_are_fuel_independent : forall ph ph' terms ops hs s r r',
  run_ops_f ph terms ops hs s = Ok r -> run_ops_f ph' terms ops hs s = Ok r' -> r = r'.
Proof. exact run_ops_f_indep. Qed.
Print Assumptions C08_fuel_parametric_results_are_fuel_independent.

Theorem C08_history_total_or_model_fuel : forall terms ops, List.Forall term_static terms -> ops_in_range terms ops ->
  (exists hs s, forall ph, fuels_le model_fuels ph -> run_ops_f ph terms ops [] empty_egraph = Ok (hs, s)) \/
  run_ops terms ops [] empty_egraph = Err OutOfFuel.
Proof. exact run_ops_f_total_or_model_fuel. Qed.
Print Assumptions C08_history_total_or_model_fuel.

Theorem C08_rebuild_settles : HP_cap_proper -> forall s, Jm noex s -> Kx s ->
  exists f, (forall f', (f <= f')%nat -> rebuild f' s = rebuild f s) /\
    ((exists s', rebuild f s = Ok (tt, s') /\ Jm noex s' /\ Kx s' /\ pending s' = []) \/ rebuild f s = Err OutOfFuel).
Proof. exact rebuild_settles_from_cap. Qed.
Print Assumptions C08_rebuild_settles.

(* third session, fifth round (EGraph/TerminationCap{Core,,Rebuild,Chk,Add}.v): the open lemma is PROVED for loop states that carry source
   coherence (SelfSymDefs.srcok_inv, a reachable invariant): when the subset test of hp_loop fails, the class invocation has a slot that is
   not public in the source's syntactic node, so the cap computed for the shrink is a PROPER subset and the class really loses a slot.
   Hence, for every state reached by a history over statically well-formed terms, with NO open hypothesis: every handle_pending round
   decreases (rank, number of pending entries) lexicographically and `rebuild` SETTLES - there is a fuel from which on its result no longer
   changes, and the settled result is success (invariants kept, worklist empty) or exhaustion of one of the model's INNER constants. *)
From SE Require Import EGraph.TerminationCapRebuild.
Theorem C08_rebuild_settles_for_all_histories : forall terms ops hs s, List.Forall term_static terms ->
  run_ops terms ops [] empty_egraph = Ok (hs, s) ->
  exists f, (forall f', (f <= f')%nat -> rebuild f' s = rebuild f s) /\
    ((exists s', rebuild f s = Ok (tt, s') /\ RI s' /\ pending s' = []) \/ rebuild f s = Err OutOfFuel).
Proof. exact rebuild_settles_reachable. Qed.
Print Assumptions C08_rebuild_settles_for_all_histories.

Theorem C08_rebuild_settles_from_the_run_invariant : forall s, RI s ->
  exists f, (forall f', (f <= f')%nat -> rebuild f' s = rebuild f s) /\
    ((exists s', rebuild f s = Ok (tt, s') /\ RI s' /\ pending s' = []) \/ rebuild f s = Err OutOfFuel).
Proof. exact rebuild_settles. Qed.
Print Assumptions C08_rebuild_settles_from_the_run_invariant.

Definition C08_no_error_full : Prop :=
  forall terms ops, exists hs s, run_ops terms ops [] empty_egraph = Ok (hs, s).

(* non-vacuity: a history with a symmetry, a redundancy and a congruence runs to Ok in the model *)
Example C08_nonvacuous : exists hs s,
  run_ops [RT {| nvar := 1; nargs := [ASlot 4; ASlot 8; ASlot 12] |} [];
           RT {| nvar := 1; nargs := [ASlot 8; ASlot 4; ASlot 12] |} [];
           RT {| nvar := 1; nargs := [ASlot 36; ASlot 8; ASlot 12] |} [];
           RT {| nvar := 6; nargs := [AApp {| aid := 0; am := [] |}] |} [RT {| nvar := 1; nargs := [ASlot 4; ASlot 8; ASlot 12] |} []]]
          [HAdd 0; HAdd 1; HUnion 0 1 None; HAdd 2; HUnion 0 2 None; HAdd 3] [] empty_egraph = Ok (hs, s)
  /\ eg_wf s /\ List.length (classes s) = 2%nat.
Proof. do 2 eexists. split; [vm_compute; reflexivity|]. split; vm_compute; reflexivity. Qed.
