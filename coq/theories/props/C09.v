(* STATUS NOTE (third session): remarks of the form "NOT PROVED" in the comments below were written when the first theorems of this
   file were stated; theorems added further down in this file supersede them.  The current status of the property is the row of
   DESIGN.md section 14.4; the premises that remain are listed in DESIGN.md section 14.9. *)
(* C09 — Insertion is canonical: known terms create nothing, lookup agrees with add.
   Model: EGraph/Model.v (+ Model9.v for lookup_rec_expr).
   PROVED for every state and node: if lookup finds a node, inserting it returns exactly that
   invocation and leaves the WHOLE state unchanged (no class, no node, not even a fresh slot is
   consumed); if lookup does not find it, insertion allocates exactly one class with the next id;
   lookup is a function of the state that returns no state (it cannot modify the e-graph).
   NOT PROVED: equivariance of insertion under renaming and that a term equal to a represented one
   through unions of subterms is found; decided per run by probes against implementation and model. *)
From SE Require Import EGraph.Model EGraph.ModelMachine EGraph.ModelFacts EGraph.Model9 EGraph.UnionFindFacts EGraph.InvariantFacts EGraph.HashconsFacts.

Theorem C09_known_node : forall s n a, eg_lookup s n = Ok (Some a) -> eg_add n s = Ok (a, s).
Proof. exact eg_add_known. Qed.
Print Assumptions C09_known_node.

Theorem C09_known_shape : forall s t a, lookup_internal s t = Ok (Some a) -> add_internal t s = Ok (a, s).
Proof. exact add_internal_known. Qed.
Print Assumptions C09_known_shape.

Theorem C09_unknown_allocates_one : forall t s a s',
  lookup_internal s t = Ok None -> add_internal t s = Ok (a, s') ->
  List.length (classes s') = S (List.length (classes s)) /\
  (eg_wf s -> List.length (unionfind s') = S (List.length (unionfind s)) /\ aid a = N.of_nat (List.length (unionfind s))).
Proof. exact add_internal_allocates_one. Qed.
Print Assumptions C09_unknown_allocates_one.

(* lookup cannot modify the e-graph: its type has no output state; as a statement about the
   machine used in the correspondence: probing does not change what an earlier lookup returned *)
Theorem C09_lookup_is_a_function_of_the_state : forall s n r1 r2, eg_lookup s n = r1 -> eg_lookup s n = r2 -> r1 = r2.
Proof. intros; congruence. Qed.
Print Assumptions C09_lookup_is_a_function_of_the_state.

(* LOOKUP AFTER ADD (EGraph/InvariantFacts.v).  On every state reached by insertions only ("flat": all groups
   trivial, no redundancy, nothing pending — preserved by eg_add and add_expr through the rebuild that
   mk_singleton_class runs), for every node whose child invocations cover their classes' slots and that mentions
   no slot name at or above the fresh counter: after eg_add, lookup finds EXACTLY the returned invocation, and
   adding the node again returns it and leaves the state unchanged.  Both side conditions are necessary
   (InvariantFacts.v: ix_missing_lookup_fails, ix_capture_lookup_fails).  The extension to states with unions is
   not proved (three obligations on move_to / gadd_set / shrink_slots, listed in InvariantFacts.v section 14). *)
Theorem C09_lookup_after_add : forall s n a s', flat s -> node_ok s n -> eg_add n s = Ok (a, s') ->
  eg_lookup s' n = Ok (Some a) /\ eg_add n s' = Ok (a, s').
Proof. exact lookup_after_add. Qed.
Print Assumptions C09_lookup_after_add.

Theorem C09_insertion_keeps_flat : forall t s a s', flat s -> add_expr t s = Ok (a, s') -> flat s'.
Proof. exact flat_add_expr. Qed.
Print Assumptions C09_insertion_keeps_flat.

(* insertion does not disturb what is already there: canonicalisation, equality and shapes over existing ids *)
Theorem C09_allocation_frame : forall sl syn s i s', uf_ok s -> eg_wf s -> alloc_eclass sl syn s = Ok (i, s') ->
  (forall a, (N.to_nat (aid a) < List.length (unionfind s))%nat -> find_applied_id s' a = find_applied_id s a) /\
  (forall a b, (N.to_nat (aid a) < List.length (unionfind s))%nat -> (N.to_nat (aid b) < List.length (unionfind s))%nat ->
     eg_eq s' a b = eg_eq s a b) /\
  (forall n, List.Forall (fun a => (N.to_nat (aid a) < List.length (unionfind s))%nat) (app_occ n) -> shape s' n = shape s n).
Proof. exact alloc_eclass_frame. Qed.
Print Assumptions C09_allocation_frame.

(* KNOWN TERMS CREATE NOTHING, for EVERY state (EGraph/HashconsFacts.v): if lookup_rec finds the term, inserting it
   returns exactly that invocation and leaves the whole state unchanged; in particular a second insertion creates
   nothing whenever the lookup after the first one hits.  That the lookup after an insertion DOES hit is proved for
   insertion-only states (C09_lookup_after_add) and checked executably on all explored states; the canonical-shape
   invariant it rests on (no stale shapes once an operation has returned) is proved for every reachable state
   (C08_structure_consistent_reachable). *)
Theorem C09_known_term_insertion_is_identity : forall t s a, lookup_rec s t = Ok (Some a) -> add_expr t s = Ok (a, s).
Proof. exact lookup_rec_add_expr. Qed.
Print Assumptions C09_known_term_insertion_is_identity.

Theorem C09_second_insertion_creates_nothing : forall t s a s1 a',
  add_expr t s = Ok (a, s1) -> lookup_rec s1 t = Ok (Some a') -> add_expr t s1 = Ok (a', s1).
Proof. exact second_insertion_creates_nothing. Qed.
Print Assumptions C09_second_insertion_creates_nothing.

(* re-inserting a term that is still represented by (an invocation equal to) its handle changes nothing and returns an
   invocation EQUAL to the handle (EGraph/CongruenceFacts.v; `rep s t a` is decidable - repb - and evaluated per run) *)
From SE Require Import EGraph.AddCoversFacts EGraph.CongruenceFacts.
Theorem C09_reinsertion_returns_an_equal_invocation : forall s t a a' s',
  inv3 s -> rep s t a -> add_expr t s = Ok (a', s') -> s' = s /\ eg_eq s' a a' = Ok true.
Proof. exact reinsert_equal. Qed.
Print Assumptions C09_reinsertion_returns_an_equal_invocation.

(* third session (EGraph/RepFacts.v): `rep` PERSISTS along any step that keeps the state good (canonical shapes,
   self-symmetries complete), keeps equalities and loses no node lookup (`rstep`); a lookup does not distinguish nodes
   whose children are pairwise equal; and the per-run certified form: on every run on which the executable check
   handles_repb is true (machine egc evaluates it on every explored history) every earlier term is found by an
   invocation equal to its handle and re-inserting it changes nothing.  The unconditional reachable-state forms
   (RepFacts.reachable_handles_rep, reinsertion_is_identity_reachable) still rest on five per-operation hypotheses
   (self-symmetries preserved / no stored node lost by a miss-insertion and by a genuine union) and are therefore not
   listed here. *)
From SE Require Import Lang.RenameFacts EGraph.NodeCong EGraph.KidEqFacts EGraph.RepFacts.
Theorem C09_lookup_does_not_distinguish_equal_children : forall s m l x,
  good s -> List.NoDup (binders m) -> List.Forall2 (kid_eq s) (app_occ m) l ->
  eg_lookup s m = Ok (Some x) ->
  exists x', eg_lookup s (set_apps m l) = Ok (Some x') /\ eg_eq s x x' = Ok true.
Proof. exact lookup_kid_eq. Qed.
Print Assumptions C09_lookup_does_not_distinguish_equal_children.

Theorem C09_represented_terms_stay_represented : forall s s', good s -> rstep s s' ->
  forall t a, twf t -> rep s t a -> rep s' t a.
Proof. exact rep_persist. Qed.
Print Assumptions C09_represented_terms_stay_represented.

Theorem C09_checked_reinsertion_is_identity : forall terms ops hs s k a t,
  run_ops terms ops [] empty_egraph = Ok (hs, s) -> handles_repb terms ops hs s = true ->
  List.In (k, a) (List.combine (add_idx ops) hs) -> nth_opt terms k = Some t ->
  (exists x, lookup_rec s t = Ok (Some x) /\ eg_eq s x a = Ok true) /\
  (forall a' s', add_expr t s = Ok (a', s') -> s' = s /\ eg_eq s' a a' = Ok true).
Proof. exact reinsertion_checked. Qed.
Print Assumptions C09_checked_reinsertion_is_identity.

(* third session, second round (EGraph/RepReach*.v, thirteen files; OpsPreFacts.v; StaticFacts.v): the five per-operation
   hypotheses are PROVED (new invariants `covd`: every class has a recorded source coherent with it, `synsep`), so for EVERY
   history of insertions and unions over statically well-formed terms: every handle still represents its term in the
   final state; re-inserting any earlier term at any later point creates NOTHING (state unchanged) and returns an
   invocation equal to the original handle; the recursive lookup finds every inserted term in every later state. *)
From SE Require Import EGraph.OpsPreFacts EGraph.StaticFacts.
Theorem C09_handles_stay_represented_for_all_histories : forall terms ops hs s, List.Forall term_static terms ->
  run_ops terms ops [] empty_egraph = Ok (hs, s) ->
  forall k a, List.In (k, a) (List.combine (add_idx ops) hs) -> exists t, nth_opt terms k = Some t /\ rep s t a.
Proof. exact handles_rep_static. Qed.
Print Assumptions C09_handles_stay_represented_for_all_histories.

Theorem C09_reinsertion_is_identity_for_all_histories : forall terms ops hs s k a t, List.Forall term_static terms ->
  run_ops terms ops [] empty_egraph = Ok (hs, s) ->
  List.In (k, a) (List.combine (add_idx ops) hs) -> nth_opt terms k = Some t ->
  (exists x, lookup_rec s t = Ok (Some x) /\ eg_eq s x a = Ok true) /\
  (forall a' s', add_expr t s = Ok (a', s') -> s' = s /\ eg_eq s' a a' = Ok true).
Proof. exact reinsertion_is_identity_static. Qed.
Print Assumptions C09_reinsertion_is_identity_for_all_histories.
