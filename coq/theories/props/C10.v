(* C10 — Class symmetries are exactly the generated permutation group.
   Model: Group/Group.v (Schreier–Sims chain of group/mod.rs for P = Perm).
   PROVED: for every SET of at most three generators on one to four slots — the finite domain the
   property names, bound stated in the theorem — membership, count, duplicate-free enumeration,
   orbits and the growth report of add_set agree with brute-force closure.  The proof is by
   reflection: the kernel evaluates the check over all 2 325 + 42 + 4 + 2 generator sets
   (vm_compute, four shards) and forallb_forall lifts it.
   NOT PROVED: the same for all finite slot sets (Schreier's lemma in general): C10_exact_full.
   Larger instances (5, 6 slots) and the implementation itself are covered per run by the
   correspondence through the cfg(slotted_egraphs_verif) hook and by brute-force closure evaluated
   on the implementation's answers. *)
From SE Require Import Group.Group Group.GroupMachine Group.GroupBounded Group.GroupExact.
From Coq Require Import Arith.

Theorem C10_exact_le4 : forall n gens, (1 <= n <= 4)%nat -> In gens (subsets_upto 3 (enum n)) ->
  exists g, group_new false (idn n) gens = Ok g /\
    let cl := closure n gens in
    gcount g = N.of_nat (List.length cl) /\
    (forall p, In p (enum n) -> gcontains false g p = Ok (pmem p cl)) /\
    (exists l, gall_perms false g = Ok l /\ pnodup l = true /\ same_set l cl = true) /\
    (forall s, In s (seq 0 n) -> exists o, gorbit false g (4 * N.of_nat s) = Ok o /\ sset_eqb o (orbit_bf cl (4 * N.of_nat s)) = true) /\
    ((List.length gens <= 2)%nat -> forall p, In p (enum n) ->
       exists g' grew, gadd_set false g [p] = Ok (g', grew) /\ grew = negb (pmem p cl) /\
                       gcount g' = N.of_nat (List.length (closure n (gens ++ [p])))).
Proof.
  intros n gens Hn Hin.
  destruct (check_group_meaning _ _ _ (exact_le4 n gens Hn Hin)) as [g [Hg [H1 [H2 [H3 [H4 H5]]]]]].
  exists g. split; [exact Hg|]. split; [exact H1|]. split; [exact H2|]. split; [exact H3|]. split; [exact H4|].
  intros Hl. apply H5. apply Nat.leb_le. exact Hl.
Qed.
Print Assumptions C10_exact_le4.

Definition C10_exact_full : Prop :=
  forall n gens, Forall (fun g => In g (enum n)) gens ->
    exists g, group_new false (idn n) gens = Ok g /\
      gcount g = N.of_nat (List.length (closure_loop (S (Nat.pow n n)) gens [idn n] [idn n])) /\
      (forall p, In p (enum n) -> gcontains false g p = Ok (pmem p (closure_loop (S (Nat.pow n n)) gens [idn n] [idn n]))).

(* non-vacuity: the domain is what it should be, and a non-abelian instance *)
Example C10_domain_sizes :
  List.length (enum 4) = 24%nat /\ List.length (subsets_upto 3 (enum 4)) = 2325%nat /\
  List.length (subsets_upto 3 (enum 3)) = 42%nat.
Proof. vm_compute. repeat split. Qed.

Example C10_nonvacuous :
  let gens := [perm_of_vals [1; 2; 0; 3]; perm_of_vals [1; 0; 2; 3]] in   (* a 3-cycle and a transposition: S3 inside S4 *)
  exists g, group_new false (idn 4) gens = Ok g /\ gcount g = 6 /\
            gcontains false g (perm_of_vals [2; 1; 0; 3]) = Ok true /\
            gcontains false g (perm_of_vals [0; 1; 3; 2]) = Ok false.
Proof. eexists. split; [vm_compute; reflexivity|]. split; [vm_compute; reflexivity|]. split; vm_compute; reflexivity. Qed.
