(* C11 — Slot names do not matter: behaviour is equivariant under renaming.
   PROVED: the specified congruence is equivariant: renaming every slot name of all asserted
   equations and of the queried terms through a map that is injective on user names (and leaves the
   reserved binder-level names alone) maps derivations to derivations; the weak shape is total for
   every node, so canonical forms exist independently of the names chosen.
   NOT PROVED: equivariance of the algorithm (its tie-breaks use the slot order on purpose).  Decided
   per run with order-reversing, shifting, scattering and numeric->textual renamings, on the
   implementation (original vs renamed run) and against the e-graph model. *)
From SE Require Import Sem.Deriv Sem.DerivFacts Lang.Sig Lang.LangFacts.

Theorem C11_congruence_equivariant : forall sigma E d s t,
  (forall x, is_B x = false -> is_B (sigma x) = false) ->
  (forall x y, is_B x = false -> is_B y = false -> sigma x = sigma y -> x = y) ->
  (forall x, is_B x = true -> sigma x = x) ->
  Deriv E d s t -> Deriv (ren_eqs sigma E) d (cren sigma s) (cren sigma t).
Proof. exact Deriv_equivariant. Qed.
Print Assumptions C11_congruence_equivariant.

Theorem C11_shape_total : forall legacy n, exists sh bij, weak_shape legacy false n = Ok (sh, bij).
Proof. exact weak_shape_total. Qed.
Print Assumptions C11_shape_total.

Definition C11_algorithm_equivariant_full : Prop :=
  forall (run : equations -> cterm -> cterm -> bool) sigma E s t,
    (forall x y, sigma x = sigma y -> x = y) ->
    run E s t = run (ren_eqs sigma E) (cren sigma s) (cren sigma t).
