(* STATUS NOTE (third session): remarks of the form "NOT PROVED" in the comments below were written when the first theorems of this
   file were stated; theorems added further down in this file supersede them.  The current status of the property is the row of
   DESIGN.md section 14.4; the premises that remain are listed in DESIGN.md section 14.9. *)
(* C11 — Slot names do not matter: behaviour is equivariant under renaming.
   PROVED: the specified congruence is equivariant: renaming every slot name of all asserted
   equations and of the queried terms through a map that is injective on user names (and leaves the
   reserved binder-level names alone) maps derivations to derivations; the weak shape is total for
   every node, so canonical forms exist independently of the names chosen.
   NOT PROVED: equivariance of the algorithm (its tie-breaks use the slot order on purpose).  Decided
   per run with order-reversing, shifting, scattering and numeric->textual renamings, on the
   implementation (original vs renamed run) and against the e-graph model. *)
From SE Require Import Sem.Deriv Sem.DerivFacts Lang.Sig Lang.LangFacts.

Theorem C11_congruence_equivariant : forall sigma E d s t,
  (forall x, is_B x = false -> is_B (sigma x) = false) ->
  (forall x y, is_B x = false -> is_B y = false -> sigma x = sigma y -> x = y) ->
  (forall x, is_B x = true -> sigma x = x) ->
  Deriv E d s t -> Deriv (ren_eqs sigma E) d (cren sigma s) (cren sigma t).
Proof. exact Deriv_equivariant. Qed.
Print Assumptions C11_congruence_equivariant.

Theorem C11_shape_total : forall legacy n, exists sh bij, weak_shape legacy false n = Ok (sh, bij).
Proof. exact weak_shape_total. Qed.
Print Assumptions C11_shape_total.

Definition C11_algorithm_equivariant_full : Prop :=
  forall (run : equations -> cterm -> cterm -> bool) sigma E s t,
    (forall x y, sigma x = sigma y -> x = y) ->
    run E s t = run (ren_eqs sigma E) (cren sigma s) (cren sigma t).

(* third session (EGraph/Complete*.v, CompleteEquiv.v): EQUIVARIANCE OF THE E-GRAPH MODEL ITSELF, as a corollary of soundness, completeness and the
   equivariance of the congruence: renaming every slot occurrence of all inputs (binders included) by a renaming that is injective on the
   non-reserved names and has a left inverse does not change the answer to any equality query on corresponding handles - although the
   algorithm's tie-breaks use the slot order.  (`equivariance_needs_injective`: a non-injective renaming changes answers.) *)
From SE Require Import EGraph.Model EGraph.ModelMachine EGraph.OpsPreFacts EGraph.CompleteEquiv EGraph.Complete.
Theorem C11_model_equivariance : forall sg tau terms ops hs s hs' s' i j a b a' b', nonB_ren sg -> nonB_ren tau ->
  (forall x, tau (sg x) = x) -> List.Forall term_static_user terms ->
  run_ops terms ops [] empty_egraph = Ok (hs, s) -> run_ops (List.map (rren sg) terms) ops [] empty_egraph = Ok (hs', s') ->
  nth_opt hs i = Some a -> nth_opt hs j = Some b -> nth_opt hs' i = Some a' -> nth_opt hs' j = Some b' ->
  eg_eq s a b = eg_eq s' a' b'.
Proof. exact equivariance_iff_all. Qed.
Print Assumptions C11_model_equivariance.

Theorem C11_model_equivariance_positive : forall sg terms ops hs s hs' s' i j a b a' b', nonB_ren sg -> List.Forall term_static_user terms ->
  run_ops terms ops [] empty_egraph = Ok (hs, s) -> run_ops (List.map (rren sg) terms) ops [] empty_egraph = Ok (hs', s') ->
  nth_opt hs i = Some a -> nth_opt hs j = Some b -> nth_opt hs' i = Some a' -> nth_opt hs' j = Some b' ->
  eg_eq s a b = Ok true -> eg_eq s' a' b' = Ok true.
Proof. exact equivariance_all. Qed.
Print Assumptions C11_model_equivariance_positive.

(* third session, second round (EGraph/CompleteSlots*.v): the slot sets are equivariant too - under a renaming of all inputs the non-redundant slots of
   every handle's canonical form are exactly the images of the original ones (so their number is the same), and a permuted invocation compares
   equal iff the correspondingly permuted invocation does in the renamed run (CompleteSlots.sym_equivariant). *)
From SE Require Import EGraph.SoundFacts EGraph.CompleteSlots.
Theorem C11_model_slots_equivariant : forall sg tau terms ops hs hs' s s', nonB_ren sg -> nonB_ren tau -> (forall x, tau (sg x) = x) ->
  List.Forall term_static_user terms ->
  run_ops terms ops [] empty_egraph = Ok (hs, s) -> run_ops (List.map (rren sg) terms) ops [] empty_egraph = Ok (hs', s') ->
  forall i a a' b b' ta, nth_opt hs i = Some a -> nth_opt (handle_cterms terms ops) i = Some ta -> find_applied_id s a = Ok a' ->
  nth_opt hs' i = Some b -> find_applied_id s' b = Ok b' ->
  forall y, List.In y (SlotMap.values (am b')) <-> exists x, List.In x (SlotMap.values (am a')) /\ y = sg x.
Proof. exact slots_equivariant. Qed.
Print Assumptions C11_model_slots_equivariant.
