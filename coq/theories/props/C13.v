(* STATUS NOTE (third session): remarks of the form "NOT PROVED" in the comments below were written when the first theorems of this
   file were stated; theorems added further down in this file supersede them.  The current status of the property is the row of
   DESIGN.md section 14.4; the premises that remain are listed in DESIGN.md section 14.9. *)
(* C13 — Equalities are never lost and old handles stay valid.
   Model: EGraph/Model.v, the Gallina mirror of src/egraph/*.rs whose observables agree with the
   implementation after every operation (correspondence stream `egs`).
   PROVED for every state, every term and every pair of invocations (unbounded histories follow by
   induction over the operation list, C13_history_alloc_monotone):
   - classes are only ever allocated: the number of classes and the length of the union-find never
     decrease under add_expr / union, so every id ever returned stays in range (first component of the
     progress measure);
   - `union` and `rebuild` allocate nothing: with the number of allocated classes fixed by a union,
     only the remaining components of the measure can move;
   - the fresh-slot counter only grows and keeps its residue, so slots invented later never collide
     with slots of earlier handles.
   NOT PROVED: that equality of two invocations persists through rebuild, that slot sets only shrink,
   and the direction of the live-class / slot / symmetry components.  These are decided per run, after
   every operation, on the implementation and against the model. *)
From SE Require Import EGraph.Model EGraph.ModelMachine EGraph.ModelFacts EGraph.UnionFindFacts EGraph.InvariantFacts EGraph.UnionInvariantFacts EGraph.AddCoversFacts EGraph.MonotoneFacts.
From Coq Require Import Lia.

Theorem C13_add_alloc_monotone : forall t s a s', add_expr t s = Ok (a, s') ->
  (List.length (unionfind s) <= List.length (unionfind s'))%nat /\ (List.length (classes s) <= List.length (classes s'))%nat.
Proof. exact add_expr_mono. Qed.
Print Assumptions C13_add_alloc_monotone.

Theorem C13_union_alloc_monotone : forall l r s b s', eg_union l r s = Ok (b, s') ->
  (List.length (unionfind s) <= List.length (unionfind s'))%nat /\ (List.length (classes s) <= List.length (classes s'))%nat.
Proof. exact eg_union_mono. Qed.
Print Assumptions C13_union_alloc_monotone.

Theorem C13_union_allocates_nothing : forall l r s b s', eg_union l r s = Ok (b, s') ->
  List.length (classes s') = List.length (classes s) /\ (eg_wf s -> List.length (unionfind s') = List.length (unionfind s)).
Proof. exact eg_union_no_alloc. Qed.
Print Assumptions C13_union_allocates_nothing.

Theorem C13_wf_preserved : forall s, eg_wf s ->
  (forall t a s', add_expr t s = Ok (a, s') -> eg_wf s') /\ (forall l r b s', eg_union l r s = Ok (b, s') -> eg_wf s').
Proof. intros s H. split; [intros t a s' E; eapply eg_wf_add_expr; eauto | intros l r b s' E; eapply eg_wf_eg_union; eauto]. Qed.
Print Assumptions C13_wf_preserved.

Theorem C13_fresh_counter_grows : forall s s',
  (exists t a, add_expr t s = Ok (a, s')) \/ (exists l r b, eg_union l r s = Ok (b, s')) ->
  Model.ctr s <= Model.ctr s' /\ (Model.ctr s mod 4 = 1 -> Model.ctr s' mod 4 = 1).
Proof. exact ctr_grows. Qed.
Print Assumptions C13_fresh_counter_grows.

(* every history: the operation machine of the correspondence *)
Theorem C13_history_alloc_monotone : forall terms ops hs s hs' s',
  run_ops terms ops hs s = Ok (hs', s') ->
  (List.length (classes s) <= List.length (classes s'))%nat /\ (List.length (unionfind s) <= List.length (unionfind s'))%nat.
Proof.
  intros terms ops. induction ops as [|o t IH]; intros hs s hs' s' H; cbn in H.
  - unfold ret in H. inversion H; subst. split; lia.
  - destruct o as [k|i j jj].
    + destruct (nth_opt terms k) as [tm|]; [|discriminate]. unfold mbind in H.
      destruct (add_expr tm s) as [[a s1]|] eqn:E; [|discriminate].
      destruct (add_expr_mono _ _ _ _ E) as [A1 A2]. destruct (IH _ _ _ _ H) as [B1 B2]. split; lia.
    + destruct (nth_opt hs i) as [a|]; [|discriminate]. destruct (nth_opt hs j) as [b|]; [|discriminate].
      unfold mbind in H. destruct (eg_union a b s) as [[x s1]|] eqn:E; [|discriminate].
      destruct (eg_union_mono _ _ _ _ _ E) as [A1 A2]. destruct (IH _ _ _ _ H) as [B1 B2]. split; lia.
Qed.
Print Assumptions C13_history_alloc_monotone.

Definition C13_eq_persists_full : Prop :=
  forall terms ops hs s hs' s' a b,
    run_ops terms ops hs s = Ok (hs', s') -> eg_eq s a b = Ok true -> eg_eq s' a b = Ok true.

(* old handles stay valid: canonicalisation of an invocation of an allocated id never fails and never runs out of
   fuel in any reachable state (EGraph/UnionFindFacts.v: the union-find of every reachable state is ranked) *)
Theorem C13_old_handles_canonicalise : forall terms ops hs s a,
  run_ops terms ops [] empty_egraph = Ok (hs, s) -> (N.to_nat (aid a) < List.length (unionfind s))%nat ->
  exists b, find_applied_id s a = Ok b.
Proof. intros terms ops hs s a H Ha. apply find_applied_id_ok; [eapply uf_ok_reachable; exact H | exact Ha]. Qed.
Print Assumptions C13_old_handles_canonicalise.

(* equality is reflexive and symmetric (hence a handle stays equal to itself) on every insertion-only state;
   for states with unions this needs the slot invariant uf_slots_ok, whose preservation by unions is not proved *)
Theorem C13_eq_reflexive_symmetric_insertion_only : forall terms ops hs s,
  adds_only ops -> run_ops terms ops [] empty_egraph = Ok (hs, s) ->
  uf_ok s /\ uf_slots_ok s /\
  (forall a, covers s a -> eg_eq s a a = Ok true) /\
  (forall a b, covers s a -> covers s b -> exists x, eg_eq s a b = Ok x /\ eg_eq s b a = Ok x).
Proof. exact insertion_only_invariants. Qed.
Print Assumptions C13_eq_reflexive_symmetric_insertion_only.

(* EQUALITY IS AN EQUIVALENCE RELATION ON EVERY REACHABLE STATE (EGraph/UnionInvariantFacts.v): the invariant eg_inv2
   (ranked union-find, slot/group well-formedness of every class, syntactic nodes below the fresh counter) holds for
   the empty e-graph and is preserved by add_expr and by eg_union through the whole of rebuild (move_to,
   shrink_slots, gadd_set, handle_pending, congruence, self-symmetries), provided the invocations handed to union
   cover their classes' slots.  That proviso is an executable check on the run (unions_coveredb: replays the
   history and tests both handles of every union); it is evaluated for every explored history by the correspondence
   (machine `egc`).  EGraph/AddCoversFacts.v closes the gap (every invocation returned by add_expr covers its class,
   through an invariant on the stored node bijections): see the unconditional theorem below. *)
Theorem C13_eq_is_an_equivalence_on_reachable_states : forall terms ops hs s,
  run_ops terms ops [] empty_egraph = Ok (hs, s) ->
  unions_coveredb terms ops [] empty_egraph = true ->
  eg_inv2 s /\
  (forall a, covers s a -> eg_eq s a a = Ok true) /\
  (forall a b, covers s a -> covers s b -> exists x, eg_eq s a b = Ok x /\ eg_eq s b a = Ok x) /\
  (forall a b c, covers s a -> covers s b -> covers s c ->
     eg_eq s a b = Ok true -> eg_eq s b c = Ok true -> eg_eq s a c = Ok true).
Proof. exact reachable_checked_equivalence. Qed.
Print Assumptions C13_eq_is_an_equivalence_on_reachable_states.

Theorem C13_union_preserves_invariant : forall l r s b s', eg_inv2 s -> covers s l -> covers s r ->
  eg_union l r s = Ok (b, s') -> eg_inv2 s' /\ ext s s'.
Proof. exact inv_eg_union. Qed.
Print Assumptions C13_union_preserves_invariant.

(* UNCONDITIONAL (EGraph/AddCoversFacts.v): in every state reachable by insertions and unions the invariant holds,
   every handle ever returned still covers its class, and equality is reflexive, symmetric and transitive on
   covered invocations - in particular on the handles: an old handle stays valid, stays equal to itself, and two
   handles that compare equal are interchangeable in any later comparison. *)
Theorem C13_eq_equivalence_unconditional : forall terms ops hs s,
  run_ops terms ops [] empty_egraph = Ok (hs, s) ->
  eg_inv2 s /\ List.Forall (covers s) hs /\
  (forall a, covers s a -> eg_eq s a a = Ok true) /\
  (forall a b, covers s a -> covers s b -> exists x, eg_eq s a b = Ok x /\ eg_eq s b a = Ok x) /\
  (forall a b c, covers s a -> covers s b -> covers s c ->
     eg_eq s a b = Ok true -> eg_eq s b c = Ok true -> eg_eq s a c = Ok true).
Proof. exact reachable_eq_equivalence_all. Qed.
Print Assumptions C13_eq_equivalence_unconditional.

Theorem C13_handles_equivalence : forall terms ops hs s,
  run_ops terms ops [] empty_egraph = Ok (hs, s) ->
  (forall a, List.In a hs -> eg_eq s a a = Ok true) /\
  (forall a b, List.In a hs -> List.In b hs -> exists x, eg_eq s a b = Ok x /\ eg_eq s b a = Ok x) /\
  (forall a b c, List.In a hs -> List.In b hs -> List.In c hs ->
     eg_eq s a b = Ok true -> eg_eq s b c = Ok true -> eg_eq s a c = Ok true).
Proof. exact reachable_handles_equivalence. Qed.
Print Assumptions C13_handles_equivalence.

(* EQUALITIES ARE NEVER LOST (EGraph/MonotoneFacts.v) - the property itself, on the model, for every history:
   whatever compared equal after a prefix of the history compares equal after the whole history; all handles of
   the prefix are still handles (same positions) and still cover their classes; and the slot set of a
   canonicalised invocation only shrinks.  Proved through add_expr, eg_union and the whole of rebuild (move_to and
   shrink_slots as wholes: their single table writes are NOT monotone - counterexamples in MonotoneFacts.v). *)
Theorem C13_equalities_never_lost : forall terms ops1 ops2 hs1 s1 hs s,
  run_ops terms ops1 [] empty_egraph = Ok (hs1, s1) ->
  run_ops terms (ops1 ++ ops2) [] empty_egraph = Ok (hs, s) ->
  (exists more, hs = (hs1 ++ more)%list) /\
  (forall a, List.In a hs1 -> covers s1 a /\ covers s a) /\
  (forall a b, covers s1 a -> covers s1 b -> eg_eq s1 a b = Ok true -> eg_eq s a b = Ok true) /\
  (forall a b, List.In a hs1 -> List.In b hs1 -> eg_eq s1 a b = Ok true -> eg_eq s a b = Ok true).
Proof. exact eq_persists_history. Qed.
Print Assumptions C13_equalities_never_lost.

Theorem C13_slots_only_shrink : forall terms ops hs s hs' s' a a' a'',
  inv3 s -> List.Forall (covers s) hs -> run_ops terms ops hs s = Ok (hs', s') ->
  covers s a -> find_applied_id s a = Ok a' -> find_applied_id s' a = Ok a'' ->
  List.incl (values (am a'')) (values (am a')).
Proof. exact slots_only_shrink_run. Qed.
Print Assumptions C13_slots_only_shrink.

(* the progress measure moves lexicographically in its documented direction (classes up; then live classes down;
   then slot total down; then symmetries up) along every operation (EGraph/ProgressFacts.v) *)
From SE Require Import EGraph.ProgressFacts.
Theorem C13_progress_measure_monotone : forall s s' p p', pext s s' ->
  progress s = Ok p -> progress s' = Ok p' -> ple p p'.
Proof. exact progress_monotone. Qed.
Print Assumptions C13_progress_measure_monotone.

Theorem C13_operations_are_pext : forall l r s b s', inv3 s -> covers s l -> covers s r ->
  eg_union l r s = Ok (b, s') -> pext s s' /\ inv3 s' /\ ext s s'.
Proof. exact pext_eg_union. Qed.
Print Assumptions C13_operations_are_pext.
