(* C14 — Analysis data is the fixpoint of make/merge over each class.
   PROVED (EGraph/AnalysisFix.v, abstract: any join-semilattice, any make monotone in the children's
   data, any finite family of classes with e-nodes): a state that is STABLE (make of every node is
   below its class's datum — what an empty pending list means) and JUSTIFIED (every datum is a join
   of values each below make of a node of the class under data that were below the current ones —
   what "data only ever grow by merging make of a node" means) assigns to every class EXACTLY the
   join of make over its e-nodes computed from the children's current data; justified is preserved by
   every merge step; the worklist algorithm (requeue the usages of a class whose datum changed)
   returns that fixpoint whenever it returns.  Instances: min-size (1 + sum, saturating) and depth
   (1 + max) with min as join.
   NOT PROVED: that the concrete bookkeeping of rebuild / move_to / modify (EGraph/ModelA.v) keeps
   the state stable and justified — and it does NOT for every semilattice: for an analysis in which
   a node whose child is its own class can raise the class's datum, two defects are listed as known
   findings.  Per run, after every operation: data of all handles vs the analysis model, and on the
   implementation datum = recomputed join for every live class; min-size = extractor best cost. *)
From Coq Require Import List Arith Relations.
From SE Require Import EGraph.AnalysisFix.

Theorem C14_stable_justified_is_fixpoint :
  forall (D : Type) (join : D -> D -> D),
    (forall x y z, join x (join y z) = join (join x y) z) -> (forall x y, join x y = join y x) -> (forall x, join x x = x) ->
  forall (L : Type) (make : L -> list D -> D),
    (forall l xs ys, Forall2 (le D join) xs ys -> le D join (make l xs) (make l ys)) ->
  forall (nodes : nat -> list (enode L)) st,
    justified D join L make nodes st -> stable D join L make nodes st ->
    forall c x rest, nodes c = x :: rest ->
      st c = joins D join (val D L make st x) (map (val D L make st) rest).
Proof. exact analysis_fixpoint. Qed.
Print Assumptions C14_stable_justified_is_fixpoint.

Theorem C14_min_size_fixpoint :
  forall (M : nat) (nodes : nat -> list (enode unit)) (st : nat -> nat),
  justified nat Nat.min unit (make_size M) nodes st ->
  stable nat Nat.min unit (make_size M) nodes st ->
  forall c x rest, nodes c = x :: rest ->
  st c = fold_left Nat.min (map (val nat unit (make_size M) st) rest) (val nat unit (make_size M) st x).
Proof. exact minsize_fixpoint. Qed.
Print Assumptions C14_min_size_fixpoint.

Theorem C14_depth_fixpoint :
  forall (nodes : nat -> list (enode unit)) (st : nat -> nat),
  justified nat Nat.min unit make_depth nodes st ->
  stable nat Nat.min unit make_depth nodes st ->
  forall c x rest, nodes c = x :: rest ->
  st c = fold_left Nat.min (map (val nat unit make_depth st) rest) (val nat unit make_depth st x).
Proof. exact depth_fixpoint. Qed.
Print Assumptions C14_depth_fixpoint.

Theorem C14_worklist_returns_fixpoint :
  forall (M : nat) (nodes : nat -> list (enode unit)) (usages : nat -> list (nat * enode unit)),
  (forall c c' x', In x' (nodes c') -> In c (kids unit x') -> In (c', x') (usages c)) ->
  (forall c c' x', In (c', x') (usages c) -> In x' (nodes c')) ->
  forall fuel wl st0 st,
  justified nat Nat.min unit (make_size M) nodes st0 ->
  wl_ok unit nodes wl -> covered nat Nat.min unit (make_size M) nodes st0 wl ->
  run nat Nat.min unit (make_size M) Nat.eqb usages fuel wl st0 = Some st ->
  (forall c, st c <= st0 c) /\
  forall c x rest, nodes c = x :: rest ->
  st c = fold_left Nat.min (map (val nat unit (make_size M) st) rest) (val nat unit (make_size M) st x).
Proof. exact minsize_run_fixpoint. Qed.
Print Assumptions C14_worklist_returns_fixpoint.
