(* STATUS NOTE (third session): remarks of the form "NOT PROVED" in the comments below were written when the first theorems of this
   file were stated; theorems added further down in this file supersede them.  The current status of the property is the row of
   DESIGN.md section 14.4; the premises that remain are listed in DESIGN.md section 14.9. *)
(* C14 — Analysis data is the fixpoint of make/merge over each class.
   PROVED (EGraph/AnalysisFix.v, abstract: any join-semilattice, any make monotone in the children's
   data, any finite family of classes with e-nodes): a state that is STABLE (make of every node is
   below its class's datum — what an empty pending list means) and JUSTIFIED (every datum is a join
   of values each below make of a node of the class under data that were below the current ones —
   what "data only ever grow by merging make of a node" means) assigns to every class EXACTLY the
   join of make over its e-nodes computed from the children's current data; justified is preserved by
   every merge step; the worklist algorithm (requeue the usages of a class whose datum changed)
   returns that fixpoint whenever it returns.  Instances: min-size (1 + sum, saturating) and depth
   (1 + max) with min as join.
   NOT PROVED: that the concrete bookkeeping of rebuild / move_to / modify (EGraph/ModelA.v) keeps
   the state stable and justified — and it does NOT for every semilattice: for an analysis in which
   a node whose child is its own class can raise the class's datum, two defects are listed as known
   findings.  Per run, after every operation: data of all handles vs the analysis model, and on the
   implementation datum = recomputed join for every live class; min-size = extractor best cost. *)
From Coq Require Import List Arith Relations.
From SE Require Import EGraph.AnalysisFix.

Theorem C14_stable_justified_is_fixpoint :
  forall (D : Type) (join : D -> D -> D),
    (forall x y z, join x (join y z) = join (join x y) z) -> (forall x y, join x y = join y x) -> (forall x, join x x = x) ->
  forall (L : Type) (make : L -> list D -> D),
    (forall l xs ys, Forall2 (le D join) xs ys -> le D join (make l xs) (make l ys)) ->
  forall (nodes : nat -> list (enode L)) st,
    justified D join L make nodes st -> stable D join L make nodes st ->
    forall c x rest, nodes c = x :: rest ->
      st c = joins D join (val D L make st x) (map (val D L make st) rest).
Proof. exact analysis_fixpoint. Qed.
Print Assumptions C14_stable_justified_is_fixpoint.

Theorem C14_min_size_fixpoint :
  forall (M : nat) (nodes : nat -> list (enode unit)) (st : nat -> nat),
  justified nat Nat.min unit (make_size M) nodes st ->
  stable nat Nat.min unit (make_size M) nodes st ->
  forall c x rest, nodes c = x :: rest ->
  st c = fold_left Nat.min (map (val nat unit (make_size M) st) rest) (val nat unit (make_size M) st x).
Proof. exact minsize_fixpoint. Qed.
Print Assumptions C14_min_size_fixpoint.

Theorem C14_depth_fixpoint :
  forall (nodes : nat -> list (enode unit)) (st : nat -> nat),
  justified nat Nat.min unit make_depth nodes st ->
  stable nat Nat.min unit make_depth nodes st ->
  forall c x rest, nodes c = x :: rest ->
  st c = fold_left Nat.min (map (val nat unit make_depth st) rest) (val nat unit make_depth st x).
Proof. exact depth_fixpoint. Qed.
Print Assumptions C14_depth_fixpoint.

Theorem C14_worklist_returns_fixpoint :
  forall (M : nat) (nodes : nat -> list (enode unit)) (usages : nat -> list (nat * enode unit)),
  (forall c c' x', In x' (nodes c') -> In c (kids unit x') -> In (c', x') (usages c)) ->
  (forall c c' x', In (c', x') (usages c) -> In x' (nodes c')) ->
  forall fuel wl st0 st,
  justified nat Nat.min unit (make_size M) nodes st0 ->
  wl_ok unit nodes wl -> covered nat Nat.min unit (make_size M) nodes st0 wl ->
  run nat Nat.min unit (make_size M) Nat.eqb usages fuel wl st0 = Some st ->
  (forall c, st c <= st0 c) /\
  forall c x rest, nodes c = x :: rest ->
  st c = fold_left Nat.min (map (val nat unit (make_size M) st) rest) (val nat unit (make_size M) st x).
Proof. exact minsize_run_fixpoint. Qed.
Print Assumptions C14_worklist_returns_fixpoint.

(* third session (EGraph/AnalysisModel*.v, ten files): the CONCRETE analysis model EGraph/ModelA.v.
   (i) static: in a state of ModelA that is well formed, stable (make of every stored node is below its class's
   datum - what `pending = []` gives, AnalysisModelBase.stab_pending_nil) and `upper` (every datum is below a join of makes
   of nodes stored in the class - the history-free form of `justified`), the datum of every live class IS the fold of
   merge over make of its stored e-nodes - for every semilattice analysis whose make is a monotone function of the label
   and the children's data.
   (ii) dynamic: the two steps that WRITE analysis data re-establish stability: update_analysis (the first thing
   handle_pending does) and the whole of move_to (merge of the two data, link, node moving, both touched_class calls) -
   stated here for the min-size instance the harness runs; the generic forms are AnalysisModelStab.update_analysis_stab and
   AnalysisModelFacts.move_to_stab, and they need the analysis hypothesis `make_below_kids` (a node never raises the datum
   of a child's class), which min-size and depth satisfy.
   (iii) the probe analysis behind the two KNOWN FINDINGS (cap-depth, merge = max) is a monotone semilattice analysis that
   violates exactly `make_below_kids`; AnalysisModelEval.eval_cap8_stab_fails / eval_cap3_pstored_fails exhibit the
   model runs (stability fails at a loop head; a pending entry is not stored) matching the two listed findings.
   NOT PROVED: composition of (ii) through handle_pending on Full entries, union_internal and alloc_eclass, and
   preservation of `upper`; AnalysisModelFacts.modelA_data_is_fixpoint states the reachable-state theorem conditionally on
   an invariant J with those closure properties.  Per run the conclusion itself (datum = recomputed join) is evaluated on the
   implementation after every operation. *)
From Coq Require Import NArith.
From SE Require Import EGraph.ModelA EGraph.ModelAMachine EGraph.AnalysisModelBase EGraph.AnalysisModelStab EGraph.AnalysisModelAbs
  EGraph.AnalysisModelFrames EGraph.AnalysisModelInst EGraph.AnalysisModelFacts.

Theorem C14_model_stable_upper_is_fixpoint :
  forall (Data : Type) (make : (N -> res Data) -> node -> res Data) (merge : Data -> Data -> Data),
  (forall x y z, merge x (merge y z) = merge (merge x y) z) ->
  (forall x y, merge x y = merge y x) ->
  (forall x, merge x x = x) ->
  forall (L : Type) (lab : node -> L) (mk : L -> list Data -> Data),
  (forall get n, make get n = do ds <- mapr get (node_ids n); Ok (mk (lab n) ds)) ->
  (forall l xs ys, Forall2 (AnalysisFix.le Data merge) xs ys -> AnalysisFix.le Data merge (mk l xs) (mk l ys)) ->
  forall s : egraph Data,
  WF Data s -> hc_nodup Data s -> stable_all Data make merge s -> upper Data make merge s ->
  forall c d, In c (ids Data s) -> analysis_data Data s c = Ok d ->
  forall sh0 rest, map fst (filter (fun e => N.eqb (snd e) c) (hashcons Data s)) = sh0 :: rest ->
  exists v0 vs, make_in Data make s sh0 = Ok v0 /\ mapr (make_in Data make s) rest = Ok vs /\ d = fold_left merge vs v0.
Proof. exact modelA_fixpoint_concrete. Qed.
Print Assumptions C14_model_stable_upper_is_fixpoint.

Theorem C14_empty_worklist_means_stable : forall Data make merge (s : egraph Data),
  stab Data make merge s -> pending Data s = [] -> stable_all Data make merge s.
Proof. exact stab_pending_nil. Qed.
Print Assumptions C14_empty_worklist_means_stable.

Theorem C14_update_analysis_reestablishes_stability : forall (sh : node) (i : N) (s s' : egraph N),
  stabx N make_minsize N.min (eq sh) s -> dok N (fun d : N => (d <= u64_max)%N) s ->
  stored N s sh i -> find_id N s i = Ok i -> ucov_at N (eq sh) s i ->
  update_analysis N N.eqb make_minsize N.min sh i s = Ok (tt, s') ->
  stab N make_minsize N.min s' /\ dok N (fun d : N => (d <= u64_max)%N) s' /\
  unionfind N s' = unionfind N s /\ hashcons N s' = hashcons N s /\ (forall x : node, npend N s' x -> npend N s x).
Proof. exact minsize_update_analysis_stab. Qed.
Print Assumptions C14_update_analysis_reestablishes_stability.

Theorem C14_move_to_keeps_stability : forall (from to : appid) (s s' : egraph N),
  stab N make_minsize N.min s -> dok N (fun d : N => (d <= u64_max)%N) s -> na_nodup (hashcons N s) ->
  find_id N s (aid from) = Ok (aid from) -> find_id N s (aid to) = Ok (aid to) -> aid from <> aid to ->
  ucov_at N (fun _ : node => False) s (aid to) -> ucov_at N (fun _ : node => False) s (aid from) ->
  move_to N N.eqb N.min from to s = Ok (tt, s') ->
  stab N make_minsize N.min s' /\ dok N (fun d : N => (d <= u64_max)%N) s' /\ na_nodup (hashcons N s').
Proof. exact minsize_move_to_stab. Qed.
Print Assumptions C14_move_to_keeps_stability.

Theorem C14_cap_depth_is_monotone_but_raises_its_children : forall cap, (1 < cap)%N ->
  (forall (l : unit) xs ys, Forall2 (fun x y : N => N.max x y = y) xs ys -> N.max (mk_cap cap l xs) (mk_cap cap l ys) = mk_cap cap l ys) /\
  exists ds d, In d ds /\ N.max d (mk_cap cap tt ds) <> d.
Proof. intros cap H. split. exact (capdepth_mono cap). exact (capdepth_not_below_kids cap H). Qed.
Print Assumptions C14_cap_depth_is_monotone_but_raises_its_children.

(* third session, second round (EGraph/AnalysisModel{Inv,Upper,Quiet,Ids,Str,Move,ReachA,Reach}.v): a CONCRETE invariant JJ
   (stability with the pending exemption, data bounded, `upper` with virtual contributions, and a nine-field structural
   record) is proved preserved by every pending-loop round (both entry kinds, both branches), by the miss branch of an
   insertion and by a union, so that the datum of every live class is the fold of merge over make of its stored e-nodes in
   every state reachable by node insertions and unions (reachN) - for min-size (below) and depth.  TWO structural premises
   remain, both about the hash-cons and not about the analysis: `node_ok` at every insertion step of reachN (the miss branch
   overwrites no hash-cons entry - a property of the plain e-graph model, cf. C08), and `key_at_hit` (at the hash-cons hit of
   handle_pending the class united with is the class where the lookup found the node - the key invariant of
   EGraph/KeyInv.v, proved there for Model.v, not yet transported to ModelA).  Both are evaluated by an instrumented run
   on the validation histories (AnalysisModelKeyEval.v). *)
From SE Require Import EGraph.AnalysisModelReachA EGraph.AnalysisModelReach.
Theorem C14_min_size_is_fixpoint_in_reachable_states :
  key_at_hit N N.eqb make_minsize N.min ->
  forall s : egraph N, reachN N N.eqb make_minsize N.min (fun _ : N => None) s ->
  forall c d : N, In c (ids N s) -> analysis_data N s c = Ok d ->
  forall (sh0 : node) (rest : list node),
  map fst (filter (fun e : node * N => N.eqb (snd e) c) (hashcons N s)) = sh0 :: rest ->
  exists (v0 : N) (vs : list N),
    make_in N make_minsize s sh0 = Ok v0 /\ mapr (make_in N make_minsize s) rest = Ok vs /\ d = fold_left N.min vs v0.
Proof. exact minsize_data_is_fixpoint_reachable. Qed.
Print Assumptions C14_min_size_is_fixpoint_in_reachable_states.

Theorem C14_depth_is_fixpoint_in_reachable_states :
  key_at_hit N N.eqb make_depth N.min ->
  forall s : egraph N, reachN N N.eqb make_depth N.min (fun _ : N => None) s ->
  forall c d : N, In c (ids N s) -> analysis_data N s c = Ok d ->
  forall (sh0 : node) (rest : list node),
  map fst (filter (fun e : node * N => N.eqb (snd e) c) (hashcons N s)) = sh0 :: rest ->
  exists (v0 : N) (vs : list N),
    make_in N make_depth s sh0 = Ok v0 /\ mapr (make_in N make_depth s) rest = Ok vs /\ d = fold_left N.min vs v0.
Proof. exact depth_data_is_fixpoint_reachable. Qed.
Print Assumptions C14_depth_is_fixpoint_in_reachable_states.

(* third session, third round (EGraph/ModelPre.v, ModelSteps{Defs,A,W}.v, AnalysisModel{Sim,Round,Closed,SimEval}.v): the two structural
   premises are DISCHARGED by a round-by-round SIMULATION of ModelA by the plain model Model.v (a relation R: union-find, hash-cons and
   counter agree, classes agree after forgetting the data, the pending lists have the same Full entries; every analysis call keeps R),
   which transports the key invariant and the hash-cons facts proved for Model.v; and the result is lifted from node insertions to TERM
   insertions.  For EVERY state reachable from the empty e-graph by insertions of statically well-formed terms and unions of returned
   handles (reachT), the datum of every live class is the fold of merge over make of its stored e-nodes - NO remaining premise. *)
From SE Require Import EGraph.AnalysisModelClosed.
Theorem C14_min_size_is_fixpoint_for_all_histories : forall (s : egraph N) (hs : list appid),
  reachT N N.eqb make_minsize N.min (fun _ : N => None) s hs ->
  forall c d : N, In c (ids N s) -> analysis_data N s c = Ok d ->
  forall (sh0 : node) (rest : list node), map fst (filter (fun e : node * N => N.eqb (snd e) c) (hashcons N s)) = sh0 :: rest ->
  exists (v0 : N) (vs : list N),
    make_in N make_minsize s sh0 = Ok v0 /\ mapr (make_in N make_minsize s) rest = Ok vs /\ d = fold_left N.min vs v0.
Proof. exact minsize_data_is_fixpoint_all_histories. Qed.
Print Assumptions C14_min_size_is_fixpoint_for_all_histories.

Theorem C14_depth_is_fixpoint_for_all_histories : forall (s : egraph N) (hs : list appid),
  reachT N N.eqb make_depth N.min (fun _ : N => None) s hs ->
  forall c d : N, In c (ids N s) -> analysis_data N s c = Ok d ->
  forall (sh0 : node) (rest : list node), map fst (filter (fun e : node * N => N.eqb (snd e) c) (hashcons N s)) = sh0 :: rest ->
  exists (v0 : N) (vs : list N),
    make_in N make_depth s sh0 = Ok v0 /\ mapr (make_in N make_depth s) rest = Ok vs /\ d = fold_left N.min vs v0.
Proof. exact depth_data_is_fixpoint_all_histories. Qed.
Print Assumptions C14_depth_is_fixpoint_for_all_histories.

(* third session, fourth round (EGraph/AnalysisModelFold{Inst,Top,,Eval}.v): CONSTANT FOLDING (modify_kind = 1, merge = Option::or, with its modify hook).
   PROVED: the final step - in a state in which make of every stored node is None or the datum of its class and every class with a known
   constant stores a node making it, the datum of every live class is the fold of merge over make of its stored e-nodes
   (C14_constant_folding_final_step); the generic control structure of rebuild WITH a non-trivial modify queue (AnalysisModelFoldTop.v: every
   step of the hook is an operation step; after every operation pending and modify queue are empty); which hypotheses of the generic analysis
   interface hold for constant folding (merge is associative and idempotent but commutative only on compatible data; the stability test is the
   order only on compatible data; make is monotone for the flat order) - so the min-size / depth proof cannot be instantiated as it stands.
   CONDITIONAL (AnalysisModelFold.constfold_data_is_fixpoint_all_histories): the reachable-state theorem for histories that are SEMANTICALLY
   sound for constant folding (unions only between terms of equal value under a fixed leaf valuation), from the invariant at operation
   boundaries, which is evaluated on the validation histories at every loop head but not proved.
   COUNTEREXAMPLES (vm_compute): uniting two different constants makes the datum differ from the fold; and the LOCAL premise "never unite two
   classes with different KNOWN constants" is not sufficient (P = a+1, Q = b+1 united while unknown, then a = 1, b = 5): soundness for
   constant folding is a semantic premise on the history, as the harness generator guarantees it. *)
From SE Require Import EGraph.AnalysisModelFoldInst EGraph.AnalysisModelFoldEval.
Theorem C14_constant_folding_final_step : forall s : egraph D, cf_stable_in s -> cf_just s ->
  forall c d, In c (ids D s) -> cf_adata s c = Ok d ->
  forall sh0 rest, map fst (filter (fun e : node * N => N.eqb (snd e) c) (hashcons D s)) = sh0 :: rest ->
  exists v0 vs, cf_mk_in s sh0 = Ok v0 /\ mapr (cf_mk_in s) rest = Ok vs /\ d = fold_left merge_or vs v0.
Proof. exact cf_fixpoint. Qed.
Print Assumptions C14_constant_folding_final_step.

Theorem C14_local_soundness_premise_is_insufficient :
  runl tsL opsL [] (empty_egraph D) = Some false /\ (forall rho, sound_ops rho tsL opsL [] = false).
Proof. exact local_premise_insufficient. Qed.
Print Assumptions C14_local_soundness_premise_is_insufficient.

(* third session, fifth round (EGraph/AnalysisModelFold{Sem,Upd,Move,Ui,Skel,Top2,Hp,Add,Inv,SemEval}.v): CONSTANT FOLDING, continued.  The boundary invariant of
   the conditional theorem is FALSE for an arbitrary leaf valuation (C14_constant_folding_needs_a_slot_independent_valuation: a valuation that
   tells apart two leaves differing only by a slot name - var $2 = 4, var $6 = 5 - makes both unions "sound" while the one class of `var` ends up
   with two different constants): the semantic soundness premise must treat slot names uniformly (slots are universally quantified; the harness
   generator gives all variables one value).  With that premise (rho_sk) the per-step lemmas are proved in semantic form for a value assignment
   `val` of the classes: update_analysis re-establishes flat stability, move_to of two classes of equal value keeps the invariant
   (C14_constant_folding_move_to_keeps_the_invariant), the general union, the miss-insertion, one pending-loop round (from the key premise and a
   kids-data invariant); the reachable-state theorem is reduced to the two operation-level closure statements (AnalysisModelFoldInv.v), both
   evaluated at every loop head of the validation histories. *)
From SE Require Import EGraph.AnalysisModelInv EGraph.AnalysisModelFold EGraph.AnalysisModelFoldSem EGraph.AnalysisModelFoldUpd EGraph.AnalysisModelFoldMove EGraph.AnalysisModelFoldSemEval.
Theorem C14_constant_folding_needs_a_slot_independent_valuation :
  ~ (forall s hts, reachF rhoX s hts -> cf_stab s /\ cf_just s).
Proof. exact H_inv_false. Qed.
Print Assumptions C14_constant_folding_needs_a_slot_independent_valuation.

Theorem C14_constant_folding_move_to_keeps_the_invariant : forall rho val from to s s',
  semv rho val s -> cf_stabx_m (fun _ => False) s -> cf_justs_m s -> S0 (option N) s ->
  find_id (option N) s (aid from) = Ok (aid from) -> find_id (option N) s (aid to) = Ok (aid to) -> aid from <> aid to ->
  val (aid from) = val (aid to) ->
  move_to (option N) optN_eqb merge_or from to s = Ok (tt, s') ->
  semv rho val s' /\ cf_stabx_m (fun _ => False) s' /\ cf_justs_m s' /\ S0 (option N) s'.
Proof. exact cf_move_to. Qed.
Print Assumptions C14_constant_folding_move_to_keeps_the_invariant.
