(* C15 — Saturation and stop reasons are reported truthfully.
   PROVED (Run/RunnerFacts.v) for the loops of Runner::run / run_one / check_limits and run_eqsat,
   over EVERY e-graph state type, every `apply_rewrites`, every hook and every clock (oracles), for
   all limits: the loop ends within iter_limit + 2 iterations (run_eqsat: within iter_limit, after
   iter_limit + 1 passes) — both bounds tight —; the reported stop reason is true of the last
   iteration (limit really exceeded, hook really failed, last application really reported no
   progress); the counters of the report are those of the final e-graph; and the composition lemma:
   if "apply_rewrites returned false" implies a relation P between the e-graph before and after,
   then a run that stops as Saturated ends in a state P-related to its predecessor.
   The obligation of that lemma for the concrete e-graph MODEL is proved in EGraph/ProgressFacts.v: when
   apply_rewrites returns false the e-graph is the same graph (classes, union-find, hash-cons), has the same
   number of nodes, and every equality query, canonical form and slot set of covered invocations is unchanged
   (C15_false_means_unchanged) - for whole operations started with an empty worklist (necessary: rebuild alone,
   started with pending work, can drop a node under an equal measure - counterexample in ProgressFacts.v) and
   under the premise that the substitutions returned by the searchers cover their classes (searchers_ok, not
   proved; a statement about ematch_impl/final_subst).  Also proved: the measure moves lexicographically in its
   documented direction along every operation (C15_progress_moves_monotonically).
   On the implementation the same is checked per run with an independent fingerprint (live
   classes with their slots and canonical e-nodes, equality matrix over all handles, handle slots,
   node count) after every iteration of every explored run, and once more after the run ended.
   The tie of the proved loops to runner.rs / run.rs: per run, the abstract loops instantiated with
   the trace the implementation's hook recorded must produce the implementation's report
   (Run/RunMachine.v); the tie of apply_rewrites to EGraph/Rewrite.v: component `egr`. *)
From Coq Require Import Arith.
From SE Require Import Run.Runner Run.RunnerFacts.

Theorem C15_runner_terminates_within_bound :
  forall (St : Type) (apply : St -> bool * St) (nodes nclasses : St -> nat) (hook : nat -> St -> option nat)
         (late : nat -> bool) (lim : RunnerLimits) (fuel : nat) (s : St),
    iter_limit lim + 2 <= fuel ->
    exists (r : Report) (sf : St),
      runner_run St apply nodes nclasses hook late lim fuel s = Some (r, sf) /\ 1 <= iterations r <= iter_limit lim + 2.
Proof. exact run_terminates. Qed.
Print Assumptions C15_runner_terminates_within_bound.

Theorem C15_eqsat_terminates_within_bound :
  forall (St : Type) (apply : St -> bool * St) (nodes nlive : St -> nat) (hook : nat -> St -> option nat)
         (late : nat -> bool) (il fuel : nat) (s : St),
    il + 1 <= fuel ->
    exists (r : Report) (sf : St),
      run_eqsat St apply nodes nlive hook late il fuel s = Some (r, sf) /\ iterations r <= il.
Proof. exact eqsat_terminates. Qed.
Print Assumptions C15_eqsat_terminates_within_bound.

Theorem C15_runner_stop_reason_true :
  forall (St : Type) (apply : St -> bool * St) (nodes nclasses : St -> nat) (hook : nat -> St -> option nat)
         (late : nat -> bool) (lim : RunnerLimits) (fuel : nat) (s : St) (r : Report) (sf : St),
    runner_run St apply nodes nclasses hook late lim fuel s = Some (r, sf) ->
    exists (k : nat) (s_prev : St),
      iterations r = S k /\ s_prev = steps St apply k s /\ sf = snd (apply s_prev) /\
      match stop_reason r with
      | Saturated => fst (apply s_prev) = false /\ hook k sf = None /\ k <= iter_limit lim /\
                     nodes sf <= node_limit lim /\ late k = false
      | IterationLimit => k > iter_limit lim
      | TimeLimit => late k = true
      | NodeLimit => nodes sf > node_limit lim
      | Other e => hook k sf = Some e
      end.
Proof. exact run_stop_reason_cases. Qed.
Print Assumptions C15_runner_stop_reason_true.

Theorem C15_eqsat_stop_reason_true :
  forall (St : Type) (apply : St -> bool * St) (nodes nlive : St -> nat) (hook : nat -> St -> option nat)
         (late : nat -> bool) (il fuel : nat) (s : St) (r : Report) (sf : St),
    run_eqsat St apply nodes nlive hook late il fuel s = Some (r, sf) ->
    let k := iterations r in
    let s_prev := steps St apply k s in
    sf = snd (apply s_prev) /\
    match stop_reason r with
    | Saturated => fst (apply s_prev) = false /\ hook k sf = None
    | IterationLimit => k >= il
    | TimeLimit => late k = true
    | NodeLimit => False
    | Other e => hook k sf = Some e
    end.
Proof. exact eqsat_stop_reason_cases. Qed.
Print Assumptions C15_eqsat_stop_reason_true.

Theorem C15_report_counts :
  (forall (St : Type) (apply : St -> bool * St) (nodes nclasses : St -> nat) (hook : nat -> St -> option nat)
          (late : nat -> bool) (lim : RunnerLimits) (fuel : nat) (s : St) (r : Report) (sf : St),
     runner_run St apply nodes nclasses hook late lim fuel s = Some (r, sf) ->
     egraph_nodes r = nodes sf /\ egraph_classes r = nclasses sf) /\
  (forall (St : Type) (apply : St -> bool * St) (nodes nlive : St -> nat) (hook : nat -> St -> option nat)
          (late : nat -> bool) (il fuel : nat) (s : St) (r : Report) (sf : St),
     run_eqsat St apply nodes nlive hook late il fuel s = Some (r, sf) ->
     egraph_nodes r = nodes sf /\ egraph_classes r = nlive sf).
Proof. exact (conj run_report_counts eqsat_report_counts). Qed.
Print Assumptions C15_report_counts.

Theorem C15_saturated_means_no_change :
  forall (St : Type) (apply : St -> bool * St) (nodes nclasses : St -> nat) (hook : nat -> St -> option nat)
         (late : nat -> bool) (P : St -> St -> Prop),
    (forall s : St, fst (apply s) = false -> P s (snd (apply s))) ->
    forall (lim : RunnerLimits) (fuel : nat) (s : St) (r : Report) (sf : St),
      runner_run St apply nodes nclasses hook late lim fuel s = Some (r, sf) ->
      stop_reason r = Saturated ->
      exists s_prev : St, s_prev = steps St apply (iterations r - 1) s /\ sf = snd (apply s_prev) /\ P s_prev sf.
Proof. exact run_saturated_P. Qed.
Print Assumptions C15_saturated_means_no_change.

Theorem C15_eqsat_saturated_means_no_change :
  forall (St : Type) (apply : St -> bool * St) (nodes nlive : St -> nat) (hook : nat -> St -> option nat)
         (late : nat -> bool) (P : St -> St -> Prop),
    (forall s : St, fst (apply s) = false -> P s (snd (apply s))) ->
    forall (il fuel : nat) (s : St) (r : Report) (sf : St),
      run_eqsat St apply nodes nlive hook late il fuel s = Some (r, sf) ->
      stop_reason r = Saturated ->
      exists s_prev : St, s_prev = steps St apply (iterations r) s /\ sf = snd (apply s_prev) /\ P s_prev sf.
Proof. exact eqsat_saturated_P. Qed.
Print Assumptions C15_eqsat_saturated_means_no_change.

(* non-vacuity: concrete runs that stop for each reason (the bounds are attained) *)
Example C15_bound_attained :
  runner_run nat (fun s => (true, S s)) (fun s => s) (fun s => s) (fun _ _ => None) (fun _ => false) (mkLimits 3 1000) 5 0
  = Some (mkReport 5 IterationLimit 5 5, 5).
Proof. exact run_bound_tight. Qed.

(* the concrete obligation, on the e-graph model (EGraph/ProgressFacts.v) *)
From SE Require Import EGraph.Model EGraph.Rewrite EGraph.RewriteFacts EGraph.AddCoversFacts EGraph.ProgressFacts.

Theorem C15_false_means_unchanged : forall sched rs s, inv3 s -> pending s = [] -> searchers_ok sched rs s ->
  forall s', apply_rewrites_sched sched rs s = Ok (false, s') ->
  same_graph s s' /\ total_number_of_nodes s' = total_number_of_nodes s /\ obs_same s s'.
Proof. exact apply_rewrites_false_unchanged. Qed.
Print Assumptions C15_false_means_unchanged.

Theorem C15_progress_moves_monotonically : forall s s' p p', pext s s' ->
  progress s = Ok p -> progress s' = Ok p' -> ple p p'.
Proof. exact progress_monotone. Qed.
Print Assumptions C15_progress_moves_monotonically.

Theorem C15_union_with_equal_measure_changes_nothing : forall l r s b s',
  inv3 s -> UnionFindFacts.covers s l -> UnionFindFacts.covers s r -> eg_union l r s = Ok (b, s') -> op_facts s s'.
Proof. exact eg_union_progress. Qed.
Print Assumptions C15_union_with_equal_measure_changes_nothing.

(* the searchers premise is discharged (EGraph/MatchFacts.v, KidsFacts.v, MatchAll.v): substitutions returned by the matcher
   cover their classes whenever the rule patterns mention no slot name of generated form at or above the fresh counter
   (rules_pre; necessary: counterexample ematch_all_covers_needs_pat_below) *)
From SE Require Import EGraph.MatchDefs EGraph.Mod4Facts EGraph.MatchFacts EGraph.MatchAll.

Theorem C15_false_means_unchanged_all : forall sched rs s s', sched_sub sched ->
  inv3 s -> pending s = [] -> kids_ok s -> m4 s -> rules_pre (Model.ctr s) rs ->
  apply_rewrites_sched sched rs s = Ok (false, s') ->
  same_graph s s' /\ total_number_of_nodes s' = total_number_of_nodes s /\ obs_same s s'.
Proof. exact apply_rewrites_false_unchanged_all. Qed.
Print Assumptions C15_false_means_unchanged_all.

(* Runner::run on the e-graph model: a run that stops as Saturated ends in a state that is the same graph as its
   predecessor, with the same node count and all equality queries unchanged *)
Theorem C15_saturated_means_nothing_changed : forall sched rs, sched_sub sched ->
  forall nodes nclasses hook late lim fuel s r sf, good2 rs s ->
  runner_run egraph (apply_total sched rs) nodes nclasses hook late lim fuel s = Some (r, sf) ->
  stop_reason r = Saturated ->
  exists s_prev, s_prev = steps egraph (apply_total sched rs) (iterations r - 1) s /\
    sf = snd (apply_total sched rs s_prev) /\ same_graph s_prev sf /\
    total_number_of_nodes sf = total_number_of_nodes s_prev /\ obs_same s_prev sf.
Proof. exact run_saturated_same_graph_all_rules. Qed.
Print Assumptions C15_saturated_means_nothing_changed.
