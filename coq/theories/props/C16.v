(* STATUS NOTE (third session): remarks of the form "NOT PROVED" in the comments below were written when the first theorems of this
   file were stated; theorems added further down in this file supersede them.  The current status of the property is the row of
   DESIGN.md section 14.4; the premises that remain are listed in DESIGN.md section 14.9. *)
(* C16 — Node shapes are canonical modulo renaming; derived Language impls are coherent.
   Model: Lang/Sig.v, generic over signatures (every language `define_language!` can produce,
   with payload kinds u32/bool/Symbol).
   PROVED here (all nodes, all signatures, unbounded): the positional public/private partition,
   slots = set of public occurrences, totality of the weak shape, and that the weak shape is a
   CANONICAL FORM modulo renaming: two nodes have equal shapes exactly when they are equivalent
   (same skeleton; occurrence patterns related by an injective renaming of free slots, bound slots
   up to alpha: `node_equiv`, defined without reference to the shape algorithm), the shape is
   equivalent to its node, the shape of a shape is itself, and the returned bijection maps the free
   slots of the shape onto the free slots of the node, occurrence by occurrence.
   NOT PROVED here: the syntax round trip of arbitrary derived languages beyond what C18 proves
   (from_to_syntax for unambiguous nodes).  The correspondence and an independent canonical form
   evaluated on the implementation's output (lib/props/c16.py) tie all of this to /repo per run. *)
From SE Require Import Lang.Sig Lang.LangMachine Lang.LangFacts Lang.ShapeFacts Slots.SlotMapFacts.
From Coq Require Import Permutation.

Theorem C16_occ_partition : forall n, Permutation (all_occ n) (pub_occ n ++ prv_occ n).
Proof. exact occ_partition. Qed.
Print Assumptions C16_occ_partition.

Theorem C16_slots_are_public_occurrences : forall n s, In s (slots n) <-> In s (pub_occ n).
Proof. exact slots_spec. Qed.
Print Assumptions C16_slots_are_public_occurrences.

Theorem C16_slots_sorted : forall n, swf (slots n).
Proof. exact slots_sorted. Qed.
Print Assumptions C16_slots_sorted.

Theorem C16_weak_shape_total : forall legacy n, exists sh bij, weak_shape legacy false n = Ok (sh, bij).
Proof. exact weak_shape_total. Qed.
Print Assumptions C16_weak_shape_total.

Theorem C16_shape_canonical : forall n n' sh bij sh' bij',
  weak_shape false false n = Ok (sh, bij) -> weak_shape false false n' = Ok (sh', bij') ->
  (node_equiv n n' <-> sh = sh').
Proof. exact shape_canonical. Qed.
Print Assumptions C16_shape_canonical.

Theorem C16_shape_equivalent_to_node : forall n sh bij, weak_shape false false n = Ok (sh, bij) -> node_equiv sh n.
Proof. exact shape_sound. Qed.
Print Assumptions C16_shape_equivalent_to_node.

Theorem C16_shape_idempotent : forall n sh bij, weak_shape false false n = Ok (sh, bij) ->
  exists bij2, weak_shape false false sh = Ok (sh, bij2).
Proof. exact shape_idempotent. Qed.
Print Assumptions C16_shape_idempotent.

Theorem C16_shape_bijection : forall n sh bij, weak_shape false false n = Ok (sh, bij) ->
  (forall s, (exists k, get bij k = Some s) <-> In s (pub_occ n)) /\
  (forall k, get bij k <> None <-> In k (pub_occ sh)) /\
  map (fun k => get bij k) (pub_occ sh) = map Some (pub_occ n).
Proof. exact shape_bij. Qed.
Print Assumptions C16_shape_bijection.

Theorem C16_node_equiv_is_equivalence :
  (forall n, node_equiv n n) /\ (forall a b, node_equiv a b -> node_equiv b a) /\
  (forall a b c, node_equiv a b -> node_equiv b c -> node_equiv a c).
Proof. split; [exact node_equiv_refl|split; [exact node_equiv_sym|exact node_equiv_trans]]. Qed.
Print Assumptions C16_node_equiv_is_equivalence.

Theorem C16_checks_assertion_never_fires : forall n, weak_shape false true n = weak_shape false false n.
Proof. exact weak_shape_checks_irrelevant. Qed.
Print Assumptions C16_checks_assertion_never_fires.

(* an earlier formulation, superseded by C16_shape_canonical; kept for reference *)
Definition node_equiv (shape_of : node -> option node) (n n' : node) : Prop := shape_of n = shape_of n'.
Definition C16_shape_iff_full : Prop :=
  forall n n' sh bij sh' bij',
    weak_shape false false n = Ok (sh, bij) -> weak_shape false false n' = Ok (sh', bij') ->
    (sh = sh' <->
     exists rho, is_bijection rho = true /\
                 (* n' is n with free slots renamed by rho, up to the names of bound slots *)
                 exists n1, apply_slotmap false rho n = Ok n1 /\
                 fst (ws_args false (nargs n1) ([], 0)) = fst (ws_args false (nargs n') ([], 0))).

(* The behaviour of the pinned commit is refuted on the shadowing corner: *)
Definition kn (a b c : N) : node :=
  {| nvar := 12; nargs := [ASlot (4*a); ABind (4*b) (AApp {| aid := 0; am := [(0, 4*b)] |}); ASlot (4*c)] |}.

(* two nodes that are NOT renamings of each other (7,7 versus 7,8) get the same legacy shape *)
Theorem C16_legacy_shape_refuted :
  exists sh b1 b2, weak_shape true false (kn 7 7 7) = Ok (sh, b1) /\ weak_shape true false (kn 7 7 8) = Ok (sh, b2).
Proof. do 3 eexists. split; vm_compute; reflexivity. Qed.
Print Assumptions C16_legacy_shape_refuted.

(* ... and the repaired shape separates them, and identifies the renamed copy *)
Example C16_repaired_shape :
  (exists s1 s2 b1 b2, weak_shape false false (kn 7 7 7) = Ok (s1, b1) /\ weak_shape false false (kn 7 7 8) = Ok (s2, b2) /\ s1 <> s2) /\
  (exists s b1 b2, weak_shape false false (kn 7 7 7) = Ok (s, b1) /\ weak_shape false false (kn 3 9 3) = Ok (s, b2)).
Proof.
  split.
  - do 4 eexists. split; [vm_compute; reflexivity|]. split; [vm_compute; reflexivity|]. discriminate.
  - do 3 eexists. split; vm_compute; reflexivity.
Qed.

(* name-based private occurrences of the pinned commit do not partition: (let $1 (var..$1) (..$1)) *)
Definition letn : node :=
  {| nvar := 10; nargs := [ABind 4 (AApp {| aid := 0; am := [(0, 4)] |}); AApp {| aid := 1; am := [(0, 4)] |}] |}.
Theorem C16_legacy_partition_refuted :
  ~ Permutation (all_occ letn) (pub_occ letn ++ prv_occ_legacy letn).
Proof. intro H. apply Permutation_length in H. vm_compute in H. discriminate. Qed.
Print Assumptions C16_legacy_partition_refuted.

Example C16_nonvacuous : all_occ letn = [4; 4; 4] /\ pub_occ letn = [4] /\ prv_occ letn = [4; 4] /\ slots letn = [4].
Proof. vm_compute. repeat split. Qed.
