(* C16 — Node shapes are canonical modulo renaming; derived Language impls are coherent.
   Model: Lang/Sig.v, generic over signatures (every language `define_language!` can produce,
   with payload kinds u32/bool/Symbol).
   PROVED here (all nodes, all signatures): the positional public/private partition, slots = set of
   public occurrences, totality of the weak shape.
   NOT PROVED (stated as C16_shape_iff_full): that equal weak shapes characterise nodes modulo
   renaming; this part is decided per run by the correspondence and by an independent
   canonical form evaluated on the implementation's output (lib/props/c16.py). *)
From SE Require Import Lang.Sig Lang.LangMachine Lang.LangFacts Slots.SlotMapFacts.
From Coq Require Import Permutation.

Theorem C16_occ_partition : forall n, Permutation (all_occ n) (pub_occ n ++ prv_occ n).
Proof. exact occ_partition. Qed.
Print Assumptions C16_occ_partition.

Theorem C16_slots_are_public_occurrences : forall n s, In s (slots n) <-> In s (pub_occ n).
Proof. exact slots_spec. Qed.
Print Assumptions C16_slots_are_public_occurrences.

Theorem C16_slots_sorted : forall n, swf (slots n).
Proof. exact slots_sorted. Qed.
Print Assumptions C16_slots_sorted.

Theorem C16_weak_shape_total : forall legacy n, exists sh bij, weak_shape legacy false n = Ok (sh, bij).
Proof. exact weak_shape_total. Qed.
Print Assumptions C16_weak_shape_total.

(* the full statement about shapes, kept visible; see the header *)
Definition node_equiv (shape_of : node -> option node) (n n' : node) : Prop := shape_of n = shape_of n'.
Definition C16_shape_iff_full : Prop :=
  forall n n' sh bij sh' bij',
    weak_shape false false n = Ok (sh, bij) -> weak_shape false false n' = Ok (sh', bij') ->
    (sh = sh' <->
     exists rho, is_bijection rho = true /\
                 (* n' is n with free slots renamed by rho, up to the names of bound slots *)
                 exists n1, apply_slotmap false rho n = Ok n1 /\
                 fst (ws_args false (nargs n1) ([], 0)) = fst (ws_args false (nargs n') ([], 0))).

(* The behaviour of the pinned commit is refuted on the shadowing corner: *)
Definition kn (a b c : N) : node :=
  {| nvar := 12; nargs := [ASlot (4*a); ABind (4*b) (AApp {| aid := 0; am := [(0, 4*b)] |}); ASlot (4*c)] |}.

(* two nodes that are NOT renamings of each other (7,7 versus 7,8) get the same legacy shape *)
Theorem C16_legacy_shape_refuted :
  exists sh b1 b2, weak_shape true false (kn 7 7 7) = Ok (sh, b1) /\ weak_shape true false (kn 7 7 8) = Ok (sh, b2).
Proof. do 3 eexists. split; vm_compute; reflexivity. Qed.
Print Assumptions C16_legacy_shape_refuted.

(* ... and the repaired shape separates them, and identifies the renamed copy *)
Example C16_repaired_shape :
  (exists s1 s2 b1 b2, weak_shape false false (kn 7 7 7) = Ok (s1, b1) /\ weak_shape false false (kn 7 7 8) = Ok (s2, b2) /\ s1 <> s2) /\
  (exists s b1 b2, weak_shape false false (kn 7 7 7) = Ok (s, b1) /\ weak_shape false false (kn 3 9 3) = Ok (s, b2)).
Proof.
  split.
  - do 4 eexists. split; [vm_compute; reflexivity|]. split; [vm_compute; reflexivity|]. discriminate.
  - do 3 eexists. split; vm_compute; reflexivity.
Qed.

(* name-based private occurrences of the pinned commit do not partition: (let $1 (var..$1) (..$1)) *)
Definition letn : node :=
  {| nvar := 10; nargs := [ABind 4 (AApp {| aid := 0; am := [(0, 4)] |}); AApp {| aid := 1; am := [(0, 4)] |}] |}.
Theorem C16_legacy_partition_refuted :
  ~ Permutation (all_occ letn) (pub_occ letn ++ prv_occ_legacy letn).
Proof. intro H. apply Permutation_length in H. vm_compute in H. discriminate. Qed.
Print Assumptions C16_legacy_partition_refuted.

Example C16_nonvacuous : all_occ letn = [4; 4; 4] /\ pub_occ letn = [4] /\ prv_occ letn = [4; 4] /\ slots letn = [4].
Proof. vm_compute. repeat split. Qed.
