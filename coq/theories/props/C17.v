(* C17 — Fresh slots are globally new and slot names are injective.
   Model: Slots/Slot.v (repaired behaviour, legacy = false); runs are sequences of
   fresh / numeric / named / print-and-reparse in one thread, starting from the
   initial thread-local table.  Debug arithmetic (overflow = error) is the reference,
   C17_release_agrees transfers every statement to release builds. *)
From SE Require Import Base.Text Slots.Slot Slots.SlotMachine Slots.SlotFacts.

Theorem C17_fresh_is_new : forall ops st outs s st',
  sruns false true init_table [] ops = Ok (st, outs) -> fresh false true st = Ok (s, st') ->
  ~ In s outs /\ (forall u, numeric true u <> Ok s).
Proof. exact fresh_is_new. Qed.
Print Assumptions C17_fresh_is_new.

Theorem C17_named_injective : forall ops1 ops2 st1 outs1 x sx st1' st2 outs2 y sy st2',
  sruns false true init_table [] ops1 = Ok (st1, outs1) ->
  named false true st1 x = Ok (sx, st1') ->
  sruns false true st1' (outs1 ++ [sx]) ops2 = Ok (st2, outs2) ->
  named false true st2 y = Ok (sy, st2') ->
  sx = sy -> x = y.
Proof. exact named_injective. Qed.
Print Assumptions C17_named_injective.

Theorem C17_display_roundtrip : forall ops st outs s,
  sruns false true init_table [] ops = Ok (st, outs) -> In s outs ->
  exists t, name_of st s = Ok t /\ named false true st t = Ok (s, st).
Proof. exact display_roundtrip. Qed.
Print Assumptions C17_display_roundtrip.

Theorem C17_display_injective : forall ops st outs s1 s2 t,
  sruns false true init_table [] ops = Ok (st, outs) -> In s1 outs -> In s2 outs ->
  name_of st s1 = Ok t -> name_of st s2 = Ok t -> s1 = s2.
Proof. exact display_injective. Qed.
Print Assumptions C17_display_injective.

Theorem C17_release_agrees : forall legacy ops st outs r,
  sruns legacy true st outs ops = Ok r -> sruns legacy false st outs ops = Ok r.
Proof. exact release_agrees. Qed.
Print Assumptions C17_release_agrees.

(* The behaviour of the pinned commit (legacy = true) refutes injectivity and freshness: *)
Definition txt (s : string) : text := text_of_string s.

Theorem C17_legacy_named_injective_refuted :
  exists x y, x <> y /\
    exists s st, named true true init_table x = Ok (s, st) /\ named true true st y = Ok (s, st).
Proof. exists (txt "5"), (txt "05"). split; [discriminate|]. eexists. eexists. split; vm_compute; reflexivity. Qed.
Print Assumptions C17_legacy_named_injective_refuted.

Theorem C17_legacy_fresh_prefix_refuted :
  exists x y, x <> y /\
    exists s st st', named true true init_table x = Ok (s, st) /\ named true true st y = Ok (s, st').
Proof. exists (txt "f5"), (txt "f+5"). split; [discriminate|]. eexists. eexists. eexists. split; vm_compute; reflexivity. Qed.
Print Assumptions C17_legacy_fresh_prefix_refuted.

(* release build of the pinned commit: a parsed name wraps the fresh counter, and the next
   "fresh" slot is one that a parsed name already denotes *)
Theorem C17_legacy_fresh_wrap_refuted :
  exists st0 s0 st1 s1 st2,
    named true false init_table (txt "f0") = Ok (s0, st0) /\
    named true false st0 (txt "f1073741823") = Ok (s1, st1) /\
    fresh true false st1 = Ok (s0, st2).
Proof. do 5 eexists. repeat split; vm_compute; reflexivity. Qed.
Print Assumptions C17_legacy_fresh_wrap_refuted.

(* the repaired model on the same inputs *)
Example C17_repaired_witnesses :
  (exists s1 s2 st1 st2, named false true init_table (txt "5") = Ok (s1, st1) /\
                         named false true st1 (txt "05") = Ok (s2, st2) /\ s1 <> s2) /\
  (exists s1 s2 st1 st2, named false true init_table (txt "f5") = Ok (s1, st1) /\
                         named false true st1 (txt "f+5") = Ok (s2, st2) /\ s1 <> s2).
Proof. split; do 4 eexists; repeat split; try (vm_compute; reflexivity); discriminate. Qed.

(* non-vacuity: a run mixing all four operations reaches a state with named, fresh and
   numeric slots, to which every theorem above applies *)
Example C17_nonvacuous :
  exists st outs,
    sruns false true init_table []
      [SFresh; SNamed (txt "f7"); SFresh; SNumeric 3; SNamed (txt "x"); SNamed (txt "05"); SReparse 1; SNamed (txt "x")]
    = Ok (st, outs) /\ outs = [1; 29; 33; 12; 2; 6; 29; 2] /\ fresh_idx st = 37.
Proof. do 2 eexists. vm_compute. repeat split; reflexivity. Qed.
