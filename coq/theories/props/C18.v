(* C18 — Printing and parsing round-trip; parsing never panics.
   Model: Parse/Parser.v over signatures (Lang/Sig.v).
   PROVED (every signature, every token list, unbounded): the repaired token-level parser never
   yields a panic value and never runs out of fuel (totality), and every value it returns is well
   formed: each node has exactly as many children as its operator has applied-id fields.
   The pinned commit is refuted on all three counts by kernel-checked witnesses.
   Also PROVED: the ROUND TRIP, at token level and at character level: for every signature, every
   slot table satisfying the C17 invariant and every well-formed pattern (nested substitution
   brackets included) whose identifiers, payload texts, pattern-variable names and slot names are
   identifier texts, parsing the printed text gives the pattern back and leaves the table unchanged
   (C18_roundtrip_text).  The side conditions are exactly the "prints unambiguously" clause of the
   property; module RoundTrip.Examples proves that each of them is needed.
   Also PROVED (Parse/MultiRoundTrip.v): the MULTI-PATTERN round trip, both build modes: for every
   signature, every table satisfying the C17 invariant and every well-formed multi-pattern (each
   equation: a well-formed node, as many child variables as applied-id fields, every atom an
   identifier text that contains no ',' and no "==" - exactly the texts on which `split(",")` /
   `split("==")` cut in the wrong place, see MultiRoundTrip.MultiExamples) parsing the printed text
   gives the multi-pattern back and leaves the table unchanged (C18_multi_roundtrip); and TOTALITY at
   text level: tokenizer, Pattern::parse and MultiPattern::parse never yield a panic value on any
   text in a release build, and in a debug build as long as the slot table has room for the names of
   the text (|table| + |text| <= 2^30; beyond that Slot::named overflows, C17 - witness
   multi_debug_overflow).  Per run: correspondence of parser/printer
   model and implementation (generated values; truncated, spliced, mutated texts) and the
   round-trip / arity / no-panic predicate on the implementation's own output. *)
From SE Require Import Parse.Parser Parse.ParserFacts Parse.ArityFacts Parse.RoundTrip Parse.MultiRoundTrip Parse.ParseMachine Lang.LangMachine Slots.SlotFacts.

Theorem C18_parser_total : forall strict S tok,
  match parse_tokens false strict S tok with PPanic _ => False | _ => True end.
Proof. exact parse_tokens_total. Qed.
Print Assumptions C18_parser_total.

Theorem C18_parser_arity : forall strict S tok p,
  parse_tokens false strict S tok = POk p -> arity_okb p = true.
Proof. exact parse_tokens_arity. Qed.
Print Assumptions C18_parser_arity.

Theorem C18_roundtrip_tokens : forall S p, wf_pat S p -> parse_tokens false false S (tokens_of S p) = POk p.
Proof. exact roundtrip_tokens. Qed.
Print Assumptions C18_roundtrip_tokens.

Theorem C18_roundtrip_text : forall S st, TInv st -> forall p, wf_pat S p -> wf_text S st p ->
  parse_pattern_text false true false S st (print_pattern S st p) = POk (p, st).
Proof. exact roundtrip_text. Qed.
Print Assumptions C18_roundtrip_text.

Theorem C18_roundtrip_text_any : forall S st, TInv st -> forall debug p, wf_pat S p -> wf_text S st p ->
  parse_pattern_text false debug false S st (print_pattern S st p) = POk (p, st).
Proof. exact roundtrip_text_any. Qed.
Print Assumptions C18_roundtrip_text_any.

(* multi-patterns: round trip (table unchanged, hence in particular only extended) and totality *)
Theorem C18_multi_roundtrip : forall S st, TInv st -> forall debug m, wf_mpat S st m ->
  parse_multipattern_text false debug false S st (print_multipattern false S st m) = POk (m, st).
Proof. exact multi_roundtrip. Qed.
Print Assumptions C18_multi_roundtrip.

Theorem C18_multi_total : forall debug strict S st s,
  debug = false \/ N.of_nat (List.length (named_vec st) + List.length s) <= two30 ->
  match parse_multipattern_text false debug strict S st s with PPanic _ => False | _ => True end.
Proof. exact multi_total. Qed.
Print Assumptions C18_multi_total.

Theorem C18_pattern_text_total : forall debug strict S st s,
  debug = false \/ N.of_nat (List.length (named_vec st) + List.length s) <= two30 ->
  match parse_pattern_text false debug strict S st s with PPanic _ => False | _ => True end.
Proof.
  intros d strict S st s R. pose proof (parse_pattern_text_total d strict S st s R) as H.
  destruct (parse_pattern_text false d strict S st s) as [[p st']|e|x]; [exact I|exact I|exact H].
Qed.
Print Assumptions C18_pattern_text_total.

Theorem C18_node_syntax_roundtrip : forall S nd, node_has S nd = true -> unambiguous S nd ->
  from_syntax false S (to_syntax S nd) = Some nd.
Proof. exact from_to_syntax. Qed.
Print Assumptions C18_node_syntax_roundtrip.

(* earlier formulation, superseded by C18_roundtrip_text *)
Definition C18_roundtrip_full : Prop :=
  forall S st p, arity_okb p = true ->
    (* payloads of p print unambiguously, slots of p are valid in st *)
    exists st', parse_pattern_text false true false S st (print_pattern S st p) = POk (p, st').

(* ---- the pinned commit (legacy = true) ---- *)
Definition tk (s : string) : text := text_of_string s.

Theorem C18_legacy_panics_refuted :
  parse_pattern_text true true false sigLV init_table (tk "") = PPanic OutOfBounds /\
  parse_pattern_text true true false sigLV init_table (tk "(f") = PPanic OutOfBounds /\
  parse_pattern_text true true false sigLV init_table (tk "(var $1)[") = PPanic OutOfBounds /\
  parse_recexpr_text true true false sigLV init_table (tk "?x") = PPanic ExplicitPanic /\
  (exists st, parse_multipattern_text true true false sigLV init_table (tk "?a = (c)") = PPanic st).
Proof.
  split; [vm_compute; reflexivity|]. split; [vm_compute; reflexivity|]. split; [vm_compute; reflexivity|].
  split; [vm_compute; reflexivity|]. eexists. vm_compute. reflexivity.
Qed.
Print Assumptions C18_legacy_panics_refuted.

Theorem C18_legacy_arity_refuted :
  exists p st, parse_pattern_text true true false sigLV init_table (tk "(var $1 c d)") = POk (p, st) /\ arity_okb p = false.
Proof. do 2 eexists. split; [vm_compute; reflexivity|]. vm_compute. reflexivity. Qed.
Print Assumptions C18_legacy_arity_refuted.

Theorem C18_legacy_multipattern_roundtrip_refuted :
  exists m st, parse_multipattern_text true true false sigLV init_table (tk "?a == (u ?b)") = POk (m, st) /\
               parse_multipattern_text true true false sigLV st (print_multipattern true sigLV st m) = PPanic ExplicitPanic.
Proof. do 2 eexists. split; [vm_compute; reflexivity|]. vm_compute. reflexivity. Qed.
Print Assumptions C18_legacy_multipattern_roundtrip_refuted.

(* the repaired model on the same inputs, and a non-trivial round trip *)
Example C18_repaired :
  (exists e, parse_pattern_text false true false sigLV init_table (tk "") = PFail e) /\
  (exists e, parse_pattern_text false true false sigLV init_table (tk "(var $1 c d)") = PFail e) /\
  (exists e, parse_recexpr_text false true false sigLV init_table (tk "?x") = PFail e) /\
  (exists m st m2 st2, parse_multipattern_text false true false sigLV init_table (tk "?a == (u ?b)") = POk (m, st) /\
               parse_multipattern_text false true false sigLV st (print_multipattern false sigLV st m) = POk (m2, st2) /\ m2 = m).
Proof.
  split; [eexists; vm_compute; reflexivity|]. split; [eexists; vm_compute; reflexivity|].
  split; [eexists; vm_compute; reflexivity|].
  do 4 eexists. split; [vm_compute; reflexivity|]. split; [vm_compute; reflexivity|]. vm_compute. reflexivity.
Qed.

Example C18_nonvacuous :
  exists p st p2 st2,
    parse_pattern_text false true false sigLV init_table (tk "(let $x (app ?f (var $x)) (tag $q foo))[(var $y) := (lam $z ?b)]") = POk (p, st) /\
    arity_okb p = true /\
    parse_pattern_text false true false sigLV st (print_pattern sigLV st p) = POk (p2, st2) /\ p2 = p.
Proof. do 4 eexists. split; [vm_compute; reflexivity|]. split; [vm_compute; reflexivity|]. split; [vm_compute; reflexivity|]. vm_compute. reflexivity. Qed.
