(* C18 — Printing and parsing round-trip; parsing never panics.
   Model: Parse/Parser.v over signatures (Lang/Sig.v).
   PROVED (every signature, every token list, unbounded): the repaired token-level parser never
   yields a panic value and never runs out of fuel (totality), and every value it returns is well
   formed: each node has exactly as many children as its operator has applied-id fields.
   The pinned commit is refuted on all three counts by kernel-checked witnesses.
   NOT PROVED: the round-trip statement C18_roundtrip_full (needs the tokenizer-splitting lemma);
   it is decided per run by the correspondence and by the round-trip predicate evaluated on the
   implementation's output.  The tokenizer itself is a structural recursion on the text and cannot
   panic except through Slot::named (C17). *)
From SE Require Import Parse.Parser Parse.ParserFacts Parse.ArityFacts Parse.ParseMachine Lang.LangMachine.

Theorem C18_parser_total : forall strict S tok,
  match parse_tokens false strict S tok with PPanic _ => False | _ => True end.
Proof. exact parse_tokens_total. Qed.
Print Assumptions C18_parser_total.

Theorem C18_parser_arity : forall strict S tok p,
  parse_tokens false strict S tok = POk p -> arity_okb p = true.
Proof. exact parse_tokens_arity. Qed.
Print Assumptions C18_parser_arity.

Definition C18_roundtrip_full : Prop :=
  forall S st p, arity_okb p = true ->
    (* payloads of p print unambiguously, slots of p are valid in st *)
    exists st', parse_pattern_text false true false S st (print_pattern S st p) = POk (p, st').

(* ---- the pinned commit (legacy = true) ---- *)
Definition tk (s : string) : text := text_of_string s.

Theorem C18_legacy_panics_refuted :
  parse_pattern_text true true false sigLV init_table (tk "") = PPanic OutOfBounds /\
  parse_pattern_text true true false sigLV init_table (tk "(f") = PPanic OutOfBounds /\
  parse_pattern_text true true false sigLV init_table (tk "(var $1)[") = PPanic OutOfBounds /\
  parse_recexpr_text true true false sigLV init_table (tk "?x") = PPanic ExplicitPanic /\
  (exists st, parse_multipattern_text true true false sigLV init_table (tk "?a = (c)") = PPanic st).
Proof.
  split; [vm_compute; reflexivity|]. split; [vm_compute; reflexivity|]. split; [vm_compute; reflexivity|].
  split; [vm_compute; reflexivity|]. eexists. vm_compute. reflexivity.
Qed.
Print Assumptions C18_legacy_panics_refuted.

Theorem C18_legacy_arity_refuted :
  exists p st, parse_pattern_text true true false sigLV init_table (tk "(var $1 c d)") = POk (p, st) /\ arity_okb p = false.
Proof. do 2 eexists. split; [vm_compute; reflexivity|]. vm_compute. reflexivity. Qed.
Print Assumptions C18_legacy_arity_refuted.

Theorem C18_legacy_multipattern_roundtrip_refuted :
  exists m st, parse_multipattern_text true true false sigLV init_table (tk "?a == (u ?b)") = POk (m, st) /\
               parse_multipattern_text true true false sigLV st (print_multipattern true sigLV st m) = PPanic ExplicitPanic.
Proof. do 2 eexists. split; [vm_compute; reflexivity|]. vm_compute. reflexivity. Qed.
Print Assumptions C18_legacy_multipattern_roundtrip_refuted.

(* the repaired model on the same inputs, and a non-trivial round trip *)
Example C18_repaired :
  (exists e, parse_pattern_text false true false sigLV init_table (tk "") = PFail e) /\
  (exists e, parse_pattern_text false true false sigLV init_table (tk "(var $1 c d)") = PFail e) /\
  (exists e, parse_recexpr_text false true false sigLV init_table (tk "?x") = PFail e) /\
  (exists m st m2 st2, parse_multipattern_text false true false sigLV init_table (tk "?a == (u ?b)") = POk (m, st) /\
               parse_multipattern_text false true false sigLV st (print_multipattern false sigLV st m) = POk (m2, st2) /\ m2 = m).
Proof.
  split; [eexists; vm_compute; reflexivity|]. split; [eexists; vm_compute; reflexivity|].
  split; [eexists; vm_compute; reflexivity|].
  do 4 eexists. split; [vm_compute; reflexivity|]. split; [vm_compute; reflexivity|]. vm_compute. reflexivity.
Qed.

Example C18_nonvacuous :
  exists p st p2 st2,
    parse_pattern_text false true false sigLV init_table (tk "(let $x (app ?f (var $x)) (tag $q foo))[(var $y) := (lam $z ?b)]") = POk (p, st) /\
    arity_okb p = true /\
    parse_pattern_text false true false sigLV st (print_pattern sigLV st p) = POk (p2, st2) /\ p2 = p.
Proof. do 4 eexists. split; [vm_compute; reflexivity|]. split; [vm_compute; reflexivity|]. split; [vm_compute; reflexivity|]. vm_compute. reflexivity. Qed.
