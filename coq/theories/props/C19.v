(* C19 — Slot maps behave as finite maps independent of construction order.
   This file contains only the property theorems; each is closed by `exact`. *)
From SE Require Import Slots.SlotMap Slots.SlotMapMachine Slots.SlotMapFacts Slots.SlotMapMachineFacts.
From Coq Require Import Permutation Lia.

(* equality / ordering / (hash = function of the pair list) depend only on the set of pairs *)
Theorem C19_ext : forall a b, wf a -> wf b -> (forall k, get a k = get b k) -> a = b.
Proof. exact ext_eq. Qed.
Print Assumptions C19_ext.

Theorem C19_eq_iff : forall a b, wf a -> wf b ->
  (eqb_map a b = true <-> forall k, get a k = get b k).
Proof. exact eq_iff_same_lookups. Qed.
Print Assumptions C19_eq_iff.

Theorem C19_cmp_iff : forall a b, wf a -> wf b ->
  (cmp_map a b = Eq <-> forall k, get a k = get b k).
Proof. exact cmp_eq_iff_same_lookups. Qed.
Print Assumptions C19_cmp_iff.

Theorem C19_construction_order : forall ps qs,
  NoDup (map fst ps) -> Permutation ps qs -> from_iter ps = from_iter qs.
Proof. exact from_iter_perm. Qed.
Print Assumptions C19_construction_order.

(* all reachable machine states hold well-formed maps *)
Theorem C19_reachable_wf : forall checks ops, Forall all_wf (mstates checks minit ops).
Proof. intros. apply reachable_wf. exact minit_wf. Qed.
Print Assumptions C19_reachable_wf.

(* agreement with the reference finite map (lookup semantics) *)
Theorem C19_get_insert : forall m l r k, wf m ->
  wf (insert l r m) /\ get (insert l r m) k = if k =? l then Some r else get m k.
Proof. intros; split; [apply insert_wf; assumption | apply get_insert; assumption]. Qed.
Print Assumptions C19_get_insert.

Theorem C19_get_remove : forall m x k, wf m ->
  wf (remove x m) /\ get (remove x m) k = if k =? x then None else get m k.
Proof. intros; split; [apply remove_wf; assumption | apply get_remove; assumption]. Qed.
Print Assumptions C19_get_remove.

Theorem C19_keys : forall m k, In k (keys m) <-> get m k <> None.
Proof. exact keys_spec. Qed.
Print Assumptions C19_keys.

Theorem C19_values : forall m v, wf m -> (In v (values m) <-> exists k, get m k = Some v).
Proof. exact values_spec. Qed.
Print Assumptions C19_values.

Theorem C19_get_inverse : forall m y x, wf m -> is_bijection m = true ->
  (get (inverse_nocheck m) y = Some x <-> get m x = Some y).
Proof. exact get_inverse. Qed.
Print Assumptions C19_get_inverse.

Theorem C19_get_identity : forall s k, get (identity s) k = if sset_mem k s then Some k else None.
Proof. exact get_identity. Qed.
Print Assumptions C19_get_identity.

Theorem C19_get_compose : forall a b k, wf a ->
  get (compose_partial a b) k = match get a k with Some y => get b y | None => None end.
Proof. exact get_compose_partial. Qed.
Print Assumptions C19_get_compose.

Theorem C19_compose_fresh : forall a b c k, wf a ->
  let r := compose_fresh a b c in
  wf (fst r) /\ c <= snd r /\
  match get a k with
  | None => get (fst r) k = None
  | Some y =>
      match get b y with
      | Some z => get (fst r) k = Some z
      | None => exists z, get (fst r) k = Some z /\ c <= z < snd r /\ z mod 4 = c mod 4
      end
  end.
Proof. exact compose_fresh_spec. Qed.
Print Assumptions C19_compose_fresh.

Theorem C19_get_union : forall a b k, wf a -> wf b ->
  get (union_nocheck a b) k = match get b k with Some v => Some v | None => get a k end.
Proof. exact get_union. Qed.
Print Assumptions C19_get_union.

Theorem C19_try_union : forall a b, wf a -> wf b ->
  match try_union a b with
  | Some m => wf m /\ (forall k, get m k = match get b k with Some v => Some v | None => get a k end)
              /\ (forall k v w, get a k = Some v -> get b k = Some w -> v = w)
  | None => exists k v w, get a k = Some v /\ get b k = Some w /\ v <> w
  end.
Proof. exact try_union_spec. Qed.
Print Assumptions C19_try_union.

(* the three algebraic laws *)
Theorem C19_inverse_involutive : forall m, wf m -> is_bijection m = true ->
  inverse_nocheck (inverse_nocheck m) = m.
Proof. exact inverse_involutive. Qed.
Print Assumptions C19_inverse_involutive.

Theorem C19_compose_assoc : forall a b c, wf a -> wf b ->
  compose_partial (compose_partial a b) c = compose_partial a (compose_partial b c).
Proof. exact compose_partial_assoc. Qed.
Print Assumptions C19_compose_assoc.

Theorem C19_compose_inverse : forall m, wf m -> is_bijection m = true ->
  compose_partial m (inverse_nocheck m) = identity (keys m).
Proof. exact compose_inverse. Qed.
Print Assumptions C19_compose_inverse.

(* non-vacuity: a concrete non-trivial bijection meets every hypothesis used above *)
Example C19_nonvacuous :
  let m := from_iter [(8, 4); (0, 12); (4, 0)] in
  wf m /\ is_bijection m = true /\ m = [(0, 12); (4, 0); (8, 4)] /\
  inverse_nocheck m = [(0, 4); (4, 8); (12, 0)].
Proof. vm_compute. repeat split; auto; lia. Qed.
