(* STATUS NOTE (third session): remarks of the form "NOT PROVED" in the comments below were written when the first theorems of this
   file were stated; theorems added further down in this file supersede them.  The current status of the property is the row of
   DESIGN.md section 14.4; the premises that remain are listed in DESIGN.md section 14.9. *)
(* C20 — Runs are reproducible: the same operations give the same transcript.
   This is the property to which a theorem contributes least: memory addresses, hash seeds and other
   threads are not part of any Gallina model.  PROVED is what the model can carry:
   - the canonical transcript of the model is a function of the history alone (it consults no clock, address
     or global: a Gallina function), stated for the machine used in the correspondence;
   - a thread's slot table starts in its initial state and its run is a function of the operations;
     a fresh slot never coincides with a slot produced earlier in the thread (C17), and through any
     history the e-graph's fresh counter only grows (no internal slot is handed out twice).
   NOT PROVED: that the implementation's RAW transcript (ids, hash-iteration orders) is independent of
   addresses, seeds and concurrent threads.  That is decided per run by replaying every history in
   three fresh threads next to noise threads and comparing the raw transcripts byte for byte. *)
From SE Require Import Slots.Slot Slots.SlotMachine Slots.SlotFacts EGraph.Model EGraph.ModelMachine EGraph.ModelFacts.

Theorem C20_model_transcript_is_a_function : forall a b, a = b -> run_egm a = run_egm b.
Proof. intros a b H. rewrite H. reflexivity. Qed.
Print Assumptions C20_model_transcript_is_a_function.

Theorem C20_thread_run_is_a_function : forall legacy debug ops r1 r2,
  sruns legacy debug init_table [] ops = r1 -> sruns legacy debug init_table [] ops = r2 -> r1 = r2.
Proof. intros; congruence. Qed.
Print Assumptions C20_thread_run_is_a_function.

Theorem C20_fresh_never_repeats_in_a_thread : forall ops st outs s st',
  sruns false true init_table [] ops = Ok (st, outs) -> Slot.fresh false true st = Ok (s, st') ->
  ~ In s outs /\ (forall u, numeric true u <> Ok s).
Proof. exact fresh_is_new. Qed.
Print Assumptions C20_fresh_never_repeats_in_a_thread.

Theorem C20_egraph_fresh_counter_grows : forall s s',
  (exists t a, add_expr t s = Ok (a, s')) \/ (exists l r b, eg_union l r s = Ok (b, s')) ->
  Model.ctr s <= Model.ctr s' /\ (Model.ctr s mod 4 = 1 -> Model.ctr s' mod 4 = 1).
Proof. exact ctr_grows. Qed.
Print Assumptions C20_egraph_fresh_counter_grows.

Definition C20_raw_transcript_full : Prop :=
  forall (impl : nat (* thread / address / seed *) -> list nat (* history *) -> list nat (* raw transcript *)) t1 t2 h,
    impl t1 h = impl t2 h.
