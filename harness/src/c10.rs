//! C10: the permutation group structure through the cfg(slotted_egraphs_verif) hook.
use crate::common::*;
use crate::lang::*;
use slotted_egraphs::*;

fn dec_perm(e: &Sx) -> SlotMap {
    let mut m = SlotMap::new();
    for (k, v) in e.as_lst()[1..].iter().enumerate() { m.insert(Slot::numeric(k as u32), Slot::numeric(v.as_num() as u32)); }
    m
}
fn perm_sx(p: &SlotMap) -> Sx { let mut v = vec![sym("p")]; v.extend(p.iter().map(|(_, y)| slot_sx(y))); lst(v) }
fn sorted_perms(mut l: Vec<SlotMap>) -> Sx { l.sort(); l.dedup(); lst(l.iter().map(perm_sx).collect()) }

pub fn run_case(case: &Sx) -> Sx {
    let c = case.clone();
    let r = in_fresh_thread(move || {
        let l = c.as_lst();
        let n = l[2].as_num();
        let gens: Vec<SlotMap> = l[3].as_lst()[1..].iter().map(dec_perm).collect();
        let id: SlotMap = (0..n).map(|i| (Slot::numeric(i as u32), Slot::numeric(i as u32))).collect();
        let mut obs = vec![sym("obs")];
        let g = std::panic::catch_unwind(|| VerifGroup::new(&id, gens));
        let mut g = match g { Ok(g) => g, Err(_) => { let (_l, m) = take_panic().unwrap_or_default(); obs.push(lst(vec![sym("err"), sym(panic_kind(&m))])); return lst(obs); } };
        for op in &l[4..] {
            let o = std::panic::catch_unwind(std::panic::AssertUnwindSafe(|| match op {
                Sx::Sym(s) if s == "count" => num(g.count() as u64),
                Sx::Sym(s) if s == "all" => { let a = g.all_perms(); lst(vec![num(a.len() as u64), sorted_perms(a)]) }
                Sx::Sym(s) if s == "gens" => { let mut v = vec![sym("gens")]; if let Sx::Lst(l) = sorted_perms(g.generators()) { v.extend(l); } lst(v) }
                Sx::Sym(s) if s == "trivial" => sbool(g.is_trivial()),
                Sx::Lst(v) => match v[0].as_sym() {
                    "contains" => sbool(g.contains(&dec_perm(&v[1]))),
                    "orbit" => { let mut o = g.orbit(Slot::numeric(v[1].as_num() as u32)); o.sort(); set_sx(o.into_iter()) }
                    "addset" => sbool(g.add_set(v[1..].iter().map(dec_perm).collect())),
                    "add" => sbool(g.add(dec_perm(&v[1]))),
                    x => panic!("harness: unknown op {}", x),
                },
                _ => panic!("harness: bad op"),
            }));
            match o {
                Ok(x) => obs.push(x),
                Err(_) => { let (_l, m) = take_panic().unwrap_or_default();
                    if m.starts_with("harness:") { obs.push(sym("harness-error")); } else { obs.push(lst(vec![sym("err"), sym(panic_kind(&m))])); }
                    break; }
            }
        }
        lst(obs)
    });
    r.unwrap_or_else(|_| sym("harness-thread-panic"))
}

fn all_perms_of(n: usize) -> Vec<Vec<u64>> {
    fn go(cur: &mut Vec<u64>, used: &mut Vec<bool>, n: usize, out: &mut Vec<Vec<u64>>) {
        if cur.len() == n { out.push(cur.clone()); return; }
        for i in 0..n { if !used[i] { used[i] = true; cur.push(i as u64); go(cur, used, n, out); cur.pop(); used[i] = false; } }
    }
    let mut out = vec![]; go(&mut vec![], &mut vec![false; n], n, &mut out); out
}
fn psx(v: &[u64]) -> Sx { let mut l = vec![sym("p")]; l.extend(v.iter().map(|x| num(*x))); lst(l) }
fn rand_perm(rng: &mut Rng, n: usize) -> Vec<u64> { let mut v: Vec<u64> = (0..n as u64).collect(); rng.shuffle(&mut v); v }
fn checks_flag() -> Sx { num(if cfg!(feature = "checks") { 1 } else { 0 }) }

fn case_for(n: usize, gens: &[Vec<u64>], rng: &mut Rng, probes: &[Vec<u64>], extra: &[Vec<u64>]) -> String {
    let mut v = vec![sym("c10"), checks_flag(), num(n as u64)];
    let mut g = vec![sym("gens")]; g.extend(gens.iter().map(|p| psx(p))); v.push(lst(g));
    v.push(sym("count")); v.push(sym("all")); v.push(sym("trivial")); v.push(sym("gens"));
    for s in 0..n { v.push(lst(vec![sym("orbit"), num(s as u64)])); }
    for p in probes { v.push(lst(vec![sym("contains"), psx(p)])); }
    if !extra.is_empty() {
        let mut a = vec![sym("addset")]; a.extend(extra.iter().map(|p| psx(p))); v.push(lst(a));
        v.push(sym("count")); v.push(sym("all"));
        for p in probes.iter().take(8) { v.push(lst(vec![sym("contains"), psx(p)])); }
        // adding the same set again must report no growth
        let mut a = vec![sym("addset")]; a.extend(extra.iter().map(|p| psx(p))); v.push(lst(a));
        let _ = rng;
    }
    lst(v).to_string()
}

pub fn gen(a: &Args) -> Vec<String> {
    let exhaustive = a.extra.iter().any(|x| x == "--exhaustive");
    let mut cases = vec![];
    let mut rng = Rng::new(a.seed, 0);
    // 1. all generator sets of <= 3 permutations on <= 4 slots (unordered, without repetition = every set):
    //    n = 1..3 always exhaustive, n = 4 exhaustive in thorough (2325 sets), sampled in quick.
    for n in 1..=4usize {
        let ps = all_perms_of(n);
        let m = ps.len();
        let mut sets: Vec<Vec<usize>> = vec![vec![]];
        for i in 0..m { sets.push(vec![i]); for j in i + 1..m { sets.push(vec![i, j]); for k in j + 1..m { sets.push(vec![i, j, k]); } } }
        for (si, s) in sets.iter().enumerate() {
            if n == 4 && !exhaustive && (si as u64 + a.seed) % 9 != 0 { continue; }
            let gens: Vec<Vec<u64>> = s.iter().map(|i| ps[*i].clone()).collect();
            // probe every permutation (n <= 4: at most 24), then add one more generator
            let extra = if rng.chance(1, 2) { vec![ps[rng.below(m as u64) as usize].clone()] } else { vec![] };
            cases.push(case_for(n, &gens, &mut rng, &ps, &extra));
        }
    }
    // 2. random generator sets on 5 and 6 slots
    for c in 0..a.count {
        let mut rng = Rng::new(a.seed, 1000 + c);
        let n = 5 + rng.below(2) as usize;
        let k = rng.range(0, 3);
        let gens: Vec<Vec<u64>> = (0..k).map(|_| match rng.below(3) {
            0 => { let mut v: Vec<u64> = (0..n as u64).collect(); let i = rng.below(n as u64) as usize; let j = rng.below(n as u64) as usize; v.swap(i, j); v }   // transposition (or identity)
            1 => { let mut v: Vec<u64> = (0..n as u64).collect(); let l = rng.range(2, n as u64) as usize; let first = v[0]; for i in 0..l - 1 { v[i] = v[i + 1]; } v[l - 1] = first; v } // cycle on a prefix
            _ => rand_perm(&mut rng, n),
        }).collect();
        let probes: Vec<Vec<u64>> = (0..14).map(|_| rand_perm(&mut rng, n)).chain(gens.iter().cloned()).collect();
        let extra: Vec<Vec<u64>> = (0..rng.below(3)).map(|_| rand_perm(&mut rng, n)).collect();
        cases.push(case_for(n, &gens, &mut rng, &probes, &extra));
    }
    // 3. incremental growth: a group built from one generator, then several add_set calls of single
    //    permutations (cycles, transpositions, random), with count / all / membership after every step
    for c in 0..(a.count.max(200)) {
        let mut rng = Rng::new(a.seed, 500_000 + c);
        let n = 4 + rng.below(3) as usize;
        let n = if c % 3 == 0 { n.max(5) } else { n };   // the stabiliser chain has more than one non-trivial layer from five slots up
        let special = |rng: &mut Rng, n: usize| -> Vec<u64> {
            let mut v: Vec<u64> = (0..n as u64).collect();
            match rng.below(4) {
                0 => { let i = rng.below(n as u64) as usize; let j = rng.below(n as u64) as usize; v.swap(i, j); }
                1 => { let l = rng.range(3, n as u64) as usize; let first = v[0]; for i in 0..l - 1 { v[i] = v[i + 1]; } v[l - 1] = first; }
                2 => { if n >= 4 { v.swap(0, 1); v.swap(2, 3); } }
                _ => { rng.shuffle(&mut v); }
            }
            v
        };
        let g0 = special(&mut rng, n);
        let mut v = vec![sym("c10"), checks_flag(), num(n as u64), lst(vec![sym("gens"), psx(&g0)]), sym("count")];
        for _ in 0..rng.range(2, 4) {
            let p = special(&mut rng, n);
            // Group::add (the single-permutation entry used when a class is united with itself) or add_set
            v.push(lst(vec![sym(if rng.chance(1, 2) { "add" } else { "addset" }), psx(&p)]));
            v.push(sym("count")); v.push(sym("all"));
            for _ in 0..6 { v.push(lst(vec![sym("contains"), psx(&rand_perm(&mut rng, n))])); }
            v.push(lst(vec![sym("addset"), psx(&p)]));
        }
        cases.push(lst(v).to_string());
    }
    cases
}

pub fn main(a: &Args) {
    match a.extra.get(0).map(|s| s.as_str()) {
        Some("gen") => { write_lines(&format!("{}/cases.txt", a.out), &gen(a)); }
        Some("run") => {
            let lines = read_lines(&a.extra[1]);
            let mut cases = vec![]; let mut obs = vec![];
            for l in lines {
                let mut c = Sx::parse(&l);
                if let Sx::Lst(v) = &mut c { v[1] = checks_flag(); }
                obs.push(run_case(&c).to_string());
                cases.push(c.to_string());
            }
            write_lines(&format!("{}/cases.txt", a.out), &cases);
            write_lines(&format!("{}/impl.txt", a.out), &obs);
        }
        _ => { eprintln!("c10 gen|run <cases>"); std::process::exit(2); }
    }
}
