//! C16: occurrence lists, weak shape, bijection, syntax round trip of derived `Language` impls.
use crate::common::*;
use crate::lang::*;
use slotted_egraphs::*;

fn shape_sx(n: &LV) -> Sx {
    guarded(|| { let (sh, bij) = n.weak_shape(); lst(vec![node_sx(&sh), map_sx(&bij)]) })
}

pub fn run_case(case: &Sx) -> Sx {
    let c = case.clone();
    let r = in_fresh_thread(move || {
        let l = c.as_lst();
        let n = dec_node(&l[2]);
        let n2 = dec_node(&l[3]);
        let mut o = vec![];
        o.push(lst(vec![sym("all"), set_sx(n.all_slot_occurrences().into_iter())]));
        o.push(lst(vec![sym("pub"), set_sx(n.public_slot_occurrences().into_iter())]));
        o.push(lst(vec![sym("prv"), guarded(|| set_sx(n.private_slot_occurrences().into_iter()))]));
        o.push(lst(vec![sym("slots"), set_sx(n.slots().into_iter())]));
        let sh = std::panic::catch_unwind(|| n.weak_shape());
        o.push(lst(vec![sym("shape"), shape_sx(&n)]));
        match &sh {
            Ok((s, bij)) => {
                o.push(lst(vec![sym("idem"), shape_sx(s)]));
                o.push(lst(vec![sym("back"), guarded(|| node_sx(&s.refresh_private().apply_slotmap(bij)))]));
            }
            Err(_) => { take_panic(); o.push(lst(vec![sym("idem"), sym("na")])); o.push(lst(vec![sym("back"), sym("na")])); }
        }
        let syn = n.to_syntax();
        o.push(lst(vec![sym("syn"), lst(syn.iter().map(selem_sx).collect())]));
        o.push(lst(vec![sym("rt"), guarded(|| match LV::from_syntax(&syn) { Some(x) => lst(vec![sym("some"), node_sx(&x)]), None => sym("none") })]));
        lst(vec![sym("obs"), lst(o), lst(vec![sym("shape2"), shape_sx(&n2)])])
    });
    r.unwrap_or_else(|_| sym("harness-thread-panic"))
}

// ---- generation of nodes as s-expressions ----
fn gslot(rng: &mut Rng, pool: u64) -> Sx { num(rng.below(pool)) }
fn gappid(rng: &mut Rng, pool: u64) -> Sx {
    let arity = rng.below(4.min(pool + 1));
    let mut pairs = vec![sym("m")];
    for k in 0..arity {
        // values distinct within one applied id (m is a bijection), may coincide across fields
        let mut v;
        loop { v = rng.below(pool); if !pairs[1..].iter().any(|p: &Sx| p.as_lst()[1] == num(v)) { break; } }
        pairs.push(lst(vec![num(k), num(v)]));
    }
    lst(vec![sym("a"), num(rng.below(5)), lst(pairs)])
}
pub fn gen_node(rng: &mut Rng, pool: u64) -> Sx {
    let vi = rng.below(VARIANTS.len() as u64) as usize;
    let mut v = vec![sym("nd"), num(vi as u64)];
    for ch in VARIANTS[vi].1.chars() {
        v.push(match ch {
            's' => lst(vec![sym("s"), gslot(rng, pool)]),
            'a' => gappid(rng, pool),
            'b' => lst(vec![sym("b"), gslot(rng, pool), gappid(rng, pool)]),
            'B' => lst(vec![sym("b"), gslot(rng, pool), lst(vec![sym("b"), gslot(rng, pool), gappid(rng, pool)])]),
            'u' => lst(vec![sym("pu"), num(match rng.below(3) { 0 => rng.below(3), 1 => rng.below(1 << 32), _ => rng.below(1000) })]),
            'o' => lst(vec![sym("pb"), sbool(rng.chance(1, 2))]),
            'y' => { let pool = ["x", "abc", "q7", "true1", "h-", "λ", "zero", "a.b"]; lst(vec![sym("ps"), crate::c17::text_sx(pool[rng.below(pool.len() as u64) as usize])]) }
            _ => unreachable!(),
        });
    }
    lst(v)
}

/// rename every slot occurrence of a node s-expression (binders and their scopes consistently, free
/// slots through `free`); bound names come from a range disjoint from everything else
fn rename_arg(e: &Sx, bound: &mut Vec<(u64, u64)>, free: &dyn Fn(u64) -> u64, ctr: &mut u64) -> Sx {
    let l = e.as_lst();
    let ren = |s: u64, bound: &Vec<(u64, u64)>| -> u64 { for (a, b) in bound.iter().rev() { if *a == s { return *b; } } free(s) };
    match l[0].as_sym() {
        "s" => lst(vec![sym("s"), num(ren(l[1].as_num(), bound))]),
        "a" => {
            let mut pairs = vec![sym("m")];
            for p in &l[2].as_lst()[1..] { let p = p.as_lst(); pairs.push(lst(vec![p[0].clone(), num(ren(p[1].as_num(), bound))])); }
            lst(vec![sym("a"), l[1].clone(), lst(pairs)])
        }
        "b" => {
            let s = l[1].as_num();
            *ctr += 1;
            let s2 = 200 + *ctr;
            bound.push((s, s2));
            let inner = rename_arg(&l[2], bound, free, ctr);
            bound.pop();
            lst(vec![sym("b"), num(s2), inner])
        }
        _ => e.clone(),
    }
}
pub fn rename_node(n: &Sx, free: &dyn Fn(u64) -> u64) -> Sx {
    let l = n.as_lst();
    let mut v = vec![l[0].clone(), l[1].clone()];
    let mut ctr = 0;
    for a in &l[2..] { v.push(rename_arg(a, &mut vec![], free, &mut ctr)); }
    lst(v)
}

/// change one slot occurrence to another name from the pool
fn mutate_node(rng: &mut Rng, n: &Sx, pool: u64) -> Sx {
    fn count(e: &Sx) -> usize { match e { Sx::Lst(l) if !l.is_empty() => match &l[0] { Sx::Sym(s) if s == "s" => 1, Sx::Sym(s) if s == "b" => 1 + count(&l[2]),
        Sx::Sym(s) if s == "a" => l[2].as_lst().len() - 1, _ => 0 }, _ => 0 } }
    fn set(e: &Sx, k: &mut i64, v: u64) -> Sx {
        let l = e.as_lst();
        match l[0].as_sym() {
            "s" => { *k -= 1; if *k == -1 { lst(vec![sym("s"), num(v)]) } else { e.clone() } }
            "b" => { *k -= 1; let s = if *k == -1 { num(v) } else { l[1].clone() }; lst(vec![sym("b"), s, set(&l[2], k, v)]) }
            "a" => {
                let mut pairs = vec![sym("m")];
                let vals: Vec<u64> = l[2].as_lst()[1..].iter().map(|p| p.as_lst()[1].as_num()).collect();
                for p in &l[2].as_lst()[1..] { let p = p.as_lst(); *k -= 1;
                    if *k == -1 && !vals.contains(&v) { pairs.push(lst(vec![p[0].clone(), num(v)])); } else { pairs.push(lst(vec![p[0].clone(), p[1].clone()])); } }
                lst(vec![sym("a"), l[1].clone(), lst(pairs)])
            }
            _ => e.clone(),
        }
    }
    let l = n.as_lst();
    let total: usize = l[2..].iter().map(count).sum();
    if total == 0 { return n.clone(); }
    let mut k = rng.below(total as u64) as i64;
    let v = rng.below(pool);
    let mut out = vec![l[0].clone(), l[1].clone()];
    for a in &l[2..] { out.push(set(a, &mut k, v)); }
    lst(out)
}

fn checks_flag() -> Sx { num(if cfg!(feature = "checks") { 1 } else { 0 }) }

pub fn gen(a: &Args) -> Vec<String> {
    let mut cases = vec![];
    for c in 0..a.count {
        let mut rng = Rng::new(a.seed, c);
        let pool = match rng.below(3) { 0 => 2, 1 => 3, _ => 6 };
        let n = gen_node(&mut rng, pool);
        let n2 = match rng.below(4) {
            0 | 1 => { // an equivalent node: injective renaming of free slots + fresh bound names
                let off = rng.below(3); let mul = 1 + rng.below(2); let rev = rng.chance(1, 2);
                rename_node(&n, &move |s| if rev { 100 + (17 - s) * mul + off } else { 100 + s * mul + off })
            }
            2 => mutate_node(&mut rng, &n, pool + 1),
            _ => { let m = mutate_node(&mut rng, &n, pool + 1); rename_node(&m, &|s| 50 + s) }
        };
        cases.push(lst(vec![sym("c16"), checks_flag(), n, n2]).to_string());
    }
    cases
}

pub fn main(a: &Args) {
    match a.extra.get(0).map(|s| s.as_str()) {
        Some("gen") => { write_lines(&format!("{}/cases.txt", a.out), &gen(a)); }
        Some("run") => {
            let lines = read_lines(&a.extra[1]);
            let mut cases = vec![]; let mut obs = vec![];
            for l in lines {
                let mut c = Sx::parse(&l);
                if let Sx::Lst(v) = &mut c { v[1] = checks_flag(); }
                obs.push(run_case(&c).to_string());
                cases.push(c.to_string());
            }
            write_lines(&format!("{}/cases.txt", a.out), &cases);
            write_lines(&format!("{}/impl.txt", a.out), &obs);
        }
        _ => { eprintln!("c16 gen|run <cases>"); std::process::exit(2); }
    }
}
