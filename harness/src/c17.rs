//! C17: slot table machine (mirror of coq/theories/Slots/SlotMachine.v).
use crate::common::*;
use slotted_egraphs::*;

pub fn text_sx(s: &str) -> Sx {
    let mut v = vec![sym("t")];
    for c in s.chars() { v.push(num(c as u64)); }
    lst(v)
}
pub fn dec_text(e: &Sx) -> String {
    e.as_lst()[1..].iter().map(|c| char::from_u32(c.as_num() as u32).unwrap_or('\u{FFFD}')).collect()
}

fn obs_slot(outs: &[Slot], s: Slot) -> Sx {
    let first = outs.iter().position(|x| *x == s).unwrap_or(outs.len());
    let name = std::panic::catch_unwind(|| s.to_string());
    let n = match name {
        Ok(t) => text_sx(&t[1..]),
        Err(_) => { let (_l, m) = take_panic().unwrap_or_default(); lst(vec![sym("err"), sym(panic_kind(&m))]) }
    };
    lst(vec![num(first as u64), n])
}

pub fn run_case(case: &Sx) -> Sx {
    let ops: Vec<Sx> = case.as_lst()[2..].to_vec();
    let r = in_fresh_thread(move || {
        let mut outs: Vec<Slot> = vec![];
        let mut obs = vec![sym("obs")];
        for op in &ops {
            let o = std::panic::catch_unwind(std::panic::AssertUnwindSafe(|| -> Option<Slot> {
                match op {
                    Sx::Sym(s) if s == "fresh" => Some(Slot::fresh()),
                    Sx::Lst(l) => match l[0].as_sym() {
                        "numeric" => Some(Slot::numeric(l[1].as_num() as u32)),
                        "named" => Some(Slot::named(&dec_text(&l[1]))),
                        "reparse" => {
                            let k = l[1].as_num() as usize;
                            if k >= outs.len() { None } else { let t = outs[k].to_string(); Some(Slot::named(&t[1..])) }
                        }
                        x => panic!("harness: unknown op {}", x),
                    },
                    _ => panic!("harness: bad op"),
                }
            }));
            match o {
                Ok(Some(s)) => { obs.push(obs_slot(&outs, s)); outs.push(s); }
                Ok(None) => obs.push(sym("skip")),
                Err(_) => {
                    let (_loc, msg) = take_panic().unwrap_or_default();
                    if msg.starts_with("harness:") { obs.push(sym("harness-error")); } else { obs.push(lst(vec![sym("err"), sym(panic_kind(&msg))])); }
                    break;
                }
            }
        }
        lst(obs)
    });
    r.unwrap_or_else(|_| sym("harness-thread-panic"))
}

fn gen_name(rng: &mut Rng) -> String {
    let digits = |rng: &mut Rng| -> String {
        match rng.below(10) {
            0 => "0".into(),
            1 => format!("{}", rng.below(12)),
            2 => format!("0{}", rng.below(12)),
            3 => format!("00{}", rng.below(5)),
            4 => format!("{}", (1u64 << 30) - 2 + rng.below(4)),
            5 => format!("{}", (1u64 << 32) - 2 + rng.below(4)),
            6 => format!("{}", (1u64 << 31) - 1 + rng.below(3)),
            7 => format!("{}", rng.below(1 << 20)),
            8 => format!("{}", rng.below(6)),
            _ => format!("{}", rng.below(3)),
        }
    };
    match rng.below(16) {
        0..=2 => digits(rng),
        3 => format!("+{}", digits(rng)),
        4 => format!("-{}", digits(rng)),
        5..=7 => format!("f{}", digits(rng)),
        8 => format!("f+{}", digits(rng)),
        9 => format!("f{}x", digits(rng)),
        10 => ["x", "y", "z", "f", "ff", "f f", "", "+", "f+", "f-1", "F3", "x1"][rng.below(12) as usize].to_string(),
        11 => { let pool = ["α", "ß", "f١", "١", "x y", "a(b", "𝟙", "f𝟙", "１", "f１"]; pool[rng.below(pool.len() as u64) as usize].to_string() }
        12 => format!("n{}", rng.below(4)),
        13 => format!("{}{}", digits(rng), ["", "a", " ", "_"][rng.below(4) as usize]),
        14 => format!("f{}", rng.below(8)),
        _ => format!("{}", rng.below(8)),
    }
}

fn gen_op(rng: &mut Rng, produced: u64) -> Sx {
    match rng.below(10) {
        0..=2 => sym("fresh"),
        3 => lst(vec![sym("numeric"), num(match rng.below(6) { 0 => (1 << 30) - 1 - rng.below(2), 1 => rng.below(1 << 20), _ => rng.below(8) })]),
        4..=7 => lst(vec![sym("named"), text_sx(&gen_name(rng))]),
        _ => lst(vec![sym("reparse"), num(rng.below(produced.max(1)))]),
    }
}

fn debug_flag() -> Sx { num(if cfg!(debug_assertions) { 1 } else { 0 }) }

pub fn gen(a: &Args) -> Vec<String> {
    let mut cases = vec![];
    for c in 0..a.count {
        let mut rng = Rng::new(a.seed, c);
        let len = rng.range(2, 24);
        let mut v = vec![sym("c17"), debug_flag()];
        for i in 0..len { v.push(gen_op(&mut rng, i)); }
        cases.push(lst(v).to_string());
    }
    cases
}

pub fn main(a: &Args) {
    match a.extra.get(0).map(|s| s.as_str()) {
        Some("gen") => { write_lines(&format!("{}/cases.txt", a.out), &gen(a)); }
        Some("run") => {
            let lines = read_lines(&a.extra[1]);
            let mut cases = vec![]; let mut obs = vec![];
            for l in lines {
                let mut c = Sx::parse(&l);
                if let Sx::Lst(v) = &mut c { v[1] = debug_flag(); }
                obs.push(run_case(&c).to_string());
                cases.push(c.to_string());
            }
            write_lines(&format!("{}/cases.txt", a.out), &cases);
            write_lines(&format!("{}/impl.txt", a.out), &obs);
        }
        _ => { eprintln!("c17 gen|run <cases>"); std::process::exit(2); }
    }
}
