//! C18: parsing and printing of patterns, terms and multi-patterns over LV.
use crate::common::*;
use crate::lang::*;
use crate::c17::{text_sx, dec_text};
use slotted_egraphs::*;

fn pattern_sx(p: &Pattern<LV>) -> Sx {
    match p {
        Pattern::ENode(n, ch) => { let mut v = vec![sym("pn"), node_sx(n)]; v.extend(ch.iter().map(pattern_sx)); lst(v) }
        Pattern::PVar(x) => lst(vec![sym("pv"), text_sx(x)]),
        Pattern::Subst(b, x, t) => lst(vec![sym("sub"), pattern_sx(b), pattern_sx(x), pattern_sx(t)]),
    }
}
fn re_to_pat(r: &RecExpr<LV>) -> Pattern<LV> { Pattern::ENode(r.node.clone(), r.children.iter().map(re_to_pat).collect()) }

fn obs_pat(isre: bool, s: &str) -> Sx {
    let parse = |s: &str| -> Result<Pattern<LV>, ()> {
        if isre { RecExpr::<LV>::parse(s).map(|r| re_to_pat(&r)).map_err(|_| ()) } else { Pattern::<LV>::parse(s).map_err(|_| ()) }
    };
    guarded(|| match parse(s) {
        Err(_) => sym("parse-error"),
        Ok(p) => {
            let printed = guarded_text(|| if isre { pattern_to_re(&p).to_string() } else { p.to_string() });
            let re = match &printed { Ok(t) => guarded(|| match parse(t) { Ok(p2) => pattern_sx(&p2), Err(_) => sym("parse-error") }), Err(e) => e.clone() };
            lst(vec![sym("ok"), pattern_sx(&p), match &printed { Ok(t) => text_sx(t), Err(e) => e.clone() }, re])
        }
    })
}
fn guarded_text(f: impl FnOnce() -> String) -> Result<String, Sx> {
    match std::panic::catch_unwind(std::panic::AssertUnwindSafe(f)) {
        Ok(x) => Ok(x),
        Err(_) => { let (_l, m) = take_panic().unwrap_or_default(); Err(lst(vec![sym("err"), sym(panic_kind(&m))])) }
    }
}
fn obs_mp(s: &str) -> Sx {
    guarded(|| match MultiPattern::<LV>::parse(s) {
        Err(_) => sym("parse-error"),
        Ok(m) => {
            let printed = m.to_string();
            let re = guarded(|| match MultiPattern::<LV>::parse(&printed) { Ok(m2) => text_sx(&m2.to_string()), Err(_) => sym("parse-error") });
            lst(vec![sym("ok"), text_sx(&printed), re])
        }
    })
}

pub fn run_case(case: &Sx) -> Sx {
    let c = case.clone();
    let r = in_fresh_thread(move || {
        let l = c.as_lst();
        let text = dec_text(&l[3]);
        match l[2].as_sym() { "pat" => obs_pat(false, &text), "re" => obs_pat(true, &text), "mp" => obs_mp(&text), _ => sym("harness-error") }
    });
    r.unwrap_or_else(|_| sym("harness-thread-panic"))
}

// ---- generation ----
const SLOT_NAMES: &[&str] = &["0", "1", "2", "7", "42", "x", "y", "zz", "f3", "f0", "a_b", "x1", "λ", "1073741823"];
const SYMS: &[&str] = &["foo", "bar", "x", "q7", "a.b", "h-", "true1", "zero", "=x"];

fn gen_slot(rng: &mut Rng) -> Slot { Slot::named(SLOT_NAMES[rng.below(SLOT_NAMES.len() as u64) as usize]) }

fn gen_pat(rng: &mut Rng, depth: u64, allow_pat: bool) -> Pattern<LV> {
    if allow_pat && rng.chance(1, 5) { return Pattern::PVar(["x", "y", "a1", "body", "?"][rng.below(5) as usize].to_string()); }
    if allow_pat && depth > 0 && rng.chance(1, 8) {
        return Pattern::Subst(Box::new(gen_pat(rng, depth - 1, true)), Box::new(gen_pat(rng, depth - 1, true)), Box::new(gen_pat(rng, depth - 1, true)));
    }
    let leafs: &[usize] = &[0, 1, 2, 3, 4, 5, 17, 18, 19];
    let vi = if depth == 0 { leafs[rng.below(leafs.len() as u64) as usize] } else { rng.below(VARIANTS.len() as u64) as usize };
    let null = AppliedId::null();
    let mut ch = vec![];
    let mut child = |rng: &mut Rng, ch: &mut Vec<Pattern<LV>>| { ch.push(gen_pat(rng, depth.saturating_sub(1), allow_pat)); null.clone() };
    let n = match vi {
        0 => LV::F(gen_slot(rng), gen_slot(rng)),
        1 => LV::G(gen_slot(rng), gen_slot(rng), gen_slot(rng)),
        2 => LV::G4(gen_slot(rng), gen_slot(rng), gen_slot(rng), gen_slot(rng)),
        3 => LV::C(), 4 => LV::D(),
        5 => LV::Var(gen_slot(rng)),
        6 => LV::U(child(rng, &mut ch)),
        7 => { let a = child(rng, &mut ch); LV::H(a, child(rng, &mut ch)) }
        8 => LV::Lam(Bind { slot: gen_slot(rng), elem: child(rng, &mut ch) }),
        9 => { let a = child(rng, &mut ch); LV::App(a, child(rng, &mut ch)) }
        10 => { let s = gen_slot(rng); let a = child(rng, &mut ch); LV::Let(Bind { slot: s, elem: a }, child(rng, &mut ch)) }
        11 => { let a = child(rng, &mut ch); let s1 = gen_slot(rng); let s2 = gen_slot(rng); LV::Sum2(a, Bind { slot: s1, elem: Bind { slot: s2, elem: child(rng, &mut ch) } }) }
        12 => { let s0 = gen_slot(rng); let s1 = gen_slot(rng); let a = child(rng, &mut ch); LV::K(s0, Bind { slot: s1, elem: a }, gen_slot(rng)) }
        13 => { let a = child(rng, &mut ch); LV::Add(a, child(rng, &mut ch)) }
        14 => { let a = child(rng, &mut ch); LV::Mul(a, child(rng, &mut ch)) }
        15 => LV::Sum(Bind { slot: gen_slot(rng), elem: child(rng, &mut ch) }),
        16 => { let p = gen_slot(rng); LV::Tag(p, child(rng, &mut ch)) }
        17 => LV::Num(match rng.below(3) { 0 => rng.below(10) as u32, 1 => u32::MAX - rng.below(2) as u32, _ => rng.below(100000) as u32 }),
        18 => LV::Flag(rng.chance(1, 2)),
        _ => LV::Sym(Symbol::from(SYMS[rng.below(SYMS.len() as u64) as usize])),
    };
    Pattern::ENode(n, ch)
}

fn mangle(rng: &mut Rng, s: &str) -> String {
    let chars: Vec<char> = s.chars().collect();
    let alphabet: Vec<char> = "()[]?$:= \t,a1f0+-\u{a0}λ".chars().collect();
    match rng.below(7) {
        0 => chars[..rng.below(chars.len() as u64 + 1) as usize].iter().collect(),                      // truncate
        1 => chars[rng.below(chars.len() as u64 + 1) as usize..].iter().collect(),                      // drop a prefix
        2 => { let mut c = chars.clone(); if !c.is_empty() { let i = rng.below(c.len() as u64) as usize; c.remove(i); } c.into_iter().collect() }
        3 => { let mut c = chars.clone(); let i = rng.below(c.len() as u64 + 1) as usize; c.insert(i, alphabet[rng.below(alphabet.len() as u64) as usize]); c.into_iter().collect() }
        4 => { let mut c = chars.clone(); if !c.is_empty() { let i = rng.below(c.len() as u64) as usize; c[i] = alphabet[rng.below(alphabet.len() as u64) as usize]; } c.into_iter().collect() }
        5 => { let n = rng.below(12); (0..n).map(|_| alphabet[rng.below(alphabet.len() as u64) as usize]).collect() }
        _ => { let i = rng.below(chars.len() as u64 + 1) as usize; let j = rng.below(chars.len() as u64 + 1) as usize; let mut t: String = chars[..i].iter().collect(); t.extend(chars[j..].iter()); t } // splice
    }
}

fn debug_flag() -> Sx { num(if cfg!(debug_assertions) { 1 } else { 0 }) }

pub fn gen(a: &Args) -> Vec<String> {
    let mut cases = vec![];
    for c in 0..a.count {
        // generation touches the slot table (named slots), so it also runs in a fresh thread per case
        let seed = a.seed;
        let line = in_fresh_thread(move || {
            let mut rng = Rng::new(seed, c);
            let depth = rng.below(4);
            match rng.below(10) {
                0..=2 => { let p = gen_pat(&mut rng, depth, true); let t = p.to_string(); lst(vec![sym("c18"), debug_flag(), sym("pat"), text_sx(&t), pattern_sx(&p)]) }
                3..=4 => { let p = gen_pat(&mut rng, depth, false); let t = p.to_string(); lst(vec![sym("c18"), debug_flag(), sym("re"), text_sx(&t), pattern_sx(&p)]) }
                5 => {
                    let k = rng.range(1, 3);
                    let parts: Vec<String> = (0..k).map(|_| {
                        let mut p = gen_pat(&mut rng, 1, false);
                        if let Pattern::ENode(_, ch) = &mut p { for (i, c) in ch.iter_mut().enumerate() { *c = Pattern::PVar(format!("c{}", (i as u64 + rng.below(2)) % 3)); } }
                        format!("?v{} == {}", rng.below(3), p)
                    }).collect();
                    let t = parts.join(", ");
                    lst(vec![sym("c18"), debug_flag(), sym("mp"), text_sx(&t), sym("wellformed")])
                }
                6..=7 => { let p = gen_pat(&mut rng, depth, true); let t = mangle(&mut rng, &p.to_string()); lst(vec![sym("c18"), debug_flag(), sym(if rng.chance(1, 2) { "pat" } else { "re" }), text_sx(&t)]) }
                8 => { let p = gen_pat(&mut rng, 1, true); let t = mangle(&mut rng, &format!("?a == {}, ?b == {}", p, p)); lst(vec![sym("c18"), debug_flag(), sym("mp"), text_sx(&t)]) }
                _ => { let p = gen_pat(&mut rng, depth, true); let t0 = p.to_string(); let t1 = mangle(&mut rng, &t0); let t = mangle(&mut rng, &t1); lst(vec![sym("c18"), debug_flag(), sym("pat"), text_sx(&t)]) }
            }
        }).unwrap_or_else(|_| sym("harness-gen-panic"));
        cases.push(line.to_string());
    }
    cases
}

pub fn main(a: &Args) {
    match a.extra.get(0).map(|s| s.as_str()) {
        Some("gen") => { write_lines(&format!("{}/cases.txt", a.out), &gen(a)); }
        Some("run") => {
            let lines = read_lines(&a.extra[1]);
            let mut cases = vec![]; let mut obs = vec![];
            for l in lines {
                let mut c = Sx::parse(&l);
                if let Sx::Lst(v) = &mut c { v[1] = debug_flag(); }
                obs.push(run_case(&c).to_string());
                cases.push(c.to_string());
            }
            write_lines(&format!("{}/cases.txt", a.out), &cases);
            write_lines(&format!("{}/impl.txt", a.out), &obs);
        }
        _ => { eprintln!("c18 gen|run <cases>"); std::process::exit(2); }
    }
}
