//! C19: SlotMap operation machine (mirror of coq/theories/Slots/SlotMapMachine.v).
use crate::common::*;
use slotted_egraphs::*;
use std::collections::hash_map::DefaultHasher;
use std::hash::{Hash, Hasher};

fn slot_sx(s: Slot) -> Sx {
    let t = s.to_string();
    let t = &t[1..];
    if let Ok(n) = t.parse::<u64>() {
        return num(n);
    }
    if let Some(r) = t.strip_prefix('f') {
        if let Ok(n) = r.parse::<u64>() {
            return lst(vec![sym("f"), num(n)]);
        }
    }
    lst(vec![sym("s"), sym(t)])
}

fn dec_slot(e: &Sx) -> Slot {
    match e {
        Sx::Num(n) => Slot::numeric(*n as u32),
        Sx::Lst(l) if l[0].as_sym() == "f" => Slot::named(&format!("f{}", l[1].as_num())),
        _ => panic!("harness: bad slot {}", e),
    }
}

fn map_sx(m: &SlotMap) -> Sx {
    let mut v = vec![sym("m")];
    for (k, x) in m.iter() {
        v.push(lst(vec![slot_sx(k), slot_sx(x)]));
    }
    lst(v)
}
fn set_sx<'a>(it: impl Iterator<Item = Slot>) -> Sx {
    lst(it.map(slot_sx).collect())
}
fn hash_of(m: &SlotMap) -> u64 {
    let mut h = DefaultHasher::new();
    m.hash(&mut h);
    h.finish()
}

fn step(regs: &mut Vec<SlotMap>, op: &Sx) -> Sx {
    let l = op.as_lst();
    let r = |i: usize| l[i].as_num() as usize;
    match l[0].as_sym() {
        "ins" => { let i = r(1); regs[i].insert(dec_slot(&l[2]), dec_slot(&l[3])); map_sx(&regs[i]) }
        "rem" => { let i = r(1); regs[i].remove(dec_slot(&l[2])); map_sx(&regs[i]) }
        "inv" => { let m = regs[r(1)].inverse(); regs[r(2)] = m; map_sx(&regs[r(2)]) }
        "comp" => { let m = regs[r(1)].compose(&regs[r(2)]); regs[r(3)] = m; map_sx(&regs[r(3)]) }
        "compp" => { let m = regs[r(1)].compose_partial(&regs[r(2)]); regs[r(3)] = m; map_sx(&regs[r(3)]) }
        "compf" => { let m = regs[r(1)].compose_fresh(&regs[r(2)]); regs[r(3)] = m; map_sx(&regs[r(3)]) }
        "identk" => { let m = SlotMap::identity(&regs[r(1)].keys()); regs[r(2)] = m; map_sx(&regs[r(2)]) }
        "identv" => { let m = SlotMap::identity(&regs[r(1)].values()); regs[r(2)] = m; map_sx(&regs[r(2)]) }
        "bff" => { let m = SlotMap::bijection_from_fresh_to(&regs[r(1)].values()); regs[r(2)] = m; map_sx(&regs[r(2)]) }
        "union" => { let m = regs[r(1)].union(&regs[r(2)]); regs[r(3)] = m; map_sx(&regs[r(3)]) }
        "tunion" => match regs[r(1)].try_union(&regs[r(2)]) {
            Some(m) => { regs[r(3)] = m; lst(vec![sym("some"), map_sx(&regs[r(3)])]) }
            None => sym("none"),
        },
        "fromp" => {
            let pairs: Vec<(Slot, Slot)> = l[2..].iter().map(|p| { let p = p.as_lst(); (dec_slot(&p[0]), dec_slot(&p[1])) }).collect();
            // alternate between the three construction routes; they must be indistinguishable
            let m = match pairs.len() % 3 {
                0 => SlotMap::from_pairs(&pairs),
                1 => pairs.iter().copied().collect::<SlotMap>(),
                _ => { if pairs.len() == 2 { SlotMap::from([pairs[0], pairs[1]]) } else { SlotMap::from_pairs(&pairs) } }
            };
            regs[r(1)] = m; map_sx(&regs[r(1)])
        }
        "get" => {
            let m = &regs[r(1)]; let k = dec_slot(&l[2]);
            let g = match m.get(k) { Some(v) => lst(vec![sym("some"), slot_sx(v)]), None => sym("none") };
            lst(vec![g, sbool(m.contains_key(k))])
        }
        "idx" => { let m = &regs[r(1)]; let k = dec_slot(&l[2]); slot_sx(m[k]) }
        "q" => {
            let m = &regs[r(1)];
            lst(vec![num(m.len() as u64), sbool(m.is_empty()), sbool(m.is_bijection()), sbool(m.is_perm()),
                set_sx(m.keys().into_iter()), set_sx(m.values().into_iter()),
                set_sx(m.keys_vec().into_iter()), set_sx(m.values_vec().into_iter())])
        }
        "cmp" => {
            let a = &regs[r(1)]; let b = &regs[r(2)];
            let c = match a.cmp(b) { std::cmp::Ordering::Less => "lt", std::cmp::Ordering::Equal => "eq", std::cmp::Ordering::Greater => "gt" };
            // clone-through-iteration must not change equality or hash either
            let a2: SlotMap = a.iter().collect();
            lst(vec![sym(c), sbool(a == b && a2 == *a), sbool(hash_of(a) == hash_of(b) && hash_of(&a2) == hash_of(a))])
        }
        x => panic!("harness: unknown op {}", x),
    }
}

pub fn run_case(case: &Sx) -> Sx {
    let ops: Vec<Sx> = case.as_lst()[2..].to_vec();
    let r = in_fresh_thread(move || {
        let mut regs = vec![SlotMap::new(), SlotMap::new(), SlotMap::new(), SlotMap::new()];
        let mut obs = vec![sym("obs")];
        for op in &ops {
            let o = std::panic::catch_unwind(std::panic::AssertUnwindSafe(|| step(&mut regs, op)));
            match o {
                Ok(o) => obs.push(o),
                Err(_) => {
                    let (_loc, msg) = take_panic().unwrap_or_default();
                    if msg.starts_with("harness:") { obs.push(sym("harness-error")); } else { obs.push(lst(vec![sym("err"), sym(panic_kind(&msg))])); }
                    break;
                }
            }
        }
        lst(obs)
    });
    r.unwrap_or_else(|_| sym("harness-thread-panic"))
}

fn gen_op(rng: &mut Rng, nslots: u64) -> Sx {
    let r = |rng: &mut Rng| num(rng.below(4));
    let s = |rng: &mut Rng| num(rng.below(nslots));
    match rng.below(100) {
        0..=29 => lst(vec![sym("ins"), r(rng), s(rng), s(rng)]),
        30..=37 => lst(vec![sym("rem"), r(rng), s(rng)]),
        38..=43 => lst(vec![sym("inv"), r(rng), r(rng)]),
        44..=47 => lst(vec![sym("comp"), r(rng), r(rng), r(rng)]),
        48..=55 => lst(vec![sym("compp"), r(rng), r(rng), r(rng)]),
        56..=60 => lst(vec![sym("compf"), r(rng), r(rng), r(rng)]),
        61..=63 => lst(vec![sym("identk"), r(rng), r(rng)]),
        64..=66 => lst(vec![sym("identv"), r(rng), r(rng)]),
        67..=69 => lst(vec![sym("bff"), r(rng), r(rng)]),
        70..=74 => lst(vec![sym("union"), r(rng), r(rng), r(rng)]),
        75..=79 => lst(vec![sym("tunion"), r(rng), r(rng), r(rng)]),
        80..=84 => {
            let n = rng.below(nslots.min(12) + 1);
            let mut v = vec![sym("fromp"), r(rng)];
            for _ in 0..n { v.push(lst(vec![s(rng), s(rng)])); }
            lst(v)
        }
        85..=88 => lst(vec![sym("get"), r(rng), s(rng)]),
        89..=90 => lst(vec![sym("idx"), r(rng), s(rng)]),
        91..=95 => lst(vec![sym("q"), r(rng)]),
        _ => lst(vec![sym("cmp"), r(rng), r(rng)]),
    }
}

fn checks_flag() -> Sx { num(if cfg!(feature = "checks") { 1 } else { 0 }) }

/// all partial maps {0..3} -> {0..3}, as `fromp` argument lists, in a seeded pair order
fn all_maps4() -> Vec<Vec<Sx>> {
    let mut out = vec![];
    for code in 0..625u32 {
        let mut c = code; let mut v = vec![];
        for k in 0..4u64 { let d = c % 5; c /= 5; if d > 0 { v.push(lst(vec![num(k), num(d as u64 - 1)])); } }
        out.push(v);
    }
    out
}

pub fn gen(a: &Args) -> Vec<String> {
    let mut cases = vec![];
    let exhaustive = a.extra.iter().any(|x| x == "--exhaustive");
    let mut idx = 0u64;
    // 1. exhaustive part: every map over four slots, built in two different orders, with every unary
    //    operation and query; (thorough) every ordered pair of such maps with every binary operation.
    let maps = all_maps4();
    for (i, m) in maps.iter().enumerate() {
        let mut rng = Rng::new(a.seed, 1_000_000 + i as u64);
        let mut rev = m.clone(); rng.shuffle(&mut rev);
        let mut ops = vec![];
        let mut f = vec![sym("fromp"), num(0)]; f.extend(m.clone()); ops.push(lst(f));
        let mut g = vec![sym("fromp"), num(1)]; g.extend(rev); ops.push(lst(g));
        ops.push(lst(vec![sym("cmp"), num(0), num(1)]));
        ops.push(lst(vec![sym("q"), num(0)]));
        for k in 0..5u64 { ops.push(lst(vec![sym("get"), num(0), num(k)])); }
        ops.push(lst(vec![sym("identk"), num(0), num(2)]));
        ops.push(lst(vec![sym("identv"), num(0), num(2)]));
        ops.push(lst(vec![sym("bff"), num(0), num(2)]));
        ops.push(lst(vec![sym("inv"), num(0), num(2)]));
        ops.push(lst(vec![sym("inv"), num(2), num(3)]));
        ops.push(lst(vec![sym("cmp"), num(0), num(3)]));
        ops.push(lst(vec![sym("compp"), num(0), num(2), num(3)]));
        ops.push(lst(vec![sym("q"), num(3)]));
        let mut v = vec![sym("c19"), checks_flag()]; v.extend(ops);
        cases.push(lst(v).to_string());
        idx += 1;
    }
    let stride = if exhaustive { 1 } else { 37 };
    let mut p = (a.seed % 625) as usize;
    let mut q = ((a.seed / 625) % 625) as usize;
    let total = if exhaustive { 625 * 625 } else { 625 * 625 / stride / 8 };
    for n in 0..total {
        let (i, j) = if exhaustive { (n / 625, n % 625) } else { p = (p + 211) % 625; q = (q + 17 + n) % 625; (p, q) };
        let mut ops = vec![];
        let mut f = vec![sym("fromp"), num(0)]; f.extend(maps[i].clone()); ops.push(lst(f));
        let mut g = vec![sym("fromp"), num(1)]; g.extend(maps[j].clone()); ops.push(lst(g));
        ops.push(lst(vec![sym("cmp"), num(0), num(1)]));
        ops.push(lst(vec![sym("compp"), num(0), num(1), num(2)]));
        ops.push(lst(vec![sym("compf"), num(0), num(1), num(2)]));
        ops.push(lst(vec![sym("tunion"), num(0), num(1), num(2)]));
        ops.push(lst(vec![sym("comp"), num(0), num(1), num(3)]));
        ops.push(lst(vec![sym("union"), num(0), num(1), num(3)]));
        let mut v = vec![sym("c19"), checks_flag()]; v.extend(ops);
        cases.push(lst(v).to_string());
        idx += 1;
    }
    // 2. random sequences (length <= 5 over 4 slots; longer over up to 16 slots: beyond inline capacity 10)
    for c in 0..a.count {
        let mut rng = Rng::new(a.seed, idx + c);
        let (nslots, len) = match rng.below(4) { 0 => (4, rng.range(1, 5)), 1 => (6, rng.range(3, 20)), _ => (16, rng.range(5, 40)) };
        let mut v = vec![sym("c19"), checks_flag()];
        for _ in 0..len { v.push(gen_op(&mut rng, nslots)); }
        cases.push(lst(v).to_string());
    }
    cases
}

pub fn main(a: &Args) {
    match a.extra.get(0).map(|s| s.as_str()) {
        Some("gen") => { write_lines(&format!("{}/cases.txt", a.out), &gen(a)); }
        Some("run") => {
            let lines = read_lines(&a.extra[1]);
            let mut cases = vec![]; let mut obs = vec![];
            for l in lines {
                let mut c = Sx::parse(&l);
                if let Sx::Lst(v) = &mut c { v[1] = checks_flag(); }
                obs.push(run_case(&c).to_string());
                cases.push(c.to_string());
            }
            write_lines(&format!("{}/cases.txt", a.out), &cases);
            write_lines(&format!("{}/impl.txt", a.out), &obs);
        }
        _ => { eprintln!("c19 gen|run <cases>"); std::process::exit(2); }
    }
}
