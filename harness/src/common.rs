//! Shared pieces of the correspondence harness: one PRNG, s-expression text, panic capture.
#![allow(dead_code)]
use std::cell::RefCell;
use std::panic;

#[derive(Clone)]
pub struct Rng(pub u64);
impl Rng {
    pub fn new(seed: u64, case: u64) -> Rng {
        let mut r = Rng(seed ^ case.wrapping_mul(0x9E3779B97F4A7C15) ^ 0xD1B54A32D192ED03);
        r.next();
        r.next();
        r
    }
    pub fn next(&mut self) -> u64 {
        self.0 = self.0.wrapping_add(0x9E3779B97F4A7C15);
        let mut z = self.0;
        z = (z ^ (z >> 30)).wrapping_mul(0xBF58476D1CE4E5B9);
        z = (z ^ (z >> 27)).wrapping_mul(0x94D049BB133111EB);
        z ^ (z >> 31)
    }
    pub fn below(&mut self, n: u64) -> u64 {
        if n == 0 { 0 } else { self.next() % n }
    }
    pub fn range(&mut self, lo: u64, hi: u64) -> u64 {
        lo + self.below(hi - lo + 1)
    }
    pub fn chance(&mut self, num: u64, den: u64) -> bool {
        self.below(den) < num
    }
    pub fn pick<'a, T>(&mut self, v: &'a [T]) -> &'a T {
        &v[self.below(v.len() as u64) as usize]
    }
    pub fn shuffle<T>(&mut self, v: &mut Vec<T>) {
        for i in (1..v.len()).rev() {
            let j = self.below(i as u64 + 1) as usize;
            v.swap(i, j);
        }
    }
}

thread_local! {
    static LAST_PANIC: RefCell<Option<(String, String)>> = RefCell::new(None);
}

/// Install a silent panic hook that records (location, message).
pub fn install_panic_hook() {
    panic::set_hook(Box::new(|info| {
        let loc = info
            .location()
            .map(|l| format!("{}:{}", l.file(), l.line()))
            .unwrap_or_default();
        // self-tests run against a scratch worktree of the library (VERIF_REPO): report locations as if it were /repo
        let loc = match std::env::var("VERIF_REPO") { Ok(r) if !r.is_empty() && r != "/repo" => loc.replace(&format!("{}/", r.trim_end_matches('/')), "/repo/"), _ => loc };
        let msg = if let Some(s) = info.payload().downcast_ref::<&str>() {
            s.to_string()
        } else if let Some(s) = info.payload().downcast_ref::<String>() {
            s.clone()
        } else {
            String::new()
        };
        LAST_PANIC.with(|p| *p.borrow_mut() = Some((loc, msg)));
    }));
}

pub fn take_panic() -> Option<(String, String)> {
    LAST_PANIC.with(|p| p.borrow_mut().take())
}

/// Map a recorded panic to the closed list of error kinds used on the wire.
pub fn panic_kind(msg: &str) -> &'static str {
    if msg.contains("index missing") {
        "index-missing"
    } else if msg.contains("assertion") || msg.contains("SlotMap::compose() failed") || msg.contains("disagree") {
        "assert"
    } else if msg.contains("called `Option::unwrap()` on a `None` value") || msg.contains("called `Result::unwrap()`") {
        "unwrap-none"
    } else if msg.contains("out of bounds") || msg.contains("out of range") {
        "oob"
    } else if msg.contains("overflow") {
        "overflow"
    } else {
        "explicit-panic"
    }
}

/// Run `f` in a fresh thread (fresh thread-local slot table), catching panics.
pub fn in_fresh_thread<T: Send + 'static>(f: impl FnOnce() -> T + Send + 'static) -> Result<T, (String, String)> {
    let h = std::thread::Builder::new()
        .stack_size(256 << 20)
        .spawn(move || {
            let r = panic::catch_unwind(panic::AssertUnwindSafe(f));
            match r {
                Ok(v) => Ok(v),
                Err(_) => Err(take_panic().unwrap_or_default()),
            }
        })
        .unwrap();
    h.join().unwrap()
}

/// The same with a wall-clock limit (rewriting can take minutes on classes with many symmetries: every insertion
/// enumerates the cartesian product of the children's groups).  On timeout the thread is abandoned (it dies with the
/// process) and `Err(("timeout", ..))` is returned; such cases are reported as skipped, never as passed.
pub fn in_fresh_thread_limited<T: Send + 'static>(f: impl FnOnce() -> T + Send + 'static) -> Result<T, (String, String)> {
    let secs: u64 = std::env::var("VERIF_CASE_TIMEOUT").ok().and_then(|s| s.parse().ok()).unwrap_or(20);
    let (tx, rx) = std::sync::mpsc::channel();
    std::thread::Builder::new()
        .stack_size(256 << 20)
        .spawn(move || {
            let r = panic::catch_unwind(panic::AssertUnwindSafe(f));
            let _ = tx.send(match r { Ok(v) => Ok(v), Err(_) => Err(take_panic().unwrap_or_default()) });
        })
        .unwrap();
    match rx.recv_timeout(std::time::Duration::from_secs(secs)) {
        Ok(r) => r,
        Err(_) => Err(("timeout".to_string(), format!("case exceeded {} s", secs))),
    }
}

/// Worker side of `isolated_map`: one case line in, one response line out (fields separated by tabs), flushed.
pub fn worker_loop(mut f: impl FnMut(&str) -> Vec<String>) {
    use std::io::{BufRead, Write};
    let stdin = std::io::stdin();
    let stdout = std::io::stdout();
    for line in stdin.lock().lines() {
        let line = match line { Ok(l) => l, Err(_) => break };
        if line.trim().is_empty() { continue; }
        let out = f(&line).join("\t");
        let mut o = stdout.lock();
        let _ = writeln!(o, "{}", out);
        let _ = o.flush();
    }
}

/// Run every case in a worker subprocess (`<this exe> <component> worker`).  A case that exceeds the wall-clock limit
/// (VERIF_CASE_TIMEOUT, default 20 s) or the worker's address-space limit (12 GB) gets `on_limit` as its response, the
/// worker is killed and a new one started: a runaway case can neither hold up nor starve the rest of the run.
pub fn isolated_map(component: &str, lines: &[String], on_limit: &[String]) -> Vec<Vec<String>> {
    use std::io::{BufRead, BufReader, Write};
    use std::process::{Command, Stdio};
    let secs: u64 = std::env::var("VERIF_CASE_TIMEOUT").ok().and_then(|s| s.parse().ok()).unwrap_or(20);
    let exe = std::env::current_exe().unwrap();
    let spawn = || {
        let mut ch = Command::new("sh")
            .arg("-c").arg(format!("ulimit -v 12000000 2>/dev/null; exec \"{}\" {} worker", exe.display(), component))
            .env("VERIF_CASE_TIMEOUT", "1000000")
            .stdin(Stdio::piped()).stdout(Stdio::piped()).stderr(Stdio::null())
            .spawn().expect("harness: cannot start worker");
        let out = ch.stdout.take().unwrap();
        let (tx, rx) = std::sync::mpsc::channel::<String>();
        std::thread::spawn(move || { for l in BufReader::new(out).lines() { match l { Ok(l) => { if tx.send(l).is_err() { break; } } Err(_) => break } } });
        (ch, rx)
    };
    let (mut ch, mut rx) = spawn();
    let mut res = vec![];
    for l in lines {
        let ok = { let si = ch.stdin.as_mut().unwrap(); writeln!(si, "{}", l).is_ok() && si.flush().is_ok() };
        let r = if ok { rx.recv_timeout(std::time::Duration::from_secs(secs)).ok() } else { None };
        match r {
            Some(resp) => res.push(resp.split('\t').map(|x| x.to_string()).collect()),
            None => {
                let _ = ch.kill(); let _ = ch.wait();
                res.push(on_limit.to_vec());
                let (c2, r2) = spawn(); ch = c2; rx = r2;
            }
        }
    }
    drop(ch.stdin.take());
    let _ = ch.wait();
    res
}

pub fn timeout_obs() -> Sx { lst(vec![sym("obs"), lst(vec![sym("res"), sym("timeout")])]) }

pub struct Args {
    pub seed: u64,
    pub count: u64,
    pub out: String,
    pub extra: Vec<String>,
}

pub fn parse_args(a: &[String]) -> Args {
    let mut seed = 1u64;
    let mut count = 100u64;
    let mut out = ".".to_string();
    let mut extra = vec![];
    let mut i = 0;
    while i < a.len() {
        match a[i].as_str() {
            "--seed" => { seed = a[i + 1].parse().unwrap(); i += 2; }
            "--count" => { count = a[i + 1].parse().unwrap(); i += 2; }
            "--out" => { out = a[i + 1].clone(); i += 2; }
            _ => { extra.push(a[i].clone()); i += 1; }
        }
    }
    Args { seed, count, out, extra }
}

pub fn write_lines(path: &str, lines: &[String]) {
    use std::io::Write;
    let mut f = std::io::BufWriter::new(std::fs::File::create(path).unwrap());
    for l in lines {
        writeln!(f, "{}", l).unwrap();
    }
}

// ---------- s-expressions ----------
#[derive(Clone, Debug, PartialEq, Eq)]
pub enum Sx {
    Num(u64),
    Sym(String),
    Lst(Vec<Sx>),
}

impl std::fmt::Display for Sx {
    fn fmt(&self, f: &mut std::fmt::Formatter<'_>) -> std::fmt::Result {
        match self {
            Sx::Num(n) => write!(f, "{}", n),
            Sx::Sym(s) => write!(f, "{}", s),
            Sx::Lst(l) => {
                write!(f, "(")?;
                for (i, x) in l.iter().enumerate() {
                    if i > 0 { write!(f, " ")?; }
                    write!(f, "{}", x)?;
                }
                write!(f, ")")
            }
        }
    }
}

pub fn sym(s: &str) -> Sx { Sx::Sym(s.to_string()) }
pub fn num(n: u64) -> Sx { Sx::Num(n) }
pub fn lst(v: Vec<Sx>) -> Sx { Sx::Lst(v) }
pub fn sbool(b: bool) -> Sx { sym(if b { "true" } else { "false" }) }

impl Sx {
    pub fn parse(s: &str) -> Sx {
        let b = s.as_bytes();
        let mut pos = 0usize;
        fn item(b: &[u8], pos: &mut usize) -> Sx {
            while *pos < b.len() && (b[*pos] == b' ' || b[*pos] == b'\t') { *pos += 1; }
            if b[*pos] == b'(' {
                *pos += 1;
                let mut v = vec![];
                loop {
                    while *pos < b.len() && (b[*pos] == b' ' || b[*pos] == b'\t') { *pos += 1; }
                    if b[*pos] == b')' { *pos += 1; break; }
                    v.push(item(b, pos));
                }
                Sx::Lst(v)
            } else {
                let st = *pos;
                while *pos < b.len() && !matches!(b[*pos], b' ' | b'(' | b')' | b'\t') { *pos += 1; }
                let tok = std::str::from_utf8(&b[st..*pos]).unwrap();
                if tok.bytes().all(|c| c.is_ascii_digit()) { Sx::Num(tok.parse().unwrap()) } else { Sx::Sym(tok.to_string()) }
            }
        }
        item(b, &mut pos)
    }
    pub fn as_num(&self) -> u64 { match self { Sx::Num(n) => *n, _ => panic!("harness: expected number, got {}", self) } }
    pub fn as_sym(&self) -> &str { match self { Sx::Sym(s) => s, _ => panic!("harness: expected symbol, got {}", self) } }
    pub fn as_lst(&self) -> &[Sx] { match self { Sx::Lst(l) => l, _ => panic!("harness: expected list, got {}", self) } }
    pub fn head(&self) -> &str { self.as_lst()[0].as_sym() }
}

pub fn read_lines(path: &str) -> Vec<String> {
    std::fs::read_to_string(path).unwrap().lines().filter(|l| !l.trim().is_empty()).map(|l| l.to_string()).collect()
}
