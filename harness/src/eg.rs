//! E-graph histories: insertions and unions over LV, and the property-level observables.
//! One case = (eg <flags> (terms T...) (ops OP...)); handles are the results of the `add` ops in order.
#![allow(dead_code)]
use crate::common::*;
use crate::lang::*;
use slotted_egraphs::*;

pub fn dec_rterm(e: &Sx) -> RecExpr<LV> {
    let l = e.as_lst();
    RecExpr { node: dec_node(&l[1]), children: l[2..].iter().map(dec_rterm).collect() }
}
pub fn rterm_sx(r: &RecExpr<LV>) -> Sx {
    let mut v = vec![sym("rt"), node_sx(&nullify(&r.node))];
    v.extend(r.children.iter().map(rterm_sx));
    lst(v)
}
fn nullify(n: &LV) -> LV { n.map_applied_ids(|_| AppliedId::null()) }

pub struct Hist {
    pub eg: EGraph<LV>,
    pub terms: Vec<RecExpr<LV>>,
    pub handles: Vec<AppliedId>,       // one per add op
    pub handle_term: Vec<usize>,       // which term each handle came from
    pub unions: Vec<(usize, usize, Option<String>)>,
    pub err: Option<(usize, String, String)>,   // (op index, kind, location)
    pub per_op: Vec<Sx>,
}

pub fn progress_sx(eg: &EGraph<LV>) -> Sx {
    let p = eg.progress();
    lst(vec![sym("prog"), num(p.number_of_classes as u64), num(p.number_of_live_classes as u64), num(p.sum_of_slots as u64), num(p.sum_of_symmetries as u64)])
}

/// run the ops; `after_op` is called after every successful op
pub fn run_history(case: &Sx, after_op: impl FnMut(&mut Hist, usize)) -> Hist {
    run_history_in(case, EGraph::default(), after_op)
}

/// the same on a given (empty) e-graph, e.g. one created with another substitution method
pub fn run_history_in(case: &Sx, eg0: EGraph<LV>, mut after_op: impl FnMut(&mut Hist, usize)) -> Hist {
    let l = case.as_lst();
    let terms: Vec<RecExpr<LV>> = l[2].as_lst()[1..].iter().map(dec_rterm).collect();
    let ops: Vec<Sx> = l[3].as_lst()[1..].to_vec();
    let mut h = Hist { eg: eg0, terms, handles: vec![], handle_term: vec![], unions: vec![], err: None, per_op: vec![] };
    for (oi, op) in ops.iter().enumerate() {
        let v = op.as_lst();
        let r = std::panic::catch_unwind(std::panic::AssertUnwindSafe(|| {
            match v[0].as_sym() {
                "add" => {
                    let k = v[1].as_num() as usize;
                    // with explanations, user-facing handles are syntactic (add_syn_expr); otherwise add_syn = add
                    #[cfg(feature = "explanations")]
                    let a = h.eg.add_syn_expr(h.terms[k].clone());
                    #[cfg(not(feature = "explanations"))]
                    let a = h.eg.add_expr(h.terms[k].clone());
                    h.handles.push(a); h.handle_term.push(k);
                }
                "union" => {
                    let (i, j) = (v[1].as_num() as usize, v[2].as_num() as usize);
                    let just = if v.len() > 3 { Some(format!("j{}", v[3].as_num())) } else { None };
                    let (a, b) = (h.handles[i].clone(), h.handles[j].clone());
                    h.eg.union_justified(&a, &b, just.clone());
                    h.unions.push((i, j, just));
                }
                x => panic!("harness: unknown op {}", x),
            }
        }));
        match r {
            Ok(()) => after_op(&mut h, oi),
            Err(_) => {
                let (loc, msg) = take_panic().unwrap_or_default();
                let kind = if msg.starts_with("harness:") { "harness-error".to_string() } else { panic_kind(&msg).to_string() };
                h.err = Some((oi, kind, loc));
                break;
            }
        }
    }
    h
}

pub fn eq_matrix(h: &Hist) -> Result<String, (String, String)> {
    let n = h.handles.len();
    let r = std::panic::catch_unwind(std::panic::AssertUnwindSafe(|| {
        let mut s = String::new();
        for i in 0..n { for j in 0..n { s.push(if h.eg.eq(&h.handles[i], &h.handles[j]) { '1' } else { '0' }); } }
        s
    }));
    r.map_err(|_| { let (loc, msg) = take_panic().unwrap_or_default(); (panic_kind(&msg).to_string(), loc) })
}

pub fn check_ok(eg: &EGraph<LV>) -> Result<(), (String, String)> {
    std::panic::catch_unwind(std::panic::AssertUnwindSafe(|| eg.check())).map_err(|_| { let (loc, msg) = take_panic().unwrap_or_default(); (panic_kind(&msg).to_string(), loc) })
}

fn guard<T>(f: impl FnOnce() -> T) -> Result<T, Sx> {
    std::panic::catch_unwind(std::panic::AssertUnwindSafe(f)).map_err(|_| { let (loc, msg) = take_panic().unwrap_or_default();
        lst(vec![sym("err"), sym(panic_kind(&msg)), sym(&loc.replace(' ', "_").replace("/repo/", ""))]) })
}

/// the standard observation at the end of a history
pub fn final_obs(h: &Hist) -> Vec<Sx> {
    let mut o = vec![];
    match &h.err {
        Some((oi, kind, loc)) => o.push(lst(vec![sym("res"), sym("err"), num(*oi as u64), sym(kind), sym(&loc.replace(' ', "_").replace("/repo/", ""))])),
        None => o.push(lst(vec![sym("res"), sym("ok")])),
    }
    if h.err.is_some() { return o; }
    match eq_matrix(h) {
        Ok(m) => o.push(lst(vec![sym("eqm"), num(h.handles.len() as u64), sym(&format!("b{}", m))])),
        Err((k, loc)) => { o.push(lst(vec![sym("eqm"), sym("err"), sym(&k), sym(&loc.replace(' ', "_").replace("/repo/", ""))])); return o; }
    }
    // per handle: public slots of its canonical form, symmetry count and node count of its class
    let mut per = vec![sym("handles")];
    for a in &h.handles {
        let e = guard(|| {
            let f = h.eg.find_applied_id(a);
            let mut s: Vec<Slot> = f.slots().into_iter().collect(); s.sort();
            // symmetries: permutations of the canonical invocation's slots that compare equal to it
            let vals: Vec<Slot> = f.m.values_vec();
            let mut syms = 0u64;
            for p in perms_of(vals.len()) {
                let mut m = SlotMap::new();
                for (i, (k, _)) in f.m.iter().enumerate() { m.insert(k, vals[p[i]]); }
                if h.eg.eq(&f, &AppliedId::new(f.id, m)) { syms += 1; }
            }
            lst(vec![set_sx(s.into_iter()), num(syms), num(h.eg.enodes(f.id).len() as u64)])
        });
        per.push(match e { Ok(x) => x, Err(x) => x });
    }
    o.push(lst(per));
    o.push(progress_sx(&h.eg));
    o.push(lst(vec![sym("nodes"), num(h.eg.total_number_of_nodes() as u64)]));
    o.push(lst(vec![sym("check"), match check_ok(&h.eg) { Ok(()) => sym("ok"), Err((k, loc)) => lst(vec![sym("err"), sym(&k), sym(&loc.replace(' ', "_").replace("/repo/", ""))]) }]));
    o
}

pub fn perms_of(n: usize) -> Vec<Vec<usize>> {
    fn go(cur: &mut Vec<usize>, used: &mut Vec<bool>, n: usize, out: &mut Vec<Vec<usize>>) {
        if cur.len() == n { out.push(cur.clone()); return; }
        for i in 0..n { if !used[i] { used[i] = true; cur.push(i); go(cur, used, n, out); cur.pop(); used[i] = false; } }
    }
    let mut out = vec![]; if n <= 5 { go(&mut vec![], &mut vec![false; n], n, &mut out); } else { out.push((0..n).collect()); } out
}

// ---------------------------------------------------------------- generation
pub struct TG { pub pool: Vec<u64> }

fn slot_arg(s: u64) -> Sx { lst(vec![sym("s"), num(s)]) }
fn null_app() -> Sx { lst(vec![sym("a"), num(0), lst(vec![sym("m")])]) }
fn bind(s: u64, inner: Sx) -> Sx { lst(vec![sym("b"), num(s), inner]) }
fn rt(v: u64, args: Vec<Sx>, ch: Vec<Sx>) -> Sx { let mut n = vec![sym("nd"), num(v)]; n.extend(args); let mut r = vec![sym("rt"), lst(n)]; r.extend(ch); lst(r) }

/// random term of the uninterpreted fragment (variants 0..12, no payloads)
pub fn gen_term(rng: &mut Rng, depth: u64, pool: &[u64]) -> Sx {
    let s = |rng: &mut Rng| *rng.pick(pool);
    if depth == 0 || rng.chance(1, 4) {
        return match rng.below(7) {
            0 | 1 => rt(0, vec![slot_arg(s(rng)), slot_arg(s(rng))], vec![]),
            2 => rt(1, vec![slot_arg(s(rng)), slot_arg(s(rng)), slot_arg(s(rng))], vec![]),
            3 => rt(3, vec![], vec![]),
            4 => rt(4, vec![], vec![]),
            _ => rt(5, vec![slot_arg(s(rng))], vec![]),
        };
    }
    match rng.below(9) {
        0 | 1 => rt(6, vec![null_app()], vec![gen_term(rng, depth - 1, pool)]),
        2 | 3 => rt(7, vec![null_app(), null_app()], vec![gen_term(rng, depth - 1, pool), gen_term(rng, depth - 1, pool)]),
        4 => rt(8, vec![bind(s(rng), null_app())], vec![gen_term(rng, depth - 1, pool)]),
        5 => rt(10, vec![bind(s(rng), null_app()), null_app()], vec![gen_term(rng, depth - 1, pool), gen_term(rng, depth - 1, pool)]),
        6 => rt(12, vec![slot_arg(s(rng)), bind(s(rng), null_app()), slot_arg(s(rng))], vec![gen_term(rng, depth - 1, pool)]),
        7 => rt(11, vec![null_app(), bind(s(rng), bind(s(rng), null_app()))], vec![gen_term(rng, depth - 1, pool), gen_term(rng, depth - 1, pool)]),
        _ => rt(2, vec![slot_arg(s(rng)), slot_arg(s(rng)), slot_arg(s(rng)), slot_arg(s(rng))], vec![]),
    }
}

/// rename all slot occurrences of a term s-expression by `f` (bound and free alike: a bijection keeps alpha-classes)
pub fn rename_term(t: &Sx, f: &dyn Fn(u64) -> u64) -> Sx {
    match t {
        Sx::Lst(l) if !l.is_empty() => {
            if let Sx::Sym(h) = &l[0] {
                if h == "s" { return lst(vec![sym("s"), num(f(l[1].as_num()))]); }
                if h == "b" { return lst(vec![sym("b"), num(f(l[1].as_num())), rename_term(&l[2], f)]); }
                if h == "a" || h == "pu" || h == "pb" || h == "ps" { return t.clone(); }
                if h == "nd" { let mut v = vec![l[0].clone(), l[1].clone()]; v.extend(l[2..].iter().map(|x| rename_term(x, f))); return lst(v); }
            }
            lst(l.iter().map(|x| rename_term(x, f)).collect())
        }
        _ => t.clone(),
    }
}

pub fn subterms(t: &Sx, out: &mut Vec<Sx>) {
    out.push(t.clone());
    for c in &t.as_lst()[2..] { subterms(c, out); }
}

/// a history: terms (with subterms and renamed copies) + adds + unions, by motif
/// rewriting streams switch the five-slot symmetry motif off: with a class of 120 symmetries used twice by a parent, every
/// insertion enumerates 120 x 120 variants (proven_proven_pre_shape) - finite, but minutes per case
pub static BIG_SYMMETRY: std::sync::atomic::AtomicBool = std::sync::atomic::AtomicBool::new(true);
pub static MOTIF_BIAS: std::sync::atomic::AtomicU64 = std::sync::atomic::AtomicU64::new(u64::MAX);

fn rng_kind(x: u64) -> u64 { x % 2 }

pub fn gen_history(rng: &mut Rng, justified: bool) -> (Vec<Sx>, Vec<Sx>, String) {
    let pool: Vec<u64> = (1..=rng.range(2, 4)).collect();
    let mut terms: Vec<Sx> = vec![];
    let mut ops: Vec<Sx> = vec![];
    let mut nadd = 0u64;
    let mut jn = 0u64;
    // a component may bias the choice towards one motif (e.g. the unobserved streams towards the chain motif)
    let bias = MOTIF_BIAS.load(std::sync::atomic::Ordering::Relaxed);
    let motif = if bias != u64::MAX && rng.chance(1, 2) { bias } else { rng.below(11) };
    let mut skip_random = false;
    let mut add = |t: Sx, terms: &mut Vec<Sx>, ops: &mut Vec<Sx>, nadd: &mut u64| -> u64 {
        let k = match terms.iter().position(|x| *x == t) { Some(k) => k, None => { terms.push(t); terms.len() - 1 } };
        ops.push(lst(vec![sym("add"), num(k as u64)])); *nadd += 1; *nadd - 1
    };
    let mut union = |i: u64, j: u64, ops: &mut Vec<Sx>, jn: &mut u64| {
        if justified { ops.push(lst(vec![sym("union"), num(i), num(j), num(*jn)])); *jn += 1; } else { ops.push(lst(vec![sym("union"), num(i), num(j)])); }
    };
    let name = match motif {
        0 => { // symmetries: permuted copies of one leaf
            let leaf_v = *rng.pick(&[0u64, 1, 1, 2]);
            let ar = [2, 3, 4, 0][leaf_v as usize];
            let base: Vec<u64> = (1..=ar as u64).collect();
            let t0 = rt(leaf_v, base.iter().map(|s| slot_arg(*s)).collect(), vec![]);
            let h0 = add(t0, &mut terms, &mut ops, &mut nadd);
            for _ in 0..rng.range(1, 3) {
                let mut p = base.clone(); rng.shuffle(&mut p);
                if rng.chance(1, 4) { let i = rng.below(ar as u64) as usize; p[i] = 9; }   // also drop a slot sometimes
                let h = add(rt(leaf_v, p.iter().map(|s| slot_arg(*s)).collect(), vec![]), &mut terms, &mut ops, &mut nadd);
                union(h0, h, &mut ops, &mut jn);
            }
            // probes: every permutation of the leaf (arity <= 3) / some (arity 4)
            let ps = perms_of(ar); for p in ps.iter().take(24) { let q: Vec<u64> = p.iter().map(|i| base[*i]).collect(); add(rt(leaf_v, q.iter().map(|s| slot_arg(*s)).collect(), vec![]), &mut terms, &mut ops, &mut nadd); }
            // a parent using the symmetric class twice
            let a = rt(leaf_v, base.iter().map(|s| slot_arg(*s)).collect(), vec![]);
            let mut rb = base.clone(); rb.reverse();
            let b = rt(leaf_v, rb.iter().map(|s| slot_arg(*s)).collect(), vec![]);
            add(rt(7, vec![null_app(), null_app()], vec![a.clone(), b.clone()]), &mut terms, &mut ops, &mut nadd);
            add(rt(7, vec![null_app(), null_app()], vec![a.clone(), a.clone()]), &mut terms, &mut ops, &mut nadd);
            "symmetry"
        }
        1 => { // redundancy: drop or rename a slot
            let t = gen_term(rng, 2, &pool);
            let h0 = add(t.clone(), &mut terms, &mut ops, &mut nadd);
            let from = *rng.pick(&pool);
            let t2 = rename_term(&t, &|s| if s == from { 8 } else { s });
            let h1 = add(t2, &mut terms, &mut ops, &mut nadd);
            union(h0, h1, &mut ops, &mut jn);
            let t3 = rename_term(&t, &|s| if s == from { 7 } else { s });
            add(t3, &mut terms, &mut ops, &mut nadd);
            let par = rt(6, vec![null_app()], vec![t.clone()]);
            add(par, &mut terms, &mut ops, &mut nadd);
            add(rt(6, vec![null_app()], vec![rename_term(&t, &|s| if s == from { 6 } else { s })]), &mut terms, &mut ops, &mut nadd);
            "redundancy"
        }
        2 => { // self reference: a = u(a)-like
            let a = gen_term(rng, 1, &pool);
            let ua = rt(6, vec![null_app()], vec![a.clone()]);
            let h0 = add(a.clone(), &mut terms, &mut ops, &mut nadd);
            let h1 = add(ua.clone(), &mut terms, &mut ops, &mut nadd);
            union(h0, h1, &mut ops, &mut jn);
            add(rt(6, vec![null_app()], vec![ua.clone()]), &mut terms, &mut ops, &mut nadd);
            add(rt(7, vec![null_app(), null_app()], vec![a.clone(), ua.clone()]), &mut terms, &mut ops, &mut nadd);
            add(rt(7, vec![null_app(), null_app()], vec![ua.clone(), a.clone()]), &mut terms, &mut ops, &mut nadd);
            "self-reference"
        }
        3 => { // absorbed symmetry: a class with parents absorbs a smaller class that carries a symmetry
            let (big_v, ar) = *rng.pick(&[(1u64, 3usize), (0, 2), (2, 4)]);
            let base: Vec<u64> = (1..=ar as u64).collect();
            let leaf = |v: u64, p: &Vec<u64>| rt(v, p.iter().map(|s| slot_arg(*s)).collect(), vec![]);
            let mut sw = base.clone();
            // the symmetry carried over: a transposition, or (arity >= 3) a 3-cycle / the full rotation: a NON-involutive generator
            match (ar, rng.below(3)) { (2, _) | (_, 0) => sw.swap(0, 1), (_, 1) => { let t = sw[0]; sw[0] = sw[1]; sw[1] = sw[2]; sw[2] = t; } _ => sw.rotate_left(1) }
            let q = leaf(big_v, &base); let qs = leaf(big_v, &sw);
            // parents (and probes for the consequence one or two levels up)
            add(rt(6, vec![null_app()], vec![q.clone()]), &mut terms, &mut ops, &mut nadd);
            add(rt(6, vec![null_app()], vec![qs.clone()]), &mut terms, &mut ops, &mut nadd);
            if rng.chance(1, 2) {
                add(rt(7, vec![null_app(), null_app()], vec![q.clone(), q.clone()]), &mut terms, &mut ops, &mut nadd);
                add(rt(7, vec![null_app(), null_app()], vec![qs.clone(), qs.clone()]), &mut terms, &mut ops, &mut nadd);
            }
            if rng.chance(1, 2) {
                add(rt(6, vec![null_app()], vec![rt(6, vec![null_app()], vec![q.clone()])]), &mut terms, &mut ops, &mut nadd);
                add(rt(6, vec![null_app()], vec![rt(6, vec![null_app()], vec![qs.clone()])]), &mut terms, &mut ops, &mut nadd);
            }
            // the small symmetric class: another leaf variant over the same slots (a slot repeated if it has more positions)
            let small_v = *rng.pick(&[0u64, 1, 2].iter().filter(|v| **v != big_v).cloned().collect::<Vec<u64>>());
            let sar = [2usize, 3, 4][small_v as usize];
            let fill = |p: &Vec<u64>| -> Vec<u64> { (0..sar).map(|i| if i < p.len() { p[i] } else { p[p.len() - 1] }).collect() };
            if sar >= ar {
                let (p1, p2) = (leaf(small_v, &fill(&base)), leaf(small_v, &fill(&sw)));
                let h1 = add(p1, &mut terms, &mut ops, &mut nadd);
                let h2 = add(p2, &mut terms, &mut ops, &mut nadd);
                union(h1, h2, &mut ops, &mut jn);
                let hq = add(q.clone(), &mut terms, &mut ops, &mut nadd);
                if rng.chance(1, 2) { union(h1, hq, &mut ops, &mut jn); } else { union(hq, h1, &mut ops, &mut jn); }
            } else {
                // the small leaf has fewer positions: wrap the big one's slots into a binder-free pair of leaves
                let (p1, p2) = (rt(7, vec![null_app(), null_app()], vec![leaf(small_v, &base[..sar].to_vec()), q.clone()]),
                                rt(7, vec![null_app(), null_app()], vec![leaf(small_v, &sw[..sar].to_vec()), qs.clone()]));
                let h1 = add(p1, &mut terms, &mut ops, &mut nadd);
                let h2 = add(p2, &mut terms, &mut ops, &mut nadd);
                union(h1, h2, &mut ops, &mut jn);
                let hq = add(q.clone(), &mut terms, &mut ops, &mut nadd);
                union(hq, h1, &mut ops, &mut jn);
            }
            "symmetry"
        }
        4 if BIG_SYMMETRY.load(std::sync::atomic::Ordering::Relaxed) => { // a symmetry group on five slots grown in two steps (a double transposition, then a second generator):
               // which layer of the stabiliser chain absorbs the second one depends on the ORDER of the slot names
            let base: Vec<u64> = vec![1, 2, 3, 4, 5];
            let mk = |p: &Vec<u64>| -> Sx {
                rt(7, vec![null_app(), null_app()], vec![rt(2, p[..4].iter().map(|s| slot_arg(*s)).collect(), vec![]), rt(5, vec![slot_arg(p[4])], vec![])])
            };
            let mut idx: Vec<usize> = (0..5).collect(); rng.shuffle(&mut idx);
            let mut p1 = base.clone(); p1.swap(idx[0], idx[1]); p1.swap(idx[2], idx[3]);
            let mut p2 = base.clone();
            match rng.below(3) { 0 => { p2.swap(idx[2], idx[4]); } 1 => { p2.swap(idx[3], idx[4]); } _ => { rng.shuffle(&mut p2); if p2 == base { p2.swap(0, 4); } } }
            let h0 = add(mk(&base), &mut terms, &mut ops, &mut nadd);
            let h1 = add(mk(&p1), &mut terms, &mut ops, &mut nadd);
            union(h0, h1, &mut ops, &mut jn);
            let h2 = add(mk(&p2), &mut terms, &mut ops, &mut nadd);
            union(h0, h2, &mut ops, &mut jn);
            // a parent and a few probes (arrangements of the same five slots)
            add(rt(6, vec![null_app()], vec![mk(&base)]), &mut terms, &mut ops, &mut nadd);
            for _ in 0..rng.range(4, 8) { let mut q = base.clone(); rng.shuffle(&mut q); add(mk(&q), &mut terms, &mut ops, &mut nadd); }
            let mut q = p1.clone(); { let t = q.clone(); for i in 0..5 { q[i] = p2[(t[i] - 1) as usize]; } }
            add(mk(&q), &mut terms, &mut ops, &mut nadd);
            add(rt(6, vec![null_app()], vec![mk(&q)]), &mut terms, &mut ops, &mut nadd);
            "symmetry"
        }
        5 => { // a redundancy first, then a symmetry of the child that moves the redundant position onto a kept slot:
               // w(1,3) = h(c, g(1,2,3)) drops slot 2; then g(1,2,3) = g(2,1,3) implies w(1,3) = w(2,3)
            let g = |p: [u64; 3]| rt(1, p.iter().map(|s| slot_arg(*s)).collect(), vec![]);
            let w = |a: u64, b: u64| rt(0, vec![slot_arg(a), slot_arg(b)], vec![]);
            let par = |x: Sx| if true { rt(7, vec![null_app(), null_app()], vec![rt(3, vec![], vec![]), x]) } else { x };
            let (kept_a, kept_b) = *rng.pick(&[(1u64, 3u64), (2, 3), (1, 2)]);
            let h0 = add(par(g([1, 2, 3])), &mut terms, &mut ops, &mut nadd);
            let h1 = add(w(kept_a, kept_b), &mut terms, &mut ops, &mut nadd);
            if rng.chance(1, 2) { union(h0, h1, &mut ops, &mut jn); } else { union(h1, h0, &mut ops, &mut jn); }
            let perm: [u64; 3] = *rng.pick(&[[2u64, 1, 3], [1, 3, 2], [3, 2, 1], [2, 3, 1], [3, 1, 2]]);
            let h2 = add(g([1, 2, 3]), &mut terms, &mut ops, &mut nadd);
            let h3 = add(g(perm), &mut terms, &mut ops, &mut nadd);
            union(h2, h3, &mut ops, &mut jn);
            // probes: the other arrangements of w and of the parent, and one level up
            for (a, b) in [(1u64, 2u64), (1, 3), (2, 3), (2, 1), (3, 1), (3, 2)] { add(w(a, b), &mut terms, &mut ops, &mut nadd); }
            add(par(g(perm)), &mut terms, &mut ops, &mut nadd);
            add(rt(6, vec![null_app()], vec![w(kept_a, kept_b)]), &mut terms, &mut ops, &mut nadd);
            add(rt(6, vec![null_app()], vec![w(perm[(kept_a - 1) as usize], perm[(kept_b - 1) as usize])]), &mut terms, &mut ops, &mut nadd);
            "redundancy"
        }
        6 => { // a symmetry whose generator has TWO non-trivial cycles, then one slot of one cycle becomes redundant:
               // g4(1,2,3,4) = g4(2,1,4,3); g4(1,2,3,4) = g(2,3,4)  =>  slots 1 and 2 go (orbit closure), 3 and 4 stay (with (3 4))
            let g4 = |p: [u64; 4]| rt(2, p.iter().map(|s| slot_arg(*s)).collect(), vec![]);
            let g3 = |p: [u64; 3]| rt(1, p.iter().map(|s| slot_arg(*s)).collect(), vec![]);
            let wrap = rng.chance(1, 3);
            let t = |p: [u64; 4]| if wrap { rt(8, vec![bind(9, null_app())], vec![rt(7, vec![null_app(), null_app()], vec![g4(p), rt(5, vec![slot_arg(9)], vec![])])]) } else { g4(p) };
            let dbl: [u64; 4] = *rng.pick(&[[2u64, 1, 4, 3], [3, 4, 1, 2], [4, 3, 2, 1]]);
            let h0 = add(t([1, 2, 3, 4]), &mut terms, &mut ops, &mut nadd);
            let h1 = add(t(dbl), &mut terms, &mut ops, &mut nadd);
            union(h0, h1, &mut ops, &mut jn);
            let drop = rng.below(4) as usize;
            let rest: Vec<u64> = (1..=4u64).filter(|x| *x != (drop as u64 + 1)).collect();
            let h2 = add(g3([rest[0], rest[1], rest[2]]), &mut terms, &mut ops, &mut nadd);
            if rng.chance(1, 2) { union(h0, h2, &mut ops, &mut jn); } else { union(h2, h0, &mut ops, &mut jn); }
            // probes: invocations that differ in the slots that must stay
            add(t([1, 2, 5, 6]), &mut terms, &mut ops, &mut nadd);
            add(t([5, 6, 3, 4]), &mut terms, &mut ops, &mut nadd);
            add(t([1, 2, 4, 3]), &mut terms, &mut ops, &mut nadd);
            add(t([2, 1, 3, 4]), &mut terms, &mut ops, &mut nadd);
            add(t([7, 8, 3, 4]), &mut terms, &mut ops, &mut nadd);
            add(rt(6, vec![null_app()], vec![t([1, 2, 3, 4])]), &mut terms, &mut ops, &mut nadd);
            add(rt(6, vec![null_app()], vec![t([1, 2, 5, 6])]), &mut terms, &mut ops, &mut nadd);
            "symmetry"
        }
        7 => { // chain: several pairwise different classes, each with parents, united one after the other WITHOUT any lookup in
               // between (all terms are inserted first): the union-find entries of the early classes end up several hops from the
               // final representative, and the parents are merged by congruence along the way
            let n = rng.range(4, 7) as usize;
            let mut leaves: Vec<Sx> = vec![rt(3, vec![], vec![]), rt(4, vec![], vec![]), rt(5, vec![slot_arg(1)], vec![]),
                                           rt(0, vec![slot_arg(1), slot_arg(2)], vec![]), rt(1, vec![slot_arg(1), slot_arg(2), slot_arg(3)], vec![]),
                                           rt(2, vec![slot_arg(1), slot_arg(2), slot_arg(3), slot_arg(4)], vec![]),
                                           rt(6, vec![null_app()], vec![rt(6, vec![null_app()], vec![rt(6, vec![null_app()], vec![rt(4, vec![], vec![])])])])];
            if rng.chance(2, 3) { leaves.retain(|t| t.as_lst()[1].as_lst().len() == 2 || t.as_lst().len() > 2); }   // mostly slot-free leaves
            rng.shuffle(&mut leaves); leaves.truncate(n.min(leaves.len()));
            let n = leaves.len();
            let un = |t: Sx| rt(6, vec![null_app()], vec![t]);
            let mut hl = vec![]; let mut hp = vec![];
            for l in &leaves { hl.push(add(l.clone(), &mut terms, &mut ops, &mut nadd)); }
            for l in &leaves { hp.push(add(un(l.clone()), &mut terms, &mut ops, &mut nadd)); }
            if rng.chance(1, 2) { for l in &leaves { add(un(un(l.clone())), &mut terms, &mut ops, &mut nadd); } }
            if rng.chance(1, 2) { for i in 0..n { add(rt(7, vec![null_app(), null_app()], vec![leaves[i].clone(), leaves[(i + 1) % n].clone()]), &mut terms, &mut ops, &mut nadd); } }
            let mut order: Vec<(usize, usize)> = match rng.below(3) {
                0 => (0..n - 1).map(|i| (i, i + 1)).collect(),
                1 => (1..n).map(|i| (0, i)).collect(),
                _ => (1..n).map(|i| (rng.below(i as u64) as usize, i)).collect(),
            };
            if rng.chance(1, 3) { order.reverse(); }
            for (i, j) in order { if rng.chance(1, 2) { union(hl[i], hl[j], &mut ops, &mut jn); } else { union(hl[j], hl[i], &mut ops, &mut jn); } }
            let _ = hp;
            skip_random = rng.chance(2, 3);
            "chain"
        }
        8 => { // several disjoint symmetric slot pairs, then ONE equation that drops one slot of each pair: every generator that moves
               // a kept slot onto a dropped one proves the kept slot redundant too.  g4(1,2,3,4)=g4(2,1,3,4), =g4(1,2,4,3), =f(2,4)
            let g4 = |p: [u64; 4]| rt(2, p.iter().map(|s| slot_arg(*s)).collect(), vec![]);
            let f2 = |a: u64, b: u64| rt(0, vec![slot_arg(a), slot_arg(b)], vec![]);
            let derived = rng.chance(1, 3);
            let t = |p: [u64; 4]| if derived { rt(7, vec![null_app(), null_app()], vec![f2(p[0], p[1]), f2(p[2], p[3])]) } else { g4(p) };
            let mut eqs: Vec<(Sx, Sx)> = vec![];
            if derived { eqs.push((f2(1, 2), f2(2, 1))); } else { eqs.push((t([1, 2, 3, 4]), t([2, 1, 3, 4]))); eqs.push((t([1, 2, 3, 4]), t([1, 2, 4, 3]))); }
            let (ka, kb) = *rng.pick(&[(2u64, 4u64), (1, 3), (1, 4), (2, 3)]);
            let red = (t([1, 2, 3, 4]), if rng.chance(1, 2) { f2(ka, kb) } else { rt(6, vec![null_app()], vec![f2(ka, kb)]) });
            let pos = rng.below(eqs.len() as u64 + 1) as usize; eqs.insert(pos, red);
            let first_all = rng.chance(1, 2);
            let mut hs = vec![];
            if first_all { for (a, b) in &eqs { hs.push((add(a.clone(), &mut terms, &mut ops, &mut nadd), add(b.clone(), &mut terms, &mut ops, &mut nadd))); } }
            for (k, (a, b)) in eqs.iter().enumerate() {
                let (ha, hb) = if first_all { hs[k] } else { (add(a.clone(), &mut terms, &mut ops, &mut nadd), add(b.clone(), &mut terms, &mut ops, &mut nadd)) };
                if rng.chance(1, 2) { union(ha, hb, &mut ops, &mut jn); } else { union(hb, ha, &mut ops, &mut jn); }
            }
            // probes: the class should have lost all four slots
            add(t([5, 6, 7, 8]), &mut terms, &mut ops, &mut nadd);
            add(t([1, 2, 7, 8]), &mut terms, &mut ops, &mut nadd);
            add(t([5, 6, 3, 4]), &mut terms, &mut ops, &mut nadd);
            add(f2(5, 6), &mut terms, &mut ops, &mut nadd);
            add(f2(ka, 7), &mut terms, &mut ops, &mut nadd);
            add(rt(6, vec![null_app()], vec![t([1, 2, 3, 4])]), &mut terms, &mut ops, &mut nadd);
            add(rt(6, vec![null_app()], vec![t([5, 6, 7, 8])]), &mut terms, &mut ops, &mut nadd);
            skip_random = rng.chance(1, 2);
            "redundancy"
        }
        9 => { // a symmetry of a child that MOVES THE BOUND SLOT of a binder above it and permutes free slots as well (a rotation, or a double
               // transposition): the binder term must not inherit the permutation of the free slots alone
            let (v, ar) = *rng.pick(&[(1u64, 3usize), (2, 4)]);
            let base: Vec<u64> = (1..=ar as u64).collect();
            let leaf = |p: &Vec<u64>| rt(v, p.iter().map(|s| slot_arg(*s)).collect(), vec![]);
            let mut sym_p = base.clone();
            if ar == 3 || rng.chance(1, 2) { sym_p.rotate_left(1); } else { sym_p.swap(0, 1); sym_p.swap(2, 3); }
            let bx = *rng.pick(&base);
            let wrap = |t: Sx| match rng_kind(v + bx) { 0 => rt(8, vec![bind(bx, null_app())], vec![t]), _ => rt(10, vec![bind(bx, null_app()), null_app()], vec![t, rt(3, vec![], vec![])]) };
            let late = rng.chance(1, 2);
            let h0 = add(leaf(&base), &mut terms, &mut ops, &mut nadd);
            let h1 = add(leaf(&sym_p), &mut terms, &mut ops, &mut nadd);
            if !late { union(h0, h1, &mut ops, &mut jn); }
            // the binder terms over every arrangement of the leaf's slots
            let ps = perms_of(ar);
            for p in ps.iter().take(24) { let q: Vec<u64> = p.iter().map(|i| base[*i]).collect(); add(wrap(leaf(&q)), &mut terms, &mut ops, &mut nadd); }
            if late { union(h0, h1, &mut ops, &mut jn); }
            add(rt(6, vec![null_app()], vec![wrap(leaf(&base))]), &mut terms, &mut ops, &mut nadd);
            skip_random = rng.chance(1, 2);
            "symmetry"
        }
        _ => "random",
    };
    if skip_random { return (terms, ops, name.to_string()); }
    // random part: some terms with their subterms, some unions
    let nterms = rng.range(1, 4);
    for _ in 0..nterms {
        let dd = rng.range(0, 3);
        let t = gen_term(rng, dd, &pool);
        let mut subs = vec![]; subterms(&t, &mut subs);
        for s in subs.iter().rev().take(5) { add(s.clone(), &mut terms, &mut ops, &mut nadd); }
        if rng.chance(1, 3) {
            let a = *rng.pick(&pool); let b = *rng.pick(&pool);
            add(rename_term(&t, &|s| if s == a { b } else if s == b { a } else { s }), &mut terms, &mut ops, &mut nadd);
        }
    }
    let nun = rng.range(1, 5);
    for _ in 0..nun {
        if nadd < 2 { break; }
        let i = rng.below(nadd); let j = rng.below(nadd);
        union(i, j, &mut ops, &mut jn);
        if rng.chance(1, 3) {
            let t = gen_term(rng, 1, &pool);
            add(t, &mut terms, &mut ops, &mut nadd);
        }
    }
    // re-add a few earlier terms at the end (handles obtained after the unions)
    for _ in 0..rng.range(0, 3) { if terms.is_empty() { break; } let k = rng.below(terms.len() as u64) as usize; let t = terms[k].clone(); add(t, &mut terms, &mut ops, &mut nadd); }
    (terms, ops, name.to_string())
}

fn flags() -> Sx {
    lst(vec![sym("cfg"), num(if cfg!(feature = "checks") { 1 } else { 0 }), num(if cfg!(feature = "explanations") { 1 } else { 0 })])
}

pub fn gen(a: &Args) -> Vec<String> {
    let justified = a.extra.iter().any(|x| x == "--justified");
    let mut cases = vec![];
    for c in 0..a.count {
        let mut rng = Rng::new(a.seed, c);
        let (terms, ops, motif) = gen_history(&mut rng, justified);
        let mut t = vec![sym("terms")]; t.extend(terms);
        let mut o = vec![sym("ops")]; o.extend(ops);
        cases.push(lst(vec![sym("eg"), flags(), lst(t), lst(o), sym(&motif)]).to_string());
    }
    cases
}

pub fn run_case(case: &Sx) -> Sx {
    let c = case.clone();
    let r = in_fresh_thread(move || {
        let h = run_history(&c, |_, _| {});
        let mut v = vec![sym("obs")]; v.extend(final_obs(&h)); lst(v)
    });
    r.unwrap_or_else(|_| sym("harness-thread-panic"))
}

pub fn main(a: &Args) {
    match a.extra.get(0).map(|s| s.as_str()) {
        Some("gen") => { write_lines(&format!("{}/cases.txt", a.out), &gen(a)); }
        Some("run") => {
            let lines = read_lines(&a.extra[1]);
            let mut cases = vec![]; let mut obs = vec![];
            for l in lines {
                let mut c = Sx::parse(&l);
                if let Sx::Lst(v) = &mut c { v[1] = flags(); }
                obs.push(run_case(&c).to_string());
                cases.push(c.to_string());
            }
            write_lines(&format!("{}/cases.txt", a.out), &cases);
            write_lines(&format!("{}/impl.txt", a.out), &obs);
        }
        Some("mk") => {
            // build a case line from readable text: lines `add <term>` / `union i j`
            let lines = read_lines(&a.extra[1]);
            let r = in_fresh_thread(move || {
                let mut terms: Vec<Sx> = vec![]; let mut ops = vec![];
                for l in lines {
                    let l = l.trim();
                    if let Some(t) = l.strip_prefix("add ") {
                        let re = RecExpr::<LV>::parse(t).expect("harness: term does not parse");
                        let sx = rterm_sx(&re);
                        let k = match terms.iter().position(|x| *x == sx) { Some(k) => k, None => { terms.push(sx); terms.len() - 1 } };
                        ops.push(lst(vec![sym("add"), num(k as u64)]));
                    } else if let Some(t) = l.strip_prefix("union ") {
                        let v: Vec<u64> = t.split_whitespace().map(|x| x.parse().unwrap()).collect();
                        ops.push(lst(std::iter::once(sym("union")).chain(v.into_iter().map(num)).collect()));
                    }
                }
                let mut t = vec![sym("terms")]; t.extend(terms);
                let mut o = vec![sym("ops")]; o.extend(ops);
                lst(vec![sym("eg"), flags(), lst(t), lst(o), sym("corpus")]).to_string()
            }).unwrap();
            println!("{}", r);
        }
        _ => { eprintln!("eg gen|run <cases>|mk <text>"); std::process::exit(2); }
    }
}
