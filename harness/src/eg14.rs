//! E-class analysis (trait `Analysis`): histories of insertions and unions over LV run on
//! `EGraph<LV, A>` for three analyses A (MinSize, ConstFold, Depth).
//! Case: `(eg14 (cfg c e) (terms T...) (ops OP...) motif (an K))`, K = 0 MinSize, 1 ConstFold, 2 Depth.
//! Observation: `(obs (steps ST...) (fix F...) (best B))`
//!   ST = `(st PROG b<eq bits over the handles so far> (data d0 d1 ...))` after every op (compared with the model),
//!   F  = implementation-only, per step: `ok`, or `(bad (id stored recomputed)...)`: the classes whose stored datum
//!        differs from the merge over their e-nodes of `make(node)` under the children's CURRENT data,
//!   B  = implementation-only, MinSize at the end of the history: every handle's datum equals the extractor's best AstSize.
#![allow(dead_code)]
use crate::common::*;
use crate::eg::{dec_rterm, gen_history, rterm_sx, subterms};
use crate::lang::*;
use slotted_egraphs::*;

// ---------------------------------------------------------------- the three analyses

/// what the harness needs on top of `Analysis<LV>`
pub trait An: Analysis<LV> + Default + 'static {
    const K: u64;
    fn data_sx(d: &Self::Data) -> Sx;
}

/// AstSize of the smallest term of the class
#[derive(Default)]
pub struct MinSize;
impl Analysis<LV> for MinSize {
    type Data = u64;
    fn make(eg: &EGraph<LV, Self>, n: &LV) -> u64 {
        let mut s = 1u64;
        for c in n.applied_id_occurrences() { s = s.saturating_add(*eg.analysis_data(c.id)); }
        s
    }
    fn merge(l: u64, r: u64) -> u64 { l.min(r) }
}
impl An for MinSize {
    const K: u64 = 0;
    fn data_sx(d: &u64) -> Sx { num(*d) }
}

/// constant folding over Num / Add / Mul (wrapping u32 arithmetic).
/// merge(l, r) = l.or(r): if both are Some and different, the LEFT one is kept (not commutative then;
/// the generated histories never equate two different constants unless `--unsound` is given).
#[derive(Default)]
pub struct ConstFold;
impl Analysis<LV> for ConstFold {
    type Data = Option<u32>;
    fn make(eg: &EGraph<LV, Self>, n: &LV) -> Option<u32> {
        match n {
            LV::Num(k) => Some(*k),
            LV::Add(a, b) => match (*eg.analysis_data(a.id), *eg.analysis_data(b.id)) { (Some(x), Some(y)) => Some(x.wrapping_add(y)), _ => None },
            LV::Mul(a, b) => match (*eg.analysis_data(a.id), *eg.analysis_data(b.id)) { (Some(x), Some(y)) => Some(x.wrapping_mul(y)), _ => None },
            _ => None,
        }
    }
    fn merge(l: Option<u32>, r: Option<u32>) -> Option<u32> { l.or(r) }
    fn modify(eg: &mut EGraph<LV, Self>, id: Id) {
        if let Some(k) = *eg.analysis_data(id) {
            let c = eg.add(LV::Num(k));
            let me = eg.mk_identity_applied_id(id);
            if !eg.eq(&c, &me) { eg.union(&c, &me); }
        }
    }
}
impl An for ConstFold {
    const K: u64 = 1;
    fn data_sx(d: &Option<u32>) -> Sx { match d { None => sym("none"), Some(k) => lst(vec![sym("some"), num(*k as u64)]) } }
}

/// depth of the shallowest term of the class (does not look at slots at all)
#[derive(Default)]
pub struct Depth;
impl Analysis<LV> for Depth {
    type Data = u64;
    fn make(eg: &EGraph<LV, Self>, n: &LV) -> u64 {
        let mut m = 0u64;
        for c in n.applied_id_occurrences() { m = m.max(*eg.analysis_data(c.id)); }
        m.saturating_add(1)
    }
    fn merge(l: u64, r: u64) -> u64 { l.min(r) }
}
impl An for Depth {
    const K: u64 = 2;
    fn data_sx(d: &u64) -> Sx { num(*d) }
}

/// probe analyses (not part of the default generation; `--an 3` and `--an 4`): depth of the DEEPEST term, capped at C
/// (C = 3 for K = 3, C = 8 for K = 4).  merge = max is a semilattice on 0..=C and make is monotone, so this is a
/// legitimate (terminating) analysis; unlike the three above, a node that has its own class as a child can RAISE
/// the datum of its class.
#[derive(Default)]
pub struct CapDepth<const C: u64>;
impl<const C: u64> Analysis<LV> for CapDepth<C> {
    type Data = u64;
    fn make(eg: &EGraph<LV, Self>, n: &LV) -> u64 {
        let mut m = 0u64;
        for c in n.applied_id_occurrences() { m = m.max(*eg.analysis_data(c.id)); }
        (m + 1).min(C)
    }
    fn merge(l: u64, r: u64) -> u64 { l.max(r) }
}
impl<const C: u64> An for CapDepth<C> {
    const K: u64 = 3;
    fn data_sx(d: &u64) -> Sx { num(*d) }
}

// ---------------------------------------------------------------- running a history (generic in the analysis)

pub struct HistA<A: An> {
    pub eg: EGraph<LV, A>,
    pub terms: Vec<RecExpr<LV>>,
    pub handles: Vec<AppliedId>,
    pub err: Option<(usize, String, String)>,
    pub per_op: Vec<(Sx, Sx)>,
}

fn loc_sx(loc: &str) -> Sx { sym(&loc.replace(' ', "_").replace("/repo/", "")) }

/// eg.rs `run_history`, for `EGraph<LV, A>`
pub fn run_history_a<A: An>(case: &Sx, mut after_op: impl FnMut(&mut HistA<A>, usize)) -> HistA<A> {
    let l = case.as_lst();
    let terms: Vec<RecExpr<LV>> = l[2].as_lst()[1..].iter().map(dec_rterm).collect();
    let ops: Vec<Sx> = l[3].as_lst()[1..].to_vec();
    let mut h = HistA { eg: EGraph::<LV, A>::default(), terms, handles: vec![], err: None, per_op: vec![] };
    for (oi, op) in ops.iter().enumerate() {
        let v = op.as_lst();
        let r = std::panic::catch_unwind(std::panic::AssertUnwindSafe(|| {
            match v[0].as_sym() {
                "add" => {
                    let k = v[1].as_num() as usize;
                    #[cfg(feature = "explanations")]
                    let a = h.eg.add_syn_expr(h.terms[k].clone());
                    #[cfg(not(feature = "explanations"))]
                    let a = h.eg.add_expr(h.terms[k].clone());
                    h.handles.push(a);
                }
                "union" => {
                    let (i, j) = (v[1].as_num() as usize, v[2].as_num() as usize);
                    let just = if v.len() > 3 { Some(format!("j{}", v[3].as_num())) } else { None };
                    let (a, b) = (h.handles[i].clone(), h.handles[j].clone());
                    h.eg.union_justified(&a, &b, just);
                }
                x => panic!("harness: unknown op {}", x),
            }
        }));
        match r {
            Ok(()) => after_op(&mut h, oi),
            Err(_) => {
                let (loc, msg) = take_panic().unwrap_or_default();
                let kind = if msg.starts_with("harness:") { "harness-error".to_string() } else { panic_kind(&msg).to_string() };
                h.err = Some((oi, kind, loc));
                break;
            }
        }
    }
    h
}

fn progress_sx_a<A: An>(eg: &EGraph<LV, A>) -> Sx {
    let p = eg.progress();
    lst(vec![sym("prog"), num(p.number_of_classes as u64), num(p.number_of_live_classes as u64), num(p.sum_of_slots as u64), num(p.sum_of_symmetries as u64)])
}

fn guard_sx(f: impl FnOnce() -> Sx) -> Sx {
    match std::panic::catch_unwind(std::panic::AssertUnwindSafe(f)) {
        Ok(x) => x,
        Err(_) => { let (loc, msg) = take_panic().unwrap_or_default(); lst(vec![sym("err"), sym(panic_kind(&msg)), loc_sx(&loc)]) }
    }
}

/// compared with the model
fn step_obs<A: An>(h: &HistA<A>) -> Sx {
    guard_sx(|| {
        let n = h.handles.len();
        let mut m = String::from("b");
        for i in 0..n { for j in 0..n { m.push(if h.eg.eq(&h.handles[i], &h.handles[j]) { '1' } else { '0' }); } }
        let mut d = vec![sym("data")];
        for a in &h.handles { d.push(A::data_sx(h.eg.analysis_data(a.id))); }
        lst(vec![sym("st"), progress_sx_a(&h.eg), sym(&m), lst(d)])
    })
}

/// implementation only: is every live class's datum the merge of `make` over its e-nodes, under the current data?
fn fix_flags<A: An>(eg: &EGraph<LV, A>) -> Sx {
    guard_sx(|| {
        let mut bad = vec![sym("bad")];
        for id in eg.ids() {
            // deterministic order (only matters for a non-commutative merge)
            let mut nodes: Vec<LV> = eg.enodes(id).into_iter().collect();
            nodes.sort();
            let mut j: Option<A::Data> = None;
            for n in &nodes {
                let v = A::make(eg, n);
                j = Some(match j { None => v, Some(o) => A::merge(o, v) });
            }
            let stored = eg.analysis_data(id).clone();
            match j {
                Some(j) => if j != stored { bad.push(lst(vec![num(id.0 as u64), A::data_sx(&stored), A::data_sx(&j)])); },
                None => bad.push(lst(vec![num(id.0 as u64), A::data_sx(&stored), sym("no-nodes")])),
            }
        }
        if bad.len() == 1 { sym("ok") } else { lst(bad) }
    })
}

/// implementation only, MinSize: the datum of every handle is the extractor's best AstSize
fn best_flag(h: &HistA<MinSize>) -> Sx {
    guard_sx(|| {
        let ex = Extractor::<LV, AstSize>::new(&h.eg, AstSize);
        let mut bad = vec![sym("bad")];
        for (i, a) in h.handles.iter().enumerate() {
            let c = ex.get_best_cost::<MinSize>(&h.eg.find_applied_id(a));
            let d = *h.eg.analysis_data(a.id);
            if c != d { bad.push(lst(vec![num(i as u64), num(d), num(c)])); }
        }
        if bad.len() == 1 { sym("ok") } else { lst(bad) }
    })
}

/// lazy mode: has the case a `(lazy)` element?
fn is_lazy(case: &Sx) -> bool {
    case.as_lst().iter().skip(4).any(|x| matches!(x, Sx::Lst(l) if l.len() == 1 && l[0] == sym("lazy")))
}

/// "equal classes share one datum", asked FIRST after a history in which nothing was observed: the datum read through every old handle id
/// (reads only, nothing is canonicalised before all of them are taken) must be the datum read through the class's current leader
fn share_flag<A: An>(h: &HistA<A>) -> Sx {
    guard_sx(|| {
        let raw: Vec<A::Data> = h.handles.iter().map(|a| h.eg.analysis_data(a.id).clone()).collect();
        let mut bad = vec![sym("stale")];
        for (i, a) in h.handles.iter().enumerate() {
            let lead = h.eg.find_applied_id(a).id;
            let d = h.eg.analysis_data(lead).clone();
            if d != raw[i] { bad.push(lst(vec![num(i as u64), A::data_sx(&raw[i]), A::data_sx(&d)])); }
        }
        if bad.len() == 1 { sym("ok") } else { lst(bad) }
    })
}

fn run_with<A: An>(c: &Sx, best: impl FnOnce(&HistA<A>) -> Sx) -> Sx {
    let mut steps = vec![sym("steps")];
    let mut fix = vec![sym("fix")];
    if is_lazy(c) {
        // nothing observed between the operations (observation canonicalises and thereby compresses union-find paths)
        let h = run_history_a::<A>(c, |_, _| {});
        if let Some((_oi, kind, loc)) = &h.err { steps.push(lst(vec![sym("err"), sym(kind), loc_sx(loc)])); return lst(vec![sym("obs"), lst(steps), lst(fix), lst(vec![sym("best"), sym("na")])]); }
        let sh = share_flag(&h);
        // the fixpoint predicate on a SECOND unobserved copy, so that it is the first reader as well
        let h2 = run_history_a::<A>(c, |_, _| {});
        let f = fix_flags(&h2.eg);
        steps.push(step_obs(&h));
        fix.push(sh); fix.push(f);
        let b = best(&h);
        return lst(vec![sym("obs"), lst(steps), lst(fix), lst(vec![sym("best"), b])]);
    }
    let h = run_history_a::<A>(c, |h, _| { let o = step_obs(h); let f = fix_flags(&h.eg); h.per_op.push((o, f)); });
    for (o, f) in &h.per_op { steps.push(o.clone()); fix.push(f.clone()); }
    if let Some((_oi, kind, loc)) = &h.err { steps.push(lst(vec![sym("err"), sym(kind), loc_sx(loc)])); }
    let b = if h.err.is_some() { sym("na") } else { best(&h) };
    lst(vec![sym("obs"), lst(steps), lst(fix), lst(vec![sym("best"), b])])
}

pub fn case_an(case: &Sx) -> u64 {
    case.as_lst().iter().skip(4).find_map(|x| match x { Sx::Lst(l) if l.len() == 2 && l[0] == sym("an") => Some(l[1].as_num()), _ => None }).unwrap_or(0)
}

pub fn run_case(case: &Sx) -> Sx {
    let c = case.clone();
    let r = in_fresh_thread(move || match case_an(&c) {
        0 => run_with::<MinSize>(&c, best_flag),
        1 => run_with::<ConstFold>(&c, |_| sym("na")),
        2 => run_with::<Depth>(&c, |_| sym("na")),
        3 => run_with::<CapDepth<3>>(&c, |_| sym("na")),
        4 => run_with::<CapDepth<8>>(&c, |_| sym("na")),
        _ => sym("harness-error"),
    });
    r.unwrap_or_else(|_| sym("harness-thread-panic"))
}

// ---------------------------------------------------------------- generation

fn slot_arg(s: u64) -> Sx { lst(vec![sym("s"), num(s)]) }
fn null_app() -> Sx { lst(vec![sym("a"), num(0), lst(vec![sym("m")])]) }
fn rt(v: u64, args: Vec<Sx>, ch: Vec<Sx>) -> Sx { let mut n = vec![sym("nd"), num(v)]; n.extend(args); let mut r = vec![sym("rt"), lst(n)]; r.extend(ch); lst(r) }
fn t_num(k: u64) -> Sx { rt(17, vec![lst(vec![sym("pu"), num(k)])], vec![]) }
fn t_var(s: u64) -> Sx { rt(5, vec![slot_arg(s)], vec![]) }
fn t_bin(v: u64, a: Sx, b: Sx) -> Sx { rt(v, vec![null_app(), null_app()], vec![a, b]) }

/// an arithmetic term over Num / Add / Mul / Var with its value, `varval` being the value of every `var`
fn gen_arith(rng: &mut Rng, depth: u64, pool: &[u64], varval: Option<u32>, vars: bool) -> (Sx, Option<u32>) {
    if depth == 0 || rng.chance(1, 4) {
        if vars && rng.chance(1, 4) { return (t_var(*rng.pick(pool)), varval); }
        let k = rng.below(5);
        return (t_num(k), Some(k as u32));
    }
    let (a, va) = gen_arith(rng, depth - 1, pool, varval, vars);
    let (b, vb) = gen_arith(rng, depth - 1, pool, varval, vars);
    if rng.chance(1, 2) {
        (t_bin(13, a, b), match (va, vb) { (Some(x), Some(y)) => Some(x.wrapping_add(y)), _ => None })
    } else {
        (t_bin(14, a, b), match (va, vb) { (Some(x), Some(y)) => Some(x.wrapping_mul(y)), _ => None })
    }
}

/// value of an arithmetic term s-expression
fn arith_value(t: &Sx, varval: Option<u32>) -> Option<u32> {
    let l = t.as_lst();
    let nd = l[1].as_lst();
    match nd[1].as_num() {
        17 => Some(nd[2].as_lst()[1].as_num() as u32),
        5 => varval,
        13 => match (arith_value(&l[2], varval), arith_value(&l[3], varval)) { (Some(x), Some(y)) => Some(x.wrapping_add(y)), _ => None },
        14 => match (arith_value(&l[2], varval), arith_value(&l[3], varval)) { (Some(x), Some(y)) => Some(x.wrapping_mul(y)), _ => None },
        _ => None,
    }
}

/// the arithmetic part of a history: (terms, ops over its own handle numbering 0.., per-handle value, varval)
/// Every union equates two terms of equal known value (so ConstFold's merge never sees two different constants),
/// unless `unsound`.
fn gen_arith_part(rng: &mut Rng, unsound: bool) -> (Vec<Sx>, Vec<Sx>, Vec<Option<u32>>, Option<u32>) {
    let pool: Vec<u64> = (1..=rng.range(1, 3)).collect();
    let varval: Option<u32> = if rng.chance(1, 2) { Some(rng.below(5) as u32) } else { None };
    let mut terms: Vec<Sx> = vec![];
    let mut ops: Vec<Sx> = vec![];
    let mut vals: Vec<Option<u32>> = vec![];      // per handle, under varval
    let mut hterm: Vec<Sx> = vec![];
    let add = |t: Sx, terms: &mut Vec<Sx>, ops: &mut Vec<Sx>, vals: &mut Vec<Option<u32>>, hterm: &mut Vec<Sx>| -> u64 {
        let k = match terms.iter().position(|x| *x == t) { Some(k) => k, None => { terms.push(t.clone()); terms.len() - 1 } };
        ops.push(lst(vec![sym("add"), num(k as u64)]));
        vals.push(arith_value(&t, varval)); hterm.push(t);
        vals.len() as u64 - 1
    };
    let nterms = rng.range(1, 3);
    for _ in 0..nterms {
        let d = rng.range(1, 3);
        let (t, _) = gen_arith(rng, d, &pool, varval, true);
        if rng.chance(2, 3) {
            let mut subs = vec![]; subterms(&t, &mut subs);
            for s in subs.iter().rev().take(6) { add(s.clone(), &mut terms, &mut ops, &mut vals, &mut hterm); }
        }
        let h = add(t.clone(), &mut terms, &mut ops, &mut vals, &mut hterm);
        // sometimes the folded constant is inserted by hand and united (ConstFold's modify does the same by itself)
        if let Some(v) = vals[h as usize] {
            if rng.chance(1, 3) {
                let c = add(t_num(v as u64), &mut terms, &mut ops, &mut vals, &mut hterm);
                if rng.chance(1, 2) { ops.push(lst(vec![sym("union"), num(h), num(c)])); }
            }
        }
    }
    // the variables get their value late: everything that mentions them is re-evaluated by the analysis
    if let Some(v) = varval {
        let x = add(t_var(*rng.pick(&pool)), &mut terms, &mut ops, &mut vals, &mut hterm);
        let c = add(t_num(v as u64), &mut terms, &mut ops, &mut vals, &mut hterm);
        if rng.chance(1, 2) { ops.push(lst(vec![sym("union"), num(x), num(c)])); } else { ops.push(lst(vec![sym("union"), num(c), num(x)])); }
    }
    // unions of equal-valued handles
    let n = vals.len() as u64;
    for _ in 0..rng.range(0, 3) {
        let i = rng.below(n);
        let cands: Vec<u64> = (0..n).filter(|j| *j != i && vals[i as usize].is_some() && vals[*j as usize] == vals[i as usize]).collect();
        if !cands.is_empty() { let j = *rng.pick(&cands); ops.push(lst(vec![sym("union"), num(i), num(j)])); }
    }
    if unsound && n >= 2 {
        let i = rng.below(n); let j = rng.below(n);
        ops.push(lst(vec![sym("union"), num(i), num(j)]));
    }
    // a few re-adds and a parent over what was united
    for _ in 0..rng.range(0, 2) {
        let i = rng.below(n) as usize; let j = rng.below(n) as usize;
        let t = t_bin(if rng.chance(1, 2) { 13 } else { 14 }, hterm[i].clone(), hterm[j].clone());
        add(t, &mut terms, &mut ops, &mut vals, &mut hterm);
    }
    (terms, ops, vals, varval)
}

fn shift_op(op: &Sx, term_map: &dyn Fn(u64) -> u64, hshift: u64) -> Sx {
    let v = op.as_lst();
    match v[0].as_sym() {
        "add" => lst(vec![sym("add"), num(term_map(v[1].as_num()))]),
        _ => { let mut r = vec![v[0].clone(), num(v[1].as_num() + hshift), num(v[2].as_num() + hshift)]; r.extend(v[3..].iter().cloned()); lst(r) }
    }
}

/// base history of eg.rs + an arithmetic part, placed before or after it, + (sound) cross unions
pub fn gen_history14(rng: &mut Rng, unsound: bool) -> (Vec<Sx>, Vec<Sx>, String) {
    let (bterms, bops, motif) = gen_history(rng, false);
    let (aterms, aops, avals, varval) = gen_arith_part(rng, unsound);
    let nb_add = bops.iter().filter(|o| o.head() == "add").count() as u64;
    let na_add = aops.iter().filter(|o| o.head() == "add").count() as u64;
    // merged term table: base terms first, then the arithmetic ones (deduplicated)
    let mut terms = bterms.clone();
    let mut amap: Vec<u64> = vec![];
    for t in &aterms { let k = match terms.iter().position(|x| x == t) { Some(k) => k, None => { terms.push(t.clone()); terms.len() - 1 } }; amap.push(k as u64); }
    let arith_first = rng.chance(1, 2);
    let mut ops: Vec<Sx> = vec![];
    let (boff, aoff) = if arith_first { (na_add, 0) } else { (0, nb_add) };
    let bo: Vec<Sx> = bops.iter().map(|o| shift_op(o, &|k| k, boff)).collect();
    let ao: Vec<Sx> = aops.iter().map(|o| shift_op(o, &|k| amap[k as usize], aoff)).collect();
    if arith_first { ops.extend(ao); ops.extend(bo); } else { ops.extend(bo); ops.extend(ao); }
    // cross unions: base handles with arithmetic handles of ONE value (the value of the variables if they have one)
    if nb_add > 0 && rng.chance(1, 2) {
        let cv: Option<u32> = match varval { Some(v) => Some(v), None => { let c: Vec<u32> = avals.iter().flatten().cloned().collect(); if c.is_empty() { None } else { Some(*rng.pick(&c)) } } };
        if let Some(cv) = cv {
            let cands: Vec<u64> = (0..na_add).filter(|j| avals[*j as usize] == Some(cv)).collect();
            if !cands.is_empty() {
                for _ in 0..rng.range(1, 2) {
                    let i = rng.below(nb_add) + boff; let j = *rng.pick(&cands) + aoff;
                    if rng.chance(1, 2) { ops.push(lst(vec![sym("union"), num(i), num(j)])); } else { ops.push(lst(vec![sym("union"), num(j), num(i)])); }
                }
                // re-add a base term afterwards
                if !bterms.is_empty() { ops.push(lst(vec![sym("add"), num(rng.below(bterms.len() as u64))])); }
            }
        }
    }
    // a class with parents (and grand-parents) is equated with a smaller fresh leaf, either way round: the surviving class's
    // datum improves through the merge and its parents' data have to follow
    if rng.chance(1, 2) {
        let pool: Vec<u64> = vec![1, 2];
        let dd = rng.range(1, 2); let t = crate::eg::gen_term(rng, dd, &pool);
        let p1 = rt(6, vec![null_app()], vec![t.clone()]);
        let p2 = if rng.chance(1, 2) { rt(6, vec![null_app()], vec![p1.clone()]) } else { rt(7, vec![null_app(), null_app()], vec![p1.clone(), t.clone()]) };
        let leaf = rt(*rng.pick(&[3u64, 4]), vec![], vec![]);
        let mut nadd = ops.iter().filter(|o| o.head() == "add").count() as u64;
        let mut push_add = |x: Sx, terms: &mut Vec<Sx>, ops: &mut Vec<Sx>| -> u64 {
            let k = match terms.iter().position(|y| *y == x) { Some(k) => k, None => { terms.push(x); terms.len() - 1 } };
            ops.push(lst(vec![sym("add"), num(k as u64)])); nadd += 1; nadd - 1
        };
        push_add(p2, &mut terms, &mut ops);
        let ht = push_add(t, &mut terms, &mut ops);
        let hl = push_add(leaf, &mut terms, &mut ops);
        if rng.chance(1, 2) { ops.push(lst(vec![sym("union"), num(ht), num(hl)])); } else { ops.push(lst(vec![sym("union"), num(hl), num(ht)])); }
    }
    // a class whose datum improves TWICE within one rebuild: x = h(u(u(a)), a) hears of a's improvement directly and, later, through
    // u(u(a)); its parents w = u(x), u(w) must follow both times
    if rng.chance(1, 3) {
        let pool: Vec<u64> = vec![1, 2];
        let dd = rng.range(1, 2); let a = crate::eg::gen_term(rng, dd, &pool);
        let un = |t: Sx| rt(6, vec![null_app()], vec![t]);
        let hh = |x: Sx, y: Sx| rt(7, vec![null_app(), null_app()], vec![x, y]);
        let mut chain = a.clone(); for _ in 0..rng.range(1, 3) { chain = un(chain); }
        let x = if rng.chance(1, 2) { hh(chain.clone(), a.clone()) } else { hh(a.clone(), chain.clone()) };
        let w2 = un(un(x.clone()));
        let leaf = rt(*rng.pick(&[3u64, 4]), vec![], vec![]);
        let mut nadd = ops.iter().filter(|o| o.head() == "add").count() as u64;
        let mut push_add = |t: Sx, terms: &mut Vec<Sx>, ops: &mut Vec<Sx>| -> u64 {
            let k = match terms.iter().position(|y| *y == t) { Some(k) => k, None => { terms.push(t); terms.len() - 1 } };
            ops.push(lst(vec![sym("add"), num(k as u64)])); nadd += 1; nadd - 1
        };
        push_add(w2, &mut terms, &mut ops);
        let ha = push_add(a, &mut terms, &mut ops);
        let hl = push_add(leaf, &mut terms, &mut ops);
        if rng.chance(1, 2) { ops.push(lst(vec![sym("union"), num(ha), num(hl)])); } else { ops.push(lst(vec![sym("union"), num(hl), num(ha)])); }
    }
    (terms, ops, motif)
}

fn flags() -> Sx {
    lst(vec![sym("cfg"), num(if cfg!(feature = "checks") { 1 } else { 0 }), num(if cfg!(feature = "explanations") { 1 } else { 0 })])
}

pub fn gen(a: &Args) -> Vec<String> {
    if a.extra.iter().any(|x| x == "lazy") { crate::eg::MOTIF_BIAS.store(7, std::sync::atomic::Ordering::Relaxed); }
    let unsound = a.extra.iter().any(|x| x == "--unsound");
    let only: Option<u64> = a.extra.iter().position(|x| x == "--an").map(|i| a.extra[i + 1].parse().unwrap());
    let mut cases = vec![];
    for c in 0..a.count {
        let mut rng = Rng::new(a.seed, c);
        let k = match only { Some(k) => k, None => c % 3 };
        let (terms, ops, motif) = gen_history14(&mut rng, unsound);
        let mut t = vec![sym("terms")]; t.extend(terms);
        let mut o = vec![sym("ops")]; o.extend(ops);
        let mut cv = vec![sym("eg14"), flags(), lst(t), lst(o), sym(&motif), lst(vec![sym("an"), num(k)])];
        if a.extra.iter().any(|x| x == "lazy") { cv.push(lst(vec![sym("lazy")])); }
        cases.push(lst(cv).to_string());
    }
    cases
}

/// readable form of a case
pub fn show_case(c: &Sx) -> String {
    let l = c.as_lst();
    let terms: Vec<RecExpr<LV>> = l[2].as_lst()[1..].iter().map(dec_rterm).collect();
    let mut s = format!("# analysis {} ({}), motif {}\n", case_an(c), ["MinSize", "ConstFold", "Depth", "CapDepth3", "CapDepth8"].get(case_an(c) as usize).unwrap_or(&"?"), l[4]);
    let mut nh = 0;
    for op in &l[3].as_lst()[1..] {
        let v = op.as_lst();
        match v[0].as_sym() {
            "add" => { s.push_str(&format!("add {}    # handle {}\n", terms[v[1].as_num() as usize], nh)); nh += 1; }
            _ => s.push_str(&format!("union {} {}\n", v[1].as_num(), v[2].as_num())),
        }
    }
    s
}

pub fn main(a: &Args) {
    match a.extra.get(0).map(|s| s.as_str()) {
        Some("gen") => { write_lines(&format!("{}/cases.txt", a.out), &gen(a)); }
        Some("run") => {
            let lines = read_lines(&a.extra[1]);
            let mut cases = vec![]; let mut obs = vec![];
            for l in lines { let c = Sx::parse(&l); obs.push(run_case(&c).to_string()); cases.push(c.to_string()); }
            write_lines(&format!("{}/cases.txt", a.out), &cases);
            write_lines(&format!("{}/impl.txt", a.out), &obs);
        }
        Some("show") => {
            // show <cases> <index>
            let lines = read_lines(&a.extra[1]);
            let i: usize = a.extra[2].parse().unwrap();
            let l = lines[i].clone();
            let r = in_fresh_thread(move || show_case(&Sx::parse(&l))).unwrap();
            print!("{}", r);
        }
        Some("mk") => {
            // mk <text> <K>: build a case line from readable text: lines `add <term>` / `union i j`
            let lines = read_lines(&a.extra[1]);
            let k: u64 = a.extra.get(2).map(|x| x.parse().unwrap()).unwrap_or(0);
            let r = in_fresh_thread(move || {
                let mut terms: Vec<Sx> = vec![]; let mut ops = vec![];
                for l in lines {
                    let l = l.split('#').next().unwrap().trim();
                    if let Some(t) = l.strip_prefix("add ") {
                        let re = RecExpr::<LV>::parse(t.trim()).expect("harness: term does not parse");
                        let sx = rterm_sx(&re);
                        let k = match terms.iter().position(|x| *x == sx) { Some(k) => k, None => { terms.push(sx); terms.len() - 1 } };
                        ops.push(lst(vec![sym("add"), num(k as u64)]));
                    } else if let Some(t) = l.strip_prefix("union ") {
                        let v: Vec<u64> = t.split_whitespace().map(|x| x.parse().unwrap()).collect();
                        ops.push(lst(std::iter::once(sym("union")).chain(v.into_iter().map(num)).collect()));
                    }
                }
                let mut t = vec![sym("terms")]; t.extend(terms);
                let mut o = vec![sym("ops")]; o.extend(ops);
                lst(vec![sym("eg14"), flags(), lst(t), lst(o), sym("corpus"), lst(vec![sym("an"), num(k)])]).to_string()
            }).unwrap();
            println!("{}", r);
        }
        _ => { eprintln!("eg14 gen [--unsound] [--an K]|run <cases>|show <cases> <i>|mk <text> <K>"); std::process::exit(2); }
    }
}
