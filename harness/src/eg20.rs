//! C20: reproducibility.  Every history (with Symbol / u32 payload leaves) is replayed in three fresh
//! threads at once, next to noise threads that intern symbols, draw slots and run unrelated e-graphs.
//! The RAW transcripts (ids, invocations, slot names, e-node iteration order, match lists, extracted
//! terms) must be byte-identical; the canonical observation of the first replay goes to the model.
use crate::common::*;
use crate::eg::*;
use crate::lang::*;
use slotted_egraphs::*;
use std::sync::{Arc, Barrier};

fn raw_transcript(case: &Sx) -> (String, Sx) {
    let mut t = String::new();
    let h = run_history(case, |h, oi| {
        // after each op: the last handle, raw
        if let Some(a) = h.handles.last() { t.push_str(&format!("op{} {:?}\n", oi, a)); }
    });
    if let Some((oi, kind, loc)) = &h.err { t.push_str(&format!("ERR {} {} {}\n", oi, kind, loc)); }
    let r = std::panic::catch_unwind(std::panic::AssertUnwindSafe(|| {
        let mut t2 = String::new();
        for i in h.eg.ids() {
            let mut sl: Vec<Slot> = h.eg.slots(i).into_iter().collect(); sl.sort();
            t2.push_str(&format!("{:?}{:?}: {:?}\n", i, sl, h.eg.enodes(i)));          // HashSet iteration order on purpose
        }
        let pat = Pattern::<LV>::parse("(h ?a ?b)").unwrap();
        let ms = ematch_all(&h.eg, &pat);
        for m in &ms { let mut kv: Vec<_> = m.iter().collect(); kv.sort_by(|a, b| a.0.cmp(b.0)); t2.push_str(&format!("match {:?}\n", kv)); }
        for a in h.handles.iter().take(6) {
            let e = ast_size_extract::<LV, ()>(a, &h.eg);
            t2.push_str(&format!("extract {}\n", e));
        }
        t2
    }));
    match r { Ok(s) => t.push_str(&s), Err(_) => { let (loc, msg) = take_panic().unwrap_or_default(); t.push_str(&format!("PANIC {} {}\n", panic_kind(&msg), loc)); } }
    let mut v = vec![sym("obs")]; v.extend(final_obs(&h));
    (t, lst(v))
}

fn noise(seed: u64, stop: Arc<std::sync::atomic::AtomicBool>) {
    let mut rng = Rng::new(seed, 77);
    let mut eg: EGraph<LV> = EGraph::default();
    let mut k = 0u64;
    while !stop.load(std::sync::atomic::Ordering::Relaxed) && k < 20000 {
        k += 1;
        let _ = Symbol::from(format!("noise{}_{}", seed, rng.below(5000)));
        let _ = Slot::fresh();
        let _ = Slot::named(&format!("n{}", rng.below(50)));
        if k % 50 == 0 {
            let a = eg.add_expr(RecExpr::parse(&format!("(h (var ${}) (sym{}))", rng.below(4), rng.below(30))).unwrap());
            let b = eg.add_expr(RecExpr::parse(&format!("(u (var ${}))", rng.below(4))).unwrap());
            if k % 200 == 0 { eg.union(&a, &b); }
        }
    }
}

pub fn run_case(case: &Sx) -> Sx {
    let k = 3usize;
    let stop = Arc::new(std::sync::atomic::AtomicBool::new(false));
    let barrier = Arc::new(Barrier::new(k));
    let mut noise_h = vec![];
    for n in 0..2u64 { let s = stop.clone(); noise_h.push(std::thread::spawn(move || { let _ = std::panic::catch_unwind(|| noise(n + 1, s)); })); }
    let mut hs = vec![];
    for _ in 0..k {
        let c = case.clone(); let b = barrier.clone();
        hs.push(std::thread::Builder::new().stack_size(256 << 20).spawn(move || { b.wait(); std::panic::catch_unwind(std::panic::AssertUnwindSafe(|| raw_transcript(&c))) }).unwrap());
    }
    let outs: Vec<_> = hs.into_iter().map(|h| h.join().unwrap()).collect();
    stop.store(true, std::sync::atomic::Ordering::Relaxed);
    for h in noise_h { let _ = h.join(); }
    let mut ts = vec![]; let mut first_obs = None;
    for o in outs { match o { Ok((t, obs)) => { if first_obs.is_none() { first_obs = Some(obs); } ts.push(t); } Err(_) => ts.push("THREAD-PANIC".to_string()) } }
    let same = ts.iter().all(|t| *t == ts[0]);
    let detail = if same { sym("identical") } else {
        let a: Vec<&str> = ts[0].lines().collect();
        let other = ts.iter().find(|t| **t != ts[0]).unwrap();
        let b: Vec<&str> = other.lines().collect();
        let i = (0..a.len().max(b.len())).find(|i| a.get(*i) != b.get(*i)).unwrap_or(0);
        lst(vec![sym("differ"), num(i as u64), crate::c17::text_sx(a.get(i).unwrap_or(&"<end>")), crate::c17::text_sx(b.get(i).unwrap_or(&"<end>"))])
    };
    let mut v = match first_obs { Some(Sx::Lst(l)) => l, _ => vec![sym("obs"), lst(vec![sym("res"), sym("err"), num(0), sym("thread-panic"), sym("x")])] };
    v.push(lst(vec![sym("replays"), num(k as u64), detail]));
    lst(v)
}

/// terms with Symbol and u32 payload leaves mixed in
fn gen_pterm(rng: &mut Rng, depth: u64, pool: &[u64]) -> Sx {
    if depth == 0 || rng.chance(1, 3) {
        return match rng.below(4) {
            0 => Sx::parse(&format!("(rt (nd 19 (ps {})))", crate::c17::text_sx(["alpha", "beta", "gamma", "zz9", "q"][rng.below(5) as usize]))),
            1 => Sx::parse(&format!("(rt (nd 17 (pu {})))", rng.below(5))),
            _ => gen_term(rng, 0, pool),
        };
    }
    let a = gen_pterm(rng, depth - 1, pool); let b = gen_pterm(rng, depth - 1, pool);
    match rng.below(3) {
        0 => Sx::parse(&format!("(rt (nd 7 (a 0 (m)) (a 0 (m))) {} {})", a, b)),
        1 => Sx::parse(&format!("(rt (nd 6 (a 0 (m))) {})", a)),
        _ => Sx::parse(&format!("(rt (nd 8 (b {} (a 0 (m)))) {})", rng.pick(pool), a)),
    }
}

pub fn gen(a: &Args) -> Vec<String> {
    let mut cases = vec![];
    for c in 0..a.count {
        let mut rng = Rng::new(a.seed, c);
        let (mut terms, mut ops, motif) = gen_history(&mut rng, false);
        let pool = [1u64, 2, 3];
        let mut nadd = ops.iter().filter(|o| o.head() == "add").count() as u64;
        for _ in 0..rng.range(2, 5) {
            let t = gen_pterm(&mut rng, 2, &pool);
            terms.push(t); ops.push(lst(vec![sym("add"), num(terms.len() as u64 - 1)])); nadd += 1;
            if rng.chance(1, 2) && nadd >= 2 { ops.push(lst(vec![sym("union"), num(rng.below(nadd)), num(nadd - 1)])); }
        }
        let mut t = vec![sym("terms")]; t.extend(terms);
        let mut o = vec![sym("ops")]; o.extend(ops);
        cases.push(lst(vec![sym("eg20"), lst(vec![sym("cfg"), num(0), num(0)]), lst(t), lst(o), sym(&motif)]).to_string());
    }
    cases
}

pub fn main(a: &Args) {
    match a.extra.get(0).map(|s| s.as_str()) {
        Some("gen") => { write_lines(&format!("{}/cases.txt", a.out), &gen(a)); }
        Some("run") => {
            let lines = read_lines(&a.extra[1]);
            let mut cases = vec![]; let mut obs = vec![];
            for l in lines { let c = Sx::parse(&l); obs.push(run_case(&c).to_string()); cases.push(c.to_string()); }
            write_lines(&format!("{}/cases.txt", a.out), &cases);
            write_lines(&format!("{}/impl.txt", a.out), &obs);
        }
        _ => { eprintln!("eg20 gen|run <cases>"); std::process::exit(2); }
    }
}
