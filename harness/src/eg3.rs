//! C03: semantic soundness of rewriting in the model F_p (mirror of coq/theories/Sem/Fp.v + FpMachine.v).
//! One case = (eg3 (cfg c e) (terms T...) (ops OP...) motif (rules R...) (iters K) (seed S)): positions 0..6 as in
//! `egr` (the history is run by `eg::run_history`, the rules are built like in `egr`), then K times
//! `apply_rewrites` under the node budget, then the final e-graph is exported for the verified evaluator.
//! Start terms come from the arithmetic fragment (var, Num, add, mul, sum, let), rules from FPPOOL (every rule of
//! which is proved valid in F_p: Sem/FpFacts.v, `fppool_valid`); unions of the history are F_p-valid by construction.
//! A rule is (rule n (t lhs) (t rhs) C) with C ::= none | (free (t slot) (t var)) | (and C C) | (or C C) | (not C);
//! C is built with the library's `slot_free_in` / `and` / `or` / `not` (`build_cond`).
//! Observation (impl.txt):
//!   (obs (res ok) (its (it <changed> (matches n...) (nodes k) (guards (g <rule pos> <matches> <cond true> <d1> <d2> <d3>)...))...)
//!        [(stopped)] [(err kind)] (redundant k)
//!   (guards: for every rule whose condition uses and / or / not, before the iteration: the matches of its left-hand
//!    side, those on which the condition is true, and those on which reading `and` as `or` (d1), `or` as `and` (d2),
//!    dropping `not` (d3) would change the decision - statistics, computed by the harness's own evaluator)
//!        (export (classes (cls <id> (slots s...) (members T...))...) (handles (h <orig T> <extracted T>)...)))
//!   (redundant k: the number of exported members that mention a slot which is not a slot of their class)
//!   or (obs (res err kind)) for a panic in the history / rule construction / export.
//! Export (export.txt, one line per case, the input of the model's `c03` machine):
//!   (c03 (p 5 3 2) (seed S) (rules R...) (classes ...) (handles ...))      or (c03 (p 5 3 2) (seed S) (rules R...) (err kind))
//! member T of class c: an e-node of `enodes_applied(identity of c)` with every child AppliedId replaced by the
//! term `Extractor<AstSize>` extracts for it; handle: the inserted term and the term extracted for find(handle).
#![allow(dead_code)]
use crate::c17::{dec_text, text_sx};
use crate::common::*;
use crate::eg::*;
use crate::lang::*;
use slotted_egraphs::*;

/// the moduli under which the export is evaluated (every rule of the pool and every union of the generator is valid
/// for every modulus; sums over the whole field vanish for most bodies when p = 5, p = 2 and 3 discriminate better)
pub const PS: &[u64] = &[5, 3, 2];
pub const NODE_LIMIT: usize = 400;

/// the condition of a rule: a tree over `slot_free_in(slot, var)` built with the library's `and` / `or` / `not`
#[derive(Clone, Copy, Debug, PartialEq)]
pub enum C { N, F(&'static str, &'static str), And(&'static C, &'static C), Or(&'static C, &'static C), Not(&'static C) }
const F1A: C = C::F("1", "a"); const F1B: C = C::F("1", "b"); const F1C: C = C::F("1", "c");
const F2A: C = C::F("2", "a"); const F2B: C = C::F("2", "b");

/// (lhs, rhs, condition, variant index of the lhs head, kind)
/// kind: "" plain, "c" conditional, "s" substitution right-hand side, "r" re-binding (a term moves under a new binder),
///       "k" condition built with combinators
/// MUST be the same list, in the same order, as FPPOOL_text in coq/theories/Sem/Fp.v.
pub const FPPOOL: &[(&str, &str, C, u64, &str)] = &[
    /* 0 */ ("(add ?a ?b)", "(add ?b ?a)", C::N, 13, ""),
    /* 1 */ ("(mul ?a ?b)", "(mul ?b ?a)", C::N, 14, ""),
    /* 2 */ ("(add (add ?a ?b) ?c)", "(add ?a (add ?b ?c))", C::N, 13, ""),
    /* 3 */ ("(mul (mul ?a ?b) ?c)", "(mul ?a (mul ?b ?c))", C::N, 14, ""),
    /* 4 */ ("(mul ?a (add ?b ?c))", "(add (mul ?a ?b) (mul ?a ?c))", C::N, 14, ""),
    /* 5 */ ("(add ?a 0)", "?a", C::N, 13, ""),
    /* 6 */ ("(mul ?a 1)", "?a", C::N, 14, ""),
    /* 7 */ ("(mul ?a 0)", "0", C::N, 14, ""),
    /* 8 */ ("(sum $1 (add ?a ?b))", "(add (sum $1 ?a) (sum $1 ?b))", C::N, 15, ""),
    /* 9 */ ("(sum $1 (mul ?a ?b))", "(mul ?a (sum $1 ?b))", C::F("1", "a"), 15, "c"),
    /* 10 */ ("(sum $1 (sum $2 ?a))", "(sum $2 (sum $1 ?a))", C::N, 15, ""),
    /* 11 */ ("(let $1 ?b ?t)", "?b[(var $1) := ?t]", C::N, 10, "s"),
    /* 12 */ ("(sum $1 ?a)", "(sum $2 (let $1 ?a (var $2)))", C::N, 15, "r"),
    /* 13 */ ("(let $1 (var $1) ?t)", "?t", C::N, 10, ""),
    /* 14 */ ("(let $1 ?b ?t)", "?b", C::F("1", "b"), 10, "c"),
    /* 15 */ ("(sum $1 ?a)", "0", C::F("1", "a"), 15, "c"),
    /* 16 */ ("(add (mul ?a ?b) (mul ?a ?c))", "(mul ?a (add ?b ?c))", C::N, 13, ""),
    /* 17 */ ("(let $1 (add ?a ?b) ?t)", "(add (let $1 ?a ?t) (let $1 ?b ?t))", C::N, 10, ""),
    /* 18 */ ("(let $1 ?b ?t)", "(let $2 (let $1 ?b (var $2)) ?t)", C::N, 10, "r"),
    /* 19 */ ("(let $1 (mul ?a ?b) ?t)", "(mul (let $1 ?a ?t) (let $1 ?b ?t))", C::N, 10, ""),
    /* 20 */ ("(let $1 (sum $2 ?b) ?t)", "(sum $2 (let $1 ?b ?t))", C::F("2", "t"), 10, "c"),
    /* 21 */ ("(add ?a ?a)", "(mul 2 ?a)", C::N, 13, ""),
    /* 22 */ ("(mul ?a (sum $1 ?b))", "(sum $1 (mul ?a ?b))", C::F("1", "a"), 14, "c"),
    /* 23 */ ("(let $1 ?b (let $2 ?c ?t))", "(let $2 (let $1 ?b ?c) ?t)", C::F("2", "b"), 10, "c"),
    // rules guarded by condition combinators
    /* 24 */ ("(sum $1 (mul ?a ?b))", "(mul (mul ?a ?b) (sum $1 1))", C::And(&F1A, &F1B), 15, "k"),
    /* 25 */ ("(let $1 (add ?a ?b) ?t)", "(add ?a ?b)", C::And(&F1A, &F1B), 10, "k"),
    /* 26 */ ("(let $1 (mul ?a ?b) ?t)", "(mul ?a ?b)", C::Not(&C::Or(&C::Not(&F1A), &C::Not(&F1B))), 10, "k"),
    /* 27 */ ("(sum $1 (mul ?a ?b))", "(mul ?a (sum $1 ?b))", C::And(&F1A, &C::Not(&F1B)), 15, "k"),
    /* 28 */ ("(sum $1 (sum $2 ?a))", "0", C::Or(&F1A, &F2A), 15, "k"),
    /* 29 */ ("(sum $1 (sum $2 (mul ?a ?b)))", "(mul (sum $1 ?a) (sum $2 ?b))", C::And(&F2A, &F1B), 15, "k"),
    /* 30 */ ("(mul (sum $1 ?a) (sum $2 ?b))", "0", C::Or(&F1A, &F2B), 14, "k"),
    /* 31 */ ("(let $1 (let $2 ?b ?c) ?t)", "(let $2 ?b ?c)", C::And(&F1B, &F1C), 10, "k"),
    /* 32 */ ("(let $1 (add ?a (mul ?b ?c)) ?t)", "(add ?a (mul ?b ?c))", C::And(&F1A, &C::And(&F1B, &F1C)), 10, "k"),
    /* 33 */ ("(sum $1 (sum $2 (mul ?a ?b)))", "0", C::Or(&C::And(&F1A, &F1B), &C::And(&F2A, &F2B)), 15, "k"),
];
/// the first rule whose condition is built with combinators
pub const FIRST_COMB: usize = 24;

/// invalid variants of pool rules (`eg3 gen --mutant K`: rule MUTANTS[K].0 of the pool is replaced by the variant in
/// every generated case that uses it; the model then reports `(unverified-rule n)` and, where the rule fired
/// unsoundly, `(bad ...)`).  Only used to show that the check can fail.
pub const MUTANTS: &[(usize, &str, &str, C)] = &[
    /* 0 */ (9, "(sum $1 (mul ?a ?b))", "(mul ?a (sum $1 ?b))", C::N),            // factor out of a sum without slot_free_in
    /* 1 */ (15, "(sum $1 ?a)", "0", C::N),                                        // sum = 0 without slot_free_in
    /* 2 */ (14, "(let $1 ?b ?t)", "?b", C::N),                                    // drop a let without slot_free_in
    /* 3 */ (8, "(sum $1 (add ?a ?b))", "(add (sum $1 ?a) ?b)", C::N),             // not linear
    /* 4 */ (11, "(let $1 ?b ?t)", "?t[(var $1) := ?b]", C::N),                    // substitution the wrong way round
    /* 5 */ (12, "(sum $1 ?a)", "(sum $2 (let $1 ?a (var $1)))", C::N),            // re-binding with the wrong variable
    /* 6 */ (7, "(mul ?a 0)", "?a", C::N),
    /* 7 */ (24, "(sum $1 (mul ?a ?b))", "(mul (mul ?a ?b) (sum $1 1))", C::Or(&F1A, &F1B)),       // `or` where the rule needs `and`
    /* 8 */ (26, "(let $1 (mul ?a ?b) ?t)", "(mul ?a ?b)", C::Or(&F1A, &F1B)),                     // the `not`s dropped
];

/// the condition of a case's rule (decoded from the wire format)
#[derive(Clone, Debug)]
pub enum Cd { N, F(String, String), And(Box<Cd>, Box<Cd>), Or(Box<Cd>, Box<Cd>), Not(Box<Cd>) }

struct RuleSpec { name: u64, lhs: String, rhs: String, cond: Cd }

/// C ::= none | (free (t slot) (t var)) | (and C C) | (or C C) | (not C)
fn cond_sx(c: &C) -> Sx {
    match c {
        C::N => sym("none"),
        C::F(s, v) => lst(vec![sym("free"), text_sx(s), text_sx(v)]),
        C::And(a, b) => lst(vec![sym("and"), cond_sx(a), cond_sx(b)]),
        C::Or(a, b) => lst(vec![sym("or"), cond_sx(a), cond_sx(b)]),
        C::Not(a) => lst(vec![sym("not"), cond_sx(a)]),
    }
}
fn dec_cond(e: &Sx) -> Cd {
    match e {
        Sx::Lst(c) => match c[0].as_sym() {
            "free" => Cd::F(dec_text(&c[1]), dec_text(&c[2])),
            "and" => Cd::And(Box::new(dec_cond(&c[1])), Box::new(dec_cond(&c[2]))),
            "or" => Cd::Or(Box::new(dec_cond(&c[1])), Box::new(dec_cond(&c[2]))),
            "not" => Cd::Not(Box::new(dec_cond(&c[1]))),
            x => panic!("harness: condition {}", x),
        },
        _ => Cd::N,
    }
}
fn show_cond(c: &Cd) -> String {
    match c {
        Cd::N => String::new(),
        Cd::F(s, v) => format!("free({}, {})", s, v),
        Cd::And(a, b) => format!("and({}, {})", show_cond(a), show_cond(b)),
        Cd::Or(a, b) => format!("or({}, {})", show_cond(a), show_cond(b)),
        Cd::Not(a) => format!("not({})", show_cond(a)),
    }
}

fn rule_sx(name: u64, r: &(&str, &str, C, u64, &str)) -> Sx {
    lst(vec![sym("rule"), num(name), text_sx(r.0), text_sx(r.1), cond_sx(&r.2)])
}
fn dec_rule(e: &Sx) -> RuleSpec {
    let l = e.as_lst();
    RuleSpec { name: l[1].as_num(), lhs: dec_text(&l[2]), rhs: dec_text(&l[3]), cond: dec_cond(&l[4]) }
}

/// the condition handed to `Rewrite::new_if`: every node of the tree is the LIBRARY's combinator
/// (`slot_free_in`, `and`, `or`, `not` of src/rewrite/mod.rs) applied to the boxed conditions of the children
/// (a `Box<dyn Fn(&Subst, &EGraph) -> bool>` is itself a `Cond`).  Children are built left to right, so the
/// slots are named (`Slot::named`) in the order of the leaves.
type BCond = Box<dyn Fn(&Subst, &EGraph<LV, ()>) -> bool>;
fn build_cond(c: &Cd) -> BCond {
    match c {
        Cd::N => Box::new(|_, _| true),
        Cd::F(s, v) => Box::new(slot_free_in::<LV, ()>(s, v)),
        Cd::And(a, b) => { let x = build_cond(a); let y = build_cond(b); Box::new(and::<LV, ()>(x, y)) }
        Cd::Or(a, b) => { let x = build_cond(a); let y = build_cond(b); Box::new(or::<LV, ()>(x, y)) }
        Cd::Not(a) => { let x = build_cond(a); Box::new(not::<LV, ()>(x)) }
    }
}
fn build_rewrite(name: &str, lhs: &str, rhs: &str, cond: &Cd) -> Rewrite<LV, ()> {
    match cond {
        Cd::N => Rewrite::new(name, lhs, rhs),
        Cd::F(s, v) => Rewrite::new_if(name, lhs, rhs, slot_free_in::<LV, ()>(s, v)),
        c => Rewrite::new_if(name, lhs, rhs, build_cond(c)),
    }
}

/// the harness's own reading of a condition on one match (statistics only, never part of a verdict):
/// `slip` 0 = as written, 1 = `and` read as `or`, 2 = `or` read as `and`, 3 = `not` dropped
fn eval_cond(c: &Cd, subst: &Subst, slip: u8) -> bool {
    match c {
        Cd::N => true,
        Cd::F(s, v) => !subst[&**v].slots().contains(&Slot::named(s)),
        Cd::And(a, b) => { let (x, y) = (eval_cond(a, subst, slip), eval_cond(b, subst, slip)); if slip == 1 { x || y } else { x && y } }
        Cd::Or(a, b) => { let (x, y) = (eval_cond(a, subst, slip), eval_cond(b, subst, slip)); if slip == 2 { x && y } else { x || y } }
        Cd::Not(a) => { let x = eval_cond(a, subst, slip); if slip == 3 { x } else { !x } }
    }
}
fn is_comb(c: &Cd) -> bool { !matches!(c, Cd::N | Cd::F(_, _)) }

fn kind_of_panic() -> &'static str {
    let (_loc, msg) = take_panic().unwrap_or_default();
    if msg.starts_with("harness:") { "harness-error" } else { panic_kind(&msg) }
}

/// the export of the final e-graph: (classes ...) and (handles ...)
fn export(h: &Hist) -> (Sx, Sx, u64) {
    let mut redundant = 0u64;   // members that mention a slot which is not a slot of their class
    let eg = &h.eg;
    let ex = Extractor::<LV, AstSize>::new(eg, AstSize);
    let mut ids: Vec<Id> = eg.ids(); ids.sort();
    let mut classes = vec![sym("classes")];
    for id in ids {
        let ident = eg.mk_identity_applied_id(id);
        let mut sl: Vec<Slot> = eg.slots(id).into_iter().collect(); sl.sort();
        let mut members = vec![sym("members")];
        for n in eg.enodes_applied(&ident) {
            if n.slots().iter().any(|x| !sl.contains(x)) { redundant += 1; }
            let children: Vec<RecExpr<LV>> = n.applied_id_occurrences().iter().map(|c| ex.extract(c, eg)).collect();
            members.push(rterm_sx(&RecExpr { node: n, children }));
        }
        let mut s = vec![sym("slots")]; s.extend(sl.into_iter().map(slot_sx));
        classes.push(lst(vec![sym("cls"), num(id.0 as u64), lst(s), lst(members)]));
    }
    let mut handles = vec![sym("handles")];
    for (a, k) in h.handles.iter().zip(h.handle_term.iter()) {
        let f = eg.find_applied_id(a);
        let t = ex.extract(&f, eg);
        handles.push(lst(vec![sym("h"), rterm_sx(&h.terms[*k]), rterm_sx(&t)]));
    }
    (lst(classes), lst(handles), redundant)
}

/// returns (observation, export line)
pub fn run_case(case: &Sx) -> (Sx, Sx) {
    let c = case.clone();
    let r = in_fresh_thread_limited(move || {
        intern_names();
        let l = c.as_lst();
        let seed = l[7].clone();
        let mut obs = vec![sym("obs")];
        let mut exp = vec![sym("c03"), lst(std::iter::once(sym("p")).chain(PS.iter().map(|p| num(*p))).collect()), seed, l[5].clone()];
        // (subst 1) as 9th element: the e-graph uses ExtractionSubst for b[x := t] instead of the default SynExprSubst
        let extraction_subst = matches!(l.get(8), Some(Sx::Lst(v)) if v.len() == 2 && v[0].as_sym() == "subst" && v[1].as_num() == 1);
        let eg0: EGraph<LV> = if extraction_subst { EGraph::with_subst_method::<ExtractionSubst>(()) } else { EGraph::default() };
        let mut h = run_history_in(&c, eg0, |_, _| {});
        if let Some((_oi, kind, _loc)) = &h.err {
            obs.push(lst(vec![sym("res"), sym("err"), sym(kind)]));
            exp.push(lst(vec![sym("err"), sym(kind)]));
            return (lst(obs), lst(exp));
        }
        let specs: Vec<RuleSpec> = l[5].as_lst()[1..].iter().map(dec_rule).collect();
        let iters = l[6].as_lst()[1].as_num();
        let built = std::panic::catch_unwind(std::panic::AssertUnwindSafe(|| {
            let mut rws: Vec<Rewrite<LV, ()>> = vec![];
            let mut pats: Vec<Pattern<LV>> = vec![];
            for s in &specs {
                let name = format!("r{}", s.name);
                rws.push(build_rewrite(&name, &s.lhs, &s.rhs, &s.cond));
                pats.push(Pattern::<LV>::parse(&s.lhs).unwrap());
            }
            (rws, pats)
        }));
        let (rws, pats) = match built {
            Ok(x) => x,
            Err(_) => { let k = kind_of_panic(); obs.push(lst(vec![sym("res"), sym("err"), sym(k)])); exp.push(lst(vec![sym("err"), sym(k)])); return (lst(obs), lst(exp)); }
        };
        obs.push(lst(vec![sym("res"), sym("ok")]));
        let mut its = vec![sym("its")];
        let mut tail: Vec<Sx> = vec![];
        for _it in 0..iters {
            let r = std::panic::catch_unwind(std::panic::AssertUnwindSafe(|| {
                let mut counts: Vec<u64> = vec![];
                // per combinator rule: (rule position, matches, matches on which the condition is true, matches on which
                // reading `and` as `or` / `or` as `and` / dropping `not` would change the decision)
                let mut guards: Vec<Sx> = vec![sym("guards")];
                for (k, p) in pats.iter().enumerate() {
                    let ms = ematch_all(&h.eg, p);
                    counts.push(ms.len() as u64);
                    if is_comb(&specs[k].cond) {
                        let c = &specs[k].cond;
                        let t = ms.iter().filter(|m| eval_cond(c, m, 0)).count() as u64;
                        let d: Vec<u64> = (1..=3u8).map(|sl| ms.iter().filter(|m| eval_cond(c, m, sl) != eval_cond(c, m, 0)).count() as u64).collect();
                        guards.push(lst(vec![sym("g"), num(k as u64), num(ms.len() as u64), num(t), num(d[0]), num(d[1]), num(d[2])]));
                    }
                }
                let changed = apply_rewrites(&mut h.eg, &rws);
                (counts, changed, guards)
            }));
            match r {
                Ok((counts, changed, guards)) => {
                    let mut mv = vec![sym("matches")]; mv.extend(counts.iter().map(|c| num(*c)));
                    its.push(lst(vec![sym("it"), sbool(changed), lst(mv), lst(vec![sym("nodes"), num(h.eg.total_number_of_nodes() as u64)]), lst(guards)]));
                }
                Err(_) => { let k = kind_of_panic(); tail.push(lst(vec![sym("err"), sym(k)])); break; }
            }
            if h.eg.total_number_of_nodes() > NODE_LIMIT { tail.push(lst(vec![sym("stopped")])); break; }
        }
        obs.push(lst(its));
        obs.extend(tail);
        // the e-graph is exported also after a panic in an iteration: whatever state it is in must still be sound
        match std::panic::catch_unwind(std::panic::AssertUnwindSafe(|| export(&h))) {
            Ok((cl, hs, red)) => {
                obs.push(lst(vec![sym("redundant"), num(red)]));
                obs.push(lst(vec![sym("export"), cl.clone(), hs.clone()]));
                exp.push(cl); exp.push(hs);
            }
            Err(_) => { let k = kind_of_panic(); obs.push(lst(vec![sym("export"), lst(vec![sym("err"), sym(k)])])); exp.push(lst(vec![sym("err"), sym(k)])); }
        }
        (lst(obs), lst(exp))
    });
    r.unwrap_or_else(|e| if e.0 == "timeout" { (timeout_obs(), lst(vec![sym("c03"), lst(vec![sym("err"), sym("timeout")])])) } else { (sym("harness-thread-panic"), lst(vec![sym("c03"), lst(vec![sym("err"), sym("harness-thread-panic")])])) })
}

fn flags() -> Sx {
    lst(vec![sym("cfg"), num(if cfg!(feature = "checks") { 1 } else { 0 }), num(if cfg!(feature = "explanations") { 1 } else { 0 })])
}

// ---------------------------------------------------------------- generation (arithmetic fragment)
fn slot_arg(s: u64) -> Sx { lst(vec![sym("s"), num(s)]) }
fn null_app() -> Sx { lst(vec![sym("a"), num(0), lst(vec![sym("m")])]) }
fn bind(s: u64, inner: Sx) -> Sx { lst(vec![sym("b"), num(s), inner]) }
fn rt(v: u64, args: Vec<Sx>, ch: Vec<Sx>) -> Sx { let mut n = vec![sym("nd"), num(v)]; n.extend(args); let mut r = vec![sym("rt"), lst(n)]; r.extend(ch); lst(r) }
pub fn t_var(s: u64) -> Sx { rt(5, vec![slot_arg(s)], vec![]) }
pub fn t_num(n: u64) -> Sx { rt(17, vec![lst(vec![sym("pu"), num(n)])], vec![]) }
pub fn t_add(a: Sx, b: Sx) -> Sx { rt(13, vec![null_app(), null_app()], vec![a, b]) }
pub fn t_mul(a: Sx, b: Sx) -> Sx { rt(14, vec![null_app(), null_app()], vec![a, b]) }
pub fn t_sum(x: u64, b: Sx) -> Sx { rt(15, vec![bind(x, null_app())], vec![b]) }
pub fn t_let(x: u64, b: Sx, t: Sx) -> Sx { rt(10, vec![bind(x, null_app()), null_app()], vec![b, t]) }
fn head(t: &Sx) -> u64 { t.as_lst()[1].as_lst()[1].as_num() }
fn kids(t: &Sx) -> Vec<Sx> { t.as_lst()[2..].to_vec() }

/// binder names: 5..=8; free names: 1..=3.  A binder never re-uses a name that is in scope (no shadowing), siblings may.
fn gen_arith(rng: &mut Rng, depth: u64, free: &[u64], scope: &mut Vec<u64>) -> Sx {
    if depth == 0 || rng.chance(1, 5) {
        return if !scope.is_empty() && rng.chance(1, 2) { t_var(*rng.pick(scope)) }
               else if rng.chance(2, 3) { t_var(*rng.pick(free)) }
               else { t_num(rng.below(7)) };
    }
    let fresh_binder = |rng: &mut Rng, scope: &Vec<u64>| -> Option<u64> {
        let c: Vec<u64> = (5..=8).filter(|x| !scope.contains(x)).collect();
        if c.is_empty() { None } else { Some(*rng.pick(&c)) }
    };
    match rng.below(8) {
        0 | 1 => { let a = gen_arith(rng, depth - 1, free, scope); let b = gen_arith(rng, depth - 1, free, scope); t_add(a, b) }
        2 | 3 => { let a = gen_arith(rng, depth - 1, free, scope); let b = gen_arith(rng, depth - 1, free, scope); t_mul(a, b) }
        4 | 5 => match fresh_binder(rng, scope) {
            Some(x) => { scope.push(x); let b = gen_arith(rng, depth - 1, free, scope); scope.pop(); t_sum(x, b) }
            None => t_var(*rng.pick(free)),
        },
        _ => match fresh_binder(rng, scope) {
            Some(x) => {
                scope.push(x); let b = gen_arith(rng, depth - 1, free, scope); scope.pop();
                let t = gen_arith(rng, depth - 1, free, scope);
                t_let(x, b, t)
            }
            None => t_var(*rng.pick(free)),
        },
    }
}

/// a random subterm for a pattern variable of a guarded rule: the binders `on` are in scope, and each of them is
/// (with probability 2/3) forced to occur, so that the slot_free_in leaves of the rule's condition take all
/// combinations of truth values (both true / exactly one true / none true)
fn role(rng: &mut Rng, d: u64, free: &[u64], on: &[u64]) -> Sx {
    let mut sc = on.to_vec();
    let mut t = gen_arith(rng, d, free, &mut sc);
    for x in on {
        if rng.chance(2, 3) { t = if rng.chance(1, 2) { t_mul(t, t_var(*x)) } else { t_add(t_var(*x), t) }; }
    }
    t
}
fn subset(rng: &mut Rng, xs: &[u64]) -> Vec<u64> { xs.iter().filter(|_| rng.chance(1, 2)).cloned().collect() }

/// a term whose root has the shape of the left-hand side of a rule guarded by and / or / not (rules 24..33)
fn gen_shaped_comb(rng: &mut Rng, depth: u64, free: &[u64]) -> Sx {
    let d = depth.max(1) - 1;
    let x = rng.range(5, 6); let y = rng.range(7, 8);
    match rng.below(6) {
        0 => { let sa = subset(rng, &[x]); let sb = subset(rng, &[x]); let a = role(rng, d, free, &sa); let b = role(rng, d, free, &sb); t_sum(x, t_mul(a, b)) }            // 24, 27, 9
        1 => { let sa = subset(rng, &[x]); let sb = subset(rng, &[x]); let a = role(rng, d, free, &sa); let b = role(rng, d, free, &sb); let t = role(rng, d, free, &[]);
               if rng.chance(1, 2) { t_let(x, t_add(a, b), t) } else { t_let(x, t_mul(a, b), t) } }                                                                     // 25, 26
        2 => { let sa = subset(rng, &[x, y]); let sb = subset(rng, &[x, y]); let a = role(rng, d, free, &sa); let b = role(rng, d, free, &sb);
               if rng.chance(1, 4) { t_sum(x, t_sum(y, a)) } else { t_sum(x, t_sum(y, t_mul(a, b))) } }                                                                 // 28, 29, 33
        3 => { let sa = subset(rng, &[x]); let sb = subset(rng, &[y]); let a = role(rng, d, free, &sa); let b = role(rng, d, free, &sb); t_mul(t_sum(x, a), t_sum(y, b)) } // 30
        4 => { let sb = subset(rng, &[x, y]); let sc = subset(rng, &[x]); let b = role(rng, d, free, &sb); let c = role(rng, d, free, &sc); let t = role(rng, d, free, &[]);
               t_let(x, t_let(y, b, c), t) }                                                                                                                            // 31
        _ => { let sa = subset(rng, &[x]); let sb = subset(rng, &[x]); let sc = subset(rng, &[x]);
               let a = role(rng, d, free, &sa); let b = role(rng, d, free, &sb); let c = role(rng, d, free, &sc); let t = role(rng, d, free, &[]);
               t_let(x, t_add(a, t_mul(b, c)), t) }                                                                                                                     // 32
    }
}

/// a term whose root has the shape of the left-hand side of a pool rule, with random subterms
fn gen_shaped(rng: &mut Rng, depth: u64, free: &[u64]) -> Sx {
    if rng.chance(2, 5) { return gen_shaped_comb(rng, depth, free); }
    let d = depth.max(1) - 1;
    let x = rng.range(5, 6); let y = rng.range(7, 8);
    let mut g = |rng: &mut Rng, scope: &[u64]| { let mut sc = scope.to_vec(); gen_arith(rng, d, free, &mut sc) };
    match rng.below(11) {
        0 => { let a = g(rng, &[x]); let b = g(rng, &[x]); t_sum(x, t_mul(a, b)) }
        1 => { let a = g(rng, &[]); let b = g(rng, &[x]); t_sum(x, t_mul(a, b)) }
        2 => { let a = g(rng, &[x]); let b = g(rng, &[x]); t_sum(x, t_add(a, b)) }
        3 => { let a = g(rng, &[x, y]); t_sum(x, t_sum(y, a)) }
        4 => { let b = g(rng, &[x, y]); let t = g(rng, &[]); t_let(x, t_sum(y, b), t) }
        5 => { let b = g(rng, &[x]); let c = g(rng, &[y]); let t = g(rng, &[]); t_let(x, b, t_let(y, c, t)) }
        6 => { let a = g(rng, &[]); let b = g(rng, &[x]); t_mul(a, t_sum(x, b)) }
        7 => { let a = g(rng, &[x]); let b = g(rng, &[x]); let t = g(rng, &[]); if rng.chance(1, 2) { t_let(x, t_add(a, b), t) } else { t_let(x, t_mul(a, b), t) } }
        8 => { let a = g(rng, &[]); let b = g(rng, &[]); let c = g(rng, &[]); if rng.chance(1, 2) { t_add(t_mul(a.clone(), b), t_mul(a, c)) } else { t_mul(a, t_add(b, c)) } }
        9 => { let a = g(rng, &[]); t_sum(x, a) }
        _ => { let b = g(rng, &[]); let t = g(rng, &[]); t_let(x, b, t) }
    }
}

pub fn gen_history3(rng: &mut Rng) -> (Vec<Sx>, Vec<Sx>, String) {
    let free: Vec<u64> = (1..=rng.range(1, 3)).collect();
    let mut terms: Vec<Sx> = vec![];
    let mut ops: Vec<Sx> = vec![];
    let mut hterm: Vec<Sx> = vec![];     // the term of every handle
    let add = |t: Sx, terms: &mut Vec<Sx>, ops: &mut Vec<Sx>, hterm: &mut Vec<Sx>| -> u64 {
        let k = match terms.iter().position(|x| *x == t) { Some(k) => k, None => { terms.push(t.clone()); terms.len() - 1 } };
        ops.push(lst(vec![sym("add"), num(k as u64)])); hterm.push(t); hterm.len() as u64 - 1
    };
    let nterms = rng.range(1, 3);
    for _ in 0..nterms {
        let d = rng.range(1, 4);
        let t = if rng.chance(1, 2) { gen_shaped(rng, d, &free) } else { gen_arith(rng, d, &free, &mut vec![]) };
        if rng.chance(1, 2) {
            let mut subs = vec![]; subterms(&t, &mut subs);
            for s in subs.iter().rev().take(3) { add(s.clone(), &mut terms, &mut ops, &mut hterm); }
        }
        add(t.clone(), &mut terms, &mut ops, &mut hterm);
        if free.len() >= 2 && rng.chance(1, 4) {
            let a = *rng.pick(&free); let b = *rng.pick(&free);
            add(rename_term(&t, &|s| if s == a { b } else if s == b { a } else { s }), &mut terms, &mut ops, &mut hterm);
        }
    }
    // twins under a binder: a commutative body that mixes the bound slot with two free ones, in both arrangements of the free
    // slots (the symmetry of the body class exchanges the bound argument with a free one; a self-symmetry of the binder's class must
    // never exchange the two free slots): sum i. (p + i*q)  versus  sum i. (q + i*p), also under let, plus a parent over both
    let mut twins = false;
    if rng.chance(1, 4) {
        twins = true;
        let (p, q, i) = (1u64, 2u64, 9u64);
        let body = |rng: &mut Rng, a: u64, b: u64| -> Sx {
            match rng.below(3) {
                0 => t_add(t_var(a), t_mul(t_var(i), t_var(b))),
                1 => t_mul(t_add(t_var(i), t_var(a)), t_var(b)),
                _ => t_add(t_mul(t_var(a), t_var(i)), t_var(b)),
            }
        };
        let mut r2 = Rng::new(rng.below(1 << 30), 7); let mut r3 = Rng(r2.0);
        let (b1, b2) = (body(&mut r2, p, q), body(&mut r3, q, p));
        let (t1, t2) = if rng.chance(1, 2) { (t_sum(i, b1), t_sum(i, b2)) } else { let k = rng.below(5); (t_let(i, b1, t_num(k)), t_let(i, b2, t_num(k))) };
        add(t1.clone(), &mut terms, &mut ops, &mut hterm);
        add(t2.clone(), &mut terms, &mut ops, &mut hterm);
        match rng.below(3) { 0 => { add(t_add(t1, t_mul(t_num(4), t2)), &mut terms, &mut ops, &mut hterm); } 1 => { add(t_mul(t1, t2), &mut terms, &mut ops, &mut hterm); } _ => {} }
    }
    // unions that hold in F_p: a term and the result of one law applied by hand at the root
    let nun = if rng.chance(1, 3) { 0 } else { rng.range(1, 2) };
    let motif = if nun == 0 { "no-unions" } else { "unions" };
    for _ in 0..nun {
        let i = rng.below(hterm.len() as u64);
        let t = hterm[i as usize].clone();
        let (l, r): (Sx, Sx) = match rng.below(8) {
            0 if head(&t) == 13 || head(&t) == 14 => { let k = kids(&t); (t.clone(), rt(head(&t), vec![null_app(), null_app()], vec![k[1].clone(), k[0].clone()])) }
            1 => (t.clone(), t_add(t.clone(), t_num(0))),
            2 => (t.clone(), t_mul(t_num(1), t.clone())),
            3 => (t_mul(t.clone(), t_num(0)), t_num(0)),            // a redundancy: the product ignores t
            4 => (t_sum(9, t.clone()), t_num(0)),                    // p * t = 0
            5 => (t_let(9, t_var(9), t.clone()), t.clone()),
            6 => (t_let(9, t.clone(), t_num(rng.below(7))), t.clone()),
            _ => (t_add(t.clone(), t.clone()), t_mul(t_num(2), t.clone())),
        };
        let a = if l == t { i } else { add(l, &mut terms, &mut ops, &mut hterm) };
        let b = add(r, &mut terms, &mut ops, &mut hterm);
        ops.push(lst(vec![sym("union"), num(a), num(b)]));
    }
    (terms, ops, if twins { format!("{}+twins", motif) } else { motif.to_string() })
}

fn variants_of(t: &Sx, out: &mut Vec<u64>) {
    if let Sx::Lst(l) = t {
        if l.len() >= 2 { if let (Sx::Sym(h), Sx::Num(v)) = (&l[0], &l[1]) { if h == "nd" && !out.contains(v) { out.push(*v); } } }
        for x in l { variants_of(x, out); }
    }
}

pub fn gen(a: &Args) -> Vec<String> {
    crate::eg::BIG_SYMMETRY.store(false, std::sync::atomic::Ordering::Relaxed);
    let mutant: Option<usize> = a.extra.iter().position(|x| x == "--mutant").map(|i| a.extra[i + 1].parse().unwrap());
    let mut cases = vec![];
    for c in 0..a.count {
        let mut rng = Rng::new(a.seed, c);
        let (terms, ops, motif) = gen_history3(&mut rng);
        let mut present = vec![]; for t in &terms { variants_of(t, &mut present); }
        let relevant: Vec<usize> = (0..FPPOOL.len()).filter(|i| present.contains(&FPPOOL[*i].3)).collect();
        let nrules = rng.range(1, 6);
        let mut chosen: Vec<u64> = vec![];
        for _ in 0..nrules {
            let i = if !relevant.is_empty() && rng.chance(3, 4) { *rng.pick(&relevant) as u64 } else { rng.below(FPPOOL.len() as u64) };
            if !chosen.contains(&i) { chosen.push(i); }
        }
        // one more rule guarded by and / or / not whose left-hand side head occurs in the terms
        let comb: Vec<usize> = relevant.iter().cloned().filter(|i| *i >= FIRST_COMB).collect();
        if !comb.is_empty() && rng.chance(1, 2) { let i = *rng.pick(&comb) as u64; if !chosen.contains(&i) { chosen.push(i); } }
        if motif.ends_with("twins") { for i in [0u64, 1] { if !chosen.contains(&i) { chosen.push(i); } } }   // commutativity of add and mul
        let mut rules = vec![sym("rules")];
        for i in &chosen {
            let mut r = FPPOOL[*i as usize];
            if let Some(m) = mutant { if MUTANTS[m].0 as u64 == *i { r = (MUTANTS[m].1, MUTANTS[m].2, MUTANTS[m].3, r.3, r.4); } }
            rules.push(rule_sx(*i, &r));
        }
        let k = rng.range(1, 4);
        let seed = rng.below(1 << 20);
        let subst = rng.below(2);
        let mut t = vec![sym("terms")]; t.extend(terms);
        let mut o = vec![sym("ops")]; o.extend(ops);
        cases.push(lst(vec![sym("eg3"), flags(), lst(t), lst(o), sym(&motif), lst(rules), lst(vec![sym("iters"), num(k)]), lst(vec![sym("seed"), num(seed)]), lst(vec![sym("subst"), num(subst)])]).to_string());
    }
    cases
}

pub fn main(a: &Args) {
    match a.extra.get(0).map(|s| s.as_str()) {
        Some("gen") => { write_lines(&format!("{}/cases.txt", a.out), &gen(a)); }
        Some("worker") => {
            worker_loop(|l| {
                let c = Sx::parse(l);
                let (o, e) = run_case(&c);
                vec![o.to_string(), e.to_string()]
            });
        }
        Some("run") => {
            let lines: Vec<String> = read_lines(&a.extra[1]).iter().map(|l| { let mut c = Sx::parse(l); if let Sx::Lst(v) = &mut c { v[1] = flags(); } c.to_string() }).collect();
            let lim = vec![timeout_obs().to_string(), "(c03 (err timeout))".to_string()];
            let rs = isolated_map("eg3", &lines, &lim);
            let mut obs = vec![]; let mut second = vec![];
            for r in rs { obs.push(r[0].clone()); second.push(r[1].clone()); }
            write_lines(&format!("{}/cases.txt", a.out), &lines);
            write_lines(&format!("{}/impl.txt", a.out), &obs);
            write_lines(&format!("{}/export.txt", a.out), &second);
        }
        Some("pool") => {
            // every rule of the pool must be accepted by the crate's parser
            let r = in_fresh_thread(|| {
                let mut out = vec![];
                for (i, r) in FPPOOL.iter().enumerate() {
                    let ok = std::panic::catch_unwind(|| {
                        let name = format!("r{}", i);
                        let _ = build_rewrite(&name, r.0, r.1, &dec_cond(&cond_sx(&r.2)));
                        let l = Pattern::<LV>::parse(r.0).unwrap(); let rr = Pattern::<LV>::parse(r.1).unwrap();
                        format!("{} => {}", l, rr)
                    });
                    out.push(format!("{} {} {} {}", i, if ok.is_ok() { "parses" } else { "FAILS" }, rule_sx(i as u64, r), ok.unwrap_or_default()));
                }
                out
            }).unwrap();
            for l in r { println!("{}", l); }
        }
        Some("show") => {
            // readable form of the terms of an export / case file
            for l in read_lines(&a.extra[1]) {
                let c = Sx::parse(&l);
                let _ = in_fresh_thread(move || { show(&c, 0); });
            }
        }
        _ => { eprintln!("eg3 gen|run <cases>|pool|show <file>"); std::process::exit(2); }
    }
}

fn show(e: &Sx, ind: usize) {
    if let Sx::Lst(l) = e {
        if !l.is_empty() {
            if let Sx::Sym(h) = &l[0] {
                if h == "rt" { println!("{}{}", " ".repeat(ind), dec_rterm(e)); return; }
                if h == "rule" { println!("{}rule {} : {} -> {} {:?}", " ".repeat(ind), l[1], dec_text(&l[2]), dec_text(&l[3]), match &l[4] { Sx::Lst(_) => format!("if {}", show_cond(&dec_cond(&l[4]))), _ => String::new() }); return; }
                if l.iter().skip(1).all(|x| !matches!(x, Sx::Lst(_))) { println!("{}{}", " ".repeat(ind), e); return; }
                println!("{}({}", " ".repeat(ind), h);
                for x in &l[1..] { show(x, ind + 2); }
                println!("{})", " ".repeat(ind));
                return;
            }
        }
    }
    println!("{}{}", " ".repeat(ind), e);
}
