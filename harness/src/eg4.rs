//! C04 "every represented instance of a rule's left side fires"
//! (model side: coq/theories/EGraph/MatchMachine.v, `run_eg4`).
//! The generator PLANTS an instance: a rule (lhs, rhs) of POOL4 (every bound slot name of a pattern is bound once and
//! not used free), a substitution σ (pattern variables -> small terms, pattern slots -> pairwise distinct slots),
//! tL = lhs[σ], tR = rhs[σ].  The history never adds tL itself when a variant was chosen: it adds variants q' of
//! subterms q of the σ-terms, unions q with q' (both sides have the same free slots: "balanced", no redundancy is
//! created), and inserts the lhs instance built over the variants (possibly inside a context); tL is then represented
//! only up to equality.  Permuted leaves as variants make the children symmetric classes.
//! One case = (eg4 (cfg c e) (terms T...) (ops OP...) motif (rules R...) (iters 1) (plant <tL> <tR> <k>) [(sched ...)])
//! (terms/ops/rules/sched as in `egr`).  Run: history, rules, the pre-checks, ONE `apply_rewrites` (all searchers
//! before any applier), the post-checks; all checks are read-only except the final `add_expr(tR)`.
//! Observation (the model prints the same line):
//!   (obs (res ok) (pre (red R) (lhs L0)) (it <changed> (matches n...) (prog ...) b<eq bits> (nodes k))
//!        (post (lhs L1) (rhs R1) (eq E) (nodes n0 n1) (eqh EH)))
//!     R    some class has a redundant slot before the rules are applied (outside the scope of C04: skipped, counted)
//!     L0   lookup_rec_expr(tL) is Some before applying: the planted instance is represented
//!     L1/R1  lookup_rec_expr(tL) / lookup_rec_expr(tR) is Some afterwards;  E = eq of the two classes
//!     n0 n1  total_number_of_nodes before / after add_expr(tR) (equal iff tR was represented);  EH = eq(add_expr(tR), L1)
//! C04 holds on the case iff  R  or  not L0  or  (R1 and E and n0 = n1 and EH).
#![allow(dead_code)]
use crate::common::*;
use crate::eg::*;
use crate::egr::{canon_ids, dec_rule, err_of_panic, flags, rule_sx, subst_sig, RuleSpec};
use crate::lang::*;
use slotted_egraphs::*;
use std::collections::{BTreeSet, HashMap};

/// rules inside the scope of C04 (no substitution on the right, no condition, no right-only free slot)
pub const POOL4: &[(&str, &str)] = &[
    /* 0 */ ("(h ?a ?b)", "(h ?b ?a)"),
    /* 1 */ ("(h (h ?a ?b) ?c)", "(h ?a (h ?b ?c))"),
    /* 2 */ ("(u (u ?a))", "?a"),
    /* 3 */ ("(u ?a)", "(h ?a ?a)"),
    /* 4 */ ("(f $1 $2)", "(f $2 $1)"),
    /* 5 */ ("(g $1 $2 $3)", "(g $2 $3 $1)"),
    /* 6 */ ("(var $1)", "(u (var $1))"),
    /* 7 */ ("(h ?a (c))", "?a"),
    /* 8 */ ("(c)", "(lam $1 (var $1))"),
    /* 9 */ ("(let $1 ?b ?t)", "(app (lam $1 ?b) ?t)"),
    /* 10 */ ("(u ?a)", "(lam $x (app ?a (var $x)))"),
    /* 11 */ ("(k $1 $2 ?a $3)", "(k $3 $2 ?a $1)"),
    /* 12 */ ("(h ?a ?a)", "(u ?a)"),
    /* 13 */ ("(lam $x (app ?f (var $x)))", "?f"),
    /* 14 */ ("(sum2 ?a $1 $2 ?b)", "(sum2 ?a $2 $1 ?b)"),
    /* 15 */ ("(f $1 $1)", "(d)"),
    /* 16 */ ("(f $1 $2)", "(g $1 $2 $1)"),
    /* 17 */ ("(g4 $1 $2 $3 $4)", "(g4 $2 $1 $4 $3)"),
    /* 18 */ ("(lam $1 ?b)", "(lam $2 (let $1 ?b (var $2)))"),
    /* 19 */ ("(h (h ?a ?b) (h ?b ?a))", "(u (h ?a ?b))"),
    /* 20 */ ("(h ?a (u ?a))", "(u ?a)"),
    /* 21 */ ("(let $1 (h ?a ?b) ?t)", "(h (let $1 ?a ?t) (let $1 ?b ?t))"),
    /* 22 */ ("(k $1 $2 (u ?a) $3)", "(k $3 $2 ?a $1)"),
    /* 23 */ ("(sum2 ?a $1 $2 (h ?b ?b))", "(sum2 ?a $2 $1 ?b)"),
    /* 24 */ ("(lam $1 (lam $2 (h ?a ?b)))", "(lam $2 (lam $1 (h ?b ?a)))"),
    /* 25 */ ("(h (f $1 $2) (f $2 $1))", "(g $1 $2 $1)"),
    /* 26 */ ("(h (var $1) (lam $2 (h (var $1) (var $2))))", "(var $1)"),
    /* 27 */ ("(h (var $1) (var $2))", "(f $1 $2)"),
    /* 28 */ ("(h (var $1) (var $1))", "(u (var $1))"),
    /* 29 */ ("(app (lam $1 (h ?a (var $1))) ?t)", "(h ?a ?t)"),
    /* 30 */ ("(h (u ?a) (h ?a ?b))", "(h ?b ?a)"),
    /* 31 */ ("(u (f $1 $2))", "(f $2 $1)"),
    /* 32 */ ("(u (g $1 $2 $3))", "(h (g $1 $2 $3) (g $2 $3 $1))"),
    /* 33 */ ("(h ?a (h ?b ?a))", "(h ?b ?b)"),
    /* 34 */ ("(let $1 (var $1) ?t)", "?t"),
    /* 35 */ ("(lam $1 (h ?a ?a))", "(lam $1 ?a)"),
    /* 36 */ ("(h (f $1 $2) ?a)", "(h ?a (f $2 $1))"),
    /* 37 */ ("(h (u ?a) (u ?a))", "(u (h ?a ?a))"),
    /* 38 */ ("(lam $1 (h ?a (var $1)))", "(lam $1 (h (var $1) ?a))"),
    // pattern slots whose NAMES look like e-graph slots ($f<n> is how generated slots print; a pattern taken from a printed or
    // extracted term has such names): the translation of a match into pattern names must not confuse them with the class's own
    /* 39 */ ("(h ?x (var $f1))", "(h (var $f1) ?x)"),
    /* 40 */ ("(lam $f2 ?b)", "(lam $f2 (u ?b))"),
    /* 41 */ ("(h ?x (f $f0 $f3))", "(h (f $f3 $f0) ?x)"),
    /* 42 */ ("(k $f1 $f0 ?a $f2)", "(k $f2 $f0 ?a $f1)"),
    /* 43 */ ("(let $f0 ?b (var $f4))", "(let $f0 (u ?b) (var $f4))"),
    /* 44 */ ("(h (var $f5) ?x)", "(h ?x (var $f5))"),
];

/// rules OUTSIDE the scope (documented limitation `redundancy_matching_bug`: a bound slot name bound twice, or also used
/// free): `eg4 gen --outside` plants these to show that the check flags them
pub const POOL4_OUT: &[(&str, &str)] = &[
    ("(app (lam $1 (var $1)) (lam $1 (var $1)))", "(lam $1 (var $1))"),
    ("(h (lam $1 ?a) (lam $1 ?a))", "(lam $1 ?a)"),
    ("(h (var $1) (lam $1 (var $1)))", "(var $1)"),
];

// ---------------------------------------------------------------- patterns as s-expressions
enum Field { S(String), A(Sx), B(Vec<String>, Sx) }

fn is_var(p: &Sx) -> Option<String> { match p { Sx::Sym(s) if s.starts_with('?') => Some(s[1..].to_string()), _ => None } }

/// (variant index, fields) of a node pattern `(name tok...)`
fn fields(p: &Sx) -> (u64, Vec<Field>) {
    let (name, toks): (&str, &[Sx]) = match p { Sx::Sym(s) => (s.as_str(), &[]), Sx::Lst(l) => (l[0].as_sym(), &l[1..]), _ => panic!("harness: bad pattern") };
    let vi = VARIANTS.iter().position(|v| v.0 == name).unwrap_or_else(|| panic!("harness: unknown operator {}", name));
    let mut out = vec![]; let mut k = 0usize;
    let slot_tok = |t: &Sx| -> String { match t { Sx::Sym(s) if s.starts_with('$') => s.clone(), _ => panic!("harness: expected slot, got {}", t) } };
    for ty in VARIANTS[vi].1.chars() {
        match ty {
            's' => { out.push(Field::S(slot_tok(&toks[k]))); k += 1; }
            'a' => { out.push(Field::A(toks[k].clone())); k += 1; }
            'b' => { out.push(Field::B(vec![slot_tok(&toks[k])], toks[k + 1].clone())); k += 2; }
            'B' => { out.push(Field::B(vec![slot_tok(&toks[k]), slot_tok(&toks[k + 1])], toks[k + 2].clone())); k += 3; }
            _ => panic!("harness: payload in pattern"),
        }
    }
    assert!(k == toks.len(), "harness: arity of {}", p);
    (vi as u64, out)
}

/// per variable: the binders in scope at ALL its occurrences; the free and the bound slot names
struct PatInfo { vars: Vec<(String, Vec<String>)>, free: Vec<String>, bound: Vec<String> }
fn analyse(p: &Sx, scope: &mut Vec<String>, info: &mut PatInfo) {
    if let Some(v) = is_var(p) {
        match info.vars.iter_mut().find(|x| x.0 == v) {
            Some(e) => e.1.retain(|s| scope.contains(s)),
            None => info.vars.push((v, scope.clone())),
        }
        return;
    }
    for f in fields(p).1 {
        match f {
            Field::S(s) => { if !scope.contains(&s) && !info.free.contains(&s) { info.free.push(s); } }
            Field::A(c) => analyse(&c, scope, info),
            Field::B(ss, c) => {
                for s in &ss { if !info.bound.contains(s) { info.bound.push(s.clone()); } scope.push(s.clone()); }
                analyse(&c, scope, info);
                for _ in &ss { scope.pop(); }
            }
        }
    }
}

fn slot_arg(s: u64) -> Sx { lst(vec![sym("s"), num(s)]) }
fn null_app() -> Sx { lst(vec![sym("a"), num(0), lst(vec![sym("m")])]) }
fn rt(v: u64, args: Vec<Sx>, ch: Vec<Sx>) -> Sx { let mut n = vec![sym("nd"), num(v)]; n.extend(args); let mut r = vec![sym("rt"), lst(n)]; r.extend(ch); lst(r) }
fn un(t: Sx) -> Sx { rt(6, vec![null_app()], vec![t]) }
fn hh(a: Sx, b: Sx) -> Sx { rt(7, vec![null_app(), null_app()], vec![a, b]) }
fn lam(s: u64, t: Sx) -> Sx { rt(8, vec![lst(vec![sym("b"), num(s), null_app()])], vec![t]) }

/// pattern[σ] as an `rt` term; `var` yields the term of one variable OCCURRENCE
fn inst(p: &Sx, slots: &HashMap<String, u64>, var: &mut dyn FnMut(&str) -> Sx) -> Sx {
    if let Some(v) = is_var(p) { return var(&v); }
    let (vi, fs) = fields(p);
    let mut args = vec![]; let mut ch = vec![];
    for f in fs {
        match f {
            Field::S(s) => args.push(slot_arg(slots[&s])),
            Field::A(c) => { args.push(null_app()); ch.push(inst(&c, slots, var)); }
            Field::B(ss, c) => {
                let mut a = null_app();
                for s in ss.iter().rev() { a = lst(vec![sym("b"), num(slots[s]), a]); }
                args.push(a); ch.push(inst(&c, slots, var));
            }
        }
    }
    rt(vi, args, ch)
}

/// free slots of an `rt` term
pub fn free_slots(t: &Sx) -> BTreeSet<u64> {
    fn arg(a: &Sx, ch: &[Sx], k: &mut usize, bound: &mut Vec<u64>, out: &mut BTreeSet<u64>) {
        let l = a.as_lst();
        match l[0].as_sym() {
            "s" => { let n = l[1].as_num(); if !bound.contains(&n) { out.insert(n); } }
            "a" => { go(&ch[*k], bound, out); *k += 1; }
            "b" => { bound.push(l[1].as_num()); arg(&l[2], ch, k, bound, out); bound.pop(); }
            _ => {}
        }
    }
    fn go(t: &Sx, bound: &mut Vec<u64>, out: &mut BTreeSet<u64>) {
        let l = t.as_lst(); let nd = l[1].as_lst(); let ch = &l[2..]; let mut k = 0usize;
        for a in &nd[2..] { arg(a, ch, &mut k, bound, out); }
    }
    let mut out = BTreeSet::new(); go(t, &mut vec![], &mut out); out
}

fn replace_at(t: &Sx, idx: &mut i64, new: &Sx) -> Sx {
    if *idx == 0 { *idx = -1; return new.clone(); }
    *idx -= 1;
    let l = t.as_lst();
    let mut v = vec![l[0].clone(), l[1].clone()];
    for c in &l[2..] { if *idx >= 0 { v.push(replace_at(c, idx, new)); } else { v.push(c.clone()); } }
    lst(v)
}

fn leaf_slots(t: &Sx) -> Option<(u64, Vec<u64>)> {
    let l = t.as_lst(); let nd = l[1].as_lst(); let v = nd[1].as_num();
    if v > 2 { return None; }
    Some((v, nd[2..].iter().map(|a| a.as_lst()[1].as_num()).collect()))
}

/// a different term with the same free slots
fn variant(rng: &mut Rng, s: &Sx) -> Sx {
    let fs = free_slots(s);
    if let Some((v, sl)) = leaf_slots(s) {
        let distinct: BTreeSet<u64> = sl.iter().cloned().collect();
        if distinct.len() >= 2 && rng.chance(2, 3) {
            // a permuted copy: the class becomes symmetric
            let mut p = sl.clone();
            for _ in 0..8 { rng.shuffle(&mut p); if p != sl { break; } }
            if p != sl { return rt(v, p.iter().map(|x| slot_arg(*x)).collect(), vec![]); }
        }
    }
    match rng.below(7) {
        0 => un(s.clone()),
        1 => hh(s.clone(), rt(3, vec![], vec![])),
        2 => hh(rt(4, vec![], vec![]), s.clone()),
        3 => hh(s.clone(), s.clone()),
        4 => lam(19, s.clone()),
        5 => un(un(s.clone())),
        _ => {
            let pool: Vec<u64> = if fs.is_empty() { vec![1] } else { fs.iter().cloned().collect() };
            for _ in 0..10 { let r = gen_term(rng, 2, &pool); if free_slots(&r) == fs && r != *s { return r; } }
            un(s.clone())
        }
    }
}

struct HB { terms: Vec<Sx>, ops: Vec<Sx>, nadd: u64, handle_term: Vec<usize> }
impl HB {
    fn add(&mut self, t: Sx) -> u64 {
        let k = match self.terms.iter().position(|x| *x == t) { Some(k) => k, None => { self.terms.push(t); self.terms.len() - 1 } };
        self.ops.push(lst(vec![sym("add"), num(k as u64)])); self.handle_term.push(k); self.nadd += 1; self.nadd - 1
    }
    fn union(&mut self, i: u64, j: u64) { self.ops.push(lst(vec![sym("union"), num(i), num(j)])); }
}

/// "all searchers run before any applier": an earlier rule of the same call makes a class lose a slot that the planted
/// instance of a later rule repeats; the later rule must still fire (its matches were collected on the e-graph before)
fn gen_interference(rng: &mut Rng) -> String {
    let pool: Vec<u64> = vec![1, 2, 3];
    let t = match rng.below(3) { 0 => rt(5, vec![slot_arg(*rng.pick(&pool))], vec![]), 1 => rt(0, vec![slot_arg(1), slot_arg(2)], vec![]), _ => gen_term(rng, 1, &pool) };
    let (s_l, s_r) = ("(h ?a ?a)", "(c)");
    let (p_l, p_r) = *rng.pick(&[("(h (u ?a) (h ?a ?a))", "(u ?a)"), ("(h (h ?a ?a) (u ?a))", "(u (u ?a))"), ("(u (h ?b (h ?a ?a)))", "(h ?b (u ?a))")]);
    let b = gen_term(rng, 1, &pool);
    let inst1 = |pat: &str| -> Sx {
        // the three planted shapes, instantiated by hand
        match pat {
            "(h (u ?a) (h ?a ?a))" => hh(un(t.clone()), hh(t.clone(), t.clone())),
            "(u ?a)" => un(t.clone()),
            "(h (h ?a ?a) (u ?a))" => hh(hh(t.clone(), t.clone()), un(t.clone())),
            "(u (u ?a))" => un(un(t.clone())),
            "(u (h ?b (h ?a ?a)))" => un(hh(b.clone(), hh(t.clone(), t.clone()))),
            _ => hh(b.clone(), un(t.clone())),
        }
    };
    let (t_l, t_r) = (inst1(p_l), inst1(p_r));
    let mut hb = HB { terms: vec![], ops: vec![], nadd: 0, handle_term: vec![] };
    if rng.chance(1, 2) { hb.add(un(t_l.clone())); }
    hb.add(t_l.clone());
    let rules = vec![sym("rules"), rule_sx(900, &(s_l, s_r, None, 0)), rule_sx(901, &(p_l, p_r, None, 0))];
    let mut tt = vec![sym("terms")]; tt.extend(hb.terms);
    let mut o = vec![sym("ops")]; o.extend(hb.ops);
    lst(vec![sym("eg4"), flags(), lst(tt), lst(o), sym("plant+interference"), lst(rules), lst(vec![sym("iters"), num(1)]),
             lst(vec![sym("plant"), t_l, t_r, num(1)])]).to_string()
}

/// "every match found in this round is applied": an EARLIER application of the same call merges a class away (rule (u ?a) => ?a unites
/// u(t) with t; the smaller class dies) that the match of a LATER rule has bound to a pattern variable; the later rule must still fire
/// (stale ids are resolved through find)
fn gen_interference_kill(rng: &mut Rng) -> String {
    let pool: Vec<u64> = vec![1, 2, 3];
    let t = match rng.below(4) { 0 => rt(5, vec![slot_arg(*rng.pick(&pool))], vec![]), 1 => rt(0, vec![slot_arg(1), slot_arg(2)], vec![]), 2 => rt(4, vec![], vec![]), _ => gen_term(rng, 1, &pool) };
    let cc = rt(3, vec![], vec![]);
    let (k_l, k_r) = ("(u ?a)", "?a");
    // which side of the killing union the later match binds: u(t) or t
    let bound = if rng.chance(1, 2) { un(t.clone()) } else { t.clone() };
    let (p_l, p_r, t_l, t_r) = match rng.below(3) {
        0 => ("(h ?b (c))", "(h (c) ?b)", hh(bound.clone(), cc.clone()), hh(cc.clone(), bound.clone())),
        1 => ("(h (c) ?b)", "(h ?b (h ?b (c)))", hh(cc.clone(), bound.clone()), hh(bound.clone(), hh(bound.clone(), cc.clone()))),
        _ => ("(h (h ?b (c)) (d))", "(h (d) ?b)", hh(hh(bound.clone(), cc.clone()), rt(4, vec![], vec![])), hh(rt(4, vec![], vec![]), bound.clone())),
    };
    let mut hb = HB { terms: vec![], ops: vec![], nadd: 0, handle_term: vec![] };
    // uses that make one or the other class the bigger one
    if rng.chance(1, 2) { hb.add(hh(t.clone(), t.clone())); }
    if rng.chance(1, 2) { hb.add(hh(un(t.clone()), cc.clone())); }
    hb.add(un(t.clone()));
    hb.add(t_l.clone());
    let rules = vec![sym("rules"), rule_sx(902, &(k_l, k_r, None, 0)), rule_sx(903, &(p_l, p_r, None, 0))];
    let mut tt = vec![sym("terms")]; tt.extend(hb.terms);
    let mut o = vec![sym("ops")]; o.extend(hb.ops);
    lst(vec![sym("eg4"), flags(), lst(tt), lst(o), sym("plant+interference"), lst(rules), lst(vec![sym("iters"), num(1)]),
             lst(vec![sym("plant"), t_l, t_r, num(1)])]).to_string()
}

pub fn gen_case(rng: &mut Rng, outside: bool) -> String {
    if !outside && rng.chance(1, 10) { return if rng.chance(1, 2) { gen_interference(rng) } else { gen_interference_kill(rng) }; }
    let pool: &[(&str, &str)] = if outside { POOL4_OUT } else { POOL4 };
    let ri = rng.below(pool.len() as u64) as usize;
    let (lhs_s, rhs_s) = pool[ri];
    let (lhs, rhs) = (Sx::parse(lhs_s), Sx::parse(rhs_s));
    let mut li = PatInfo { vars: vec![], free: vec![], bound: vec![] }; analyse(&lhs, &mut vec![], &mut li);
    let mut rinfo = PatInfo { vars: vec![], free: vec![], bound: vec![] }; analyse(&rhs, &mut vec![], &mut rinfo);
    for s in &li.bound { assert!(outside || !li.free.contains(s), "harness: rule {} outside the scope", ri); }
    for s in &rinfo.free { assert!(li.free.contains(s) || li.bound.contains(s), "harness: right-only free slot in rule {}", ri); }
    // σ on slots: free pattern slots -> distinct slots of 1..=9; bound ones -> distinct slots of 10..=15;
    // binders that occur only on the right -> 20..
    let mut slots: HashMap<String, u64> = HashMap::new();
    let mut u: Vec<u64> = (1..=9).collect(); rng.shuffle(&mut u);
    for (i, s) in li.free.iter().enumerate() { slots.insert(s.clone(), u[i]); }
    let mut b: Vec<u64> = (10..=15).collect(); rng.shuffle(&mut b);
    for (i, s) in li.bound.iter().enumerate() { slots.insert(s.clone(), b[i]); }
    let mut nx = 20u64;
    for s in rinfo.bound.iter().chain(rinfo.free.iter()) { if !slots.contains_key(s) { slots.insert(s.clone(), nx); nx += 1; } }
    // σ on variables: terms over a few slots of 1..=9 and the bound slots in scope at every occurrence (both sides)
    let nbase = rng.range(1, 4) as usize;
    let mut base: Vec<u64> = li.free.iter().map(|s| slots[s]).collect();
    for x in u.iter().rev().take(nbase) { if !base.contains(x) { base.push(*x); } }
    let mut sigma: HashMap<String, Sx> = HashMap::new();
    for (v, sc) in &li.vars {
        let mut pool = base.clone();
        let rsc: Option<&Vec<String>> = rinfo.vars.iter().find(|x| x.0 == *v).map(|x| &x.1);
        for s in sc { if rsc.map_or(true, |r| r.contains(s)) { pool.push(slots[s]); pool.push(slots[s]); } }
        let t = if rng.chance(1, 3) {
            // a leaf with distinct slots (a candidate for a symmetric class)
            let mut p = pool.clone(); p.sort(); p.dedup(); rng.shuffle(&mut p);
            if p.len() >= 3 && rng.chance(1, 3) { rt(1, p[..3].iter().map(|x| slot_arg(*x)).collect(), vec![]) }
            else if p.len() >= 2 { rt(0, p[..2].iter().map(|x| slot_arg(*x)).collect(), vec![]) }
            else { gen_term(rng, 1, &pool) }
        } else { let d = rng.range(0, 2); gen_term(rng, d, &pool) };
        sigma.insert(v.clone(), t);
    }
    for (v, _) in &rinfo.vars { assert!(sigma.contains_key(v), "harness: right-only variable in rule {}", ri); }
    let t_l = inst(&lhs, &slots, &mut |v| sigma[v].clone());
    let t_r = inst(&rhs, &slots, &mut |v| sigma[v].clone());

    let mut hb = HB { terms: vec![], ops: vec![], nadd: 0, handle_term: vec![] };
    let mut motif = vec!["plant".to_string()];
    // variants: per variable maybe (q, q') with q a subterm of σ(v); σ'(v) = σ(v)[q := q']
    let mut sigma2: HashMap<String, Sx> = sigma.clone();
    let mut unions: Vec<(u64, u64)> = vec![];
    let early = rng.chance(1, 2);   // union before / after the instance is inserted
    for (v, _) in &li.vars {
        if !rng.chance(1, 2) { continue; }
        let s = sigma[v].clone();
        let mut subs = vec![]; subterms(&s, &mut subs);
        let qi = if rng.chance(1, 2) { 0 } else { rng.below(subs.len() as u64) as usize };
        let q = subs[qi].clone();
        let q2 = variant(rng, &q);
        if leaf_slots(&q).is_some() && leaf_slots(&q2).is_some() { if !motif.contains(&"sym".to_string()) { motif.push("sym".to_string()); } }
        let hq = hb.add(q.clone()); let hq2 = hb.add(q2.clone());
        unions.push((hq, hq2));
        let mut idx = qi as i64;
        sigma2.insert(v.clone(), replace_at(&s, &mut idx, &q2));
        if !motif.contains(&"variant".to_string()) { motif.push("variant".to_string()); }
    }
    if early { for (i, j) in unions.drain(..) { hb.union(i, j); } }
    // the inserted instance: per OCCURRENCE of a variable either σ(v) or σ'(v), but never all of them σ(v) when a
    // variant exists (then tL itself is not inserted)
    let has_variant = sigma2.iter().any(|(v, t)| sigma[v] != *t);
    let mut planted = t_l.clone();
    if has_variant {
        for _ in 0..6 {
            let mut pick = |v: &str| -> Sx { if rng.chance(2, 3) { sigma2[v].clone() } else { sigma[v].clone() } };
            planted = inst(&lhs, &slots, &mut pick);
            if planted != t_l { break; }
        }
        if planted == t_l { planted = inst(&lhs, &slots, &mut |v| sigma2[v].clone()); }
    }
    // variants of arbitrary proper subterms of the inserted instance (also of the parts that come from the pattern
    // itself): q ~ q' is asserted, and the occurrence is maybe replaced by q'
    for _ in 0..rng.range(0, 2) {
        let mut subs = vec![]; subterms(&planted, &mut subs);
        if subs.len() < 2 { break; }
        let leafs: Vec<usize> = (1..subs.len()).filter(|i| leaf_slots(&subs[*i]).map_or(false, |(_, sl)| sl.iter().collect::<BTreeSet<_>>().len() >= 2)).collect();
        let qi = if !leafs.is_empty() && rng.chance(2, 3) { *rng.pick(&leafs) } else { rng.range(1, subs.len() as u64 - 1) as usize };
        let q = subs[qi].clone();
        let q2 = variant(rng, &q);
        if leaf_slots(&q).is_some() && leaf_slots(&q2).is_some() { if !motif.contains(&"sym".to_string()) { motif.push("sym".to_string()); } }
        let hq = hb.add(q.clone()); let hq2 = hb.add(q2.clone());
        if early { hb.union(hq, hq2); } else { unions.push((hq, hq2)); }
        if rng.chance(2, 3) { let mut idx = qi as i64; planted = replace_at(&planted, &mut idx, &q2); }
        if !motif.contains(&"sub".to_string()) { motif.push("sub".to_string()); }
    }
    let ctx = match rng.below(6) {
        0 => un(planted.clone()),
        1 => hh(planted.clone(), gen_term(rng, 1, &base)),
        2 => hh(gen_term(rng, 1, &base), planted.clone()),
        3 => lam(18, planted.clone()),
        _ => planted.clone(),
    };
    if ctx != planted { motif.push("context".to_string()); }
    hb.add(ctx);
    hb.add(planted.clone());
    for (i, j) in unions.drain(..) { hb.union(i, j); }
    // noise: a few random terms; balanced unions among the handles; rarely an arbitrary union (may create redundancy)
    for _ in 0..rng.range(0, 2) { let d = rng.range(0, 2); let t = gen_term(rng, d, &base); hb.add(t); }
    if rng.chance(1, 4) && hb.nadd >= 2 {
        let i = rng.below(hb.nadd); let fi = free_slots(&hb.terms[hb.handle_term[i as usize]]);
        let cands: Vec<u64> = (0..hb.nadd).filter(|j| *j != i && free_slots(&hb.terms[hb.handle_term[*j as usize]]) == fi).collect();
        if !cands.is_empty() { let j = *rng.pick(&cands); hb.union(i, j); motif.push("noise-balanced".to_string()); }
    }
    if rng.chance(1, 8) && hb.nadd >= 2 { let i = rng.below(hb.nadd); let j = rng.below(hb.nadd); hb.union(i, j); motif.push("noise-any".to_string()); }
    // the rules: the chosen one, maybe another one before or after it
    let mut rules = vec![sym("rules")];
    let other = rng.below(POOL4.len() as u64) as usize;
    let with_other = rng.chance(1, 3) && other != ri;
    let before = rng.chance(1, 2);
    if with_other && before { rules.push(rule_sx(other as u64, &(POOL4[other].0, POOL4[other].1, None, 0))); }
    let k = rules.len() as u64 - 1;
    rules.push(rule_sx(ri as u64, &(lhs_s, rhs_s, None, 0)));
    if with_other && !before { rules.push(rule_sx(other as u64, &(POOL4[other].0, POOL4[other].1, None, 0))); }
    let mut t = vec![sym("terms")]; t.extend(hb.terms);
    let mut o = vec![sym("ops")]; o.extend(hb.ops);
    lst(vec![sym("eg4"), flags(), lst(t), lst(o), sym(&motif.join("+")), lst(rules), lst(vec![sym("iters"), num(1)]),
             lst(vec![sym("plant"), t_l, t_r, num(k)])]).to_string()
}

pub fn gen(a: &Args) -> Vec<String> {
    crate::eg::BIG_SYMMETRY.store(false, std::sync::atomic::Ordering::Relaxed);
    let outside = a.extra.iter().any(|x| x == "--outside");
    (0..a.count).map(|c| { let mut rng = Rng::new(a.seed, c); gen_case(&mut rng, outside) }).collect()
}

fn loc_sym(loc: &str) -> Sx { sym(&loc.replace(' ', "_").replace("/repo/", "")) }

/// returns (observation, implementation-only extras, schedule)
pub fn run_case(case: &Sx) -> (Sx, Sx, Sx) {
    let c = case.clone();
    let r = in_fresh_thread_limited(move || {
        let l = c.as_lst();
        let mut obs = vec![sym("obs")];
        let mut extra = vec![sym("extra")];
        let mut sched = vec![sym("sched")];
        let mut h = run_history(&c, |_, _| {});
        if let Some((oi, kind, loc)) = &h.err {
            obs.push(lst(vec![sym("res"), sym("err"), sym(kind)]));
            extra.push(lst(vec![sym("history"), num(*oi as u64), sym(kind), loc_sym(loc)]));
            return (lst(obs), lst(extra), lst(sched));
        }
        obs.push(lst(vec![sym("res"), sym("ok")]));
        let specs: Vec<RuleSpec> = l[5].as_lst()[1..].iter().map(dec_rule).collect();
        let plant = l[7].as_lst();
        let (t_l, t_r) = (dec_rterm(&plant[1]), dec_rterm(&plant[2]));
        let built = std::panic::catch_unwind(std::panic::AssertUnwindSafe(|| {
            let mut rws: Vec<Rewrite<LV, ()>> = vec![]; let mut pats: Vec<Pattern<LV>> = vec![];
            for s in &specs {
                rws.push(Rewrite::new(&format!("r{}", s.name), &s.lhs, &s.rhs));
                pats.push(Pattern::<LV>::parse(&s.lhs).unwrap());
            }
            (rws, pats)
        }));
        let (rws, pats) = match built {
            Ok(x) => x,
            Err(_) => { let e = err_of_panic(&mut extra, "rules"); obs.push(lst(vec![sym("rules"), e])); return (lst(obs), lst(extra), lst(sched)); }
        };
        // ---- pre-checks (read-only, no fresh slots drawn)
        let pre = std::panic::catch_unwind(std::panic::AssertUnwindSafe(|| {
            (crate::eg5::has_redundant(&h.eg), lookup_rec_expr(&t_l, &h.eg).is_some(), crate::eg5::has_symmetric(&h.eg))
        }));
        match pre {
            Ok((red, l0, symc)) => { obs.push(lst(vec![sym("pre"), lst(vec![sym("red"), sbool(red)]), lst(vec![sym("lhs"), sbool(l0)])]));
                                      extra.push(lst(vec![sym("stats"), lst(vec![sym("sym"), sbool(symc)])])); }
            Err(_) => { let e = err_of_panic(&mut extra, "pre"); obs.push(e); return (lst(obs), lst(extra), lst(sched)); }
        }
        // ---- one application of the rules
        let r = std::panic::catch_unwind(std::panic::AssertUnwindSafe(|| {
            let mut sch = vec![sym("it")];
            let canon = canon_ids(&h.eg);
            let counts: Vec<u64> = pats.iter().map(|p| {
                let substs = ematch_all(&h.eg, p);
                let mut r = vec![sym("r")]; r.extend(substs.iter().map(|sb| subst_sig(&h.eg, &canon, sb))); sch.push(lst(r));
                substs.len() as u64 }).collect();
            sched.push(lst(sch));
            let changed = apply_rewrites(&mut h.eg, &rws);
            (counts, changed)
        }));
        let (counts, changed) = match r { Ok(x) => x, Err(_) => { let e = err_of_panic(&mut extra, "iteration"); obs.push(e); return (lst(obs), lst(extra), lst(sched)); } };
        let st = std::panic::catch_unwind(std::panic::AssertUnwindSafe(|| {
            let m = eq_matrix(&h).map_err(|(k, l)| format!("{} {}", k, l)).unwrap();
            let mut mv = vec![sym("matches")]; mv.extend(counts.iter().map(|c| num(*c)));
            lst(vec![sym("it"), sbool(changed), lst(mv), progress_sx(&h.eg), sym(&format!("b{}", m)), lst(vec![sym("nodes"), num(h.eg.total_number_of_nodes() as u64)])])
        }));
        match st { Ok(x) => obs.push(x), Err(_) => { let e = err_of_panic(&mut extra, "observe"); obs.push(e); return (lst(obs), lst(extra), lst(sched)); } }
        match check_ok(&h.eg) { Ok(()) => {}, Err((k, loc)) => extra.push(lst(vec![sym("check"), sym(&k), loc_sym(&loc)])) }
        // ---- post-checks: read-only, then add_expr(tR)
        let post = std::panic::catch_unwind(std::panic::AssertUnwindSafe(|| {
            let l1 = lookup_rec_expr(&t_l, &h.eg);
            let r1 = lookup_rec_expr(&t_r, &h.eg);
            let e = match (&l1, &r1) { (Some(a), Some(b)) => h.eg.eq(a, b), _ => false };
            let n0 = h.eg.total_number_of_nodes();
            let hr = h.eg.add_expr(t_r.clone());
            let n1 = h.eg.total_number_of_nodes();
            let eh = match &l1 { Some(a) => h.eg.eq(&hr, a), None => false };
            lst(vec![sym("post"), lst(vec![sym("lhs"), sbool(l1.is_some())]), lst(vec![sym("rhs"), sbool(r1.is_some())]), lst(vec![sym("eq"), sbool(e)]),
                     lst(vec![sym("nodes"), num(n0 as u64), num(n1 as u64)]), lst(vec![sym("eqh"), sbool(eh)])])
        }));
        match post { Ok(x) => obs.push(x), Err(_) => { let e = err_of_panic(&mut extra, "post"); obs.push(e); } }
        (lst(obs), lst(extra), lst(sched))
    });
    r.unwrap_or_else(|e| if e.0 == "timeout" { (timeout_obs(), lst(vec![sym("extra"), sym("timeout")]), lst(vec![sym("sched")])) } else { (sym("harness-thread-panic"), sym("harness-thread-panic"), lst(vec![sym("sched")])) })
}

pub fn main(a: &Args) {
    match a.extra.get(0).map(|s| s.as_str()) {
        Some("gen") => { write_lines(&format!("{}/cases.txt", a.out), &gen(a)); }
        Some("worker") => {
            worker_loop(|l| {
                let mut c = Sx::parse(l);
                let (o, e, x) = run_case(&c);
                if let Sx::Lst(v) = &mut c { v.push(x); }
                vec![c.to_string(), o.to_string(), e.to_string()]
            });
        }
        Some("run") => {
            let lines: Vec<String> = read_lines(&a.extra[1]).iter().map(|l| { let mut c = Sx::parse(l); if let Sx::Lst(v) = &mut c { v[1] = flags(); v.truncate(8); } c.to_string() }).collect();
            let lim = vec![String::new(), timeout_obs().to_string(), "(extra timeout)".to_string()];
            let rs = isolated_map("eg4", &lines, &lim);
            let mut cases = vec![]; let mut obs = vec![]; let mut extras = vec![];
            for (l, r) in lines.iter().zip(rs) {
                if r[0].is_empty() { let mut c = Sx::parse(l); if let Sx::Lst(v) = &mut c { v.push(lst(vec![sym("sched")])); } cases.push(c.to_string()); } else { cases.push(r[0].clone()); }
                obs.push(r[1].clone()); extras.push(r[2].clone());
            }
            write_lines(&format!("{}/cases.txt", a.out), &cases);
            write_lines(&format!("{}/impl.txt", a.out), &obs);
            write_lines(&format!("{}/extra.txt", a.out), &extras);
        }
        Some("dbg") => {
            let lines = read_lines(&a.extra[1]);
            for l in lines {
                let c = Sx::parse(&l);
                let _ = in_fresh_thread(move || {
                    let l = c.as_lst();
                    let mut h = run_history(&c, |_, _| {});
                    for (i, t) in h.terms.iter().enumerate() { println!("term {}: {:?}", i, t); }
                    println!("ops: {}", l[3]);
                    println!("== history done, err={:?}, handles={:?}", h.err, h.handles);
                    h.eg.dump();
                    let specs: Vec<RuleSpec> = l[5].as_lst()[1..].iter().map(dec_rule).collect();
                    let plant = l[7].as_lst();
                    let (t_l, t_r) = (dec_rterm(&plant[1]), dec_rterm(&plant[2]));
                    println!("tL = {:?}\ntR = {:?}", t_l, t_r);
                    let mut rws: Vec<Rewrite<LV, ()>> = vec![]; let mut pats = vec![];
                    for s in &specs { println!("rule {}: {} -> {}", s.name, s.lhs, s.rhs); rws.push(Rewrite::new(&format!("r{}", s.name), &s.lhs, &s.rhs)); pats.push(Pattern::<LV>::parse(&s.lhs).unwrap()); }
                    println!("pre: redundant={} lookup(tL)={:?}", crate::eg5::has_redundant(&h.eg), lookup_rec_expr(&t_l, &h.eg));
                    for (i, p) in pats.iter().enumerate() { for sb in ematch_all(&h.eg, p) { let mut v: Vec<_> = sb.iter().collect(); v.sort_by_key(|x| x.0.clone()); println!("  rule#{} subst {:?}", i, v); } }
                    let ch = apply_rewrites(&mut h.eg, &rws);
                    println!("== after apply_rewrites changed={}", ch);
                    h.eg.dump();
                    println!("post: lookup(tL)={:?} lookup(tR)={:?}", lookup_rec_expr(&t_l, &h.eg), lookup_rec_expr(&t_r, &h.eg));
                });
            }
        }
        Some("pool") => { for (i, r) in POOL4.iter().enumerate() { println!("{} {} => {}", i, r.0, r.1); } }
        _ => { eprintln!("eg4 gen|run <cases>|dbg <cases>|pool"); std::process::exit(2); }
    }
}
