//! C05 "reported matches denote terms that are really in the e-graph"
//! (model side: coq/theories/EGraph/MatchMachine.v, `run_eg5`).
//! One case = (eg5 (cfg c e) (terms T...) (ops OP...) motif (pats (t <pattern>)...) (mpats (mp (eqn (t <var>) (t <node pattern>))...)...)):
//! run the history like `eg`, parse the single patterns, then the multi-patterns (same thread: one slot table),
//! then match every pattern with `ematch_all` / `multi_ematch` and validate every reported substitution with
//! READ-ONLY calls (`lookup`, `eq`, `enodes`, `slots`, `progress`, ...).
//! Observation (impl.txt; the model prints the same line from ITS matches and ITS validation):
//!   (obs (res ok) (p <n> <vars> <inst>) ... (mp <n> <vars> <inst> <eqs>) ...)   one entry per single / multi-pattern
//!     n     number of substitutions `ematch_all` / `multi_ematch` returned
//!     vars  (i)  every pattern variable of the pattern is a key of every substitution
//!     inst  (ii) instantiating the pattern (every equation's node) by every substitution bottom-up with `lookup`
//!           (never inserting) gives a class
//!     eqs   (iii) for every equation `?v == node`: `eq(σ ?v, found class)`
//!   or (obs (res err kind)) / (obs (res ok) (rules (err kind))).
//! Implementation-only part (extra.txt):
//!   (extra (fp <same>) (stats (sym b) (red b) (classes k)) (bad ...) ...)
//!     fp    (iv) the fingerprint of the e-graph (progress, node count, eq matrix over the handles, listing of the
//!           live classes: slots, e-nodes, number of symmetries) is the same before and after all matching calls
//!     bad   one entry per violated flag with the substitution
//! Any flag `false` = the property fails on the implementation for this case.
#![allow(dead_code)]
use crate::c17::{dec_text, text_sx};
use crate::common::*;
use crate::eg::*;
use crate::egr::{flags, POOL};
use crate::lang::*;
use slotted_egraphs::*;

/// extra single patterns (pattern, variant index of the head): repeated variables, binders, nesting
pub const EXTRA: &[(&str, u64)] = &[
    ("(h ?a (h ?a ?b))", 7), ("(h (u ?a) ?a)", 7), ("(h ?a (u ?b))", 7), ("(lam $1 (h ?a ?a))", 8),
    ("(lam $1 (lam $2 ?b))", 8), ("(let $1 (lam $2 ?b) ?b)", 10), ("(h (lam $1 ?a) (lam $1 ?a))", 7),
    ("(k $1 $2 (u ?a) $1)", 12), ("(sum2 ?a $1 $2 (h ?a ?b))", 11), ("(u (h (f $1 $2) (f $2 $1)))", 6),
    ("(h (f $1 $2) ?a)", 7), ("(h (var $1) (var $1))", 7), ("(h (var $1) (var $2))", 7), ("?a", 99),
    ("(g $1 $1 $2)", 1), ("(h (g $1 $2 $3) (g $3 $1 $2))", 7), ("(app ?f ?f)", 9), ("(h (h ?a ?b) (h ?b ?a))", 7),
    ("(lam $1 (var $1))", 8), ("(lam $1 (var $2))", 8), ("(let $1 (var $1) ?t)", 10),
    ("(h (var $1) (lam $1 (var $1)))", 7), ("(u (u ?a))", 6), ("(h ?a ?a)", 7), ("(u ?a)", 6), ("(h ?a ?b)", 7),
    ("(h (f $1 $2) (f $1 $2))", 7), ("(h (u ?a) (u ?a))", 7), ("(lam $1 (h ?a (var $1)))", 8), ("(f $1 $2)", 0),
    ("(g $1 $2 $3)", 1), ("(h (f $1 $2) (g $1 $2 $3))", 7), ("(u (f $1 $2))", 6), ("(u (g $1 $2 $3))", 6),
];

/// multi-patterns: equations `?v == node` of nesting depth one, sharing variables
pub const MPATS: &[&[(&str, &str)]] = &[
    &[("x", "(h ?a ?b)"), ("b", "(u ?a)")],
    &[("x", "(h ?a ?a)")],
    &[("x", "(u ?a)"), ("a", "(u ?b)")],
    &[("x", "(h ?a ?b)"), ("a", "(f $1 $2)"), ("b", "(f $2 $1)")],
    &[("x", "(lam $1 ?b)"), ("b", "(h ?c ?d)")],
    &[("x", "(h ?a ?b)"), ("y", "(u ?a)")],
    &[("x", "(var $1)")],
    &[("x", "(h ?a ?b)"), ("b", "(var $1)"), ("a", "(var $1)")],
    &[("x", "(h ?a ?b)"), ("a", "(var $1)"), ("b", "(var $2)")],
    &[("x", "(u ?x)")],
    &[("x", "(let $1 ?b ?t)"), ("b", "(var $1)")],
    &[("x", "(h ?a ?a)"), ("a", "(f $1 $2)")],
    &[("x", "(k $1 $2 ?a $3)"), ("a", "(u ?b)")],
    &[("x", "(sum2 ?a $1 $2 ?b)"), ("b", "(h ?a ?c)")],
    &[("x", "(g $1 $2 $3)")],
    &[("x", "(f $1 $1)")],
    &[("x", "(h ?a ?b)"), ("b", "(c)")],
    &[("x", "(lam $1 ?b)"), ("y", "(lam $1 ?b)")],
    &[("x", "(h ?a ?b)"), ("a", "(u ?c)"), ("b", "(u ?c)")],
    &[("x", "(u ?a)"), ("a", "(f $1 $2)")],
    &[("x", "(u ?a)"), ("a", "(g $1 $2 $3)")],
    &[("x", "(h ?a ?b)"), ("a", "(h ?b ?c)")],
    &[("x", "(f $1 $2)"), ("y", "(f $2 $1)")],
    &[("x", "(lam $1 ?b)"), ("b", "(var $1)")],
    &[("x", "(lam $1 ?b)"), ("b", "(var $2)")],
];

pub fn pat_vars(p: &Pattern<LV>, out: &mut Vec<String>) {
    match p {
        Pattern::PVar(v) => { if !out.contains(v) { out.push(v.clone()); } }
        Pattern::ENode(_, ch) => { for c in ch { pat_vars(c, out); } }
        Pattern::Subst(b, x, t) => { pat_vars(b, out); pat_vars(x, out); pat_vars(t, out); }
    }
}

/// pattern[subst] by bottom-up `lookup`, never inserting
pub fn inst_lookup(eg: &EGraph<LV>, p: &Pattern<LV>, sb: &Subst) -> Option<AppliedId> {
    match p {
        Pattern::PVar(v) => sb.get(v).cloned(),
        Pattern::ENode(n, ch) => {
            let mut n = n.clone();
            let mut refs: Vec<&mut AppliedId> = n.applied_id_occurrences_mut();
            if refs.len() != ch.len() { return None; }
            for i in 0..refs.len() { *(refs[i]) = inst_lookup(eg, &ch[i], sb)?; }
            eg.lookup(&n)
        }
        Pattern::Subst(..) => None,
    }
}

fn guarded_bool(f: impl FnOnce() -> bool) -> Result<bool, String> {
    std::panic::catch_unwind(std::panic::AssertUnwindSafe(f)).map_err(|_| { let (loc, msg) = take_panic().unwrap_or_default(); format!("{}@{}", panic_kind(&msg), loc.replace(' ', "_").replace("/repo/", "")) })
}

/// some class has a redundant slot: the slots of the class are a strict subset of the slots of one of its e-nodes
pub fn has_redundant(eg: &EGraph<LV>) -> bool {
    for id in eg.ids() {
        let cs = eg.slots(id);
        for n in eg.enodes(id) { if !n.slots().is_subset(&cs) { return true; } }
    }
    false
}
/// some class has a non-trivial symmetry group
pub fn has_symmetric(eg: &EGraph<LV>) -> bool {
    let p = eg.progress();
    p.sum_of_symmetries > p.number_of_live_classes
}

/// listing of the live classes: slots, e-nodes (sorted by their text), number of symmetries; plus progress, node
/// count and the eq matrix over the handles
pub fn fingerprint(h: &Hist) -> String {
    let mut s = String::new();
    s.push_str(&progress_sx(&h.eg).to_string());
    s.push_str(&format!(" nodes={}", h.eg.total_number_of_nodes()));
    s.push_str(&format!(" eqm={:?}", eq_matrix(h)));
    let mut ids = h.eg.ids(); ids.sort_by_key(|i| i.0);
    for id in ids {
        let mut sl: Vec<Slot> = h.eg.slots(id).into_iter().collect(); sl.sort();
        let mut ns: Vec<String> = h.eg.enodes(id).iter().map(|n| format!("{:?}", n)).collect(); ns.sort();
        let ident = h.eg.mk_identity_applied_id(id);
        let f = h.eg.find_applied_id(&ident);
        let vals: Vec<Slot> = f.m.values_vec();
        let mut syms = 0u64;
        for p in perms_of(vals.len()) {
            let mut m = SlotMap::new();
            for (i, (k, _)) in f.m.iter().enumerate() { m.insert(k, vals[p[i]]); }
            if h.eg.eq(&f, &AppliedId::new(f.id, m)) { syms += 1; }
        }
        s.push_str(&format!(" | {}({}) syms={} : {}", id.0, sl.iter().map(|x| x.to_string()).collect::<Vec<_>>().join(","), syms, ns.join(" ; ")));
    }
    s
}

fn subst_dbg(sb: &Subst) -> Sx {
    let mut v: Vec<_> = sb.iter().collect(); v.sort_by_key(|x| x.0.clone());
    sym(&format!("{:?}", v).replace(' ', "").replace('(', "<").replace(')', ">"))
}

pub fn run_case(case: &Sx) -> (Sx, Sx) {
    let c = case.clone();
    let r = in_fresh_thread_limited(move || {
        let l = c.as_lst();
        let mut obs = vec![sym("obs")];
        let mut extra = vec![sym("extra")];
        let h = run_history(&c, |_, _| {});
        if let Some((oi, kind, loc)) = &h.err {
            obs.push(lst(vec![sym("res"), sym("err"), sym(kind)]));
            extra.push(lst(vec![sym("history"), num(*oi as u64), sym(kind), sym(&loc.replace(' ', "_").replace("/repo/", ""))]));
            return (lst(obs), lst(extra));
        }
        obs.push(lst(vec![sym("res"), sym("ok")]));
        let pat_texts: Vec<String> = l[5].as_lst()[1..].iter().map(dec_text).collect();
        let mp_specs: Vec<Vec<(String, String)>> = l[6].as_lst()[1..].iter().map(|m| m.as_lst()[1..].iter().map(|e| { let e = e.as_lst(); (dec_text(&e[1]), dec_text(&e[2])) }).collect()).collect();
        // single patterns first, then the multi-patterns, then the right-hand sides of their equations again
        // (same names again: no effect on the slot table)
        let built = std::panic::catch_unwind(std::panic::AssertUnwindSafe(|| {
            let pats: Vec<Pattern<LV>> = pat_texts.iter().map(|s| Pattern::<LV>::parse(s).unwrap()).collect();
            let mps: Vec<MultiPattern<LV>> = mp_specs.iter().map(|eqs| {
                let s = eqs.iter().map(|(v, n)| format!("?{} == {}", v, n)).collect::<Vec<_>>().join(", ");
                MultiPattern::<LV>::parse(&s).unwrap() }).collect();
            let eqpats: Vec<Vec<(String, Pattern<LV>)>> = mp_specs.iter().map(|eqs| eqs.iter().map(|(v, n)| (v.clone(), Pattern::<LV>::parse(n).unwrap())).collect()).collect();
            (pats, mps, eqpats)
        }));
        let (pats, mps, eqpats) = match built {
            Ok(x) => x,
            Err(_) => { let e = crate::egr::err_of_panic(&mut extra, "rules"); obs.push(lst(vec![sym("rules"), e])); return (lst(obs), lst(extra)); }
        };
        let fp0 = std::panic::catch_unwind(std::panic::AssertUnwindSafe(|| fingerprint(&h))).unwrap_or_else(|_| { take_panic(); "fingerprint-panic-before".to_string() });
        let sym_c = has_symmetric(&h.eg); let red_c = has_redundant(&h.eg);
        // ---- single patterns
        for (pi, p) in pats.iter().enumerate() {
            let substs = match std::panic::catch_unwind(std::panic::AssertUnwindSafe(|| ematch_all(&h.eg, p))) {
                Ok(s) => s,
                Err(_) => { let e = crate::egr::err_of_panic(&mut extra, "ematch"); obs.push(lst(vec![sym("p"), e])); continue; }
            };
            let mut vars = vec![]; pat_vars(p, &mut vars);
            let mut vars_ok = true; let mut inst_ok = true;
            for sb in &substs {
                if !vars.iter().all(|v| sb.contains_key(v)) { vars_ok = false; extra.push(lst(vec![sym("bad"), sym("p"), num(pi as u64), sym("vars"), subst_dbg(sb)])); }
                match guarded_bool(|| inst_lookup(&h.eg, p, sb).is_some()) {
                    Ok(true) => {}
                    Ok(false) => { inst_ok = false; extra.push(lst(vec![sym("bad"), sym("p"), num(pi as u64), sym("inst"), subst_dbg(sb)])); }
                    Err(e) => { inst_ok = false; extra.push(lst(vec![sym("bad"), sym("p"), num(pi as u64), sym("inst-panic"), sym(&e), subst_dbg(sb)])); }
                }
            }
            obs.push(lst(vec![sym("p"), num(substs.len() as u64), sbool(vars_ok), sbool(inst_ok)]));
        }
        // ---- multi-patterns
        for (mi, mp) in mps.iter().enumerate() {
            let substs = match std::panic::catch_unwind(std::panic::AssertUnwindSafe(|| multi_ematch(mp, &h.eg))) {
                Ok(s) => s,
                Err(_) => { let e = crate::egr::err_of_panic(&mut extra, "multi_ematch"); obs.push(lst(vec![sym("mp"), e])); continue; }
            };
            let mut vars: Vec<String> = vec![];
            for (v, p) in &eqpats[mi] { if !vars.contains(v) { vars.push(v.clone()); } pat_vars(p, &mut vars); }
            let (mut vars_ok, mut inst_ok, mut eqs_ok) = (true, true, true);
            for sb in &substs {
                if !vars.iter().all(|v| sb.contains_key(v)) { vars_ok = false; extra.push(lst(vec![sym("bad"), sym("mp"), num(mi as u64), sym("vars"), subst_dbg(sb)])); continue; }
                for (ei, (v, p)) in eqpats[mi].iter().enumerate() {
                    let r = std::panic::catch_unwind(std::panic::AssertUnwindSafe(|| {
                        match inst_lookup(&h.eg, p, sb) { None => (false, false), Some(c) => (true, h.eg.eq(&sb[v], &c)) }
                    }));
                    match r {
                        Ok((true, true)) => {}
                        Ok((false, _)) => { inst_ok = false; extra.push(lst(vec![sym("bad"), sym("mp"), num(mi as u64), sym("inst"), num(ei as u64), subst_dbg(sb)])); }
                        Ok((true, false)) => { eqs_ok = false; extra.push(lst(vec![sym("bad"), sym("mp"), num(mi as u64), sym("eq"), num(ei as u64), subst_dbg(sb)])); }
                        Err(_) => { let (loc, msg) = take_panic().unwrap_or_default(); eqs_ok = false;
                            extra.push(lst(vec![sym("bad"), sym("mp"), num(mi as u64), sym("eq-panic"), num(ei as u64), sym(panic_kind(&msg)), sym(&loc.replace(' ', "_").replace("/repo/", "")), subst_dbg(sb)])); }
                    }
                }
            }
            obs.push(lst(vec![sym("mp"), num(substs.len() as u64), sbool(vars_ok), sbool(inst_ok), sbool(eqs_ok)]));
        }
        let fp1 = std::panic::catch_unwind(std::panic::AssertUnwindSafe(|| fingerprint(&h))).unwrap_or_else(|_| { take_panic(); "fingerprint-panic-after".to_string() });
        extra.push(lst(vec![sym("fp"), sbool(fp0 == fp1)]));
        extra.push(lst(vec![sym("stats"), lst(vec![sym("sym"), sbool(sym_c)]), lst(vec![sym("red"), sbool(red_c)]), lst(vec![sym("classes"), num(h.eg.ids().len() as u64)])]));
        (lst(obs), lst(extra))
    });
    r.unwrap_or_else(|e| if e.0 == "timeout" { (timeout_obs(), lst(vec![sym("extra"), sym("timeout")])) } else { (sym("harness-thread-panic"), sym("harness-thread-panic")) })
}

fn slot_arg(s: u64) -> Sx { lst(vec![sym("s"), num(s)]) }
fn null_app() -> Sx { lst(vec![sym("a"), num(0), lst(vec![sym("m")])]) }
fn rt(v: u64, args: Vec<Sx>, ch: Vec<Sx>) -> Sx { let mut n = vec![sym("nd"), num(v)]; n.extend(args); let mut r = vec![sym("rt"), lst(n)]; r.extend(ch); lst(r) }

fn variants_of(t: &Sx, out: &mut Vec<u64>) {
    if let Sx::Lst(l) = t {
        if l.len() >= 2 { if let (Sx::Sym(h), Sx::Num(v)) = (&l[0], &l[1]) { if h == "nd" && !out.contains(v) { out.push(*v); } } }
        for x in l { variants_of(x, out); }
    }
}

pub fn gen(a: &Args) -> Vec<String> {
    crate::eg::BIG_SYMMETRY.store(false, std::sync::atomic::Ordering::Relaxed);
    let mut cases = vec![];
    for c in 0..a.count {
        let mut rng = Rng::new(a.seed, c);
        let (mut terms, mut ops, motif) = gen_history(&mut rng, false);
        let mut nadd = ops.iter().filter(|o| o.head() == "add").count() as u64;
        let mut add = |t: Sx, terms: &mut Vec<Sx>, ops: &mut Vec<Sx>, nadd: &mut u64| -> u64 {
            let k = match terms.iter().position(|x| *x == t) { Some(k) => k, None => { terms.push(t); terms.len() - 1 } };
            ops.push(lst(vec![sym("add"), num(k as u64)])); *nadd += 1; *nadd - 1
        };
        // a symmetric class, used as a child
        if rng.chance(1, 2) {
            let (v, ar) = *rng.pick(&[(0u64, 2usize), (0, 2), (1, 3), (2, 4)]);
            let base: Vec<u64> = (1..=ar as u64).collect();
            let mut p = base.clone(); rng.shuffle(&mut p); if p == base { p.swap(0, 1); }
            let t0 = rt(v, base.iter().map(|s| slot_arg(*s)).collect(), vec![]);
            let t1 = rt(v, p.iter().map(|s| slot_arg(*s)).collect(), vec![]);
            let h0 = add(t0.clone(), &mut terms, &mut ops, &mut nadd);
            let h1 = add(t1.clone(), &mut terms, &mut ops, &mut nadd);
            ops.push(lst(vec![sym("union"), num(h0), num(h1)]));
            add(rt(6, vec![null_app()], vec![t0.clone()]), &mut terms, &mut ops, &mut nadd);
            add(rt(7, vec![null_app(), null_app()], vec![t0.clone(), t1.clone()]), &mut terms, &mut ops, &mut nadd);
            if rng.chance(1, 2) { add(rt(7, vec![null_app(), null_app()], vec![t1, t0]), &mut terms, &mut ops, &mut nadd); }
        }
        // a redundant class: a term using a slot united with one that does not use it
        if rng.chance(1, 2) {
            let pool: Vec<u64> = vec![1, 2, 3];
            let t = match rng.below(3) {
                0 => rt(5, vec![slot_arg(1)], vec![]),
                1 => rt(7, vec![null_app(), null_app()], vec![rt(5, vec![slot_arg(1)], vec![]), gen_term(&mut rng, 1, &pool)]),
                _ => gen_term(&mut rng, 2, &pool),
            };
            let from = *rng.pick(&pool);
            let t2 = if rng.chance(1, 2) { rename_term(&t, &|s| if s == from { 8 } else { s }) } else { rt(3, vec![], vec![]) };
            let h0 = add(t.clone(), &mut terms, &mut ops, &mut nadd);
            let h1 = add(t2, &mut terms, &mut ops, &mut nadd);
            ops.push(lst(vec![sym("union"), num(h0), num(h1)]));
            add(rt(6, vec![null_app()], vec![t.clone()]), &mut terms, &mut ops, &mut nadd);
            add(rt(7, vec![null_app(), null_app()], vec![t.clone(), rename_term(&t, &|s| if s == from { 7 } else { s })]), &mut terms, &mut ops, &mut nadd);
            add(rt(7, vec![null_app(), null_app()], vec![t.clone(), t.clone()]), &mut terms, &mut ops, &mut nadd);
        }
        // near misses for repeated variables: one (non-symmetric, or only partially symmetric) class used twice by a parent
        // with its slots permuted — `(h ?a ?a)` must NOT match `(h (f $1 $2) (f $2 $1))`
        if rng.chance(1, 2) {
            let (v, ar) = *rng.pick(&[(0u64, 2usize), (1, 3), (1, 3), (2, 4)]);
            let base: Vec<u64> = (1..=ar as u64).collect();
            let mut p = base.clone(); rng.shuffle(&mut p); if p == base { p.swap(0, ar - 1); }
            let t0 = rt(v, base.iter().map(|s| slot_arg(*s)).collect(), vec![]);
            let t1 = rt(v, p.iter().map(|s| slot_arg(*s)).collect(), vec![]);
            if ar >= 3 && rng.chance(1, 2) {
                // a partial symmetry (first two slots) that does not contain every permutation
                let mut q = base.clone(); q.swap(0, 1);
                let tq = rt(v, q.iter().map(|s| slot_arg(*s)).collect(), vec![]);
                let h0 = add(t0.clone(), &mut terms, &mut ops, &mut nadd);
                let h1 = add(tq, &mut terms, &mut ops, &mut nadd);
                ops.push(lst(vec![sym("union"), num(h0), num(h1)]));
            }
            add(rt(7, vec![null_app(), null_app()], vec![t0.clone(), t1.clone()]), &mut terms, &mut ops, &mut nadd);
            if rng.chance(1, 2) { add(rt(7, vec![null_app(), null_app()], vec![rt(6, vec![null_app()], vec![t0.clone()]), t1.clone()]), &mut terms, &mut ops, &mut nadd); }
            if rng.chance(1, 3) { add(rt(7, vec![null_app(), null_app()], vec![rt(7, vec![null_app(), null_app()], vec![t0.clone(), rt(3, vec![], vec![])]), t1.clone()]), &mut terms, &mut ops, &mut nadd); }
        }
        let mut present = vec![]; for t in &terms { variants_of(t, &mut present); }
        present.push(99);
        let mut all: Vec<(&str, u64)> = POOL.iter().map(|r| (r.0, r.3)).collect();
        all.extend(EXTRA.iter().cloned());
        let relevant: Vec<usize> = (0..all.len()).filter(|i| present.contains(&all[*i].1)).collect();
        let np = rng.range(3, 7);
        let mut pats = vec![sym("pats")]; let mut chosen: Vec<usize> = vec![];
        for _ in 0..np {
            let i = if !relevant.is_empty() && rng.chance(4, 5) { *rng.pick(&relevant) } else { rng.below(all.len() as u64) as usize };
            if !chosen.contains(&i) { chosen.push(i); pats.push(text_sx(all[i].0)); }
        }
        // diagonal terms: ONE slot where a multi-pattern names TWO pattern slots (`?a == (var $1), ?b == (var $2)` must not match
        // `(h (var $x) (var $x))`; `(lam $1 ?b), ?b == (var $2)` must not match the identity)
        let mut forced: Vec<usize> = vec![];
        if rng.chance(1, 2) {
            let x = rng.range(1, 3);
            let v = |s: u64| rt(5, vec![slot_arg(s)], vec![]);
            match rng.below(6) {
                // open terms under a binder whose bound slot does not occur in the body: the identity pattern `?x == (lam $1 ?b), ?b == (var $1)`
                // must not match the constant function (the pattern's binder must not capture the free slot)
                4 => { add(rt(8, vec![lst(vec![sym("b"), num(x), null_app()])], vec![v(x + 3)]), &mut terms, &mut ops, &mut nadd); forced.push(23); forced.push(10); }
                5 => { let body = rt(7, vec![null_app(), null_app()], vec![v(x + 3), v(x + 4)]);
                       add(rt(8, vec![lst(vec![sym("b"), num(x), null_app()])], vec![body]), &mut terms, &mut ops, &mut nadd);
                       add(rt(10, vec![lst(vec![sym("b"), num(x), null_app()]), null_app()], vec![v(x + 3), v(x + 4)]), &mut terms, &mut ops, &mut nadd); forced.push(23); forced.push(4); forced.push(10); }
                0 => { add(rt(7, vec![null_app(), null_app()], vec![v(x), v(x)]), &mut terms, &mut ops, &mut nadd); forced.push(8); }
                1 => { add(rt(8, vec![lst(vec![sym("b"), num(x), null_app()])], vec![v(x)]), &mut terms, &mut ops, &mut nadd); forced.push(24); }
                2 => { let f = rt(0, vec![slot_arg(x), slot_arg(x)], vec![]); add(rt(7, vec![null_app(), null_app()], vec![f.clone(), f]), &mut terms, &mut ops, &mut nadd); forced.push(3); forced.push(22); }
                _ => { add(rt(7, vec![null_app(), null_app()], vec![v(x), v(x)]), &mut terms, &mut ops, &mut nadd);
                       add(rt(7, vec![null_app(), null_app()], vec![v(x), v(x + 3)]), &mut terms, &mut ops, &mut nadd); forced.push(8); forced.push(7); }
            }
        }
        let nm = rng.range(1, 3);
        let mut mpats = vec![sym("mpats")]; let mut chosen: Vec<usize> = vec![];
        for i in forced {
            if chosen.contains(&i) { continue; } chosen.push(i);
            let mut m = vec![sym("mp")];
            for (v, n) in MPATS[i] { m.push(lst(vec![sym("eqn"), text_sx(v), text_sx(n)])); }
            mpats.push(lst(m));
        }
        for _ in 0..nm {
            let i = rng.below(MPATS.len() as u64) as usize;
            if chosen.contains(&i) { continue; } chosen.push(i);
            let mut m = vec![sym("mp")];
            for (v, n) in MPATS[i] { m.push(lst(vec![sym("eqn"), text_sx(v), text_sx(n)])); }
            mpats.push(lst(m));
        }
        let mut t = vec![sym("terms")]; t.extend(terms);
        let mut o = vec![sym("ops")]; o.extend(ops);
        cases.push(lst(vec![sym("eg5"), flags(), lst(t), lst(o), sym(&motif), lst(pats), lst(mpats)]).to_string());
    }
    cases
}

pub fn main(a: &Args) {
    match a.extra.get(0).map(|s| s.as_str()) {
        Some("gen") => { write_lines(&format!("{}/cases.txt", a.out), &gen(a)); }
        Some("worker") => {
            worker_loop(|l| {
                let c = Sx::parse(l);
                let (o, e) = run_case(&c);
                vec![o.to_string(), e.to_string()]
            });
        }
        Some("run") => {
            let lines: Vec<String> = read_lines(&a.extra[1]).iter().map(|l| { let mut c = Sx::parse(l); if let Sx::Lst(v) = &mut c { v[1] = flags(); } c.to_string() }).collect();
            let lim = vec![timeout_obs().to_string(), "(extra timeout)".to_string()];
            let rs = isolated_map("eg5", &lines, &lim);
            let mut obs = vec![]; let mut second = vec![];
            for r in rs { obs.push(r[0].clone()); second.push(r[1].clone()); }
            write_lines(&format!("{}/cases.txt", a.out), &lines);
            write_lines(&format!("{}/impl.txt", a.out), &obs);
            write_lines(&format!("{}/extra.txt", a.out), &second);
        }
        Some("dbg") => {
            let lines = read_lines(&a.extra[1]);
            for l in lines {
                let c = Sx::parse(&l);
                let _ = in_fresh_thread(move || {
                    let l = c.as_lst();
                    let mut h = run_history(&c, |_, _| {});
                    println!("== history done, err={:?}, handles={:?}", h.err, h.handles);
                    h.eg.dump();
                    for t in l[5].as_lst()[1..].iter().map(dec_text) {
                        let p = Pattern::<LV>::parse(&t).unwrap();
                        println!("pattern {}", t);
                        for sb in ematch_all(&h.eg, &p) { let mut v: Vec<_> = sb.iter().collect(); v.sort_by_key(|x| x.0.clone()); println!("   subst {:?} -> {:?}", v, inst_lookup(&h.eg, &p, &sb)); }
                    }
                    for m in l[6].as_lst()[1..].iter() {
                        let s = m.as_lst()[1..].iter().map(|e| { let e = e.as_lst(); format!("?{} == {}", dec_text(&e[1]), dec_text(&e[2])) }).collect::<Vec<_>>().join(", ");
                        println!("multipattern {}", s);
                        let mp = MultiPattern::<LV>::parse(&s).unwrap();
                        let substs = multi_ematch(&mp, &h.eg);
                        for sb in &substs { let mut v: Vec<_> = sb.iter().collect(); v.sort_by_key(|x| x.0.clone()); println!("   subst {:?}", v); }
                        // what a client doing `pattern_subst` with such a substitution gets (this part MUTATES the e-graph)
                        if std::env::var("EG5_INSTANTIATE").is_ok() {
                            for sb in &substs { for e in m.as_lst()[1..].iter() { let e = e.as_lst(); let (v, p) = (dec_text(&e[1]), Pattern::<LV>::parse(&dec_text(&e[2])).unwrap());
                                let n0 = h.eg.total_number_of_nodes(); let a = pattern_subst(&mut h.eg, &p, sb); let n1 = h.eg.total_number_of_nodes();
                                println!("   pattern_subst({:?}) = {:?}: nodes {} -> {}, eq with ?{}: {}", p, a, n0, n1, v, h.eg.eq(&a, &sb[&v])); } }
                        }
                    }
                });
            }
        }
        _ => { eprintln!("eg5 gen|run <cases>|dbg <cases>"); std::process::exit(2); }
    }
}
