//! C09: insertion is canonical, lookup agrees with add.  After a history, probe terms are looked up and
//! then inserted: case (eg9 cfg (terms ..) (ops ..) motif (probes (P kind orig-handle|none T) ...)).
use crate::common::*;
use crate::eg::*;
use crate::lang::*;
use slotted_egraphs::*;

fn slots_sx(a: &AppliedId) -> Sx { let mut s: Vec<Slot> = a.slots().into_iter().collect(); s.sort(); set_sx(s.into_iter()) }

pub fn run_case(case: &Sx) -> Sx {
    let c = case.clone();
    let r = in_fresh_thread(move || {
        let mut h = run_history(&c, |_, _| {});
        let mut v = vec![sym("obs")];
        match &h.err {
            Some((oi, kind, loc)) => { v.push(lst(vec![sym("res"), sym("err"), num(*oi as u64), sym(kind), sym(&loc.replace(' ', "_").replace("/repo/", ""))])); return lst(v); }
            None => v.push(lst(vec![sym("res"), sym("ok")])),
        }
        let probes = c.as_lst()[5].as_lst()[1..].to_vec();
        for p in probes {
            let pl = p.as_lst();
            let orig: Option<usize> = match &pl[2] { Sx::Num(n) => Some(*n as usize), _ => None };
            let t = dec_rterm(&pl[3]);
            let o = std::panic::catch_unwind(std::panic::AssertUnwindSafe(|| {
                let p0 = progress_sx(&h.eg); let n0 = h.eg.total_number_of_nodes();
                let lk = lookup_rec_expr(&t, &h.eg);
                let pure = progress_sx(&h.eg) == p0 && h.eg.total_number_of_nodes() == n0;
                let c0 = h.eg.progress().number_of_classes;
                let a = h.eg.add_expr(t.clone());
                let c1 = h.eg.progress().number_of_classes; let n1 = h.eg.total_number_of_nodes();
                let lk_sx = match &lk {
                    Some(x) => lst(vec![sym("found"), slots_sx(&h.eg.find_applied_id(x)), sbool(h.eg.eq(x, &a)),
                                        match orig { Some(k) => sbool(h.eg.eq(x, &h.handles[k])), None => sym("na") }]),
                    None => sym("absent"),
                };
                lst(vec![sym("p"), lk_sx, sbool(pure), num((c1 - c0) as u64), num((n1 as i64 - n0 as i64).unsigned_abs()),
                         slots_sx(&h.eg.find_applied_id(&a)), match orig { Some(k) => sbool(h.eg.eq(&a, &h.handles[k])), None => sym("na") }])
            }));
            match o {
                Ok(x) => v.push(x),
                Err(_) => { let (loc, msg) = take_panic().unwrap_or_default(); v.push(lst(vec![sym("err"), sym(panic_kind(&msg)), sym(&loc.replace(' ', "_").replace("/repo/", ""))])); break; }
            }
        }
        lst(v)
    });
    r.unwrap_or_else(|_| sym("harness-thread-panic"))
}

/// rename only the binders (and the occurrences they bind) of a term s-expression
fn alpha_rename(t: &Sx, env: &mut Vec<(u64, u64)>, ctr: &mut u64) -> Sx {
    fn arg(e: &Sx, env: &mut Vec<(u64, u64)>, ctr: &mut u64, ch: &mut std::slice::Iter<Sx>, out_ch: &mut Vec<Sx>) -> Sx {
        let l = e.as_lst();
        match l[0].as_sym() {
            "s" => { let s = l[1].as_num(); let r = env.iter().rev().find(|(a, _)| *a == s).map(|(_, b)| *b).unwrap_or(s); lst(vec![sym("s"), num(r)]) }
            "a" => { if let Some(c) = ch.next() { out_ch.push(alpha_rename(c, env, ctr)); } e.clone() }
            "b" => { let s = l[1].as_num(); *ctr += 1; let s2 = 40 + *ctr; env.push((s, s2)); let inner = arg(&l[2], env, ctr, ch, out_ch); env.pop(); lst(vec![sym("b"), num(s2), inner]) }
            _ => e.clone(),
        }
    }
    let l = t.as_lst();
    let nd = l[1].as_lst();
    let mut ch = l[2..].iter();
    let mut out_ch = vec![];
    let mut nv = vec![nd[0].clone(), nd[1].clone()];
    for a in &nd[2..] { nv.push(arg(a, env, ctr, &mut ch, &mut out_ch)); }
    let mut r = vec![sym("rt"), lst(nv)]; r.extend(out_ch); lst(r)
}

fn replace_sub(t: &Sx, from: &Sx, to: &Sx) -> Sx {
    if t == from { return to.clone(); }
    let l = t.as_lst();
    let mut r = vec![l[0].clone(), l[1].clone()];
    for c in &l[2..] { r.push(replace_sub(c, from, to)); }
    lst(r)
}

pub fn gen(a: &Args) -> Vec<String> {
    let mut cases = vec![];
    for c in 0..a.count {
        let mut rng = Rng::new(a.seed, c);
        let (terms, ops, motif) = gen_history(&mut rng, false);
        let hs: Vec<usize> = ops.iter().filter(|o| o.head() == "add").map(|o| o.as_lst()[1].as_num() as usize).collect();
        let unions: Vec<(usize, usize)> = ops.iter().filter(|o| o.head() == "union").map(|o| (o.as_lst()[1].as_num() as usize, o.as_lst()[2].as_num() as usize)).collect();
        let mut probes = vec![sym("probes")];
        for _ in 0..rng.range(3, 7) {
            if hs.is_empty() { break; }
            let k = rng.below(hs.len() as u64) as usize;
            let t = &terms[hs[k]];
            match rng.below(6) {
                0 => probes.push(lst(vec![sym("P"), sym("literal"), num(k as u64), t.clone()])),
                1 => probes.push(lst(vec![sym("P"), sym("alpha"), num(k as u64), alpha_rename(t, &mut vec![], &mut 0)])),
                2 => { // injective renaming of ALL names (bound ones too: harmless) — the result must be the original, renamed
                    let off = 20 + rng.below(3) * 10;
                    probes.push(lst(vec![sym("P"), lst(vec![sym("renamed"), num(off)]), num(k as u64), rename_term(t, &|s| s + off)]));
                }
                3 => { // equal through an earlier union of a subterm
                    if let Some((i, j)) = unions.get(rng.below(unions.len().max(1) as u64) as usize) {
                        let (ti, tj) = (&terms[hs[*i]], &terms[hs[*j]]);
                        let t2 = replace_sub(t, ti, tj);
                        probes.push(lst(vec![sym("P"), sym("via-union"), num(k as u64), t2]));
                    }
                }
                4 => { let wrap = lst(vec![sym("rt"), lst(vec![sym("nd"), num(6), lst(vec![sym("a"), num(0), lst(vec![sym("m")])])]), t.clone()]);
                       probes.push(lst(vec![sym("P"), sym("fresh-parent"), sym("none"), wrap])); }
                _ => { let pool: Vec<u64> = vec![1, 2, 3, 5]; let t2 = gen_term(&mut rng, 2, &pool); probes.push(lst(vec![sym("P"), sym("random"), sym("none"), t2])); }
            }
        }
        let mut t = vec![sym("terms")]; t.extend(terms);
        let mut o = vec![sym("ops")]; o.extend(ops);
        cases.push(lst(vec![sym("eg9"), lst(vec![sym("cfg"), num(if cfg!(feature = "checks") { 1 } else { 0 }), num(0)]), lst(t), lst(o), sym(&motif), lst(probes)]).to_string());
    }
    cases
}

pub fn main(a: &Args) {
    match a.extra.get(0).map(|s| s.as_str()) {
        Some("gen") => { write_lines(&format!("{}/cases.txt", a.out), &gen(a)); }
        Some("run") => {
            let lines = read_lines(&a.extra[1]);
            let mut cases = vec![]; let mut obs = vec![];
            for l in lines { let c = Sx::parse(&l); obs.push(run_case(&c).to_string()); cases.push(c.to_string()); }
            write_lines(&format!("{}/cases.txt", a.out), &cases);
            write_lines(&format!("{}/impl.txt", a.out), &obs);
        }
        _ => { eprintln!("eg9 gen|run <cases>"); std::process::exit(2); }
    }
}
