//! C09: insertion is canonical, lookup agrees with add.  After a history, probe terms are looked up and
//! then inserted: case (eg9 cfg (terms ..) (ops ..) motif (probes (P kind orig-handle|none T) ...)).
use crate::common::*;
use crate::eg::*;
use crate::lang::*;
use slotted_egraphs::*;

fn slots_sx(a: &AppliedId) -> Sx { let mut s: Vec<Slot> = a.slots().into_iter().collect(); s.sort(); set_sx(s.into_iter()) }

fn prog_sx<A: Analysis<LV>>(eg: &EGraph<LV, A>) -> Sx {
    let p = eg.progress();
    lst(vec![sym("prog"), num(p.number_of_classes as u64), num(p.number_of_live_classes as u64), num(p.sum_of_slots as u64), num(p.sum_of_symmetries as u64)])
}

/// look up, then insert, every probe (generic in the analysis: C09 quantifies over all reachable e-graphs)
fn run_probes<A: Analysis<LV>>(eg: &mut EGraph<LV, A>, handles: &[AppliedId], probes: &[Sx], v: &mut Vec<Sx>) {
    for p in probes {
        let pl = p.as_lst();
        let orig: Option<usize> = match &pl[2] { Sx::Num(n) => Some(*n as usize), _ => None };
        let t = dec_rterm(&pl[3]);
        let o = std::panic::catch_unwind(std::panic::AssertUnwindSafe(|| {
            let p0 = prog_sx(eg); let n0 = eg.total_number_of_nodes();
            let lk = lookup_rec_expr(&t, eg);
            let pure = prog_sx(eg) == p0 && eg.total_number_of_nodes() == n0;
            let c0 = eg.progress().number_of_classes;
            let a = eg.add_expr(t.clone());
            let c1 = eg.progress().number_of_classes; let n1 = eg.total_number_of_nodes();
            let lk_sx = match &lk {
                Some(x) => lst(vec![sym("found"), slots_sx(&eg.find_applied_id(x)), sbool(eg.eq(x, &a)),
                                    match orig { Some(k) => sbool(eg.eq(x, &handles[k])), None => sym("na") }]),
                None => sym("absent"),
            };
            // the invocations exactly as returned (no find): how many slot arguments they carry
            let raw = lst(vec![sym("raw"), num(a.m.len() as u64), match &lk { Some(x) => num(x.m.len() as u64), None => sym("na") }]);
            lst(vec![sym("p"), lk_sx, sbool(pure), num((c1 - c0) as u64), num((n1 as i64 - n0 as i64).unsigned_abs()),
                     slots_sx(&eg.find_applied_id(&a)), match orig { Some(k) => sbool(eg.eq(&a, &handles[k])), None => sym("na") }, raw])
        }));
        match o {
            Ok(x) => v.push(x),
            Err(_) => { let (loc, msg) = take_panic().unwrap_or_default(); v.push(lst(vec![sym("err"), sym(panic_kind(&msg)), sym(&loc.replace(' ', "_").replace("/repo/", ""))])); break; }
        }
    }
}

fn res_sx(err: &Option<(usize, String, String)>) -> Sx {
    match err {
        Some((oi, kind, loc)) => lst(vec![sym("res"), sym("err"), num(*oi as u64), sym(kind), sym(&loc.replace(' ', "_").replace("/repo/", ""))]),
        None => lst(vec![sym("res"), sym("ok")]),
    }
}

fn run_with_analysis<A: crate::eg14::An>(c: &Sx) -> Sx {
    let mut h = crate::eg14::run_history_a::<A>(c, |_, _| {});
    let mut v = vec![sym("obs"), res_sx(&h.err)];
    if h.err.is_some() { return lst(v); }
    let probes = c.as_lst()[5].as_lst()[1..].to_vec();
    let hs = h.handles.clone();
    run_probes(&mut h.eg, &hs, &probes, &mut v);
    lst(v)
}

pub fn run_case(case: &Sx) -> Sx {
    let c = case.clone();
    let r = in_fresh_thread(move || {
        // (an K) as 7th element: the same probes on an e-graph that carries an analysis (0 MinSize, 2 Depth)
        let an: Option<u64> = c.as_lst().get(6).and_then(|e| match e { Sx::Lst(l) if l.len() == 2 && l[0].as_sym() == "an" => Some(l[1].as_num()), _ => None });
        match an {
            Some(0) => return run_with_analysis::<crate::eg14::MinSize>(&c),
            Some(_) => return run_with_analysis::<crate::eg14::Depth>(&c),
            None => {}
        }
        let mut h = run_history(&c, |_, _| {});
        let mut v = vec![sym("obs"), res_sx(&h.err)];
        if h.err.is_some() { return lst(v); }
        let probes = c.as_lst()[5].as_lst()[1..].to_vec();
        let hs = h.handles.clone();
        run_probes(&mut h.eg, &hs, &probes, &mut v);
        lst(v)
    });
    r.unwrap_or_else(|_| sym("harness-thread-panic"))
}

/// rename only the binders (and the occurrences they bind) of a term s-expression
fn alpha_rename(t: &Sx, env: &mut Vec<(u64, u64)>, ctr: &mut u64) -> Sx {
    fn arg(e: &Sx, env: &mut Vec<(u64, u64)>, ctr: &mut u64, ch: &mut std::slice::Iter<Sx>, out_ch: &mut Vec<Sx>) -> Sx {
        let l = e.as_lst();
        match l[0].as_sym() {
            "s" => { let s = l[1].as_num(); let r = env.iter().rev().find(|(a, _)| *a == s).map(|(_, b)| *b).unwrap_or(s); lst(vec![sym("s"), num(r)]) }
            "a" => { if let Some(c) = ch.next() { out_ch.push(alpha_rename(c, env, ctr)); } e.clone() }
            "b" => { let s = l[1].as_num(); *ctr += 1; let s2 = 40 + *ctr; env.push((s, s2)); let inner = arg(&l[2], env, ctr, ch, out_ch); env.pop(); lst(vec![sym("b"), num(s2), inner]) }
            _ => e.clone(),
        }
    }
    let l = t.as_lst();
    let nd = l[1].as_lst();
    let mut ch = l[2..].iter();
    let mut out_ch = vec![];
    let mut nv = vec![nd[0].clone(), nd[1].clone()];
    for a in &nd[2..] { nv.push(arg(a, env, ctr, &mut ch, &mut out_ch)); }
    let mut r = vec![sym("rt"), lst(nv)]; r.extend(out_ch); lst(r)
}

fn replace_sub(t: &Sx, from: &Sx, to: &Sx) -> Sx {
    if t == from { return to.clone(); }
    let l = t.as_lst();
    let mut r = vec![l[0].clone(), l[1].clone()];
    for c in &l[2..] { r.push(replace_sub(c, from, to)); }
    lst(r)
}

pub fn gen(a: &Args) -> Vec<String> {
    let mut cases = vec![];
    for c in 0..a.count {
        let mut rng = Rng::new(a.seed, c);
        let with_an = a.extra.iter().any(|x| x == "an");
        let mut planted: Option<u64> = None;
        let (mut terms, mut ops, motif) = gen_history(&mut rng, false);
        if with_an && rng.chance(1, 2) {
            // a parent that uses both classes of a later union, the two of different size (either may survive)
            let pool: Vec<u64> = vec![1, 2];
            let x = gen_term(&mut rng, 0, &pool);
            let small = lst(vec![sym("rt"), lst(vec![sym("nd"), num(6), lst(vec![sym("a"), num(0), lst(vec![sym("m")])])]), x.clone()]);
            let mid = lst(vec![sym("rt"), lst(vec![sym("nd"), num(6), lst(vec![sym("a"), num(0), lst(vec![sym("m")])])]), small.clone()]);
            let big = lst(vec![sym("rt"), lst(vec![sym("nd"), num(7), lst(vec![sym("a"), num(0), lst(vec![sym("m")])]), lst(vec![sym("a"), num(0), lst(vec![sym("m")])])]), mid.clone(), x.clone()]);
            let parent = lst(vec![sym("rt"), lst(vec![sym("nd"), num(7), lst(vec![sym("a"), num(0), lst(vec![sym("m")])]), lst(vec![sym("a"), num(0), lst(vec![sym("m")])])]), small.clone(), big.clone()]);
            let nadd = ops.iter().filter(|o| o.head() == "add").count() as u64;
            let base = terms.len() as u64;
            terms.push(small); terms.push(big); terms.push(parent);
            ops.push(lst(vec![sym("add"), num(base)])); ops.push(lst(vec![sym("add"), num(base + 1)])); ops.push(lst(vec![sym("add"), num(base + 2)]));
            planted = Some(nadd + 2);
            if rng.chance(1, 2) { ops.push(lst(vec![sym("union"), num(nadd), num(nadd + 1)])); } else { ops.push(lst(vec![sym("union"), num(nadd + 1), num(nadd)])); }
        }
        let hs: Vec<usize> = ops.iter().filter(|o| o.head() == "add").map(|o| o.as_lst()[1].as_num() as usize).collect();
        let unions: Vec<(usize, usize)> = ops.iter().filter(|o| o.head() == "union").map(|o| (o.as_lst()[1].as_num() as usize, o.as_lst()[2].as_num() as usize)).collect();
        let mut probes = vec![sym("probes")];
        for _ in 0..rng.range(3, 7) {
            if hs.is_empty() { break; }
            let k = rng.below(hs.len() as u64) as usize;
            let t = &terms[hs[k]];
            match rng.below(6) {
                0 => probes.push(lst(vec![sym("P"), sym("literal"), num(k as u64), t.clone()])),
                1 => probes.push(lst(vec![sym("P"), sym("alpha"), num(k as u64), alpha_rename(t, &mut vec![], &mut 0)])),
                2 => { // injective renaming of ALL names (bound ones too: harmless) — the result must be the original, renamed
                    let off = 20 + rng.below(3) * 10;
                    probes.push(lst(vec![sym("P"), lst(vec![sym("renamed"), num(off)]), num(k as u64), rename_term(t, &|s| s + off)]));
                }
                3 => { // equal through an earlier union of a subterm
                    if let Some((i, j)) = unions.get(rng.below(unions.len().max(1) as u64) as usize) {
                        let (ti, tj) = (&terms[hs[*i]], &terms[hs[*j]]);
                        let t2 = replace_sub(t, ti, tj);
                        probes.push(lst(vec![sym("P"), sym("via-union"), num(k as u64), t2]));
                    }
                }
                4 => { let wrap = lst(vec![sym("rt"), lst(vec![sym("nd"), num(6), lst(vec![sym("a"), num(0), lst(vec![sym("m")])])]), t.clone()]);
                       probes.push(lst(vec![sym("P"), sym("fresh-parent"), sym("none"), wrap])); }
                _ => { let pool: Vec<u64> = vec![1, 2, 3, 5]; let t2 = gen_term(&mut rng, 2, &pool); probes.push(lst(vec![sym("P"), sym("random"), sym("none"), t2])); }
            }
        }
        if let Some(k) = planted { let t = terms[hs[k as usize]].clone(); probes.push(lst(vec![sym("P"), sym("literal"), num(k), t.clone()])); probes.push(lst(vec![sym("P"), lst(vec![sym("renamed"), num(20)]), num(k), rename_term(&t, &|s| s + 20)])); }
        let mut t = vec![sym("terms")]; t.extend(terms);
        let mut o = vec![sym("ops")]; o.extend(ops);
        let cv = vec![sym("eg9"), lst(vec![sym("cfg"), num(if cfg!(feature = "checks") { 1 } else { 0 }), num(0)]), lst(t), lst(o), sym(&motif), lst(probes)];
        let mut cv = cv;
        if with_an { cv.push(lst(vec![sym("an"), num(*rng.pick(&[0u64, 2]))])); }
        cases.push(lst(cv).to_string());
    }
    cases
}

pub fn main(a: &Args) {
    match a.extra.get(0).map(|s| s.as_str()) {
        Some("gen") => { write_lines(&format!("{}/cases.txt", a.out), &gen(a)); }
        Some("run") => {
            let lines = read_lines(&a.extra[1]);
            let mut cases = vec![]; let mut obs = vec![];
            for l in lines { let c = Sx::parse(&l); obs.push(run_case(&c).to_string()); cases.push(c.to_string()); }
            write_lines(&format!("{}/cases.txt", a.out), &cases);
            write_lines(&format!("{}/impl.txt", a.out), &obs);
        }
        _ => { eprintln!("eg9 gen|run <cases>"); std::process::exit(2); }
    }
}
