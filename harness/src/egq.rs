//! Saturation drivers (C15; mirror of coq/theories/Run/Runner.v + RunMachine.v).
//! One case = (egq (cfg c e) (terms T...) (ops OP...) motif (rules R...) (mode run|eqsat|manual)
//!                 (limits <iter> <node>) (hook none|<j>) [(trace ...)]):
//! run the history like `eg`, build the rules like `egr`, then
//!   run    : Runner::run with the limits and one hook that fails (Err(j)) in iteration j,
//!   eqsat  : run_eqsat with the iteration limit and the same hook,
//!   manual : <iter> direct calls of apply_rewrites.
//! The hook records after every iteration what the abstract loop of Runner.v consumes: whether the progress
//! measure moved, total_number_of_nodes, classes.len (= progress().number_of_classes), ids().len; and an
//! independent fingerprint of the e-graph (live classes with slots and canonical e-nodes, the equality matrix
//! over the handles, slot and symmetry sums).
//! Observation: (obs (res ok) (trace (t <changed> <nodes> <classes> <live> <same-fingerprint-as-before>)...)
//!                   (report <iterations> <reason> <nodes> <classes>)        -- run / eqsat
//!                   (final <nodes> <classes> <live>)
//!                   (again <changed> <same>))                              -- one more apply_rewrites afterwards
//! `run` appends the trace to the case: the model (Run/Runner.v instantiated with the trace as `apply`,
//! `nodes`, ... oracles) must produce the same report.
#![allow(dead_code)]
use crate::c17::{dec_text, text_sx};
use crate::common::*;
use crate::eg::*;
use crate::egr::POOL;
use crate::lang::*;
use slotted_egraphs::*;
use std::cell::RefCell;
use std::rc::Rc;

struct RuleSpec { name: u64, lhs: String, rhs: String, cond: Option<(String, String)> }
fn dec_rule(e: &Sx) -> RuleSpec {
    let l = e.as_lst();
    let cond = match &l[4] { Sx::Lst(c) => Some((dec_text(&c[1]), dec_text(&c[2]))), _ => None };
    RuleSpec { name: l[1].as_num(), lhs: dec_text(&l[2]), rhs: dec_text(&l[3]), cond }
}
fn rule_sx(name: u64, r: &(&str, &str, Option<(&str, &str)>, u64)) -> Sx {
    let cond = match r.2 { None => sym("none"), Some((s, v)) => lst(vec![sym("free"), text_sx(s), text_sx(v)]) };
    lst(vec![sym("rule"), num(name), text_sx(r.0), text_sx(r.1), cond])
}

/// independent fingerprint: everything a user can see of the e-graph, names of private slots normalised
pub fn fingerprint(eg: &EGraph<LV>, handles: &[AppliedId]) -> String {
    let mut s = String::new();
    let mut ids = eg.ids(); ids.sort();
    for i in ids {
        let mut sl: Vec<Slot> = eg.slots(i).into_iter().collect(); sl.sort();
        let mut ns: Vec<String> = eg.enodes(i).into_iter().map(|n| format!("{:?}", n.weak_shape().0)).collect(); ns.sort();
        s.push_str(&format!("{:?}{:?}{:?};", i, sl, ns));
    }
    let p = eg.progress();
    s.push_str(&format!("|{} {} {} {}|{}|", p.number_of_classes, p.number_of_live_classes, p.sum_of_slots, p.sum_of_symmetries, eg.total_number_of_nodes()));
    for a in handles { for b in handles { s.push(if eg.eq(a, b) { '1' } else { '0' }); } }
    for a in handles { let f = eg.find_applied_id(a); let mut sl: Vec<Slot> = f.slots().into_iter().collect(); sl.sort(); s.push_str(&format!("{:?}", sl)); }
    s
}

struct Rec { prog: ProgressMeasure, fp: String, trace: Vec<Sx>, k: u64 }

fn record(rec: &Rc<RefCell<Rec>>, eg: &EGraph<LV>, handles: &[AppliedId]) -> u64 {
    let mut r = rec.borrow_mut();
    let p = eg.progress();
    let fp = fingerprint(eg, handles);
    let changed = p != r.prog;
    let same = fp == r.fp;
    r.trace.push(lst(vec![sym("t"), sbool(changed), num(eg.total_number_of_nodes() as u64), num(p.number_of_classes as u64), num(eg.ids().len() as u64), sbool(same)]));
    r.prog = p; r.fp = fp;
    let k = r.k; r.k += 1; k
}

fn reason_sx(r: &StopReason<u64>) -> Sx {
    match r {
        StopReason::Saturated => sym("saturated"),
        StopReason::IterationLimit => sym("iterlimit"),
        StopReason::TimeLimit => sym("timelimit"),
        StopReason::NodeLimit => sym("nodelimit"),
        StopReason::Other(e) => lst(vec![sym("other"), num(*e)]),
    }
}
fn reason_sx_s(r: &StopReason<String>) -> Sx {
    match r {
        StopReason::Saturated => sym("saturated"),
        StopReason::IterationLimit => sym("iterlimit"),
        StopReason::TimeLimit => sym("timelimit"),
        StopReason::NodeLimit => sym("nodelimit"),
        StopReason::Other(e) => lst(vec![sym("other"), num(e.parse().unwrap_or(999))]),
    }
}

fn err_of_panic(extra: &mut Vec<Sx>, what: &str) -> Sx {
    let (loc, msg) = take_panic().unwrap_or_default();
    let kind = if msg.starts_with("harness:") { "harness-error" } else { panic_kind(&msg) };
    extra.push(lst(vec![sym(what), sym(kind), sym(&loc.replace(' ', "_").replace("/repo/", ""))]));
    lst(vec![sym("err"), sym(kind)])
}

/// returns (observation, extras, trace)
pub fn run_case(case: &Sx) -> (Sx, Sx, Sx) {
    let c = case.clone();
    let r = in_fresh_thread_limited(move || {
        let l = c.as_lst();
        let mut obs = vec![sym("obs")];
        let mut extra = vec![sym("extra")];
        let h = run_history(&c, |_, _| {});
        if let Some((oi, kind, loc)) = &h.err {
            obs.push(lst(vec![sym("res"), sym("err"), sym(kind)]));
            extra.push(lst(vec![sym("history"), num(*oi as u64), sym(kind), sym(&loc.replace(' ', "_").replace("/repo/", ""))]));
            return (lst(obs), lst(extra), lst(vec![sym("trace")]));
        }
        obs.push(lst(vec![sym("res"), sym("ok")]));
        let specs: Vec<RuleSpec> = l[5].as_lst()[1..].iter().map(dec_rule).collect();
        let mode = l[6].as_lst()[1].as_sym().to_string();
        let ilim = l[7].as_lst()[1].as_num() as usize;
        let hookj: Option<u64> = match &l[8].as_lst()[1] { Sx::Num(j) => Some(*j), _ => None };
        let mk_rules = || {
            let mut rws: Vec<Rewrite<LV, ()>> = vec![];
            for s in &specs {
                let name = format!("r{}", s.name);
                rws.push(match &s.cond {
                    None => Rewrite::new(&name, &s.lhs, &s.rhs),
                    Some((sl, v)) => { let cnd = slot_free_in::<LV, ()>(sl, v); Rewrite::new_if(&name, &s.lhs, &s.rhs, cnd) }
                });
            }
            rws
        };
        let built = std::panic::catch_unwind(std::panic::AssertUnwindSafe(|| (mk_rules(), mk_rules())));
        let (rws, rws2) = match built { Ok(x) => x, Err(_) => { let e = err_of_panic(&mut extra, "rules"); obs.push(lst(vec![sym("rules"), e])); return (lst(obs), lst(extra), lst(vec![sym("trace")])); } };
        // node limit: a number, or (exact k): EXACTLY the node count the unlimited run has after its k-th iteration (k = 0: after the
        // history), found by a dry run on a second copy; the resolved number is reported in `extra` and written back into the case
        let nlim: usize = match &l[7].as_lst()[2] {
            Sx::Num(n) => *n as usize,
            Sx::Lst(v) => {
                let k = v[1].as_num() as usize;
                let dry = std::panic::catch_unwind(std::panic::AssertUnwindSafe(|| {
                    let h2 = run_history(&c, |_, _| {});
                    let mut eg2 = h2.eg; let rws3 = mk_rules();
                    let mut counts = vec![eg2.total_number_of_nodes()];
                    for _ in 0..(ilim + 2) { apply_rewrites(&mut eg2, &rws3); counts.push(eg2.total_number_of_nodes()); }
                    counts[k.min(counts.len() - 1)]
                }));
                let n = dry.unwrap_or(400);
                extra.push(lst(vec![sym("nlim"), num(n as u64)]));
                n
            }
            _ => 400,
        };
        let Hist { eg, handles, .. } = h;
        let rec = Rc::new(RefCell::new(Rec { prog: eg.progress(), fp: fingerprint(&eg, &handles), trace: vec![], k: 0 }));
        let res = std::panic::catch_unwind(std::panic::AssertUnwindSafe(|| {
            match mode.as_str() {
                "run" => {
                    let (rec2, hs) = (rec.clone(), handles.clone());
                    let mut runner: Runner<LV, (), (), u64> = Runner::new(()).with_egraph(eg).with_iter_limit(ilim).with_node_limit(nlim)
                        .with_time_limit(std::time::Duration::from_secs(3600))
                        .with_hook(move |r: &mut Runner<LV, (), (), u64>| { let k = record(&rec2, &r.egraph, &hs); if Some(k) == hookj { Err(k) } else { Ok(()) } });
                    let rep = runner.run(&rws);
                    let n_iter_records = runner.iterations.len() as u64;
                    let same_stop = match (&runner.stop_reason, &rep.stop_reason) { (Some(a), b) => reason_sx(a) == reason_sx(b), _ => false };
                    (runner.egraph, Some(lst(vec![sym("report"), num(rep.iterations as u64), reason_sx(&rep.stop_reason), num(rep.egraph_nodes as u64), num(rep.egraph_classes as u64)])),
                     vec![lst(vec![sym("runner"), num(n_iter_records), sbool(same_stop)])])
                }
                "eqsat" => {
                    let (rec2, hs) = (rec.clone(), handles.clone());
                    let mut eg = eg;
                    let rep = run_eqsat(&mut eg, rws2, ilim, 3600, move |e: &mut EGraph<LV>| { let k = record(&rec2, e, &hs); if Some(k) == hookj { Err(k.to_string()) } else { Ok(()) } });
                    (eg, Some(lst(vec![sym("report"), num(rep.iterations as u64), reason_sx_s(&rep.stop_reason), num(rep.egraph_nodes as u64), num(rep.egraph_classes as u64)])), vec![])
                }
                _ => {
                    let mut eg = eg;
                    let mut rets = vec![sym("rets")];
                    for _ in 0..ilim {
                        let ch = apply_rewrites(&mut eg, &rws);
                        rets.push(sbool(ch));
                        record(&rec, &eg, &handles);
                        if eg.total_number_of_nodes() > nlim { break; }
                    }
                    (eg, None, vec![lst(rets)])
                }
            }
        }));
        let (mut eg, rep, more) = match res { Ok(x) => x, Err(_) => { let e = err_of_panic(&mut extra, "run"); obs.push(e); let t = rec.borrow().trace.clone(); let mut tr = vec![sym("trace")]; tr.extend(t); return (lst(obs), lst(extra), lst(tr)); } };
        let mut tr = vec![sym("trace")]; tr.extend(rec.borrow().trace.clone());
        obs.push(lst(tr.clone()));
        if let Some(r) = rep { obs.push(r); }
        obs.extend(more);
        let fin = std::panic::catch_unwind(std::panic::AssertUnwindSafe(|| {
            let f = lst(vec![sym("final"), num(eg.total_number_of_nodes() as u64), num(eg.progress().number_of_classes as u64), num(eg.ids().len() as u64)]);
            let before = fingerprint(&eg, &handles);
            let ch = apply_rewrites(&mut eg, &rws);
            let after = fingerprint(&eg, &handles);
            (f, lst(vec![sym("again"), sbool(ch), sbool(before == after)]))
        }));
        match fin { Ok((f, a)) => { obs.push(f); obs.push(a); } Err(_) => { let e = err_of_panic(&mut extra, "again"); obs.push(e); } }
        (lst(obs), lst(extra), lst(tr))
    });
    r.unwrap_or_else(|e| if e.0 == "timeout" { (timeout_obs(), lst(vec![sym("extra"), sym("timeout")]), lst(vec![sym("trace")])) } else { (sym("harness-thread-panic"), sym("harness-thread-panic"), lst(vec![sym("trace")])) })
}

fn flags() -> Sx {
    lst(vec![sym("cfg"), num(if cfg!(feature = "checks") { 1 } else { 0 }), num(if cfg!(feature = "explanations") { 1 } else { 0 })])
}

fn variants_of(t: &Sx, out: &mut Vec<u64>) {
    if let Sx::Lst(l) = t {
        if l.len() >= 2 { if let (Sx::Sym(h), Sx::Num(v)) = (&l[0], &l[1]) { if h == "nd" && !out.contains(v) { out.push(*v); } } }
        for x in l { variants_of(x, out); }
    }
}

pub fn gen(a: &Args) -> Vec<String> {
    crate::eg::BIG_SYMMETRY.store(false, std::sync::atomic::Ordering::Relaxed);
    let mut cases = vec![];
    for c in 0..a.count {
        let mut rng = Rng::new(a.seed ^ 0x5151, c);
        let (terms, ops, motif) = gen_history(&mut rng, false);
        let mut present = vec![]; for t in &terms { variants_of(t, &mut present); }
        present.push(9);
        let relevant: Vec<usize> = (0..POOL.len()).filter(|i| present.contains(&POOL[*i].3)).collect();
        let nrules = rng.range(1, 4);
        let mut chosen: Vec<u64> = vec![];
        for _ in 0..nrules {
            let i = if !relevant.is_empty() && rng.chance(4, 5) { *rng.pick(&relevant) as u64 } else { rng.below(POOL.len() as u64) };
            if !chosen.contains(&i) { chosen.push(i); }
        }
        let mut rules = vec![sym("rules")];
        for i in &chosen { rules.push(rule_sx(*i, &POOL[*i as usize])); }
        let mode = match rng.below(5) { 0 | 1 => "run", 2 | 3 => "eqsat", _ => "manual" };
        let ilim = rng.below(5);
        // node limits: often generous, sometimes tight enough to fire
        let nlim_exact = mode == "run" && rng.chance(1, 3);
        let nlim = if rng.chance(1, 3) { rng.range(3, 30) } else { 400 };
        let hook = if rng.chance(1, 4) { num(rng.below(4)) } else { sym("none") };
        let mut t = vec![sym("terms")]; t.extend(terms);
        let mut o = vec![sym("ops")]; o.extend(ops);
        cases.push(lst(vec![sym("egq"), flags(), lst(t), lst(o), sym(&motif), lst(rules), lst(vec![sym("mode"), sym(mode)]),
                            lst(vec![sym("limits"), num(ilim), if nlim_exact { lst(vec![sym("exact"), num(rng.below(3))]) } else { num(nlim) }]), lst(vec![sym("hook"), hook])]).to_string());
    }
    cases
}

pub fn main(a: &Args) {
    match a.extra.get(0).map(|s| s.as_str()) {
        Some("gen") => { write_lines(&format!("{}/cases.txt", a.out), &gen(a)); }
        Some("worker") => {
            worker_loop(|l| {
                let mut c = Sx::parse(l);
                let (o, e, tr) = run_case(&c);
                let resolved: Option<u64> = match &e { Sx::Lst(ev) => ev.iter().find(|x| matches!(x, Sx::Lst(l) if !l.is_empty() && matches!(&l[0], Sx::Sym(h) if h == "nlim"))).map(|x| x.as_lst()[1].as_num()), _ => None };
                if let Sx::Lst(v) = &mut c {
                    if let Some(n) = resolved { if let Sx::Lst(lim) = &mut v[7] { lim[2] = num(n); } }
                    v.push(tr);
                }
                vec![c.to_string(), o.to_string(), e.to_string()]
            });
        }
        Some("run") => {
            let lines: Vec<String> = read_lines(&a.extra[1]).iter().map(|l| { let mut c = Sx::parse(l); if let Sx::Lst(v) = &mut c { v[1] = flags(); v.truncate(9); } c.to_string() }).collect();
            let lim = vec![String::new(), timeout_obs().to_string(), "(extra timeout)".to_string()];
            let rs = isolated_map("egq", &lines, &lim);
            let mut cases = vec![]; let mut obs = vec![]; let mut extras = vec![];
            for (l, r) in lines.iter().zip(rs) {
                if r[0].is_empty() { let mut c = Sx::parse(l); if let Sx::Lst(v) = &mut c { v.push(lst(vec![sym("trace")])); } cases.push(c.to_string()); } else { cases.push(r[0].clone()); }
                obs.push(r[1].clone()); extras.push(r[2].clone());
            }
            write_lines(&format!("{}/cases.txt", a.out), &cases);
            write_lines(&format!("{}/impl.txt", a.out), &obs);
            write_lines(&format!("{}/extra.txt", a.out), &extras);
        }
        _ => { eprintln!("egq gen|run <cases>"); std::process::exit(2); }
    }
}
