//! Rewriting (mirror of coq/theories/EGraph/Rewrite.v + RewriteMachine.v).
//! One case = (egr (cfg c e) (terms T...) (ops OP...) motif (rules R...) (iters K) [(sched ...)]):
//! run the history like `eg`, build the rules (same thread: slot names are interned per thread; per rule the
//! condition's slot first, then lhs, then rhs), then K times `apply_rewrites`.
//! Rule = (rule <n> (t <lhs code points>) (t <rhs code points>) none | (free (t <slot name>) (t <pvar>))).
//! Observation: (obs (res ok) (it <changed> (matches n...) (prog ...) b<eq bits over the handles> (nodes k)) ...
//!              [(err kind)] [(stopped)])      or (obs (res err kind)) / (obs (res ok) (rules (err kind))).
//! `matches`: the number of substitutions `ematch_all` returns per rule on the state before the iteration.
//! The observation line carries only what the model can produce; locations of panics and the
//! implementation-only consistency check (`check()` after every iteration) go to extra.txt.
//! `run` appends to every case the schedule `(sched (it (r sig...)...)...)`: per iteration and rule the
//! name-free signatures of the substitutions in the order `ematch_all` returned them.  That order follows the
//! iteration order of hash maps and is observable (number_of_classes always; everything with `b[x := t]`
//! right-hand sides), so the model replays it (RewriteMachine.v); without a schedule it uses its own order.
#![allow(dead_code)]
use crate::c17::{dec_text, text_sx};
use crate::common::*;
use crate::eg::*;
use crate::lang::*;
use slotted_egraphs::*;

/// (lhs, rhs, condition `slot_free_in(slot, var)`, variant index of the lhs head)
pub const POOL: &[(&str, &str, Option<(&str, &str)>, u64)] = &[
    /* 0 */ ("(h ?a ?b)", "(h ?b ?a)", None, 7),
    /* 1 */ ("(h (h ?a ?b) ?c)", "(h ?a (h ?b ?c))", None, 7),
    /* 2 */ ("(u (u ?a))", "?a", None, 6),
    /* 3 */ ("(u ?a)", "(h ?a ?a)", None, 6),
    /* 4 */ ("(f $1 $2)", "(f $2 $1)", None, 0),
    /* 5 */ ("(g $1 $2 $3)", "(g $2 $3 $1)", None, 1),
    /* 6 */ ("(app (lam $1 ?b) ?t)", "?b[(var $1) := ?t]", None, 9),
    /* 7 */ ("(let $1 ?b ?t)", "?b[(var $1) := ?t]", None, 10),
    /* 8 */ ("(lam $1 (app ?f (var $1)))", "?f", Some(("1", "f")), 8),
    /* 9 */ ("(var $1)", "(u (var $1))", None, 5),
    /* 10 */ ("(h ?a (c))", "?a", None, 7),
    /* 11 */ ("(c)", "(lam $1 (var $1))", None, 3),
    /* 12 */ ("(let $1 ?b ?t)", "(app (lam $1 ?b) ?t)", None, 10),
    /* 13 */ ("(u ?a)", "(lam $x (app ?a (var $x)))", None, 6),
    /* 14 */ ("(k $1 $2 ?a $3)", "(k $3 $2 ?a $1)", None, 12),
    /* 15 */ ("(h ?a ?a)", "(u ?a)", None, 7),
    /* 16 */ ("(lam $x (app ?f (var $x)))", "?f", None, 8),
    /* 17 */ ("(sum2 ?a $1 $2 ?b)", "(sum2 ?a $2 $1 ?b)", None, 11),
    /* 18 */ ("(f $1 $1)", "(d)", None, 0),
    /* 19 */ ("(f $1 $2)", "(g $1 $2 $1)", None, 0),
    /* 20 */ ("(g4 $1 $2 $3 $4)", "(g4 $2 $1 $4 $3)", None, 2),
    /* 21 */ ("(d)", "(var $1)", None, 4),
    /* 22 */ ("(lam $y (app ?f (var $y)))", "?f", Some(("y", "f")), 8),
    /* 23 */ ("(lam $1 ?b)", "(lam $2 (let $1 ?b (var $2)))", None, 8),
];
/// misuse: a substitution on the lhs, an unbound variable on the rhs, a condition on an unbound variable
pub const BAD: &[(&str, &str, Option<(&str, &str)>, u64)] = &[
    /* 100 */ ("(u ?a[(var $1) := ?b])", "?a", None, 6),
    /* 101 */ ("(u ?a)", "(h ?a ?z)", None, 6),
    /* 102 */ ("(u ?a)", "?a", Some(("1", "zz")), 6),
];

pub struct RuleSpec { pub name: u64, pub lhs: String, pub rhs: String, pub cond: Option<(String, String)> }

pub fn rule_sx(name: u64, r: &(&str, &str, Option<(&str, &str)>, u64)) -> Sx {
    let cond = match r.2 { None => sym("none"), Some((s, v)) => lst(vec![sym("free"), text_sx(s), text_sx(v)]) };
    lst(vec![sym("rule"), num(name), text_sx(r.0), text_sx(r.1), cond])
}
pub fn dec_rule(e: &Sx) -> RuleSpec {
    let l = e.as_lst();
    let cond = match &l[4] { Sx::Lst(c) => Some((dec_text(&c[1]), dec_text(&c[2]))), _ => None };
    RuleSpec { name: l[1].as_num(), lhs: dec_text(&l[2]), rhs: dec_text(&l[3]), cond }
}

pub fn err_of_panic(extra: &mut Vec<Sx>, what: &str) -> Sx {
    let (loc, msg) = take_panic().unwrap_or_default();
    let kind = if msg.starts_with("harness:") { "harness-error" } else { panic_kind(&msg) };
    extra.push(lst(vec![sym(what), sym(kind), sym(&loc.replace(' ', "_").replace("/repo/", ""))]));
    lst(vec![sym("err"), sym(kind)])
}

pub const NODE_LIMIT: usize = 300;

/// a class is named by the smallest id that belongs to it (which id leads a class depends on the order in which
/// pending nodes are processed, i.e. on hash-map order; the allocation order of ids does not)
pub fn canon_ids(eg: &EGraph<LV>) -> Vec<usize> {
    let n = eg.progress().number_of_classes;
    let mut canon = vec![usize::MAX; n];
    for i in 0..n {
        let l = eg.find_applied_id(&AppliedId::new(Id(i), SlotMap::new())).id.0;
        if canon[l] == usize::MAX { canon[l] = i; }
    }
    canon
}

/// a name-free signature of a substitution: per variable (sorted by name) the class, the slots of the
/// invocation that are not fresh (pattern slots; sorted), and the number of fresh ones
fn sig_slot(s: Slot) -> Sx {
    let t = s.to_string();
    match slot_sx(s) { Sx::Num(n) => num(n), _ => lst(vec![sym("s"), text_sx(&t[1..])]) }
}
fn is_fresh_slot(s: Slot) -> bool { matches!(slot_sx(s), Sx::Lst(ref l) if l[0].as_sym() == "f") }
pub fn subst_sig(eg: &EGraph<LV>, canon: &[usize], sb: &Subst) -> Sx {
    let mut vars: Vec<&String> = sb.keys().collect();
    vars.sort();
    lst(vars.into_iter().map(|v| {
        let a = &sb[v];
        let mut sl: Vec<Slot> = a.slots().into_iter().collect(); sl.sort();
        let named: Vec<Sx> = sl.iter().filter(|s| !is_fresh_slot(**s)).map(|s| sig_slot(*s)).collect();
        let nfresh = sl.iter().filter(|s| is_fresh_slot(**s)).count();
        let l = eg.find_applied_id(&AppliedId::new(a.id, SlotMap::new())).id.0;
        lst(vec![text_sx(v), num(canon[l] as u64), lst(named), num(nfresh as u64)])
    }).collect())
}

/// returns (observation, implementation-only extras, schedule).  The schedule lists, per iteration and rule, the
/// signatures of the substitutions in the order `ematch_all` returned them (the order of `class.nodes`, a hash
/// map, shows through): the model replays this order (see RewriteMachine.v).
pub fn run_case(case: &Sx) -> (Sx, Sx, Sx) {
    let c = case.clone();
    let r = in_fresh_thread_limited(move || {
        let l = c.as_lst();
        let mut obs = vec![sym("obs")];
        let mut extra = vec![sym("extra")];
        let mut sched = vec![sym("sched")];
        let mut h = run_history(&c, |_, _| {});
        if let Some((oi, kind, loc)) = &h.err {
            obs.push(lst(vec![sym("res"), sym("err"), sym(kind)]));
            extra.push(lst(vec![sym("history"), num(*oi as u64), sym(kind), sym(&loc.replace(' ', "_").replace("/repo/", ""))]));
            return (lst(obs), lst(extra), lst(sched));
        }
        obs.push(lst(vec![sym("res"), sym("ok")]));
        let specs: Vec<RuleSpec> = l[5].as_lst()[1..].iter().map(dec_rule).collect();
        let iters = l[6].as_lst()[1].as_num();
        // rules: the condition's slot is interned first, then lhs, then rhs (Rewrite::new_if), rule by rule
        let built = std::panic::catch_unwind(std::panic::AssertUnwindSafe(|| {
            let mut rws: Vec<Rewrite<LV, ()>> = vec![];
            let mut pats: Vec<Pattern<LV>> = vec![];
            for s in &specs {
                let name = format!("r{}", s.name);
                let rw = match &s.cond {
                    None => Rewrite::new(&name, &s.lhs, &s.rhs),
                    Some((sl, v)) => { let cnd = slot_free_in::<LV, ()>(sl, v); Rewrite::new_if(&name, &s.lhs, &s.rhs, cnd) }
                };
                rws.push(rw);
                pats.push(Pattern::<LV>::parse(&s.lhs).unwrap());   // same names again: no effect on the slot table
            }
            (rws, pats)
        }));
        let (rws, pats) = match built {
            Ok(x) => x,
            Err(_) => { let e = err_of_panic(&mut extra, "rules"); obs.push(lst(vec![sym("rules"), e])); return (lst(obs), lst(extra), lst(sched)); }
        };
        for it in 0..iters {
            let r = std::panic::catch_unwind(std::panic::AssertUnwindSafe(|| {
                let mut sch = vec![sym("it")];
                let canon = canon_ids(&h.eg);
                let counts: Vec<u64> = pats.iter().map(|p| {
                    let substs = ematch_all(&h.eg, p);
                    let mut r = vec![sym("r")]; r.extend(substs.iter().map(|sb| subst_sig(&h.eg, &canon, sb))); sch.push(lst(r));
                    substs.len() as u64 }).collect();
                sched.push(lst(sch));
                let changed = apply_rewrites(&mut h.eg, &rws);
                (counts, changed)
            }));
            let (counts, changed) = match r { Ok(x) => x, Err(_) => { let e = err_of_panic(&mut extra, "iteration"); obs.push(e); break; } };
            let st = std::panic::catch_unwind(std::panic::AssertUnwindSafe(|| {
                let m = eq_matrix(&h).map_err(|(k, l)| format!("{} {}", k, l)).unwrap();
                let mut mv = vec![sym("matches")]; mv.extend(counts.iter().map(|c| num(*c)));
                lst(vec![sym("it"), sbool(changed), lst(mv), progress_sx(&h.eg), sym(&format!("b{}", m)), lst(vec![sym("nodes"), num(h.eg.total_number_of_nodes() as u64)])])
            }));
            match st { Ok(x) => obs.push(x), Err(_) => { let e = err_of_panic(&mut extra, "observe"); obs.push(e); break; } }
            match check_ok(&h.eg) { Ok(()) => {}, Err((k, loc)) => extra.push(lst(vec![sym("check"), num(it), sym(&k), sym(&loc.replace(' ', "_").replace("/repo/", ""))])) }
            if h.eg.total_number_of_nodes() > NODE_LIMIT { obs.push(lst(vec![sym("stopped")])); break; }
        }
        (lst(obs), lst(extra), lst(sched))
    });
    r.unwrap_or_else(|e| if e.0 == "timeout" { (timeout_obs(), lst(vec![sym("extra"), sym("timeout")]), lst(vec![sym("sched")])) } else { (sym("harness-thread-panic"), sym("harness-thread-panic"), lst(vec![sym("sched")])) })
}

pub fn flags() -> Sx {
    lst(vec![sym("cfg"), num(if cfg!(feature = "checks") { 1 } else { 0 }), num(if cfg!(feature = "explanations") { 1 } else { 0 })])
}

fn variants_of(t: &Sx, out: &mut Vec<u64>) {
    if let Sx::Lst(l) = t {
        if l.len() >= 2 { if let (Sx::Sym(h), Sx::Num(v)) = (&l[0], &l[1]) { if h == "nd" && !out.contains(v) { out.push(*v); } } }
        for x in l { variants_of(x, out); }
    }
}

pub fn gen(a: &Args) -> Vec<String> {
    crate::eg::BIG_SYMMETRY.store(false, std::sync::atomic::Ordering::Relaxed);
    let mut cases = vec![];
    for c in 0..a.count {
        let mut rng = Rng::new(a.seed, c);
        let (terms, ops, motif) = gen_history(&mut rng, false);
        let mut present = vec![]; for t in &terms { variants_of(t, &mut present); }
        present.push(9);   // `app` only comes from other rules
        let relevant: Vec<usize> = (0..POOL.len()).filter(|i| present.contains(&POOL[*i].3)).collect();
        let nrules = rng.range(1, 4);
        let mut chosen: Vec<u64> = vec![];
        for _ in 0..nrules {
            let i = if !relevant.is_empty() && rng.chance(3, 4) { *rng.pick(&relevant) as u64 } else { rng.below(POOL.len() as u64) };
            if !chosen.contains(&i) { chosen.push(i); }
        }
        let mut rules = vec![sym("rules")];
        for i in &chosen { rules.push(rule_sx(*i, &POOL[*i as usize])); }
        if rng.chance(1, 50) { let b = rng.below(BAD.len() as u64); rules.push(rule_sx(100 + b, &BAD[b as usize])); }
        let k = rng.range(1, 3);
        let mut t = vec![sym("terms")]; t.extend(terms);
        let mut o = vec![sym("ops")]; o.extend(ops);
        cases.push(lst(vec![sym("egr"), flags(), lst(t), lst(o), sym(&motif), lst(rules), lst(vec![sym("iters"), num(k)])]).to_string());
    }
    cases
}

pub fn main(a: &Args) {
    match a.extra.get(0).map(|s| s.as_str()) {
        Some("gen") => { write_lines(&format!("{}/cases.txt", a.out), &gen(a)); }
        Some("worker") => {
            worker_loop(|l| {
                let mut c = Sx::parse(l);
                let (o, e, x) = run_case(&c);
                if let Sx::Lst(v) = &mut c { v.push(x); }
                vec![c.to_string(), o.to_string(), e.to_string()]
            });
        }
        Some("run") => {
            let lines: Vec<String> = read_lines(&a.extra[1]).iter().map(|l| { let mut c = Sx::parse(l); if let Sx::Lst(v) = &mut c { v[1] = flags(); v.truncate(7); } c.to_string() }).collect();
            let lim = vec![String::new(), timeout_obs().to_string(), "(extra timeout)".to_string()];
            let rs = isolated_map("egr", &lines, &lim);
            let mut cases = vec![]; let mut obs = vec![]; let mut extras = vec![];
            for (l, r) in lines.iter().zip(rs) {
                if r[0].is_empty() { let mut c = Sx::parse(l); if let Sx::Lst(v) = &mut c { v.push(lst(vec![sym("sched")])); } cases.push(c.to_string()); } else { cases.push(r[0].clone()); }
                obs.push(r[1].clone()); extras.push(r[2].clone());
            }
            write_lines(&format!("{}/cases.txt", a.out), &cases);
            write_lines(&format!("{}/impl.txt", a.out), &obs);
            write_lines(&format!("{}/extra.txt", a.out), &extras);
        }
        Some("dbg") => {
            // readable trace of one case file: e-graph dumps, substitutions per rule and iteration
            let lines = read_lines(&a.extra[1]);
            for l in lines {
                let c = Sx::parse(&l);
                let _ = in_fresh_thread(move || {
                    let l = c.as_lst();
                    let mut h = run_history(&c, |_, _| {});
                    println!("== history done, err={:?}, handles={:?}", h.err, h.handles);
                    h.eg.dump();
                    let specs: Vec<RuleSpec> = l[5].as_lst()[1..].iter().map(dec_rule).collect();
                    let iters = l[6].as_lst()[1].as_num();
                    let mut rws: Vec<Rewrite<LV, ()>> = vec![]; let mut pats: Vec<Pattern<LV>> = vec![];
                    for s in &specs {
                        let name = format!("r{}", s.name);
                        println!("rule {}: {} -> {} {:?}", s.name, s.lhs, s.rhs, s.cond);
                        let rw = match &s.cond { None => Rewrite::new(&name, &s.lhs, &s.rhs), Some((sl, v)) => { let cnd = slot_free_in::<LV, ()>(sl, v); Rewrite::new_if(&name, &s.lhs, &s.rhs, cnd) } };
                        rws.push(rw); pats.push(Pattern::<LV>::parse(&s.lhs).unwrap());
                    }
                    for it in 0..iters {
                        for (i, p) in pats.iter().enumerate() { for sb in ematch_all(&h.eg, p) { let mut v: Vec<_> = sb.iter().collect(); v.sort_by_key(|x| x.0.clone()); println!("  it {} rule#{} subst {:?}", it, i, v); } }
                        let ch = apply_rewrites(&mut h.eg, &rws);
                        println!("== after iteration {} changed={}", it, ch);
                        h.eg.dump();
                    }
                });
            }
        }
        Some("pool") => {
            for (i, r) in POOL.iter().enumerate() { println!("{} {}", i, rule_sx(i as u64, r)); }
            for (i, r) in BAD.iter().enumerate() { println!("{} {}", 100 + i, rule_sx(100 + i as u64, r)); }
        }
        _ => { eprintln!("egr gen|run <cases>|pool"); std::process::exit(2); }
    }
}
