//! Per-operation observations (C08, C13): after every op the progress measure, the equality matrix over
//! the handles obtained so far, the public slots of every handle, plus implementation-only consistency
//! checks (check(), re-lookup of every e-node, slot coverage, idempotent canonicalisation).
use crate::common::*;
use crate::eg::*;
use crate::lang::*;
use slotted_egraphs::*;

fn consistency(h: &Hist) -> Sx { consistency_g(&h.eg, &h.handles) }

fn consistency_g<A: Analysis<LV>>(eg: &EGraph<LV, A>, handles: &[AppliedId]) -> Sx {
    struct H<'a, A: Analysis<LV>> { eg: &'a EGraph<LV, A>, handles: &'a [AppliedId] }
    let h = H { eg, handles };
    let r = std::panic::catch_unwind(std::panic::AssertUnwindSafe(|| -> Result<(), String> {
        h.eg.check();
        let ids = h.eg.ids();
        let mut seen: std::collections::HashMap<LV, Id> = Default::default();
        for i in &ids {
            let cs = h.eg.slots(*i);
            for n in h.eg.enodes(*i) {
                match h.eg.lookup(&n) {
                    None => return Err(format!("an e-node listed for class {} cannot be looked up", i.0)),
                    Some(a) => if a.id != *i { return Err(format!("an e-node listed for class {} looks up to class {}", i.0, a.id.0)); }
                }
                if !cs.is_subset(&n.slots()) { return Err(format!("an e-node of class {} does not mention all slots of the class", i.0)); }
                let (sh, _) = n.weak_shape();
                if let Some(j) = seen.insert(sh, *i) { if j != *i { return Err(format!("one e-node belongs to the live classes {} and {}", j.0, i.0)); } }
            }
        }
        for a in h.handles {
            let f = h.eg.find_applied_id(a);
            let ff = h.eg.find_applied_id(&f);
            if f != ff { return Err("canonicalising an invocation twice differs from canonicalising it once".to_string()); }
        }
        Ok(())
    }));
    match r {
        Ok(Ok(())) => sym("ok"),
        Ok(Err(m)) => lst(vec![sym("fail"), sym(&m.replace(' ', "_"))]),
        Err(_) => { let (loc, msg) = take_panic().unwrap_or_default(); lst(vec![sym("err"), sym(panic_kind(&msg)), sym(&loc.replace(' ', "_").replace("/repo/", ""))]) }
    }
}

fn step_obs(h: &Hist) -> Sx { step_obs_g(&h.eg, &h.handles) }

fn step_obs_g<A: Analysis<LV>>(eg: &EGraph<LV, A>, handles: &[AppliedId]) -> Sx {
    struct H<'a, A: Analysis<LV>> { eg: &'a EGraph<LV, A>, handles: &'a [AppliedId] }
    let h = H { eg, handles };
    let r = std::panic::catch_unwind(std::panic::AssertUnwindSafe(|| {
        let n = h.handles.len(); let mut m = String::new();
        for i in 0..n { for j in 0..n { m.push(if h.eg.eq(&h.handles[i], &h.handles[j]) { '1' } else { '0' }); } }
        let sl: Vec<Sx> = h.handles.iter().map(|a| { let f = h.eg.find_applied_id(a); let mut s: Vec<Slot> = f.slots().into_iter().collect(); s.sort(); set_sx(s.into_iter()) }).collect();
        let p = h.eg.progress();
        let prog = lst(vec![sym("prog"), num(p.number_of_classes as u64), num(p.number_of_live_classes as u64), num(p.sum_of_slots as u64), num(p.sum_of_symmetries as u64)]);
        lst(vec![sym("st"), prog, sym(&format!("b{}", m)), lst(sl), lst(vec![sym("nodes"), num(h.eg.total_number_of_nodes() as u64)])])
    }));
    match r { Ok(x) => x, Err(_) => { let (loc, msg) = take_panic().unwrap_or_default(); lst(vec![sym("err"), sym(panic_kind(&msg)), sym(&loc.replace(' ', "_").replace("/repo/", ""))]) } }
}

fn run_an<A: crate::eg14::An>(c: &Sx) -> Sx {
    let mut steps = vec![sym("steps")];
    let mut cons = vec![sym("cons")];
    let h = crate::eg14::run_history_a::<A>(c, |h, _| { let o = step_obs_g(&h.eg, &h.handles); let k = consistency_g(&h.eg, &h.handles); h.per_op.push((o, k)); });
    for (o, k) in &h.per_op { steps.push(o.clone()); cons.push(k.clone()); }
    if let Some((_oi, kind, loc)) = &h.err { steps.push(lst(vec![sym("err"), sym(kind), sym(&loc.replace(' ', "_").replace("/repo/", ""))])); }
    lst(vec![sym("obs"), lst(steps), lst(cons)])
}

pub fn run_case(case: &Sx) -> Sx {
    let c = case.clone();
    let r = in_fresh_thread(move || {
        // (an K) as 6th element: the same history on an e-graph that carries an analysis (0 MinSize, otherwise Depth)
        let an: Option<u64> = c.as_lst().get(5).and_then(|e| match e { Sx::Lst(l) if l.len() == 2 && l[0].as_sym() == "an" => Some(l[1].as_num()), _ => None });
        match an { Some(0) => return run_an::<crate::eg14::MinSize>(&c), Some(_) => return run_an::<crate::eg14::Depth>(&c), None => {} }
        // (lazy) as 6th element: NOTHING is observed between the operations (observing canonicalises, and canonicalising compresses
        // union-find paths); at the end, FIRST every handle is canonicalised on its own (result alive, idempotent), then the usual
        // observation and consistency checks, and the final equality matrix is compared with the one of the observed run
        if c.as_lst().get(5).map(|e| e.head() == "lazy").unwrap_or(false) {
            let h = run_history(&c, |_, _| {});
            if let Some((_oi, kind, loc)) = &h.err {
                return lst(vec![sym("obs"), lst(vec![sym("steps"), lst(vec![sym("err"), sym(kind), sym(&loc.replace(' ', "_").replace("/repo/", ""))])]), lst(vec![sym("cons")])]);
            }
            let canon = {
                let r = std::panic::catch_unwind(std::panic::AssertUnwindSafe(|| -> Result<(), String> {
                    for (k, a) in h.handles.iter().enumerate() {
                        let f = h.eg.find_applied_id(a);
                        if !h.eg.is_alive(f.id) { return Err(format!("canonicalising handle {} (first lookup after the history) names class {} which is not alive", k, f.id.0)); }
                        let ff = h.eg.find_applied_id(&f);
                        if f != ff { return Err(format!("canonicalising handle {} twice differs from canonicalising it once (first lookup after the history)", k)); }
                    }
                    Ok(())
                }));
                match r {
                    Ok(Ok(())) => sym("ok"),
                    Ok(Err(m)) => lst(vec![sym("fail"), sym(&m.replace(' ', "_"))]),
                    Err(_) => { let (loc, msg) = take_panic().unwrap_or_default(); lst(vec![sym("err"), sym(panic_kind(&msg)), sym(&loc.replace(' ', "_").replace("/repo/", ""))]) }
                }
            };
            // a second, independent lazy run answers the equality queries as its FIRST lookups
            let h2 = run_history(&c, |_, _| {});
            let first_eq = eq_matrix(&h2);
            let o = step_obs(&h);
            let k = consistency(&h);
            // the observed run: the same history, observed after every operation
            let h3 = run_history(&c, |h, _| { let _ = step_obs(h); });
            let agree = match (first_eq, eq_matrix(&h3)) {
                (Ok(a), Ok(b)) => if a == b { sym("ok") } else {
                    let n = h.handles.len(); let (ab, bb) = (a.as_bytes(), b.as_bytes());
                    let pos = (0..ab.len().min(bb.len())).find(|i| ab[*i] != bb[*i]).unwrap_or(0);
                    lst(vec![sym("fail"), sym(&format!("handles_{}_and_{}_compare_{}_when_asked_first_after_the_history_and_{}_when_every_operation_was_observed", pos / n.max(1), pos % n.max(1), if ab[pos] == b'1' { "equal" } else { "unequal" }, if bb[pos] == b'1' { "equal" } else { "unequal" }))])
                },
                (Err((k, loc)), _) | (_, Err((k, loc))) => lst(vec![sym("err"), sym(&k), sym(&loc.replace(' ', "_").replace("/repo/", ""))]),
            };
            return lst(vec![sym("obs"), lst(vec![sym("steps"), o]), lst(vec![sym("cons"), canon, k, agree])]);
        }
        let mut steps = vec![sym("steps")];
        let mut cons = vec![sym("cons")];
        let h = run_history(&c, |h, _| { let o = step_obs(h); let k = consistency(h); h.per_op.push(lst(vec![o, k])); });
        for p in &h.per_op { let l = p.as_lst(); steps.push(l[0].clone()); cons.push(l[1].clone()); }
        if let Some((_oi, kind, loc)) = &h.err { steps.push(lst(vec![sym("err"), sym(kind), sym(&loc.replace(' ', "_").replace("/repo/", ""))])); }
        lst(vec![sym("obs"), lst(steps), lst(cons)])
    });
    r.unwrap_or_else(|_| sym("harness-thread-panic"))
}

pub fn main(a: &Args) {
    match a.extra.get(0).map(|s| s.as_str()) {
        Some("gen") => {
            if a.extra.iter().any(|x| x == "lazy") { crate::eg::MOTIF_BIAS.store(7, std::sync::atomic::Ordering::Relaxed); }
            let mut lines: Vec<String> = crate::eg::gen(a).into_iter().map(|l| l.replacen("(eg ", "(egs ", 1)).collect();
            if a.extra.iter().any(|x| x == "an") {
                // the same histories on e-graphs that carry an analysis; half of them get a parent that uses both classes of a
                // later union of classes of different size (either may survive)
                lines = lines.into_iter().enumerate().map(|(ci, l)| {
                    let mut rng = Rng::new(a.seed ^ 0xa11, ci as u64);
                    let mut c = Sx::parse(&l);
                    if let Sx::Lst(v) = &mut c {
                        if rng.chance(1, 2) {
                            let na = lst(vec![sym("a"), num(0), lst(vec![sym("m")])]);
                            let un = |t: Sx| lst(vec![sym("rt"), lst(vec![sym("nd"), num(6), na.clone()]), t]);
                            let hh = |x: Sx, y: Sx| lst(vec![sym("rt"), lst(vec![sym("nd"), num(7), na.clone(), na.clone()]), x, y]);
                            let x = gen_term(&mut rng, 0, &[1, 2]);
                            let small = un(x.clone());
                            let big = hh(un(un(x.clone())), x.clone());
                            let parent = hh(small.clone(), big.clone());
                            let nadd = v[3].as_lst()[1..].iter().filter(|o| o.head() == "add").count() as u64;
                            let base = (v[2].as_lst().len() - 1) as u64;
                            if let Sx::Lst(t) = &mut v[2] { t.push(small); t.push(big); t.push(parent); }
                            if let Sx::Lst(o) = &mut v[3] {
                                for k in 0..3 { o.push(lst(vec![sym("add"), num(base + k)])); }
                                if rng.chance(1, 2) { o.push(lst(vec![sym("union"), num(nadd), num(nadd + 1)])); } else { o.push(lst(vec![sym("union"), num(nadd + 1), num(nadd)])); }
                                o.push(lst(vec![sym("add"), num(base + 2)]));
                            }
                        }
                        v.push(lst(vec![sym("an"), num(*rng.pick(&[0u64, 2]))]));
                    }
                    c.to_string()
                }).collect();
            }
            if a.extra.iter().any(|x| x == "lazy") {
                lines = lines.into_iter().map(|l| { let mut c = Sx::parse(&l); if let Sx::Lst(v) = &mut c { v.push(lst(vec![sym("lazy")])); } c.to_string() }).collect();
            }
            write_lines(&format!("{}/cases.txt", a.out), &lines);
        }
        Some("run") => {
            let lines = read_lines(&a.extra[1]);
            let mut cases = vec![]; let mut obs = vec![];
            for l in lines { let c = Sx::parse(&l); obs.push(run_case(&c).to_string()); cases.push(c.to_string()); }
            write_lines(&format!("{}/cases.txt", a.out), &cases);
            write_lines(&format!("{}/impl.txt", a.out), &obs);
        }
        _ => { eprintln!("egs gen|run <cases>"); std::process::exit(2); }
    }
}
