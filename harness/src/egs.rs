//! Per-operation observations (C08, C13): after every op the progress measure, the equality matrix over
//! the handles obtained so far, the public slots of every handle, plus implementation-only consistency
//! checks (check(), re-lookup of every e-node, slot coverage, idempotent canonicalisation).
use crate::common::*;
use crate::eg::*;
use crate::lang::*;
use slotted_egraphs::*;

fn consistency(h: &Hist) -> Sx {
    let r = std::panic::catch_unwind(std::panic::AssertUnwindSafe(|| -> Result<(), String> {
        h.eg.check();
        let ids = h.eg.ids();
        let mut seen: std::collections::HashMap<LV, Id> = Default::default();
        for i in &ids {
            let cs = h.eg.slots(*i);
            for n in h.eg.enodes(*i) {
                match h.eg.lookup(&n) {
                    None => return Err(format!("an e-node listed for class {} cannot be looked up", i.0)),
                    Some(a) => if a.id != *i { return Err(format!("an e-node listed for class {} looks up to class {}", i.0, a.id.0)); }
                }
                if !cs.is_subset(&n.slots()) { return Err(format!("an e-node of class {} does not mention all slots of the class", i.0)); }
                let (sh, _) = n.weak_shape();
                if let Some(j) = seen.insert(sh, *i) { if j != *i { return Err(format!("one e-node belongs to the live classes {} and {}", j.0, i.0)); } }
            }
        }
        for a in &h.handles {
            let f = h.eg.find_applied_id(a);
            let ff = h.eg.find_applied_id(&f);
            if f != ff { return Err("canonicalising an invocation twice differs from canonicalising it once".to_string()); }
        }
        Ok(())
    }));
    match r {
        Ok(Ok(())) => sym("ok"),
        Ok(Err(m)) => lst(vec![sym("fail"), sym(&m.replace(' ', "_"))]),
        Err(_) => { let (loc, msg) = take_panic().unwrap_or_default(); lst(vec![sym("err"), sym(panic_kind(&msg)), sym(&loc.replace(' ', "_").replace("/repo/", ""))]) }
    }
}

fn step_obs(h: &Hist) -> Sx {
    let r = std::panic::catch_unwind(std::panic::AssertUnwindSafe(|| {
        let m = eq_matrix(h).map_err(|(k, l)| format!("{} {}", k, l)).unwrap();
        let sl: Vec<Sx> = h.handles.iter().map(|a| { let f = h.eg.find_applied_id(a); let mut s: Vec<Slot> = f.slots().into_iter().collect(); s.sort(); set_sx(s.into_iter()) }).collect();
        lst(vec![sym("st"), progress_sx(&h.eg), sym(&format!("b{}", m)), lst(sl), lst(vec![sym("nodes"), num(h.eg.total_number_of_nodes() as u64)])])
    }));
    match r { Ok(x) => x, Err(_) => { let (loc, msg) = take_panic().unwrap_or_default(); lst(vec![sym("err"), sym(panic_kind(&msg)), sym(&loc.replace(' ', "_").replace("/repo/", ""))]) } }
}

pub fn run_case(case: &Sx) -> Sx {
    let c = case.clone();
    let r = in_fresh_thread(move || {
        let mut steps = vec![sym("steps")];
        let mut cons = vec![sym("cons")];
        let h = run_history(&c, |h, _| { let o = step_obs(h); let k = consistency(h); h.per_op.push(lst(vec![o, k])); });
        for p in &h.per_op { let l = p.as_lst(); steps.push(l[0].clone()); cons.push(l[1].clone()); }
        if let Some((_oi, kind, loc)) = &h.err { steps.push(lst(vec![sym("err"), sym(kind), sym(&loc.replace(' ', "_").replace("/repo/", ""))])); }
        lst(vec![sym("obs"), lst(steps), lst(cons)])
    });
    r.unwrap_or_else(|_| sym("harness-thread-panic"))
}

pub fn main(a: &Args) {
    match a.extra.get(0).map(|s| s.as_str()) {
        Some("gen") => {
            let lines: Vec<String> = crate::eg::gen(a).into_iter().map(|l| l.replacen("(eg ", "(egs ", 1)).collect();
            write_lines(&format!("{}/cases.txt", a.out), &lines);
        }
        Some("run") => {
            let lines = read_lines(&a.extra[1]);
            let mut cases = vec![]; let mut obs = vec![];
            for l in lines { let c = Sx::parse(&l); obs.push(run_case(&c).to_string()); cases.push(c.to_string()); }
            write_lines(&format!("{}/cases.txt", a.out), &cases);
            write_lines(&format!("{}/impl.txt", a.out), &obs);
        }
        _ => { eprintln!("egs gen|run <cases>"); std::process::exit(2); }
    }
}
