//! Extraction (C06): after a history of insertions and unions, build an `Extractor` for three cost
//! functions and, for every handle of the history, print the best cost of its class together with
//! three validation flags computed on the implementation:
//!   (a) the cost of the extracted term (cost_rec) is the announced best cost,
//!   (b) the extracted term is in the e-graph (lookup_rec_expr) and is equal to the handle,
//!   (c) every free slot of the extracted term is a slot of the handle or a fresh slot (`$f..`).
//! case:        (egt (cfg c e) (terms T...) (ops OP...) motif)
//! observation: (obs (res ok) (cf 0 (h COST a b c) ...) (cf 1 ...) (cf 2 ...))
//!              (obs (res err kind loc))                      history failed
//!              (cf i (err kind loc))                         Extractor::new / extract / a validation panicked
use crate::common::*;
use crate::eg::*;
use crate::lang::*;
use slotted_egraphs::*;

/// cost = 1 + sum over children of 2 * child cost (saturating)
pub struct DepthWeighted;
impl CostFunction<LV> for DepthWeighted {
    type Cost = u64;
    fn cost<C>(&self, enode: &LV, costs: C) -> u64 where C: Fn(Id) -> u64 {
        let mut s: u64 = 1;
        for x in enode.applied_id_occurrences() { s = s.saturating_add(costs(x.id).saturating_mul(2)); }
        s
    }
}

/// weight of an operator: 1 + (variant index mod 3)
pub fn op_weight(n: &LV) -> u64 {
    let v = node_sx(n);
    1 + v.as_lst()[1].as_num() % 3
}

/// cost = w(op) + sum over children of child cost (saturating)
pub struct OpWeighted;
impl CostFunction<LV> for OpWeighted {
    type Cost = u64;
    fn cost<C>(&self, enode: &LV, costs: C) -> u64 where C: Fn(Id) -> u64 {
        let mut s: u64 = op_weight(enode);
        for x in enode.applied_id_occurrences() { s = s.saturating_add(costs(x.id)); }
        s
    }
}

/// free slots of a RecExpr: the applied ids stored in its nodes are place holders; the slots of a child
/// term are visible at the child's position (and may be bound there by a `Bind` of the node).
pub fn free_slots(re: &RecExpr<LV>) -> SmallHashSet<Slot> {
    let mut n = re.node.clone();
    {
        let mut refs: Vec<&mut AppliedId> = n.applied_id_occurrences_mut();
        for i in 0..refs.len() {
            let fs = free_slots(&re.children[i]);
            *(refs[i]) = AppliedId::new(Id(0), SlotMap::identity(&fs));
        }
    }
    n.slots()
}

fn err_sx() -> Sx {
    let (loc, msg) = take_panic().unwrap_or_default();
    if msg.starts_with("harness:") { return sym("harness-error"); }
    lst(vec![sym("err"), sym(panic_kind(&msg)), sym(&loc.replace(' ', "_").replace("/repo/", ""))])
}

fn per_cf<CF: CostFunction<LV, Cost = u64>>(h: &Hist, k: u64, mk: impl Fn() -> CF) -> Sx {
    let r = std::panic::catch_unwind(std::panic::AssertUnwindSafe(|| {
        let ex = Extractor::<LV, CF>::new(&h.eg, mk());
        let cf = mk();
        let mut v = vec![sym("cf"), num(k)];
        for a in &h.handles {
            let best = ex.get_best_cost::<()>(&h.eg.find_applied_id(a));
            let t = ex.extract(a, &h.eg);
            let fa = cf.cost_rec(&t) == best;
            let fb = match lookup_rec_expr(&t, &h.eg) { Some(x) => h.eg.eq(&x, a), None => false };
            let hs = a.slots();
            let fc = free_slots(&t).iter().all(|s| hs.contains(s) || s.to_string().starts_with("$f"));
            v.push(lst(vec![sym("h"), num(best), sbool(fa), sbool(fb), sbool(fc)]));
        }
        lst(v)
    }));
    match r { Ok(x) => x, Err(_) => lst(vec![sym("cf"), num(k), err_sx()]) }
}

pub fn run_case(case: &Sx) -> Sx {
    let c = case.clone();
    let r = in_fresh_thread(move || {
        let h = run_history(&c, |_, _| {});
        let mut v = vec![sym("obs")];
        match &h.err {
            Some((_oi, kind, loc)) => { v.push(lst(vec![sym("res"), sym("err"), sym(kind), sym(&loc.replace(' ', "_").replace("/repo/", ""))])); return lst(v); }
            None => v.push(lst(vec![sym("res"), sym("ok")])),
        }
        v.push(per_cf(&h, 0, || AstSize));
        v.push(per_cf(&h, 1, || DepthWeighted));
        v.push(per_cf(&h, 2, || OpWeighted));
        lst(v)
    });
    r.unwrap_or_else(|_| sym("harness-thread-panic"))
}

/// histories for extraction: the generator of `eg`, keeping mostly those with unions between distinct
/// handles; every third case is forced to one of the motifs symmetry / redundancy / self-reference
pub fn gen(a: &Args) -> Vec<String> {
    let mut cases = vec![];
    for c in 0..a.count {
        let mut tries = 0u64;
        loop {
            let mut rng = Rng::new(a.seed.wrapping_mul(0x2545F4914F6CDD1D).wrapping_add(tries), c);
            let (mut terms, mut ops, motif) = gen_history(&mut rng, false);
            tries += 1;
            // every second case: two compound terms made equal, and parents over them, so that the best
            // cost of a class is decided by the costs of child classes
            if rng.chance(1, 2) {
                let pool: Vec<u64> = vec![1, 2, 3];
                let mut nadd = ops.iter().filter(|o| o.as_lst()[0].as_sym() == "add").count() as u64;
                let mut add = |t: Sx, terms: &mut Vec<Sx>, ops: &mut Vec<Sx>| -> u64 {
                    let k = match terms.iter().position(|x| *x == t) { Some(k) => k, None => { terms.push(t); terms.len() - 1 } };
                    ops.push(lst(vec![sym("add"), num(k as u64)])); nadd += 1; nadd - 1
                };
                let null_app = || lst(vec![sym("a"), num(0), lst(vec![sym("m")])]);
                let mk = |v: u64, ch: Vec<Sx>| { let mut n = vec![sym("nd"), num(v)]; for _ in 0..ch.len() { n.push(null_app()); } let mut r = vec![sym("rt"), lst(n)]; r.extend(ch); lst(r) };
                for _ in 0..rng.range(1, 2) {
                    let (d1, d2) = (rng.range(1, 3), rng.range(1, 3));
                    let t1 = mk(6, vec![gen_term(&mut rng, d1, &pool)]);
                    let t2 = mk(7, vec![gen_term(&mut rng, d2, &pool), gen_term(&mut rng, 1, &pool)]);
                    let h1 = add(t1.clone(), &mut terms, &mut ops);
                    let h2 = add(t2.clone(), &mut terms, &mut ops);
                    ops.push(lst(vec![sym("union"), num(h1), num(h2)]));
                    add(mk(6, vec![t1.clone()]), &mut terms, &mut ops);
                    add(mk(7, vec![t2.clone(), t1.clone()]), &mut terms, &mut ops);
                    add(mk(7, vec![mk(6, vec![t2.clone()]), t2.clone()]), &mut terms, &mut ops);
                }
            }
            let want_motif = c % 3 == 0;
            let good_motif = !want_motif || motif != "random";
            let real_union = ops.iter().any(|o| { let l = o.as_lst(); l[0].as_sym() == "union" && l[1] != l[2] });
            if (good_motif && real_union) || tries > 40 {
                let mut t = vec![sym("terms")]; t.extend(terms);
                let mut o = vec![sym("ops")]; o.extend(ops);
                let flags = lst(vec![sym("cfg"), num(if cfg!(feature = "checks") { 1 } else { 0 }), num(if cfg!(feature = "explanations") { 1 } else { 0 })]);
                cases.push(lst(vec![sym("egt"), flags, lst(t), lst(o), sym(&motif)]).to_string());
                break;
            }
        }
    }
    cases
}

pub fn main(a: &Args) {
    match a.extra.get(0).map(|s| s.as_str()) {
        Some("gen") => { write_lines(&format!("{}/cases.txt", a.out), &gen(a)); }
        Some("run") => {
            let lines = read_lines(&a.extra[1]);
            let mut cases = vec![]; let mut obs = vec![];
            for l in lines { let c = Sx::parse(&l); obs.push(run_case(&c).to_string()); cases.push(c.to_string()); }
            write_lines(&format!("{}/cases.txt", a.out), &cases);
            write_lines(&format!("{}/impl.txt", a.out), &obs);
        }
        Some("probe") => {
            // not part of the correspondence: `get_best_cost` takes no e-graph, so it cannot canonicalise its
            // argument; count the handles of a history whose un-canonicalised id has no table entry
            let lines = read_lines(&a.extra[1]);
            let (mut ncases, mut nh, mut first) = (0u64, 0u64, None);
            for l in lines {
                let c = Sx::parse(&l);
                let c2 = c.clone();
                let r = in_fresh_thread(move || {
                    let h = run_history(&c2, |_, _| {});
                    if h.err.is_some() { return vec![]; }
                    let ex = Extractor::<LV, AstSize>::new(&h.eg, AstSize);
                    let mut out = vec![];
                    for (k, a) in h.handles.iter().enumerate() {
                        let r = std::panic::catch_unwind(std::panic::AssertUnwindSafe(|| ex.get_best_cost::<()>(a)));
                        if r.is_err() { let (loc, msg) = take_panic().unwrap_or_default(); out.push((k, format!("{} {} ({})", panic_kind(&msg), loc, msg))); }
                    }
                    out
                }).unwrap_or_default();
                if !r.is_empty() { ncases += 1; nh += r.len() as u64; if first.is_none() { first = Some((c.to_string(), r[0].clone())); } }
            }
            println!("get_best_cost on the raw handle: cases with a panic {} handles {}", ncases, nh);
            if let Some((c, (k, m))) = first { println!("first: handle {} {}\nCASE {}", k, m, c); }
        }
        _ => { eprintln!("egt gen|run <cases>|probe <cases>"); std::process::exit(2); }
    }
}
