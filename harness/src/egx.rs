//! Explanations: for a history of justified unions, ask for the explanation of equal pairs and export
//! the proof DAG at term level (every equation rendered through get_syn_expr).
use crate::common::*;
use crate::eg::*;
#[allow(unused_imports)]
use crate::lang::*;
#[allow(unused_imports)]
use slotted_egraphs::*;

#[cfg(feature = "explanations")]
fn export_proof(eg: &EGraph<LV>, p: &ProvenEq) -> Sx {
    use std::collections::HashMap as StdMap;
    // post-order over the DAG, one node per distinct Arc
    let mut index: StdMap<*const ProvenEqRaw, usize> = StdMap::new();
    let mut nodes: Vec<Sx> = vec![];
    fn visit(eg: &EGraph<LV>, p: &ProvenEq, index: &mut std::collections::HashMap<*const ProvenEqRaw, usize>, nodes: &mut Vec<Sx>) -> usize {
        let key = std::sync::Arc::as_ptr(p);
        if let Some(i) = index.get(&key) { return *i; }
        let step = match p.proof() {
            Proof::Explicit(ExplicitProof(j)) => match j { Some(s) => lst(vec![sym("explicit"), crate::c17::text_sx(s)]), None => lst(vec![sym("explicit")]) },
            Proof::Reflexivity(_) => lst(vec![sym("refl")]),
            Proof::Symmetry(SymmetryProof(x)) => { let i = visit(eg, x, index, nodes); lst(vec![sym("sym"), num(i as u64)]) }
            Proof::Transitivity(TransitivityProof(x, y)) => { let i = visit(eg, x, index, nodes); let j = visit(eg, y, index, nodes); lst(vec![sym("trans"), num(i as u64), num(j as u64)]) }
            Proof::Congruence(CongruenceProof(cs)) => { let mut v = vec![sym("cong")]; for c in cs { let i = visit(eg, c, index, nodes); v.push(num(i as u64)); } lst(v) }
        };
        let e = p.equ();
        let l = rterm_sx(&eg.get_syn_expr(&e.l));
        let r = rterm_sx(&eg.get_syn_expr(&e.r));
        nodes.push(lst(vec![sym("pn"), l, r, step]));
        index.insert(key, nodes.len() - 1);
        nodes.len() - 1
    }
    visit(eg, p, &mut index, &mut nodes);
    let mut v = vec![sym("proof")]; v.extend(nodes); lst(v)
}

/// case: (egx cfg (terms ...) (ops ...) motif); observation: (obs (res ..) (eqm ..) (expl (i j <proof|err>) ...))
pub fn run_case(case: &Sx) -> Sx {
    let c = case.clone();
    let r = in_fresh_thread(move || {
        #[allow(unused_mut)]
        let mut h = run_history(&c, |_, _| {});
        let mut v = vec![sym("obs")];
        match &h.err {
            Some((oi, kind, loc)) => { v.push(lst(vec![sym("res"), sym("err"), num(*oi as u64), sym(kind), sym(&loc.replace(' ', "_").replace("/repo/", ""))])); return lst(v); }
            None => v.push(lst(vec![sym("res"), sym("ok")])),
        }
        let n = h.handles.len();
        let m = match eq_matrix(&h) { Ok(m) => m, Err((k, loc)) => { v.push(lst(vec![sym("eqm"), sym("err"), sym(&k), sym(&loc.replace(' ', "_").replace("/repo/", ""))])); return lst(v); } };
        v.push(lst(vec![sym("eqm"), num(n as u64), sym(&format!("b{}", m))]));
        #[cfg(feature = "explanations")]
        {
            let bits: Vec<char> = m.chars().collect();
            let mut ex = vec![sym("expl")];
            // one explanation per handle: against the first handle of its equality class (a spanning set;
            // equality of the other pairs follows by symmetry and transitivity)
            let mut budget = 60;
            for j in 0..n {
                let rep = (0..n).find(|i| bits[*i * n + j] == '1').unwrap_or(j);
                let i = rep;
                if i == j || h.handle_term[i] == h.handle_term[j] || budget == 0 { continue; }
                budget -= 1;
                let (ti, tj) = (h.terms[h.handle_term[i]].clone(), h.terms[h.handle_term[j]].clone());
                let r = std::panic::catch_unwind(std::panic::AssertUnwindSafe(|| { let p = h.eg.explain_equivalence(ti, tj); export_proof(&h.eg, &p) }));
                ex.push(match r {
                    Ok(p) => lst(vec![num(i as u64), num(j as u64), p]),
                    Err(_) => { let (loc, msg) = take_panic().unwrap_or_default(); lst(vec![num(i as u64), num(j as u64), lst(vec![sym("err"), sym(panic_kind(&msg)), sym(&loc.replace(' ', "_").replace("/repo/", ""))])]) }
                });
            }
            v.push(lst(ex));
        }
        lst(v)
    });
    r.unwrap_or_else(|_| sym("harness-thread-panic"))
}

pub fn main(a: &Args) {
    match a.extra.get(0).map(|s| s.as_str()) {
        Some("gen") => {
            let mut a2 = Args { seed: a.seed, count: a.count, out: a.out.clone(), extra: a.extra.clone() };
            a2.extra.push("--justified".to_string());
            let lines: Vec<String> = crate::eg::gen(&a2).into_iter().map(|l| l.replacen("(eg ", "(egx ", 1)).collect();
            write_lines(&format!("{}/cases.txt", a.out), &lines);
        }
        Some("run") => {
            let lines = read_lines(&a.extra[1]);
            let mut cases = vec![]; let mut obs = vec![];
            for l in lines {
                let c = Sx::parse(&l);
                obs.push(run_case(&c).to_string());
                cases.push(c.to_string());
            }
            write_lines(&format!("{}/cases.txt", a.out), &cases);
            write_lines(&format!("{}/impl.txt", a.out), &obs);
        }
        _ => { eprintln!("egx gen|run <cases>"); std::process::exit(2); }
    }
}
