//! The harness language LV (mirrored by `sigLV` in coq/theories/Lang/LangMachine.v, variant by
//! variant) and the wire encoding of nodes, applied ids, slots and slot maps.
#![allow(dead_code)]
use crate::common::*;
use slotted_egraphs::*;

define_language! {
    pub enum LV {
        F(Slot, Slot) = "f",
        G(Slot, Slot, Slot) = "g",
        G4(Slot, Slot, Slot, Slot) = "g4",
        C() = "c",
        D() = "d",
        Var(Slot) = "var",
        U(AppliedId) = "u",
        H(AppliedId, AppliedId) = "h",
        Lam(Bind<AppliedId>) = "lam",
        App(AppliedId, AppliedId) = "app",
        Let(Bind<AppliedId>, AppliedId) = "let",
        Sum2(AppliedId, Bind<Bind<AppliedId>>) = "sum2",
        K(Slot, Bind<AppliedId>, Slot) = "k",
        Add(AppliedId, AppliedId) = "add",
        Mul(AppliedId, AppliedId) = "mul",
        Sum(Bind<AppliedId>) = "sum",
        Tag(Slot, AppliedId) = "tag",
        Num(u32),
        Flag(bool),
        Sym(Symbol),
    }
}

// ---- slots ----
pub fn slot_sx(s: Slot) -> Sx {
    let t = s.to_string();
    let t = &t[1..];
    if let Ok(n) = t.parse::<u64>() {
        if t == n.to_string() && n < (1 << 30) { return num(n); }
    }
    if let Some(r) = t.strip_prefix('f') {
        if let Ok(n) = r.parse::<u64>() {
            if r == n.to_string() && n < (1 << 30) - 1 { return lst(vec![sym("f"), num(n)]); }
        }
    }
    // only in threads where (n k) inputs were decoded (and x0..x15 interned first) do the names x<k> stand for (n k)
    if INTERNED.with(|c| c.get()) {
        if let Some(r) = t.strip_prefix('x') {
            if let Ok(n) = r.parse::<u64>() { if r == n.to_string() && n < 16 { return lst(vec![sym("n"), num(n)]); } }
        }
    }
    lst(vec![sym("s"), crate::c17::text_sx(t)])
}
pub fn dec_slot(e: &Sx) -> Slot {
    match e {
        Sx::Num(n) => Slot::numeric(*n as u32),
        Sx::Lst(l) if l[0].as_sym() == "f" => Slot::named(&format!("f{}", l[1].as_num())),
        Sx::Lst(l) if l[0].as_sym() == "s" => Slot::named(&crate::c17::dec_text(&l[1])),
        // (n k): the k-th textual name; `intern_names` makes sure "x<k>" has table index k in this thread
        Sx::Lst(l) if l[0].as_sym() == "n" => { intern_names(); Slot::named(&format!("x{}", l[1].as_num())) }
        _ => panic!("harness: bad slot {}", e),
    }
}
thread_local! { static INTERNED: std::cell::Cell<bool> = std::cell::Cell::new(false); }
/// intern x0..x15 in order, once per thread, before any other textual name
pub fn intern_names() {
    INTERNED.with(|c| { if !c.get() { c.set(true); for k in 0..16 { let _ = Slot::named(&format!("x{}", k)); } } });
}
pub fn map_sx(m: &SlotMap) -> Sx {
    let mut v = vec![sym("m")];
    for (k, x) in m.iter() { v.push(lst(vec![slot_sx(k), slot_sx(x)])); }
    lst(v)
}
pub fn dec_map(e: &Sx) -> SlotMap {
    let mut m = SlotMap::new();
    for p in &e.as_lst()[1..] { let p = p.as_lst(); m.insert(dec_slot(&p[0]), dec_slot(&p[1])); }
    m
}
pub fn set_sx(it: impl Iterator<Item = Slot>) -> Sx { lst(it.map(slot_sx).collect()) }
pub fn appid_sx(a: &AppliedId) -> Sx { lst(vec![sym("a"), num(a.id.0 as u64), map_sx(&a.m)]) }
pub fn dec_appid(e: &Sx) -> AppliedId {
    let l = e.as_lst();
    AppliedId { id: Id(l[1].as_num() as usize), m: dec_map(&l[2]) }
}

// ---- nodes ----
fn sl(e: &Sx) -> Slot { dec_slot(&e.as_lst()[1]) }
fn bind1(e: &Sx) -> Bind<AppliedId> { let l = e.as_lst(); Bind { slot: dec_slot(&l[1]), elem: dec_appid(&l[2]) } }
fn bind2(e: &Sx) -> Bind<Bind<AppliedId>> { let l = e.as_lst(); Bind { slot: dec_slot(&l[1]), elem: bind1(&l[2]) } }

pub fn dec_node(e: &Sx) -> LV {
    let l = e.as_lst();
    let a = &l[2..];
    match l[1].as_num() {
        0 => LV::F(sl(&a[0]), sl(&a[1])),
        1 => LV::G(sl(&a[0]), sl(&a[1]), sl(&a[2])),
        2 => LV::G4(sl(&a[0]), sl(&a[1]), sl(&a[2]), sl(&a[3])),
        3 => LV::C(),
        4 => LV::D(),
        5 => LV::Var(sl(&a[0])),
        6 => LV::U(dec_appid(&a[0])),
        7 => LV::H(dec_appid(&a[0]), dec_appid(&a[1])),
        8 => LV::Lam(bind1(&a[0])),
        9 => LV::App(dec_appid(&a[0]), dec_appid(&a[1])),
        10 => LV::Let(bind1(&a[0]), dec_appid(&a[1])),
        11 => LV::Sum2(dec_appid(&a[0]), bind2(&a[1])),
        12 => LV::K(sl(&a[0]), bind1(&a[1]), sl(&a[2])),
        13 => LV::Add(dec_appid(&a[0]), dec_appid(&a[1])),
        14 => LV::Mul(dec_appid(&a[0]), dec_appid(&a[1])),
        15 => LV::Sum(bind1(&a[0])),
        16 => LV::Tag(sl(&a[0]), dec_appid(&a[1])),
        17 => LV::Num(a[0].as_lst()[1].as_num() as u32),
        18 => LV::Flag(a[0].as_lst()[1].as_sym() == "true"),
        19 => LV::Sym(Symbol::from(crate::c17::dec_text(&a[0].as_lst()[1]))),
        x => panic!("harness: bad variant {}", x),
    }
}

fn s_(s: &Slot) -> Sx { lst(vec![sym("s"), slot_sx(*s)]) }
fn b1(b: &Bind<AppliedId>) -> Sx { lst(vec![sym("b"), slot_sx(b.slot), appid_sx(&b.elem)]) }
fn b2(b: &Bind<Bind<AppliedId>>) -> Sx { lst(vec![sym("b"), slot_sx(b.slot), b1(&b.elem)]) }

pub fn node_sx(n: &LV) -> Sx {
    let (i, args): (u64, Vec<Sx>) = match n {
        LV::F(a, b) => (0, vec![s_(a), s_(b)]),
        LV::G(a, b, c) => (1, vec![s_(a), s_(b), s_(c)]),
        LV::G4(a, b, c, d) => (2, vec![s_(a), s_(b), s_(c), s_(d)]),
        LV::C() => (3, vec![]),
        LV::D() => (4, vec![]),
        LV::Var(a) => (5, vec![s_(a)]),
        LV::U(a) => (6, vec![appid_sx(a)]),
        LV::H(a, b) => (7, vec![appid_sx(a), appid_sx(b)]),
        LV::Lam(a) => (8, vec![b1(a)]),
        LV::App(a, b) => (9, vec![appid_sx(a), appid_sx(b)]),
        LV::Let(a, b) => (10, vec![b1(a), appid_sx(b)]),
        LV::Sum2(a, b) => (11, vec![appid_sx(a), b2(b)]),
        LV::K(a, b, c) => (12, vec![s_(a), b1(b), s_(c)]),
        LV::Add(a, b) => (13, vec![appid_sx(a), appid_sx(b)]),
        LV::Mul(a, b) => (14, vec![appid_sx(a), appid_sx(b)]),
        LV::Sum(a) => (15, vec![b1(a)]),
        LV::Tag(p, a) => (16, vec![s_(p), appid_sx(a)]),
        LV::Num(p) => (17, vec![lst(vec![sym("pu"), num(*p as u64)])]),
        LV::Flag(p) => (18, vec![lst(vec![sym("pb"), sbool(*p)])]),
        LV::Sym(p) => (19, vec![lst(vec![sym("ps"), crate::c17::text_sx(&p.to_string())])]),
    };
    let mut v = vec![sym("nd"), num(i)];
    v.extend(args);
    lst(v)
}

/// field types per variant: 's' slot, 'a' applied id, 'b' Bind<a>, 'B' Bind<Bind<a>>, 'u' u32, 'o' bool, 'y' symbol
pub const VARIANTS: &[(&str, &str)] = &[
    ("f", "ss"), ("g", "sss"), ("g4", "ssss"), ("c", ""), ("d", ""), ("var", "s"), ("u", "a"), ("h", "aa"),
    ("lam", "b"), ("app", "aa"), ("let", "ba"), ("sum2", "aB"), ("k", "sbs"), ("add", "aa"), ("mul", "aa"),
    ("sum", "b"), ("tag", "sa"), ("", "u"), ("", "o"), ("", "y"),
];

pub fn selem_sx(e: &SyntaxElem) -> Sx {
    match e {
        SyntaxElem::String(s) => lst(vec![sym("str"), crate::c17::text_sx(s)]),
        SyntaxElem::AppliedId(a) => appid_sx(a),
        SyntaxElem::Slot(s) => lst(vec![sym("s"), slot_sx(*s)]),
    }
}

/// run `f`, mapping a panic to `(err kind)`
pub fn guarded(f: impl FnOnce() -> Sx) -> Sx {
    match std::panic::catch_unwind(std::panic::AssertUnwindSafe(f)) {
        Ok(x) => x,
        Err(_) => {
            let (_l, m) = take_panic().unwrap_or_default();
            if m.starts_with("harness:") { sym("harness-error") } else { lst(vec![sym("err"), sym(panic_kind(&m))]) }
        }
    }
}
