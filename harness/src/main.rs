//! Correspondence harness: runs the implementation in /repo on generated or replayed
//! cases and prints canonical observation lines (see /verif/DESIGN.md section 6).
mod common;
mod c19;
mod c17;
mod lang;
mod c16;
mod c18;
mod c10;
mod eg;
mod egx;
mod egs;
mod eg9;
mod eg20;
mod egt;
mod eg14;
mod egr;
mod egq;
mod eg3;
mod eg5;
mod eg4;

fn main() {
    common::install_panic_hook();
    let args: Vec<String> = std::env::args().collect();
    if args.len() < 2 {
        eprintln!("usage: verif-harness <component> [--seed N] [--count N] [--out DIR] | replay <cases-file>");
        std::process::exit(2);
    }
    let a = common::parse_args(&args[2..]);
    match args[1].as_str() {
        "c19" => c19::main(&a),
        "c17" => c17::main(&a),
        "c16" => c16::main(&a),
        "c18" => c18::main(&a),
        "c10" => c10::main(&a),
        "eg" => eg::main(&a),
        "egx" => egx::main(&a),
        "egs" => egs::main(&a),
        "eg9" => eg9::main(&a),
        "eg20" => eg20::main(&a),
        "egt" => egt::main(&a),
        "eg14" => eg14::main(&a),
        "egr" => egr::main(&a),
        "egq" => egq::main(&a),
        "eg3" => eg3::main(&a),
        "eg5" => eg5::main(&a),
        "eg4" => eg4::main(&a),
        "features" => {
            println!("checks={} explanations={}", cfg!(feature = "checks"), cfg!(feature = "explanations"));
        }
        x => {
            eprintln!("unknown component {}", x);
            std::process::exit(2);
        }
    }
}
