# lib/core.py — common machinery of bin/check: building (Coq, extraction, harness),
# proof audit, running the correspondence, shrinking, evidence and violation reports.
import os, sys, json, subprocess, time, re, hashlib, shutil, fcntl

VERIF = os.path.dirname(os.path.dirname(os.path.abspath(__file__)))
REPO = os.environ.get('VERIF_REPO', '/repo')
COQ = os.path.join(VERIF, 'coq')
OCAML = os.path.join(VERIF, 'ocaml')
# VERIF_HARNESS_DIR: only for the self-test of the machinery (a copy of harness/ whose path dependency points at a
# scratch worktree with a seeded change); the registered commands never set it and always build against /repo.
HARNESS = os.environ.get('VERIF_HARNESS_DIR', os.path.join(VERIF, 'harness'))
RUN = os.path.join(VERIF, 'run')
GUARD = 'slotted_egraphs_verif'

ALLOWED_AXIOMS = {'functional_extensionality_dep'}   # standard-library axiom (Coq.Logic.FunctionalExtensionality), used by Deriv_sound only

FORBIDDEN = re.compile(r'\b(Admitted|admit|Axiom|Axioms|Parameter|Parameters|Conjecture|Hypothesis|Variable|Unset\s+Guard|bypass_check|Admit\s+Obligations|type-in-type|impredicative-set)\b')


class Broken(Exception):
    """The machinery itself failed (build error etc.).  Reported as a violation of the
    property with no-failing-input-found, naming what no longer checks."""
    def __init__(self, what, detail=''):
        super().__init__(what)
        self.what = what
        self.detail = detail


def sh(cmd, cwd=None, timeout=3600, env=None, stdin=None):
    e = dict(os.environ)
    e['CARGO_NET_OFFLINE'] = 'true'
    if env:
        e.update(env)
    p = subprocess.run(cmd, cwd=cwd, shell=isinstance(cmd, str), env=e, capture_output=True,
                       text=True, timeout=timeout, input=stdin)
    return p.returncode, p.stdout, p.stderr


class Lock:
    def __init__(self, name):
        self.path = os.path.join(VERIF, '.lock-' + name)
    def __enter__(self):
        self.f = open(self.path, 'w')
        fcntl.flock(self.f, fcntl.LOCK_EX)
        return self
    def __exit__(self, *a):
        fcntl.flock(self.f, fcntl.LOCK_UN)
        self.f.close()


# ---------------------------------------------------------------- Coq
def coq_files():
    out = []
    for l in open(os.path.join(COQ, '_CoqProject')):
        l = l.strip()
        if l.endswith('.v'):
            out.append(l)
    return out


def coq_audit_sources():
    """No Admitted/Axiom/... anywhere in the development (comments are stripped first)."""
    bad = []
    roots = [os.path.join(COQ, 'theories'), os.path.join(COQ, 'extraction')]
    for root in roots:
        for d, _, fs in os.walk(root):
            for f in fs:
                if not f.endswith('.v'):
                    continue
                p = os.path.join(d, f)
                src = strip_coq_comments(open(p).read())
                in_section = 0
                for i, line in enumerate(src.split('\n'), 1):
                    if re.match(r'\s*Section\b', line):
                        in_section += 1
                    if re.match(r'\s*End\b', line) and in_section > 0:
                        in_section -= 1
                    for m in FORBIDDEN.finditer(line):
                        w = m.group(1)
                        if w in ('Hypothesis', 'Variable') and in_section > 0:
                            continue
                        bad.append('%s:%d: %s' % (os.path.relpath(p, VERIF), i, w))
    return bad


def strip_coq_comments(s):
    out = []
    depth = 0
    i = 0
    instr = False
    while i < len(s):
        if depth == 0 and s[i] == '"':
            instr = not instr
            out.append(s[i]); i += 1; continue
        if not instr and s.startswith('(*', i):
            depth += 1; i += 2; continue
        if not instr and depth > 0 and s.startswith('*)', i):
            depth -= 1; i += 2; continue
        if depth == 0:
            out.append(s[i])
        elif s[i] == '\n':
            out.append('\n')
        i += 1
    return ''.join(out)


def coq_build(targets, clean=False, log=None):
    """make the given .vo targets (relative to coq/).  Returns the make output."""
    with Lock('coq'):
        if not os.path.exists(os.path.join(COQ, 'Makefile')) or \
           os.path.getmtime(os.path.join(COQ, 'Makefile')) < os.path.getmtime(os.path.join(COQ, '_CoqProject')):
            rc, o, e = sh('coq_makefile -f _CoqProject -o Makefile', cwd=COQ)
            if rc != 0:
                raise Broken('coq_makefile', o + e)
        if clean:
            for t in targets:
                for ext in ('.vo', '.vok', '.vos', '.glob'):
                    try:
                        os.remove(os.path.join(COQ, t[:-3] + ext))
                    except OSError:
                        pass
        rc, o, e = sh(['make', '-j16'] + targets, cwd=COQ, timeout=3000)
        out = o + e
        if log:
            open(log, 'w').write(out)
        if rc != 0:
            m = re.search(r'File "([^"]+)", line (\d+)[^\n]*\n(Error:.*?)(?:\n\n|\Z)', out, re.S)
            what = 'coq build failed'
            if m:
                what = 'coq proof/definition no longer checks: %s line %s' % (m.group(1), m.group(2))
            raise Broken(what, out[-4000:])
        return out


def print_assumptions(vfile):
    """Re-run coqc on a props file (cheap) to capture its Print Assumptions output.
    Returns list of (theorem, text)."""
    rc, o, e = sh(['coqc', '-Q', 'theories', 'SE', '-w', 'none', vfile], cwd=COQ, timeout=1200)
    if rc != 0:
        raise Broken('props file does not compile: ' + vfile, (o + e)[-3000:])
    src = strip_coq_comments(open(os.path.join(COQ, vfile)).read())
    names = re.findall(r'Print Assumptions\s+(\S+?)\s*\.', src)
    blocks = re.split(r'(?=Closed under the global context|Axioms:)', o)
    blocks = [b.strip() for b in blocks if b.strip()]
    if len(blocks) != len(names):
        raise Broken('Print Assumptions output not understood for ' + vfile, o[-3000:])
    return list(zip(names, blocks))


def theorems_of(vfile):
    src = strip_coq_comments(open(os.path.join(COQ, vfile)).read())
    return re.findall(r'^\s*(?:Theorem|Lemma|Corollary)\s+(\S+)', src, re.M)


def audit_props(prop, vfile):
    """Every Theorem in props/<prop>.v: closed by exact/apply of a lemma, followed by Print Assumptions
    that reports no axiom outside the allow-list.  Returns (n_obligations, n_discharged, notes)."""
    thms = theorems_of(vfile)
    pa = print_assumptions(vfile)
    pa_names = [n for n, _ in pa]
    notes = []
    discharged = 0
    for t in thms:
        if t not in pa_names:
            notes.append('theorem %s has no Print Assumptions' % t)
            continue
        txt = dict(pa)[t]
        if txt.startswith('Closed under the global context'):
            discharged += 1
        else:
            axs = set(a.split('.')[-1] for a in re.findall(r'^([A-Za-z_][\w.\']*)\s*$|^([A-Za-z_][\w.\']*)\s+:', txt, re.M) for a in a if a and a != 'Axioms')
            extra = axs - ALLOWED_AXIOMS
            if extra:
                notes.append('theorem %s depends on %s' % (t, ', '.join(sorted(extra))))
            else:
                discharged += 1
    return len(thms), discharged, notes


def check_pins(prop):
    pins = 'theories/props/%s_pins.v' % prop
    if not os.path.exists(os.path.join(COQ, pins)):
        return None
    rc, o, e = sh(['coqc', '-Q', 'theories', 'SE', '-w', 'none', pins], cwd=COQ, timeout=600)
    for ext in ('.vo', '.vok', '.vos', '.glob'):
        try: os.remove(os.path.join(COQ, pins[:-2] + ext))
        except OSError: pass
    if rc != 0:
        raise Broken('pinned statement of %s no longer matches' % prop, (o + e)[-3000:])
    return True


def coqchk_closure(prop, jobs=12, per_module_timeout=2400):
    """Independent re-check (coqchk) of every project module whose .vo is present - in the thorough tier the clean rebuild leaves exactly
    the dependency closure of the property's targets - each with `-norec` (the module is checked, its dependencies are loaded), in
    parallel.  Together this is the recursive check of the closure (the installed standard library and add-on libraries are loaded, not
    re-checked), at a fraction of the wall time.  Returns (summary text, list of (module, output) that coqchk REJECTED).  A module whose
    check does not finish within the time limit is reported in the summary and is not a rejection."""
    import concurrent.futures
    # the dependency closure of props/<prop>.vo and Dispatch.vo, from the dependency file coq_makefile keeps (.Makefile.d);
    # fallback: every .vo present
    deps = {}
    try:
        for line in open(os.path.join(COQ, '.Makefile.d')):
            if ':' not in line:
                continue
            lhs, rhs = line.split(':', 1)
            tg = [x for x in lhs.split() if x.endswith('.vo')]
            if tg:
                deps.setdefault(tg[0], set()).update(x for x in rhs.split() if x.endswith('.vo'))
    except OSError:
        deps = {}
    todo = ['theories/props/%s.vo' % prop, 'theories/Dispatch.vo']
    clo = set()
    while todo:
        x = todo.pop()
        if x in clo or not x.startswith('theories/'):
            continue
        clo.add(x)
        todo.extend(deps.get(x, ()))
    if len(clo) <= 2:
        clo = set()
        for d, _, fs in os.walk(os.path.join(COQ, 'theories')):
            for f in fs:
                if f.endswith('.vo'):
                    clo.add(os.path.relpath(os.path.join(d, f), COQ))
    mods = sorted('SE.' + x[len('theories/'):-3].replace('/', '.') for x in clo if os.path.exists(os.path.join(COQ, x)))
    rejected, slow, axioms = [], [], set()
    def one(m):
        try:
            p = subprocess.run(['coqchk', '-silent', '-o', '-norec', m, '-Q', 'theories', 'SE'], cwd=COQ, capture_output=True, text=True, timeout=per_module_timeout)
            return m, p.returncode, p.stdout + p.stderr
        except subprocess.TimeoutExpired:
            return m, None, ''
    with concurrent.futures.ThreadPoolExecutor(max_workers=jobs) as ex:
        for m, rc, out in ex.map(one, mods):
            if rc is not None and rc != 0 and not out.strip():
                m, rc, out = one(m)       # killed without a verdict (memory pressure of the parallel run): once more, alone
            if rc is None:
                slow.append(m)
            elif rc != 0:
                rejected.append((m, out[-2000:]))
            else:
                blk = re.search(r'\* Axioms:(.*?)\n\s*\n\* ', out, re.S)
                if blk:
                    axioms.update(a.strip() for a in blk.group(1).split('\n') if a.strip() and a.strip() != '<none>')
    summary = ('coqchk -norec on %d modules (closure of props/%s.vo and Dispatch.vo): %d accepted, %d rejected, %d not finished within %d s; '
               'axioms in the loaded contexts: %s' % (len(mods), prop, len(mods) - len(rejected) - len(slow), len(rejected), len(slow), per_module_timeout, ', '.join(sorted(axioms)) or '<none>'))
    return summary, rejected


# ---------------------------------------------------------------- extraction / driver
def build_driver():
    with Lock('ocaml'):
        drv = os.path.join(OCAML, 'driver')
        newest = 0
        for d, _, fs in os.walk(os.path.join(COQ, 'theories')):
            for f in fs:
                if f.endswith('.v'):
                    newest = max(newest, os.path.getmtime(os.path.join(d, f)))
        newest = max(newest, os.path.getmtime(os.path.join(OCAML, 'driver.ml')))
        if os.path.exists(drv) and os.path.getmtime(drv) >= newest:
            return
        coq_build(['theories/Dispatch.vo'])
        rc, o, e = sh('./build.sh', cwd=OCAML, timeout=1200)
        if rc != 0 or not os.path.exists(drv):
            raise Broken('extraction / driver build failed', (o + e)[-3000:])


def run_model(cases_path, out_path, jobs=1):
    """Run the extracted model over a cases file."""
    drv = os.path.join(OCAML, 'driver')
    if jobs <= 1:
        with open(cases_path) as fin, open(out_path, 'w') as fout:
            p = subprocess.run(['sh', '-c', 'ulimit -s unlimited 2>/dev/null; exec "%s"' % drv], stdin=fin, stdout=fout, stderr=subprocess.PIPE, timeout=7200)
        if p.returncode != 0:
            raise Broken('model driver failed', p.stderr.decode()[-2000:])
        return
    lines = open(cases_path).read().split('\n')
    if lines and lines[-1] == '':
        lines.pop()
    n = len(lines)
    chunk = (n + jobs - 1) // jobs if n else 1
    procs = []
    for j in range(jobs):
        part = lines[j * chunk:(j + 1) * chunk]
        if not part:
            continue
        ip = '%s.part%d' % (cases_path, j)
        op = '%s.part%d' % (out_path, j)
        open(ip, 'w').write('\n'.join(part) + '\n')
        fin = open(ip); fout = open(op, 'w')
        procs.append((subprocess.Popen(['sh', '-c', 'ulimit -s unlimited 2>/dev/null; exec "%s"' % drv], stdin=fin, stdout=fout, stderr=subprocess.PIPE), ip, op, fin, fout))
    with open(out_path, 'w') as out:
        for p, ip, op, fin, fout in procs:
            _, err = p.communicate(timeout=7200)
            fin.close(); fout.close()
            if p.returncode != 0:
                raise Broken('model driver failed', err.decode()[-2000:])
            out.write(open(op).read())
            os.remove(ip); os.remove(op)


# ---------------------------------------------------------------- harness
CONFIGS = {   # name -> (cargo features, profile)
    'default': ([], 'release'),
    'checks': (['checks'], 'release'),
    'explanations': (['explanations'], 'release'),
    'checks+explanations': (['checks', 'explanations'], 'release'),
    'default-dev': ([], 'dev'),       # debug build: overflow checks and debug assertions on
}


def build_harness(config='default', profile=None):
    feats, profile = CONFIGS[config]
    tdir = os.path.join(HARNESS, 'target', config.replace('+', '_').replace('-dev', ''))
    with Lock('cargo-' + config.replace('+', '_')):
        lock = os.path.join(HARNESS, 'Cargo.lock')
        try:
            shutil.copyfile(os.path.join(REPO, 'Cargo.lock'), lock)
        except OSError:
            pass
        cmd = ['cargo', 'build', '--offline', '--target-dir', tdir]
        if profile == 'release':
            cmd.append('--release')
        if feats:
            cmd += ['--features', ','.join(feats)]
        env = {'RUSTFLAGS': '--cfg %s -Awarnings' % GUARD}
        rc, o, e = sh(cmd, cwd=HARNESS, timeout=3000, env=env)
        if rc != 0:
            raise Broken('harness build failed against the current /repo tree (%s)' % config, (o + e)[-4000:])
    return os.path.join(tdir, profile if profile != 'dev' else 'debug', 'verif-harness')


def harness(binpath, args, timeout=7200):
    rc, o, e = sh([binpath] + args, timeout=timeout)
    if rc != 0:
        raise Broken('harness run failed: ' + ' '.join(args), (o + e)[-3000:])
    return o


# ---------------------------------------------------------------- s-expressions (python side)
def sx_parse(s):
    pos = 0
    n = len(s)
    def item():
        nonlocal pos
        while pos < n and s[pos] in ' \t':
            pos += 1
        if s[pos] == '(':
            pos += 1
            v = []
            while True:
                while pos < n and s[pos] in ' \t':
                    pos += 1
                if s[pos] == ')':
                    pos += 1
                    return v
                v.append(item())
        st = pos
        while pos < n and s[pos] not in ' ()\t':
            pos += 1
        tok = s[st:pos]
        return int(tok) if tok.isdigit() else tok
    return item()


def sx_show(e):
    if isinstance(e, list):
        return '(' + ' '.join(sx_show(x) for x in e) + ')'
    return str(e)


def sx_coq(e):
    """Coq literal of an s-expression (for cases.v)."""
    if isinstance(e, list):
        return 'Lst [' + '; '.join(sx_coq(x) for x in e) + ']'
    if isinstance(e, int):
        return 'Num %d' % e
    return 'Sym "%s"' % e.replace('"', '""')


def canon_fresh(e, table=None):
    """rename (f k) by first occurrence"""
    if table is None:
        table = {}
    if isinstance(e, list):
        if len(e) == 2 and e[0] == 'f' and isinstance(e[1], int):
            if e[1] not in table:
                table[e[1]] = len(table)
            return ['f', table[e[1]]]
        return [canon_fresh(x, table) for x in e]
    return e


def canon_err(e):
    if isinstance(e, list):
        if len(e) == 2 and e[0] == 'err':
            return ['err']
        return [canon_err(x) for x in e]
    return e


# ---------------------------------------------------------------- in-Coq cross-check of the extracted model
def cases_v_crosscheck(prop, cases, model_obs, workdir, shards=4):
    """Evaluate the same cases inside Coq (vm_compute) and require the kernel's result to equal the
    extracted model's output.  Returns number of cases cross-checked."""
    if not cases:
        return 0
    per = (len(cases) + shards - 1) // shards
    procs = []
    for s in range(shards):
        part = list(zip(cases, model_obs))[s * per:(s + 1) * per]
        if not part:
            continue
        name = 'cases_%s_%d' % (prop, s)
        path = os.path.join(workdir, name + '.v')
        with open(path, 'w') as f:
            f.write('From SE Require Import Base.Prelude Dispatch.\n')
            for i, (c, o) in enumerate(part):
                # compare the PRINTED observation (Prelude.show), so that numerals printed as symbols compare as text
                f.write('Goal show (dispatch (%s)) = "%s"%%string. Proof. vm_compute. reflexivity. Qed.\n' % (sx_coq(sx_parse(c)), sx_show(sx_parse(o)).replace('"', '""')))
        procs.append((subprocess.Popen(['coqc', '-noglob', '-Q', os.path.join(COQ, 'theories'), 'SE', '-w', 'none', path],
                                       cwd=workdir, stdout=subprocess.PIPE, stderr=subprocess.PIPE), path, part))
    n = 0
    for p, path, part in procs:
        o, e = p.communicate(timeout=3000)
        if p.returncode != 0:
            raise Broken('extracted model and in-Coq evaluation (vm_compute) disagree, or cases.v failed: %s' % path, (o + e).decode()[-3000:])
        n += len(part)
    return n


# ---------------------------------------------------------------- known findings
def load_known():
    p = os.path.join(VERIF, 'known_findings.json')
    if not os.path.exists(p):
        return {'findings': [], 'fixed': []}
    return json.load(open(p))


# ---------------------------------------------------------------- evidence / reporting
def write_evidence(prop, tier, seed, level, coverage, wall, violations, assumptions):
    os.makedirs(os.path.join(VERIF, 'evidence'), exist_ok=True)
    ev = {'property_id': prop, 'tier': tier, 'seed': seed, 'level': level, 'coverage': coverage,
          'assumptions': assumptions, 'wall_s': round(wall, 2), 'violations': violations}
    with open(os.path.join(VERIF, 'evidence', prop + '.json'), 'w') as f:
        json.dump(ev, f, indent=1)


def write_replay(prop, payload):
    d = os.path.join(VERIF, 'replays')
    os.makedirs(d, exist_ok=True)
    h = hashlib.sha1(json.dumps(payload, sort_keys=True).encode()).hexdigest()[:10]
    p = os.path.join(d, '%s-%s.json' % (prop, h))
    with open(p, 'w') as f:
        json.dump(payload, f, indent=1)
    return p
