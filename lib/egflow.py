# lib/egflow.py — check flow for the e-graph properties: the implementation runs generated
# histories; Coq-verified checkers (bounded closure, explanation checker, ...) extracted to OCaml
# judge the implementation's own output.  Same protocol as lib/flow.py.
import os, sys, json, time, shutil, traceback
from . import core
from .core import Broken


class EgSpec:
    prop = None
    level = 'proof'
    coq_targets = []
    props_file = None
    trusted_base = []
    assumptions = []
    rule = ''
    streams = []          # list of dicts: {name, component, config, gen_extra, quick, thorough}

    def model_input(self, stream, case, impl_obs):
        """line handed to the extracted model/checker for this case (or None to skip)"""
        return case

    def evaluate(self, stream, case, impl_obs, model_obs, ctx):
        """-> list of (kind, key, reason, extra) with kind in 'violation' | 'differs' | 'note'"""
        return []

    def nontrivial(self, stream, case, impl_obs):
        return True

    def classify_known(self, stream, case, impl_obs, reason, known):
        return None

    def distribution(self, stream, cases, impl):
        return {}

    def shrinkable(self):
        return True

    def expand(self, stream, cases, seed):
        """optional: derive further cases from the generated ones (order / renaming variants)"""
        return cases


def run_stream(spec, ctx, stream, cases, tag):
    wd = os.path.join(ctx['workdir'], tag)
    os.makedirs(wd, exist_ok=True)
    inp = os.path.join(wd, 'in.txt')
    open(inp, 'w').write('\n'.join(cases) + '\n')
    core.harness(ctx['bins'][stream['config']], [stream['component'], 'run', inp, '--out', wd], timeout=(1200 if ctx.get('tier') == 'quick' else 14400))
    rd = lambda f: [l for l in open(os.path.join(wd, f)).read().split('\n') if l]
    cs, im = rd('cases.txt'), rd('impl.txt')
    if len(cs) != len(im):
        raise Broken('harness produced %d observations for %d cases' % (len(im), len(cs)))
    # implementation-only extras (panic locations, check() verdicts) for the specs that want them
    if os.path.exists(os.path.join(wd, 'extra.txt')):
        ex = rd('extra.txt')
        if len(ex) == len(cs):
            ctx.setdefault('extras', {}).update(dict(zip(cs, ex)))
    mi = []
    idx = []
    if stream.get('model_in_file'):
        # the harness itself wrote the lines for the verified checker (one per case)
        ex = rd(stream['model_in_file'])
        if len(ex) != len(cs):
            raise Broken('harness produced %d checker inputs for %d cases' % (len(ex), len(cs)))
        mi = ex; idx = list(range(len(cs)))
    else:
        for k, (c, i) in enumerate(zip(cs, im)):
            m = spec.model_input(stream, c, i)
            if m is not None:
                mi.append(m); idx.append(k)
    mo = [None] * len(cs)
    if mi:
        open(os.path.join(wd, 'model_in.txt'), 'w').write('\n'.join(mi) + '\n')
        core.run_model(os.path.join(wd, 'model_in.txt'), os.path.join(wd, 'model.txt'), jobs=12 if len(mi) > 24 else 1)
        out = rd('model.txt')
        if len(out) != len(mi):
            raise Broken('model produced %d lines for %d inputs' % (len(out), len(mi)))
        for k, o in zip(idx, out):
            mo[k] = o
    return cs, im, mo, mi


def drop_ops_shrink(case, still_fails, budget=60):
    """remove trailing / individual ops of an (eg.. cfg (terms..) (ops ..) motif) case while it still fails"""
    cur = core.sx_parse(case)
    try:
        ops_i = [k for k, e in enumerate(cur) if isinstance(e, list) and e and e[0] == 'ops'][0]
    except IndexError:
        return case
    ops = cur[ops_i][1:]
    def build(ops_):
        c = list(cur); c[ops_i] = ['ops'] + ops_; return core.sx_show(c)
    # renumbering handles after removing an add is delicate: only remove unions, and trailing ops
    changed = True
    while changed and budget > 0:
        changed = False
        while len(ops) > 1 and budget > 0:
            budget -= 1
            cand = ops[:-1]
            if still_fails(build(cand)):
                ops = cand; changed = True
            else:
                break
        for k in range(len(ops) - 1, -1, -1):
            if budget <= 0:
                break
            if ops[k][0] == 'union':
                budget -= 1
                cand = ops[:k] + ops[k + 1:]
                if still_fails(build(cand)):
                    ops = cand; changed = True
    return build(ops)


def main(spec, argv):
    tier = os.environ.get('VERIF_TIER', 'quick')
    replay = None
    i = 0
    while i < len(argv):
        if argv[i] == '--tier':
            tier = argv[i + 1]; i += 2
        elif argv[i] == '--replay':
            replay = argv[i + 1]; i += 2
        else:
            i += 1
    seed = int(os.environ.get('VERIF_SEED', '1'))
    os.environ.setdefault('VERIF_MODEL_TIMEOUT', '25' if tier == 'quick' else '40')   # per-case limit of the extracted model / checker
    prop = spec.prop
    t0 = time.time()
    workdir = os.path.join(core.RUN, prop)
    shutil.rmtree(workdir, ignore_errors=True)
    os.makedirs(workdir, exist_ok=True)
    ctx = {'workdir': workdir, 'bins': {}, 'tier': tier, 'seed': seed}
    violations, known_lines, samples, notes = [], [], [], []
    evaluations = 0
    nontrivial = set()
    obligations = discharged = 0
    crosschecked = 0
    dist = {}
    counters = {}
    try:
        core.coq_build(spec.coq_targets, clean=(tier == 'thorough'), log=os.path.join(workdir, 'coq.log'))
        bad = core.coq_audit_sources()
        if bad:
            raise Broken('forbidden construct in the Coq development: ' + '; '.join(bad[:5]))
        obligations, discharged, notes = core.audit_props(prop, spec.props_file)
        if discharged != obligations:
            raise Broken('proof audit failed: ' + '; '.join(notes))
        core.check_pins(prop)
        if tier == 'thorough':
            summary, rejected = core.coqchk_closure(prop)
            ctx['coqchk'] = summary
            if rejected:
                raise Broken('coqchk rejects %s (dependency closure of props/%s.vo)' % (', '.join(m for m, _ in rejected[:5]), prop), rejected[0][1])
        core.build_driver()
        for st in spec.streams:
            if st['config'] not in ctx['bins']:
                ctx['bins'][st['config']] = core.build_harness(st['config'])
        known = core.load_known()

        if replay:
            rp = json.load(open(replay))
            st = [s for s in spec.streams if s['name'] == rp.get('stream')] or spec.streams[:1]
            cs, im, mo, mi = run_stream(spec, ctx, st[0], [rp['case']], 'replay')
            print('case : ' + cs[0][:3000]); print('impl : ' + im[0][:3000]); print('model: ' + str(mo[0])[:3000])
            ev = spec.evaluate(st[0], cs[0], im[0], mo[0], ctx)
            for e in ev:
                print('verdict: %s %s' % (e[0], e[2]))
            return 1 if any(e[0] == 'violation' for e in ev) else 0

        for st in spec.streams:
            tag = st['name']
            cdir = os.path.join(workdir, tag)
            os.makedirs(cdir, exist_ok=True)
            corpus = []
            cpath = os.path.join(core.VERIF, 'corpus', prop)
            if os.path.isdir(cpath):
                for f in sorted(os.listdir(cpath)):
                    if f.endswith('.' + st['component']) or (f.endswith('.txt') and st.get('corpus', True)):
                        corpus += [l for l in open(os.path.join(cpath, f)).read().split('\n') if l.strip() and not l.startswith('#')]
            n = st['quick'] if tier == 'quick' else st['thorough']
            core.harness(ctx['bins'][st['config']], [st['component'], 'gen', '--seed', str(seed), '--count', str(n), '--out', cdir] + st.get('gen_extra', []), timeout=1200)
            gen = [l for l in open(os.path.join(cdir, 'cases.txt')).read().split('\n') if l]
            gen = spec.expand(st, gen, seed)
            cases, impl, model, mi = run_stream(spec, ctx, st, corpus + gen, tag + '_main')
            evaluations += sum(1 for i_ in impl if i_.strip() != '(obs (res timeout))')
            # cross-check the extracted checker against the kernel's own evaluation on a few inputs
            k = 6 if tier == 'quick' else 40
            pairs = sorted([(a, b) for a, b in zip(mi, [m for m in model if m is not None]) if b.strip() != '(model-timeout)'], key=lambda p: len(p[0]))[:k]
            if pairs:
                crosschecked += core.cases_v_crosscheck(prop + '_' + tag, [p[0] for p in pairs], [p[1] for p in pairs], cdir, shards=min(6, len(pairs)))
            seen_keys = set()
            n_timeout = sum(1 for i_ in impl if i_.strip() == '(obs (res timeout))')
            if n_timeout:
                counters['note:case-exceeded-time-limit-skipped'] = counters.get('note:case-exceeded-time-limit-skipped', 0) + n_timeout
                if n_timeout * 10 > len(impl):
                    raise Broken('stream %s: %d of %d cases exceeded the per-case time limit (the implementation has become much slower or hangs)' % (tag, n_timeout, len(impl)))
            n_mt = sum(1 for m_ in model if m_ is not None and m_.strip() == '(model-timeout)')
            if n_mt:
                counters['note:model-exceeded-time-limit-impl-predicates-only'] = counters.get('note:model-exceeded-time-limit-impl-predicates-only', 0) + n_mt
                if n_mt * 10 > len(model):
                    raise Broken('stream %s: the model exceeded its per-case time limit on %d of %d cases' % (tag, n_mt, len(model)))
            for c, i_, m_ in zip(cases, impl, model):
                if i_.strip() == '(obs (res timeout))':
                    continue      # skipped, counted above; never counted as explored
                if m_ is not None and m_.strip() == '(model-timeout)':
                    m_ = None     # judged by the implementation-side predicates only
                if spec.nontrivial(st, c, i_):
                    nontrivial.add(c)
                    if len(samples) < 3:
                        samples.append({'stream': tag, 'case': c[:1500], 'impl': i_[:800], 'checker': (m_ or '')[:400]})
                for (kind, key, reason, extra) in spec.evaluate(st, c, i_, m_, ctx):
                    counters[kind + ':' + key] = counters.get(kind + ':' + key, 0) + 1
                    if kind == 'note' or key in seen_keys or len(seen_keys) > 12:
                        continue
                    # a listed finding is recognised on the unshrunk case already; it must not consume the key, or a
                    # different violation with the same key (another analysis, another call site) would be hidden
                    kf0 = spec.classify_known(st, c, i_, reason, known)
                    if kf0 is not None:
                        line = 'KNOWN-FINDING: property=%s %s' % (prop, kf0['what'])
                        if line not in known_lines:
                            known_lines.append(line)
                        continue
                    seen_keys.add(key)
                    small = c
                    if spec.shrinkable():
                        def still(cand, st=st, key=key):
                            try:
                                cs2, im2, mo2, _ = run_stream(spec, ctx, st, [cand], 'shrink')
                                return any(e[1] == key and e[0] == kind for e in spec.evaluate(st, cs2[0], im2[0], mo2[0], ctx))
                            except Exception:
                                return False
                        small = drop_ops_shrink(c, still)
                        cs2, im2, mo2, _ = run_stream(spec, ctx, st, [small], 'shrunk')
                        ev2 = [e for e in spec.evaluate(st, cs2[0], im2[0], mo2[0], ctx) if e[1] == key and e[0] == kind]
                        if ev2:
                            small, i_s, m_s, reason, extra = cs2[0], im2[0], mo2[0], ev2[0][2], ev2[0][3]
                        else:
                            small, i_s, m_s = c, i_, m_
                    else:
                        i_s, m_s = i_, m_
                    kf = spec.classify_known(st, small, i_s, reason, known)
                    if kf is not None:
                        line = 'KNOWN-FINDING: property=%s %s' % (prop, kf['what'])
                        if line not in known_lines:
                            known_lines.append(line)
                        continue
                    payload = {'property': prop, 'stream': tag, 'config': st['config'], 'seed': seed, 'case': small, 'original_case': c,
                               'impl': i_s, 'checker': m_s, 'verdict': kind, 'reason': reason, 'detail': extra}
                    if kind == 'violation':
                        violations.append((core.write_replay(prop, payload), ''))
                    else:
                        payload['no_longer_checks'] = 'correspondence stream %s/%s: %s' % (prop, tag, reason)
                        violations.append((core.write_replay(prop, payload), ' no-failing-input-found'))
            d = spec.distribution(st, cases, impl)
            for k_, v in d.items():
                dist[k_] = dist.get(k_, 0) + v
    except Broken as b:
        payload = {'property': prop, 'seed': seed, 'verdict': 'machinery-or-proof-broken', 'no_longer_checks': b.what, 'detail': b.detail}
        violations.append((core.write_replay(prop, payload), ' no-failing-input-found'))
    except Exception as ex:
        payload = {'property': prop, 'seed': seed, 'verdict': 'check-crashed',
                   'no_longer_checks': 'bin/check itself raised ' + repr(ex), 'detail': traceback.format_exc()[-3000:]}
        violations.append((core.write_replay(prop, payload), ' no-failing-input-found'))

    coverage = {
        'obligations': obligations, 'discharged': discharged,
        'checker_cmd': 'make -C coq %s && coqc (Print Assumptions) theories/props/%s.v%s' % (' '.join(spec.coq_targets), prop, ' && coqchk -o' if tier == 'thorough' else ''),
        'trusted_base': spec.trusted_base,
        'evaluations': evaluations, 'distinct_nontrivial': len(nontrivial), 'rule': spec.rule,
        'samples': samples if samples else [{'note': 'no case explored (check broke before the correspondence ran)'}],
        'crosschecked_in_coq': crosschecked, 'streams': [s['name'] + ':' + s['config'] for s in spec.streams],
        'distribution': dist, 'verdict_counters': counters, 'audit_notes': notes,
        'theorems': core.theorems_of(spec.props_file) if spec.props_file else [],
    }
    if 'coqchk' in ctx:
        coverage['coqchk'] = ctx['coqchk']
    core.write_evidence(prop, tier, seed, spec.level, coverage, time.time() - t0, len(violations), spec.assumptions)
    for l in known_lines:
        print(l)
    for (p, suffix) in violations:
        print('VIOLATION property=%s replay=%s%s' % (prop, p, suffix))
    if not violations:
        print('OK property=%s tier=%s cases=%d nontrivial=%d theorems=%d/%d wall=%.1fs' % (prop, tier, evaluations, len(nontrivial), discharged, obligations, time.time() - t0))
    return 1 if violations else 0
