# lib/flow.py — the generic check flow (DESIGN.md section 7):
# build -> audit -> correspondence -> classify -> evidence.
import os, sys, json, time, shutil, traceback
from . import core
from .core import Broken


class Spec:
    """Per-property description.  Subclasses override the hooks."""
    prop = None
    level = 'proof'
    coq_targets = []            # .vo files the property needs
    props_file = None           # theories/props/Cxx.v
    component = None            # harness sub-command
    configs = ['default']       # harness feature configurations
    profile = 'release'
    trusted_base = []
    assumptions = []
    rule = ''
    quick_count = 500
    thorough_count = 20000
    crosscheck_quick = 40
    crosscheck_thorough = 400
    model_jobs = 8
    header_len = 2             # leading elements of a case that the shrinker must keep

    def gen_args(self, tier, seed, config):
        n = self.quick_count if tier == 'quick' else self.thorough_count
        return ['--seed', str(seed), '--count', str(n)]

    def canon(self, obs):
        """canonicalise an observation (parsed s-expression) before diffing"""
        return core.canon_fresh(obs)

    def nontrivial(self, case, obs):
        return True

    def judge(self, case, impl_obs, model_obs, ctx):
        """A disagreement between implementation and model on `case`.  Return
        ('violation', reason) when the property itself fails on the implementation for this case,
        ('differs', reason) when only the correspondence broke."""
        return ('violation', 'implementation and proved model disagree on this input')

    def classify_known(self, case, impl_obs, model_obs, known):
        """return the matching known-finding entry or None"""
        return None

    def extra_checks(self, ctx):
        """additional property-specific validation over all observations; returns list of
        (case, impl_obs, reason) violations"""
        return []

    def distribution(self, cases, obs):
        return {}


def shrink_case(spec, ctx, config, case, still_fails):
    """greedy removal of top-level elements after the 2-element header"""
    cur = core.sx_parse(case)
    if not isinstance(cur, list) or len(cur) <= 3:
        return case
    changed = True
    budget = 200
    while changed and budget > 0:
        changed = False
        i = len(cur) - 1
        while i >= spec.header_len and budget > 0:
            cand = cur[:i] + cur[i + 1:]
            if len(cand) > 2 and isinstance(cur[i], list) and cur[i] and cur[i][0] != 't':
                budget -= 1
                if still_fails(core.sx_show(cand)):
                    cur = cand
                    changed = True
            i -= 1
    return core.sx_show(cur)


def run_pair(spec, ctx, config, cases, tag):
    """run implementation and model on the given case lines; returns (cases_norm, impl_obs, model_obs)"""
    wd = os.path.join(ctx['workdir'], tag)
    os.makedirs(wd, exist_ok=True)
    inp = os.path.join(wd, 'in.txt')
    open(inp, 'w').write('\n'.join(cases) + '\n')
    core.harness(ctx['bins'][config], [spec.component, 'run', inp, '--out', wd])
    core.run_model(os.path.join(wd, 'cases.txt'), os.path.join(wd, 'model.txt'), jobs=1 if len(cases) < 2000 else spec.model_jobs)
    rd = lambda f: [l for l in open(os.path.join(wd, f)).read().split('\n') if l]
    return rd('cases.txt'), rd('impl.txt'), rd('model.txt')


def main(spec, argv):
    tier = os.environ.get('VERIF_TIER', 'quick')
    replay = None
    i = 0
    while i < len(argv):
        if argv[i] == '--tier':
            tier = argv[i + 1]; i += 2
        elif argv[i] == '--replay':
            replay = argv[i + 1]; i += 2
        else:
            i += 1
    seed = int(os.environ.get('VERIF_SEED', '1'))
    os.environ.setdefault('VERIF_MODEL_TIMEOUT', '25' if tier == 'quick' else '40')   # per-case limit of the extracted model / checker
    prop = spec.prop
    t0 = time.time()
    workdir = os.path.join(core.RUN, prop)
    shutil.rmtree(workdir, ignore_errors=True)
    os.makedirs(workdir, exist_ok=True)
    ctx = {'workdir': workdir, 'bins': {}, 'tier': tier, 'seed': seed}
    violations = []      # (replay_path, suffix)
    known_lines = []
    coverage = {}
    evaluations = 0
    nontrivial = set()
    samples = []
    obligations = discharged = 0
    notes = []
    crosschecked = 0
    disagreements = 0
    dist = {}
    try:
        # 1. build + audit the proofs
        core.coq_build(spec.coq_targets, clean=(tier == 'thorough'), log=os.path.join(workdir, 'coq.log'))
        bad = core.coq_audit_sources()
        if bad:
            raise Broken('forbidden construct in the Coq development: ' + '; '.join(bad[:5]))
        obligations, discharged, notes = core.audit_props(prop, spec.props_file)
        if discharged != obligations:
            raise Broken('proof audit failed: ' + '; '.join(notes))
        core.check_pins(prop)
        if tier == 'thorough':
            summary, rejected = core.coqchk_closure(prop)
            ctx['coqchk'] = summary
            if rejected:
                raise Broken('coqchk rejects %s (dependency closure of props/%s.vo)' % (', '.join(m for m, _ in rejected[:5]), prop), rejected[0][1])
        # 2. executable model
        core.build_driver()
        # 3. implementation from the current tree
        for c in spec.configs:
            ctx['bins'][c] = core.build_harness(c)

        if replay:
            rp = json.load(open(replay))
            cfg = rp.get('config', spec.configs[0])
            cs, io, mo = run_pair(spec, ctx, cfg, [rp['case']], 'replay')
            print('case : ' + cs[0]); print('impl : ' + io[0]); print('model: ' + mo[0])
            same = spec.canon(core.sx_parse(io[0])) == spec.canon(core.sx_parse(mo[0]))
            print('agree: %s' % same)
            return 0 if same else 1

        known = core.load_known()
        for config in spec.configs:
            cdir = os.path.join(workdir, config.replace('+', '_'))
            os.makedirs(cdir, exist_ok=True)
            # corpus first
            corpus = []
            cpath = os.path.join(core.VERIF, 'corpus', prop)
            if os.path.isdir(cpath):
                for f in sorted(os.listdir(cpath)):
                    corpus += [l for l in open(os.path.join(cpath, f)).read().split('\n') if l.strip() and not l.startswith('#')]
            core.harness(ctx['bins'][config], [spec.component, 'gen', '--out', cdir] + spec.gen_args(tier, seed, config))
            gen = [l for l in open(os.path.join(cdir, 'cases.txt')).read().split('\n') if l]
            cases, impl, model = run_pair(spec, ctx, config, corpus + gen, config.replace('+', '_') + '_main')
            if not (len(cases) == len(impl) == len(model)):
                raise Broken('correspondence streams have different lengths (%d cases, %d impl, %d model)' % (len(cases), len(impl), len(model)))
            evaluations += len(cases)
            mism = []
            for c, i_, m_ in zip(cases, impl, model):
                pi = core.sx_parse(i_); pm = core.sx_parse(m_)
                if m_.strip() == '(model-timeout)':
                    dist['model-timeouts'] = dist.get('model-timeouts', 0) + 1
                    continue
                if spec.canon(pi) != spec.canon(pm):
                    mism.append((c, i_, m_))
                if spec.nontrivial(core.sx_parse(c), pi):
                    nontrivial.add(c)
                    if len(samples) < 3:
                        samples.append({'config': config, 'case': c, 'impl': i_, 'model': m_})
            d = spec.distribution(cases, impl)
            for k, v in d.items():
                dist[k] = dist.get(k, 0) + v
            ctx[config] = (cases, impl, model)
            # cross-check extraction against the kernel's own evaluation
            k = spec.crosscheck_quick if tier == 'quick' else spec.crosscheck_thorough
            small = [j for j in range(len(cases)) if len(cases[j]) + len(model[j]) < 6000]   # keep the literals small enough for coqc
            step = max(1, len(small) // k)
            idx = small[::step][:k]
            crosschecked += core.cases_v_crosscheck(prop, [cases[j] for j in idx], [model[j] for j in idx], cdir)
            disagreements += len(mism)
            # classify
            seen = set()
            for (c, i_, m_) in mism[:25]:
                def still(cand, config=config):
                    try:
                        cs, io, mo = run_pair(spec, ctx, config, [cand], 'shrink')
                        return spec.canon(core.sx_parse(io[0])) != spec.canon(core.sx_parse(mo[0]))
                    except Exception:
                        return False
                small = shrink_case(spec, ctx, config, c, still)
                cs, io, mo = run_pair(spec, ctx, config, [small], 'shrunk')
                small, i2, m2 = cs[0], io[0], mo[0]
                if small in seen:
                    continue
                seen.add(small)
                kf = spec.classify_known(small, i2, m2, known)
                if kf is not None:
                    line = 'KNOWN-FINDING: property=%s %s' % (prop, kf['what'])
                    if line not in known_lines:
                        known_lines.append(line)
                    continue
                verdict, reason = spec.judge(small, i2, m2, ctx)
                payload = {'property': prop, 'config': config, 'seed': seed, 'case': small, 'original_case': c,
                           'impl': i2, 'model': m2, 'verdict': verdict, 'reason': reason}
                if verdict == 'violation':
                    violations.append((core.write_replay(prop, payload), ''))
                else:
                    payload['no_longer_checks'] = 'correspondence stream %s/%s (model and implementation differ, property predicate holds on the implementation for this case)' % (prop, spec.component)
                    violations.append((core.write_replay(prop, payload), ' no-failing-input-found'))
            # property-specific validation of the implementation's own output
            for (c, i_, reason) in spec.extra_checks(dict(ctx, config=config))[:25]:
                kf = spec.classify_known(c, i_, None, known)
                if kf is not None:
                    line = 'KNOWN-FINDING: property=%s %s' % (prop, kf['what'])
                    if line not in known_lines:
                        known_lines.append(line)
                    continue
                payload = {'property': prop, 'config': config, 'seed': seed, 'case': c, 'impl': i_, 'verdict': 'violation', 'reason': reason}
                violations.append((core.write_replay(prop, payload), ''))
    except Broken as b:
        payload = {'property': prop, 'seed': seed, 'verdict': 'machinery-or-proof-broken',
                   'no_longer_checks': b.what, 'detail': b.detail}
        violations.append((core.write_replay(prop, payload), ' no-failing-input-found'))
    except Exception as ex:
        payload = {'property': prop, 'seed': seed, 'verdict': 'check-crashed',
                   'no_longer_checks': 'bin/check itself raised ' + repr(ex), 'detail': traceback.format_exc()[-3000:]}
        violations.append((core.write_replay(prop, payload), ' no-failing-input-found'))

    coverage = {
        'obligations': obligations, 'discharged': discharged,
        'checker_cmd': 'make -C coq %s && coqc (Print Assumptions) theories/props/%s.v%s' % (' '.join(spec.coq_targets), prop, ' && coqchk -o' if tier == 'thorough' else ''),
        'trusted_base': spec.trusted_base,
        'evaluations': evaluations, 'distinct_nontrivial': len(nontrivial), 'rule': spec.rule,
        'samples': samples if samples else [{'note': 'no case explored (check broke before the correspondence ran)'}],
        'crosschecked_in_coq': crosscheck_note(crosschecked), 'disagreements': disagreements,
        'configs': spec.configs, 'distribution': dist, 'audit_notes': notes,
        'theorems': core.theorems_of(spec.props_file) if spec.props_file else [],
    }
    if 'coqchk' in ctx:
        coverage['coqchk'] = ctx['coqchk']
    core.write_evidence(prop, tier, seed, spec.level, coverage, time.time() - t0, len(violations), spec.assumptions)
    for l in known_lines:
        print(l)
    for (p, suffix) in violations:
        print('VIOLATION property=%s replay=%s%s' % (prop, p, suffix))
    if not violations:
        print('OK property=%s tier=%s cases=%d nontrivial=%d theorems=%d/%d wall=%.1fs' % (prop, tier, evaluations, len(nontrivial), discharged, obligations, time.time() - t0))
    return 1 if violations else 0


def crosscheck_note(n):
    return n
