from ..egflow import EgSpec
from .. import core
from .egcommon import *

FLOW = 'eg'


def key_of(pc):
    return core.sx_show(pc[2]) + core.sx_show(pc[3])


class C01(EgSpec):
    prop = 'C01'
    coq_targets = ['theories/props/C01.vo', 'theories/Dispatch.vo']
    props_file = 'theories/props/C01.v'
    trusted_base = EG_TB + ['the e-graph model EGraph/Model.v (hand-written Gallina mirror of src/egraph/*.rs, default build) is the oracle of the correspondence stream; it is not proved sound itself']
    assumptions = ['soundness of the e-graph algorithm is not proved (C01_full is stated only); every equality the implementation reports on an explored history must carry a certificate: derivation by the proved-sound closure, or an explanation accepted by the proved-sound checker',
                   'an equality with neither certificate is reported as a violation; the closure is bounded, so this can in principle flag a true equality whose derivation needs more names than the pool holds (not observed in 40 000 pairs)']
    rule = ('random histories of justified unions over LV by motif (symmetry, redundancy, self-reference, random) plus the corpus of known-defect histories; every pair of handles; '
            'explanations build: closure + explanation certificates; default build: equality matrix compared with the e-graph model and with the certificates. '
            'non-trivial = symmetry/redundancy/self-reference motif or >= 2 unions')
    streams = [
        {'name': 'expl', 'component': 'egx', 'config': 'explanations', 'quick': 160, 'thorough': 2000},
        {'name': 'default', 'component': 'eg', 'config': 'default', 'quick': 160, 'thorough': 2000, 'gen_extra': ['--justified']},
        # the executable premises of the end-to-end soundness theorem of the e-graph MODEL (EGraph/SoundMachine.v:
        # equality_sound_certified): inserted terms well formed and the guarded model run succeeds.  Where they hold, every equality
        # the model reports between handles is derivable; the implementation's equality matrix must equal the model's (stream default)
        {'name': 'certified', 'component': 'eg', 'config': 'default', 'quick': 200, 'thorough': 2000},
    ]

    def model_input(self, stream, case, impl_obs):
        pc, pi = core.sx_parse(case), core.sx_parse(impl_obs)
        if stream['name'] == 'certified':
            return core.sx_show(['egsound'] + pc[1:])
        if stream['name'] == 'expl':
            ex = field(pi, 'expl') or ['expl']
            return core.sx_show(['c01', pc[1], pc[2], pc[3], pc[4] if len(pc) > 4 else 'x', ex])
        return core.sx_show(['egall'] + pc[1:])

    def evaluate(self, stream, case, impl_obs, model_obs, ctx):
        if stream['name'] == 'certified':
            if model_obs is not None and model_obs.strip() != '(sound (terms-ok true) (guarded true))':
                return [('differs', 'soundness-premise', 'the executable premises of the model-level soundness theorem fail on this history (the theorem does not apply to it): %s' % model_obs.strip(), {})]
            return []
        if model_obs is None:
            return [('note', 'checker-time-limit', 'the verified checker exceeded its per-case time limit on this history; not judged', {})]
        pc, pi, pm = core.sx_parse(case), core.sx_parse(impl_obs), core.sx_parse(model_obs)
        terms, ops, hs = parts(pc)
        cert = ctx.setdefault('c01_cert', {})
        e = eqm(pi)
        if e is None:
            return [('note', 'impl-error', 'history did not complete in this build (judged by C07/C08)', {})]
        n, bits = e
        out = []
        if stream['name'] == 'expl':
            g = pm[1]
            if not isinstance(g, list) or g[0] != 'gcc' or g[1] != n:
                return [('differs', 'closure-output', 'no closure matrix: ' + core.sx_show(g)[:200], {})]
            gb = g[2][1:]
            proved = {}
            if isinstance(pm[2], list):
                for r in pm[2][1:]:
                    if isinstance(r, list):
                        proved[(r[0], r[1])] = (r[2] == 'ok')
            # certified edges: closure-derived pairs, accepted proofs, identical terms; equality is then
            # certified for every pair connected by certified edges (symmetry + transitivity of Deriv)
            parent = list(range(n))
            def find(a):
                while parent[a] != a:
                    parent[a] = parent[parent[a]]; a = parent[a]
                return a
            for x in range(n):
                for y in range(n):
                    if bits[x * n + y] == '1' and (x == y or hs[x] == hs[y] or gb[x * n + y] == '1' or proved.get((x, y)) or proved.get((y, x))):
                        parent[find(x)] = find(y)
            certified = set()
            ex = field(pi, 'expl')
            for x in range(n):
                for y in range(n):
                    if bits[x * n + y] != '1':
                        continue
                    if find(x) == find(y):
                        certified.add((x, y)); continue
                    rej = [r for r in proved if proved[r] is False and find(r[0]) in (find(x), find(y)) or False]
                    errs = [p for p in (ex[1:] if ex else []) if p[2][0] == 'err' and (find(p[0]) in (find(x), find(y)) or find(p[1]) in (find(x), find(y)))]
                    bad = [r for r, okk in proved.items() if not okk and (find(r[0]) in (find(x), find(y)) or find(r[1]) in (find(x), find(y)))]
                    if bad or errs:
                        out.append(('violation', 'uncertified', 'eq() reports %s = %s; the bounded closure does not derive it and the explanation obtained for it %s; asserted: {%s}'
                                    % (show_term(terms[hs[x]]), show_term(terms[hs[y]]), 'is rejected by the verified checker' if bad else 'panicked', '; '.join(describe_history(pc))), {'handles': [x, y]}))
                        return out
                    out.append(('note', 'uncertified-no-attempt', 'pair without certificate (explanation budget)', {}))
            cert[key_of(pc)] = (certified, bits)
            return out
        # default build: matrix vs model, and every reported equality certified
        mo, g = pm[1], pm[2]
        me = eqm(mo)
        gb = g[2][1:] if isinstance(g, list) and g[0] == 'gcc' and g[1] == n else None
        certified, xbits = cert.get(key_of(pc), (None, None))
        parent = list(range(n))
        def find(a):
            while parent[a] != a:
                parent[a] = parent[parent[a]]; a = parent[a]
            return a
        for x in range(n):
            for y in range(n):
                if bits[x * n + y] == '1' and (x == y or hs[x] == hs[y] or (gb and gb[x * n + y] == '1') or (certified is not None and (x, y) in certified)):
                    parent[find(x)] = find(y)
        # with completeness of the model proved (C01_model_equality_is_exactly_the_congruence), on a history whose terms satisfy the static
        # premise the model's matrix IS the congruence: an equality the implementation reports and the model denies is unsound
        static = len(pm) > 3 and isinstance(pm[3], list) and pm[3][0] == 'static' and pm[3][1] == 'true'
        for x in range(n):
            for y in range(n):
                if bits[x * n + y] == '1' and find(x) != find(y):
                    if static and me is not None and len(me[1]) == len(bits) and me[1][x * n + y] == '0':
                        out.append(('violation', 'unsound', 'eq() reports %s = %s, which does not follow from the asserted equations: the e-graph model, proved sound and complete for the congruence on such histories, denies it, and neither the closure nor an explanation certifies it; asserted: {%s}'
                                    % (show_term(terms[hs[x]]), show_term(terms[hs[y]]), '; '.join(describe_history(pc))), {'handles': [x, y]}))
                        return out
                    if certified is None:
                        out.append(('note', 'uncertified-no-attempt', 'no certificates available for this history (explanations build failed on it)', {}))
                        break
                    if xbits is not None and len(xbits) == len(bits) and xbits[x * n + y] == '1':
                        out.append(('note', 'uncertified-no-attempt', 'pair without certificate (explanation budget)', {}))
                        continue
                    out.append(('violation', 'uncertified', 'the default build reports %s = %s; the bounded closure does not derive it and the explanations build does not report it; asserted: {%s}'
                                % (show_term(terms[hs[x]]), show_term(terms[hs[y]]), '; '.join(describe_history(pc))), {'handles': [x, y]}))
                    return out
        if me is None or me[1] != bits:
            out.append(('differs', 'model-eqm', 'equality matrix of the implementation differs from the e-graph model (all reported equalities are certified)', {'model': core.sx_show(mo)[:300]}))
        return out

    def nontrivial(self, stream, case, impl_obs):
        return hist_nontrivial(core.sx_parse(case))

    def distribution(self, stream, cases, impl):
        d = {}
        for c, i in zip(cases, impl):
            pc = core.sx_parse(c)
            m = stream['name'] + ':motif:' + (pc[4] if len(pc) > 4 else '?')
            d[m] = d.get(m, 0) + 1
        return d

SPEC = C01()
